"""C03, statement level in Coq: conversion of generator statements (lib/c03gen.py dicts) into terms of the reference
statement grammar Spec/RefStmt.v (`mstmt`), with the parenthesisation choices actually used by the renderer, so that
  * Spec.RefStmt.render_stmt / ast_of_stmt are cross-checked against the Python renderer / prescriber (tie c), and
  * the Gallina model of parseStatement (Model/StmtParse.v) is run against the real parseStatement on the same token
    lists (tie a): rendered reference statements, statements of the wider generator surface, corrupted token lists.
"""
import c03gen as G

CL = dict(items=0, on=1, where=2, group=3, having=4, order=5, values=6, set=7, returning=8, don=9, cset=10, cwhere=11,
          mon=12, mcond=13, mset=14, mvals=15)
LOCKS = {"UPDATE": "LkUpdate", "NO KEY UPDATE": "LkNoKeyUpdate", "SHARE": "LkShare", "KEY SHARE": "LkKeyShare"}
WAITS = {"": "WtNone", "NOWAIT": "WtNowait", "SKIP LOCKED": "WtSkipLocked"}
KINDS = {"MATCHED": "KMatched", "NOT_MATCHED": "KNotMatched", "NOT_MATCHED_BY_SOURCE": "KNotMatchedBySource"}


class CoreStmtGen(G.StmtGen):
    """statements inside the surface of Spec/RefStmt.v (core expressions only, no derived tables, ...)"""
    def expr(self, budget=6, allow_sub=True, depth=0):
        return G.rand_expr(self.r, budget)

    def tableref(self, depth, allow_sub=True):
        return super().tableref(depth, allow_sub=False)

    def select(self, depth=0, simple=False, scalar=False):
        s = super().select(depth, simple, scalar)
        s["all_kw"], s["offset_rows"] = False, False
        s["cols"] = [((e, None, False) if e[0] == "qstar" else (e, al, askw)) for e, al, askw in s["cols"]]
        gb = []
        for g in s["group_by"]:
            if g[0] == "sets":
                # a set written without parentheses is a column reference (gset_ok); a one-column set is written either way
                sets = []
                for st in g[1]:
                    if isinstance(st, tuple):
                        if st[1][0] not in ("ident", "qident"): st = [st[1]]
                    elif len(st) == 1 and st[0][0] in ("ident", "qident") and self.r.random() < 0.5:
                        st = ("bare", st[0])
                    sets.append(st)
                g = ("sets", sets)
            gb.append(g)
        s["group_by"] = gb
        if depth == 0 and not simple and not scalar and s["for_"] is None and self.r.random() < 0.1:
            s["for_"] = dict(lock=self.r.choice(list(LOCKS)), tables=[self.r.choice(G.TABS) for _ in range(self.r.randrange(0, 3))],
                             wait=self.r.choice(list(WAITS)))
        return s

    def returning(self):
        r = super().returning()
        return [] if r and r[0][0] == "star" else r

    def insert(self):
        s = super().insert()
        c = s["conflict"]
        if c:
            if c["nothing"]: c["updates"], c["where"] = [], None
        return s

    def statement(self):
        k = self.r.random()
        if k < 0.55: return self.query()
        if k < 0.68: return self.insert()
        if k < 0.79: return self.update()
        if k < 0.88: return self.delete()
        return self.merge()          # G.StmtGen.merge: core expressions, documented kind x action pairs only


class LoggingRenderer(G.StmtRenderer):
    """records the parenthesisation choice of every expression in rendering order"""
    def __init__(self, rng, paren_p=0.1):
        super().__init__(rng, paren_p)
        self.log = []

    def E(self, e, lv=0):
        rho = G.rand_rho(self.r, e, self.paren_p) if self.paren_p else {}
        self.log.append((e, rho))
        return [t[2] for t in G.Renderer(rho, stmt_renderer=self.S).render(lv, e)]


class Unsupported(Exception):
    pass


def need(c):
    if not c: raise Unsupported()


class Conv:
    """dict statement -> Coq `mstmt` term + the list of ((clause, index), expr) in the order the renderer visits them"""
    def __init__(self):
        self.keys = []           # (clause key, index, expr) in rendering order

    def E(self, e, clause, idx):
        need(G.is_core(e))
        self.keys.append((clause, idx, e))
        return G.coq_mexpr(e)

    def alias(self, al, askw):
        return "None" if not al else "(Some (%s, %s))" % (G.coq_bool(askw), G.coq_str(al))

    def path(self, name):
        return "[%s]" % "; ".join(G.coq_str(p) for p in name.split("."))

    def table(self, t):
        need(t["sub"] is None and not t.get("lateral"))
        return "(MkTable %s %s)" % (self.path(t["name"]), self.alias(t["alias"], t["as_kw"]))

    def select(self, s, k):
        sh = 16 * k
        need(not s["all_kw"] and not s["offset_rows"] and not s.get("rollup_mysql"))
        need(s["distinct"] or not s["distinct_on"])
        don = [self.E(e, CL["don"] + sh, i) for i, e in enumerate(s["distinct_on"])]
        items = []
        for i, (e, al, askw) in enumerate(s["cols"]):
            if e[0] == "star":
                need(not al)
                items.append("IStar")
            elif e[0] == "qstar":
                need(not al)
                items.append("(IQStar %s)" % G.coq_str(e[1]))
            else:
                items.append("(IExpr %s %s)" % (self.E(e, CL["items"] + sh, i), self.alias(al, askw)))
        frm = [self.table(t) for t in s["from_"]]
        joins = []
        for i, (jt, tr, cond) in enumerate(s["joins"]):
            words = jt.split()[:-1]
            nat = "NATURAL" in words
            words = [w for w in words if w != "NATURAL"]
            outer = "OUTER" in words
            base = [w for w in words if w != "OUTER"]
            side = {"": "SNone", "INNER": "SInner", "LEFT": "(SLeft %s)" % G.coq_bool(outer), "RIGHT": "(SRight %s)" % G.coq_bool(outer),
                    "FULL": "(SFull %s)" % G.coq_bool(outer), "CROSS": "SCross"}[base[0] if base else ""]
            tb = self.table(tr)        # table first: no expression inside
            if cond is None: c = "None"
            elif cond[0] == "on": c = "(Some (JOn %s))" % self.E(cond[1], CL["on"] + sh, i)
            else: c = "(Some (JUsing [%s]))" % "; ".join(G.coq_str(x) for x in cond[1])
            joins.append("(MkJoin %s %s %s %s)" % (G.coq_bool(nat), side, tb, c))
        wh = "None" if s["where"] is None else "(Some %s)" % self.E(s["where"], CL["where"] + sh, 0)
        gb, gi = [], 0
        for g in s["group_by"]:
            if g[0] == "expr":
                gb.append("(GrExpr %s)" % self.E(g[1], CL["group"] + sh, gi)); gi += 1
            elif g[0] == "sets":
                # the expressions of all sets are numbered with the other grouping expressions, in the order they are written
                need(g[1])
                sets = []
                for st in g[1]:
                    if isinstance(st, tuple):
                        need(st[0] == "bare" and st[1][0] in ("ident", "qident"))
                        sets.append("(GsBare %s)" % self.E(st[1], CL["group"] + sh, gi)); gi += 1
                    else:
                        xs = []
                        for x in st:
                            xs.append(self.E(x, CL["group"] + sh, gi)); gi += 1
                        sets.append("(GsList [%s])" % "; ".join(xs))
                gb.append("(GrSets [%s])" % "; ".join(sets))
            else:
                need(g[0] in ("rollup", "cube") and g[1])
                xs = []
                for x in g[1]:
                    xs.append(self.E(x, CL["group"] + sh, gi)); gi += 1
                gb.append("(%s [%s])" % ("GrRollup" if g[0] == "rollup" else "GrCube", "; ".join(xs)))
        hv = "None" if s["having"] is None else "(Some %s)" % self.E(s["having"], CL["having"] + sh, 0)
        ob = []
        for i, (e, d, n) in enumerate(s["order_by"]):
            ob.append("(MkOrder %s %s %s)" % (self.E(e, CL["order"] + sh, i), "None" if d is None else "(Some %s)" % G.coq_bool(d == "ASC"),
                                              "None" if n is None else "(Some %s)" % G.coq_bool(n)))
        num = lambda v: "None" if v is None else "(Some %s)" % G.coq_str(str(v))
        f = s["fetch"]
        if f:
            rows = {"": "None", "ROWS": "(Some true)", "ROW": "(Some false)"}[f["rows"]]
            fe = "(Some (MkFetch %s %s %s %s %s))" % (G.coq_bool(f["type"] == "NEXT"), G.coq_str(str(f["value"])), G.coq_bool(f["percent"]), rows, G.coq_bool(f["ties"]))
        else:
            fe = "None"
        fo = s["for_"]
        if fo:
            need(fo["lock"] in LOCKS and fo["wait"] in WAITS)
            fr = "(Some (MkFor %s [%s] %s))" % (LOCKS[fo["lock"]], "; ".join(G.coq_str(t) for t in fo["tables"]), WAITS[fo["wait"]])
        else:
            fr = "None"
        return "(MkSelect %s [%s] [%s] [%s] [%s] %s [%s] %s [%s] %s %s %s %s)" % (
            G.coq_bool(s["distinct"]), "; ".join(don), "; ".join(items), "; ".join(frm), "; ".join(joins), wh, "; ".join(gb), hv, "; ".join(ob),
            num(s["limit"]), num(s["offset"]), fe, fr)

    def merge(self, s, sh):
        """MERGE: ON condition = (cl_mon, 0), AND condition of the k-th WHEN = (cl_mcond, k), SET values / INSERT values numbered through
        the statement; visited in the order the renderer writes them (ON, then per WHEN clause: condition, action)"""
        al = lambda a, askw: self.alias(a, askw)
        on = self.E(s["on"], CL["mon"] + sh, 0)
        whens, ns, nv = [], 0, 0
        need(s["whens"])
        for k, w in enumerate(s["whens"]):
            need(w["type"] in KINDS)
            cond = "None" if w["cond"] is None else "(Some %s)" % self.E(w["cond"], CL["mcond"] + sh, k)
            a = w["action"]
            if a["type"] == "DELETE":
                act = "MaDelete"
            elif a["type"] == "UPDATE":
                sets = []
                for n, e in a["sets"]:
                    parts = n.split(".")
                    need(len(parts) in (1, 2))
                    c = "(None, %s)" % G.coq_str(parts[0]) if len(parts) == 1 else "(Some %s, %s)" % (G.coq_str(parts[0]), G.coq_str(parts[1]))
                    sets.append("(%s, %s)" % (c, self.E(e, CL["mset"] + sh, ns))); ns += 1
                act = "(MaUpdate [%s])" % "; ".join(sets)
            else:
                need(a["type"] == "INSERT")
                cols = "[%s]" % "; ".join(G.coq_str(c) for c in a["cols"])
                if a["default"]:
                    need(not a["values"])
                    act = "(MaInsert %s None)" % cols
                else:
                    vs = []
                    for e in a["values"]:
                        vs.append(self.E(e, CL["mvals"] + sh, nv)); nv += 1
                    act = "(MaInsert %s (Some [%s]))" % (cols, "; ".join(vs))
            whens.append("(MkWhen %s %s %s)" % (KINDS[w["type"]], cond, act))
        return "(MkMerge %s %s %s %s %s %s [%s])" % (G.coq_bool(s.get("into", True)), self.path(s["target"]), al(s["talias"], s["tas"]),
                                                    self.path(s["source"]), al(s["salias"], s["sas"]), on, "; ".join(whens))

    def query(self, q, base):
        """-> (term, number of selects)"""
        need(not q.get("with_"))
        if q["kind"] == "select":
            return "(QSelect %s)" % self.select(q, base), 1
        need(q["kind"] == "setop" and q["right"]["kind"] == "select")
        l, n = self.query(q["left"], base)
        r = self.select(q["right"], base + n)
        op = {"UNION": "OUnion", "EXCEPT": "OExcept", "INTERSECT": "OIntersect"}[q["op"]]
        return "(QSetOp %s %s %s %s)" % (l, op, G.coq_bool(q["all"]), r), n + 1

    def stmt(self, s):
        w = s.get("with_")
        base = 0
        if w:
            ctes = []
            for c in w["ctes"]:
                body, n = self.query(c["stmt"], base)
                base += n
                mat = "None" if c["mat"] is None else "(Some %s)" % G.coq_bool(c["mat"])
                ctes.append("(MkCte %s [%s] %s %s)" % (G.coq_str(c["name"]), "; ".join(G.coq_str(x) for x in c["cols"]), mat, body))
            wt = "(Some (MkWith %s [%s]))" % (G.coq_bool(w["recursive"]), "; ".join(ctes))
        else:
            wt = "None"
        s2 = dict(s); s2["with_"] = None
        k = s["kind"]
        sh = 16 * base
        if k in ("select", "setop"):
            body = "(BQuery %s)" % self.query(s2, base)[0]
        elif k == "insert":
            cols = "[%s]" % "; ".join(G.coq_str(c) for c in s["cols"])
            if s["rows"] is not None:
                rows, i = [], 0
                for row in s["rows"]:
                    vs = []
                    for e in row:
                        vs.append(self.E(e, CL["values"] + sh, i)); i += 1
                    rows.append("[%s]" % "; ".join(vs))
                src, n = "(inl [%s])" % "; ".join(rows), 0
            else:
                qt, n = self.query(s["query"], base)
                src = "(inr %s)" % qt
            c = s["conflict"]
            if c:
                need(not c["constraint"] or not c["target"])
                tg = "(CtCols [%s])" % "; ".join(G.coq_str(x) for x in c["target"]) if c["target"] else ("(CtConstraint %s)" % G.coq_str(c["constraint"]) if c["constraint"] else "CtNone")
                if c["nothing"]:
                    act = "CaNothing"
                else:
                    need(c["updates"])
                    sets = ["(%s, %s)" % (G.coq_str(nm), self.E(e, CL["cset"] + 16 * (base + n), i)) for i, (nm, e) in enumerate(c["updates"])]
                    wh = "None" if c["where"] is None else "(Some %s)" % self.E(c["where"], CL["cwhere"] + 16 * (base + n), 0)
                    act = "(CaUpdate [%s] %s)" % ("; ".join(sets), wh)
                cf = "(Some (MkConflict %s %s))" % (tg, act)
            else:
                cf = "None"
            ret = [self.E(e, CL["returning"] + 16 * (base + n), i) for i, e in enumerate(s["returning"])]
            body = "(BInsert %s %s %s %s [%s])" % (self.path(s["table"]), cols, src, cf, "; ".join(ret))
        elif k == "update":
            sets = ["(%s, %s)" % (G.coq_str(c), self.E(e, CL["set"] + sh, i)) for i, (c, e) in enumerate(s["sets"])]
            wh = "None" if s["where"] is None else "(Some %s)" % self.E(s["where"], CL["where"] + sh, 0)
            ret = [self.E(e, CL["returning"] + sh, i) for i, e in enumerate(s["returning"])]
            body = "(BUpdate %s [%s] %s [%s])" % (self.path(s["table"]), "; ".join(sets), wh, "; ".join(ret))
        elif k == "delete":
            wh = "None" if s["where"] is None else "(Some %s)" % self.E(s["where"], CL["where"] + sh, 0)
            ret = [self.E(e, CL["returning"] + sh, i) for i, e in enumerate(s["returning"])]
            body = "(BDelete %s %s [%s])" % (self.path(s["table"]), wh, "; ".join(ret))
        elif k == "merge":
            need(not w)                  # the parser has no WITH in front of MERGE (stmt_ok)
            body = "(BMerge %s)" % self.merge(s, sh)
        else:
            raise Unsupported()
        return "(MkStmt %s %s)" % (wt, body)


def convert(s, log):
    """-> (coq mstmt term, coq srho term) or None.  `log` = LoggingRenderer.log of the rendering of s."""
    c = Conv()
    try:
        term = c.stmt(s)
    except Unsupported:
        return None
    if len(c.keys) != len(log):
        return None
    ent = []
    for (cl, idx, e), (e2, rho) in zip(c.keys, log):
        if e is not e2:
            return None
        if any(rho.values()):
            ent.append("((%d, %d), [%s])" % (cl, idx, "; ".join("([%s], %d)" % ("; ".join(str(i) for i in p), n) for p, n in sorted(rho.items()) if n)))
    return term, "(srho_of [%s])" % "; ".join(ent)


# ------------------------------------------------------------------------------------------------
# targeted reference statements for MERGE, GROUP BY GROUPING SETS and the FOR clause (dicts of lib/c03gen.py)

def _tab(name, alias="", as_kw=False):
    return dict(name=name, sub=None, alias=alias, as_kw=as_kw, lateral=False)


def _sel(**kw):
    s = dict(kind="select", distinct=False, distinct_on=[], all_kw=False, cols=[(("ident", False, "a"), None, False)], from_=[_tab("t")], joins=[],
             where=None, group_by=[], rollup_mysql=None, having=None, order_by=[], limit=None, offset=None, offset_rows=False, fetch=None,
             for_=None, with_=None)
    s.update(kw)
    return s


def _col(r):
    return ("ident", False, r.choice(G.IDENTS)) if r.random() < 0.7 else ("qident", r.choice(G.TABS), r.choice(G.IDENTS))


MERGE_PAIRS = [("MATCHED", "UPDATE"), ("MATCHED", "DELETE"), ("NOT_MATCHED", "INSERT"), ("NOT_MATCHED_BY_SOURCE", "UPDATE"),
               ("NOT_MATCHED_BY_SOURCE", "DELETE")]            # the documented kind x action table
UPDATE_VARIANTS = ["u", "q", "uq", "qu", "uu", "qq"]           # SET columns: u = column, q = qualifier.column
INSERT_VARIANTS = [(True, False), (False, False), (True, True), (False, True)]      # (column list?, DEFAULT VALUES?)
MERGE_ALIASES = [(ta, tas, sa, sas, into) for ta, tas in (("", False), ("x", True), ("x", False)) for sa, sas in (("", False), ("y", True), ("y", False))
                 for into in (True, False)]


def merge_variants(action):
    return UPDATE_VARIANTS if action == "UPDATE" else INSERT_VARIANTS if action == "INSERT" else [None]


def merge_when(r, kind, action, cond, variant, qual):
    w = dict(type=kind, cond=G.rand_expr(r, r.choice([1, 2, 3])) if cond else None)
    if action == "DELETE":
        w["action"] = dict(type="DELETE")
    elif action == "UPDATE":
        w["action"] = dict(type="UPDATE", sets=[((qual + "." if v == "q" else "") + r.choice(G.IDENTS), G.rand_expr(r, r.choice([1, 1, 3]))) for v in variant])
    else:
        cols, default = variant
        n = r.randrange(1, 4)
        w["action"] = dict(type="INSERT", cols=[r.choice(G.IDENTS) for _ in range(n)] if cols else [],
                           values=[] if default else [G.rand_expr(r, r.choice([1, 1, 3])) for _ in range(n)], default=default)
    return w


def merge_family(r, tier):
    """every kind x action pair of the documented table, with / without AND condition, every INSERT / UPDATE SET shape; every ordered pair
    of such clauses in one statement; every combination of target alias x source alias (none | AS x | x) x INTO (written | not)"""
    out = []
    def stmt(i, whens):
        ta, tas, sa, sas, into = MERGE_ALIASES[i % len(MERGE_ALIASES)]
        return dict(kind="merge", target=r.choice(["t", "t", "s.t", "db.s.orders"]), talias=ta, tas=tas, source=r.choice(["u", "u", "public.u"]),
                    salias=sa, sas=sas, on=G.rand_expr(r, r.choice([1, 3, 4])), whens=whens, into=into)
    for rnd in range(1 if tier == "quick" else 10):
        i = rnd * 7
        for kind, action in MERGE_PAIRS:
            for cond in (False, True):
                for v in merge_variants(action):
                    qual = MERGE_ALIASES[i % len(MERGE_ALIASES)][0] or "t"
                    out.append(stmt(i, [merge_when(r, kind, action, cond, v, qual)])); i += 1
        for k1, a1 in MERGE_PAIRS:
            for k2, a2 in MERGE_PAIRS:
                qual = MERGE_ALIASES[i % len(MERGE_ALIASES)][0] or "t"
                out.append(stmt(i, [merge_when(r, k1, a1, r.random() < 0.5, r.choice(merge_variants(a1)), qual),
                                    merge_when(r, k2, a2, r.random() < 0.5, r.choice(merge_variants(a2)), qual)])); i += 1
        # the whole table in one statement, in order and reversed
        for order in (MERGE_PAIRS, MERGE_PAIRS[::-1]):
            out.append(stmt(i, [merge_when(r, k, a, r.random() < 0.5, r.choice(merge_variants(a)), "t") for k, a in order])); i += 1
    return out


GSET_SHAPES = ["empty", "one", "two", "three", "bare"]
GSET_CONTEXTS = [([], []), (["expr"], []), ([], ["expr"]), (["rollup"], ["cube"]), (["cube"], ["rollup"]), (["sets"], []), ([], ["sets"]),
                 (["expr", "rollup"], ["expr"]), (["sets"], ["sets"])]


def _gexpr(r):
    return _col(r) if r.random() < 0.6 else G.rand_expr(r, r.choice([1, 2, 3]))


def _gset(r, shape):
    if shape == "bare": return ("bare", _col(r))
    return [_gexpr(r) for _ in range(GSET_SHAPES.index(shape))]


def _gitem(r, kind):
    if kind == "expr": return ("expr", _gexpr(r))
    if kind in ("rollup", "cube"): return (kind, [_gexpr(r) for _ in range(r.randrange(1, 3))])
    return ("sets", [_gset(r, r.choice(GSET_SHAPES)) for _ in range(r.randrange(1, 3))])


def gsets_family(r, tier):
    """GROUP BY GROUPING SETS with 1-3 sets, each empty / one / two / three expressions / a bare column, alone and between plain, ROLLUP,
    CUBE and other GROUPING SETS items; hand-picked: a later set that is not a prefix of / longer than / shorter than an earlier one"""
    import itertools
    out = []
    I = lambda n: ("ident", False, n)
    a, b, c, d = I("a"), I("b"), I("c"), I("d")
    hand = [[[a, b], [a, c]], [[a, b], [b]], [[a], [a, b, c]], [[a, b, c], [a]], [[a, b], [c, d], [a]], [[a, b], ("bare", b), [b, a]],
            [("bare", a), [a, b], ("bare", c)], [[], [a], []], [[a, b, c], [c, b, a], [b]], [("bare", ("qident", "t", "a")), [("qident", "t", "a"), b]],
            [[("bin", "*", ("bin", "+", a, b), c)], [a]], [[a, b], [a, b]]]
    shapes = [list(x) for n in (1, 2) for x in itertools.product(GSET_SHAPES, repeat=n)]
    three = [list(x) for x in itertools.product(GSET_SHAPES, repeat=3)]
    if tier == "quick":
        shapes += r.sample(three, 30)
        rounds = 1
    else:
        shapes += three
        rounds = 4
    i = 0
    def wrap(sets):
        nonlocal i
        before, after = GSET_CONTEXTS[i % len(GSET_CONTEXTS)]
        gb = [_gitem(r, k) for k in before] + [("sets", sets)] + [_gitem(r, k) for k in after]
        s = _sel(group_by=gb)
        if i % 3 == 1: s["having"] = G.rand_expr(r, 3)
        if i % 4 == 2: s["order_by"] = [(_col(r), r.choice([None, "ASC", "DESC"]), None)]
        if i % 5 == 3: s["for_"] = dict(lock=r.choice(list(LOCKS)), tables=[], wait=r.choice(list(WAITS)))
        if i % 7 == 4: s["where"] = G.rand_expr(r, 3)
        i += 1
        return s
    for rnd in range(rounds):
        for sets in hand:
            out.append(wrap([st if isinstance(st, tuple) else list(st) for st in sets]))
        for sh in shapes:
            out.append(wrap([_gset(r, x) for x in sh]))
    return out


FOR_CONTEXTS = ["from", "where", "order", "limit", "fetch"]


def _for_ctx(r, ctx):
    s = _sel(cols=[(_col(r), None, False)], from_=[_tab(r.choice(G.TABS), r.choice(["", "", "x"]), r.random() < 0.5)])
    if ctx == "where": s["where"] = G.rand_expr(r, r.choice([1, 3, 5]))
    elif ctx == "order": s["order_by"] = [(_col(r), r.choice([None, "ASC", "DESC"]), r.choice([None, True, False])) for _ in range(r.randrange(1, 3))]
    elif ctx == "limit":
        s["limit"] = r.randrange(0, 100)
        if r.random() < 0.5: s["offset"] = r.randrange(0, 50)
    elif ctx == "fetch":
        s["fetch"] = dict(type=r.choice(["FIRST", "NEXT"]), value=r.randrange(1, 50), percent=r.random() < 0.3, rows=r.choice(["ROWS", "ROW", ""]),
                          ties=r.random() < 0.4)
        if r.random() < 0.3: s["offset"] = r.randrange(1, 50)
    elif ctx == "nofrom": s["from_"], s["cols"] = [], [(("num", "1"), None, False)]
    elif ctx == "offset": s["offset"] = r.randrange(1, 50)
    elif ctx == "group": s["group_by"], s["having"] = [("expr", _col(r))], G.rand_expr(r, 3)
    elif ctx == "join": s["joins"] = [("LEFT JOIN", _tab("u"), ("on", G.rand_expr(r, 3)))]
    return s


def for_family(r, tier):
    """FOR {UPDATE | NO KEY UPDATE | SHARE | KEY SHARE} [OF 1-2 tables] [NOWAIT | SKIP LOCKED]: all 36 combinations, after FROM / WHERE /
    ORDER BY / LIMIT / FETCH (quick: rotating; thorough: all), plus a SELECT without FROM, after OFFSET / HAVING / a join, in a CTE body,
    in the query of an INSERT"""
    out = []
    combos = [(l, n, w) for l in LOCKS for n in (0, 1, 2) for w in WAITS]
    def fc(l, n, w):
        return dict(lock=l, tables=[r.choice(G.TABS) for _ in range(n)], wait=w)
    for i, (l, n, w) in enumerate(combos):
        for j in range(1 if tier == "quick" else len(FOR_CONTEXTS)):
            s = _for_ctx(r, FOR_CONTEXTS[(i + j) % len(FOR_CONTEXTS)])
            s["for_"] = fc(l, n, w)
            out.append(s)
    extras = ["nofrom", "offset", "group", "join", "cte", "cte_main", "insert"]
    for rnd in range(1 if tier == "quick" else 6):
        for k, ctx in enumerate(extras):
            l, n, w = combos[(rnd * len(extras) + k) * 5 % len(combos)]
            if ctx in ("cte", "cte_main"):
                body = _for_ctx(r, "where"); body["for_"] = fc(l, n, w)
                s = _for_ctx(r, "from")
                if ctx == "cte_main": s["for_"] = fc(*r.choice(combos))
                s["with_"] = dict(recursive=False, ctes=[dict(name="cte1", cols=[], stmt=body, mat=None)])
            elif ctx == "insert":
                q = _for_ctx(r, "where"); q["for_"] = fc(l, n, w)
                s = dict(kind="insert", table="t", cols=["a"], rows=None, query=q, conflict=None, returning=[_col(r)] if rnd % 2 else [], with_=None)
            else:
                s = _for_ctx(r, ctx); s["for_"] = fc(l, n, w)
            out.append(s)
    return out


FAMILIES = [("merge", merge_family), ("grouping_sets", gsets_family), ("for", for_family)]


def corrupt_text(r, words):
    return G.corrupt(r, words)


STMT_JUNK = ["SELECT", "FROM", "WHERE", "GROUP", "BY", "HAVING", "ORDER", "LIMIT", "OFFSET", "UNION", "ALL", "JOIN", "LEFT", "ON", "USING",
             "AS", "WITH", "INSERT", "INTO", "VALUES", "UPDATE", "SET", "DELETE", "RETURNING", "DISTINCT", ",", "(", ")", "*", "t", "a", "1",
             "NULLS", "FIRST", "ASC", "DESC", "NATURAL", "CROSS", "OUTER", ";", ".", "=", "RECURSIVE", "MATERIALIZED", "NOT", "x y",
             # MERGE, GROUPING SETS, the FOR clause
             "MERGE", "MATCHED", "WHEN", "THEN", "AND", "SOURCE", "TARGET", "DEFAULT", "INSERT", "DELETE", "GROUPING SETS", "GROUPING", "SETS",
             "ROLLUP", "CUBE", "FOR", "SHARE", "KEY", "NO", "OF", "NOWAIT", "SKIP", "LOCKED", "FETCH", "( )"]


def corrupt_stmt(r, words):
    t = list(words)
    if not t: return [r.choice(STMT_JUNK)]
    i = r.randrange(len(t))
    k = r.randrange(4)
    if k == 0: t[i] = r.choice(STMT_JUNK)
    elif k == 1: t.insert(i, r.choice(STMT_JUNK))
    elif k == 2: t = t[:i] + t[i + 1:]
    else:
        j = r.randrange(len(t)); t[i], t[j] = t[j], t[i]
    return t


# hand-picked texts for the model-vs-code tie: clause order, optional keywords, the defect switch, depth, unmodelled branches
FIXED_TEXTS = [
    # keywords whose canonical spelling the parser stores (repo a8df5c2 7e001b2), written in lower / mixed case
    "SELECT a FROM t WHERE a = 1 and b = 2 or c like 'x' And d Not iLike 'y'", "select a from t union all select b from u Intersect select c from v eXcept select d from w",
    "SELECT a FROM t WHERE a and ( b Or c ) GROUP BY a HAVING a or b ORDER BY a and b",
    "SELECT a b FROM t", "SELECT t . a b FROM t", "SELECT f ( a ) b FROM t", "SELECT a AS b , c d FROM t", "SELECT 1", "SELECT 1 ;", "SELECT",
    "SELECT a FROM", "SELECT a FROM t WHERE", "SELECT a FROM t WHERE GROUP BY a", "SELECT a , FROM t", "SELECT a FROM t ,", "SELECT * , a FROM t u , v AS w",
    "SELECT a FROM s . t . u x", "SELECT a FROM t JOIN u", "SELECT a FROM t CROSS JOIN u ON a = b", "SELECT a FROM t NATURAL JOIN u USING ( a )",
    "SELECT a FROM t NATURAL LEFT OUTER JOIN u", "SELECT a FROM t LEFT JOIN u USING ( )", "SELECT a FROM t JOIN u USING ( a , b ) JOIN v ON TRUE JOIN w USING ( c )",
    "SELECT a FROM t , u FULL OUTER JOIN v ON a = b RIGHT JOIN w ON c", "SELECT a FROM t INNER u", "SELECT a FROM t OUTER JOIN u ON a",
    "SELECT DISTINCT ON ( a , b ) c FROM t", "SELECT DISTINCT ON a FROM t", "SELECT ALL a FROM t", "SELECT DISTINCT ALL a FROM t",
    "SELECT a FROM t GROUP BY a , b + 1 HAVING COUNT ( c ) > 1 ORDER BY a DESC NULLS FIRST , b ASC , c NULLS LAST LIMIT 10 OFFSET 20",
    "SELECT a FROM t ORDER BY a NULLS", "SELECT a FROM t LIMIT a", "SELECT a FROM t LIMIT 1.5 OFFSET 1e3", "SELECT a FROM t OFFSET 5 ROWS", "SELECT a FROM t OFFSET 5 LIMIT 3",
    "SELECT a FROM t LIMIT 3 FETCH FIRST 2 ROWS ONLY", "SELECT a FROM t FOR UPDATE", "SELECT a FROM t GROUP BY ROLLUP ( a )", "SELECT a FROM t GROUP BY a WITH ROLLUP",
    "SELECT a FROM t GROUP a", "SELECT a FROM t ORDER a", "SELECT a FROM t HAVING a > 1", "SELECT a FROM t WHERE a ORDER BY b GROUP BY c",
    "SELECT a FROM t UNION SELECT b FROM u", "SELECT a FROM t UNION ALL SELECT b FROM u EXCEPT SELECT c FROM v INTERSECT ALL SELECT d FROM w", "SELECT a FROM t UNION b",
    "SELECT a FROM t UNION SELECT b FROM u ORDER BY 1", "SELECT a FROM ( SELECT b FROM u ) x", "SELECT a FROM LATERAL t", "SELECT a FROM t JOIN LATERAL u ON TRUE",
    "WITH c AS ( SELECT 1 ) SELECT a FROM c", "WITH RECURSIVE c ( x , y ) AS NOT MATERIALIZED ( SELECT 1 UNION ALL SELECT 2 ) , d AS MATERIALIZED ( SELECT 3 ) SELECT a FROM c UNION SELECT b FROM d",
    "WITH c AS ( SELECT 1 ) INSERT INTO t SELECT a FROM c", "WITH c AS ( SELECT 1 ) UPDATE t SET a = 1", "WITH c AS ( SELECT 1 ) DELETE FROM t WHERE a IN ( 1 , 2 )",
    "WITH c AS ( INSERT INTO t VALUES ( 1 ) ) SELECT 1", "WITH c AS SELECT 1", "WITH c ( ) AS ( SELECT 1 ) SELECT 1", "WITH c AS ( SELECT 1 ) CREATE TABLE t ( a INT )", "WITH",
    "INSERT INTO t VALUES ( 1 , 'x' ) , ( a + 1 , NULL )", "INSERT INTO s . t ( a , b ) VALUES ( 1 , 2 ) RETURNING a , b + 1", "INSERT INTO t SELECT a FROM u RETURNING a",
    "INSERT INTO t VALUES", "INSERT INTO t VALUES ( )", "INSERT INTO t ( ) VALUES ( 1 )", "INSERT t VALUES ( 1 )", "INSERT INTO t VALUES ( 1 ) ON CONFLICT DO NOTHING",
    "INSERT INTO t VALUES ( 1 ) ON a", "INSERT INTO t SELECT 1 UNION SELECT 2", "INSERT INTO t VALUES ( 1 ) , RETURNING a", "INSERT INTO t VALUES ( 1 ) RETURNING *",
    "UPDATE t SET a = 1 , b = c + 2 WHERE d > 1 RETURNING a", "UPDATE s . t SET a = 1 LIMIT 3 RETURNING a", "UPDATE t SET", "UPDATE t SET a 1", "UPDATE t a SET b = 1", "UPDATE SET a = 1",
    "DELETE FROM t", "DELETE FROM t WHERE a = 1 LIMIT 2", "DELETE FROM s . t WHERE a RETURNING a , b", "DELETE t", "DELETE FROM t WHERE", "DELETE FROM t RETURNING",
    "CREATE TABLE t ( a INT )", "DROP TABLE t", "MERGE INTO t USING u ON a WHEN MATCHED THEN DELETE", "a", "RETURNING a", "REPLACE INTO t VALUES ( 1 )", "TRUNCATE t", ";",
    "SELECT name FROM target", "SELECT a FROM source s JOIN matched m ON TRUE", "SELECT a value FROM t", "SELECT f ( a ) status FROM t",
    "SELECT 1 WHERE a = 1", "SELECT 1 ORDER BY 1 LIMIT 1 OFFSET 2", "SELECT COUNT ( x ) n HAVING COUNT ( x ) > 1", "SELECT 1 GROUP BY a", "SELECT 1 ON a",
    "INSERT INTO t SELECT 1 RETURNING a", "INSERT INTO t SELECT 1 ON CONFLICT DO NOTHING", "INSERT INTO t VALUES ( 1 ) on conflict do nothing",
    "INSERT INTO t VALUES ( 1 ) ON CONFLICT ( a , b ) DO UPDATE SET a = 1 , b = excluded . b + 1 WHERE t . a > 0 RETURNING a",
    "INSERT INTO t VALUES ( 1 ) ON CONFLICT ON CONSTRAINT c1 DO NOTHING", "INSERT INTO t SELECT a FROM u ON CONFLICT ( a ) DO UPDATE SET a = 2",
    "INSERT INTO t VALUES ( 1 ) ON CONFLICT DO", "INSERT INTO t VALUES ( 1 ) ON CONFLICT ( ) DO NOTHING", "INSERT INTO t VALUES ( 1 ) ON CONFLICT DO UPDATE a = 1",
    "INSERT INTO t VALUES ( 1 ) ON CONFLICT ON CONSTRAINT DO NOTHING", "INSERT INTO t VALUES ( 1 ) ON DUPLICATE KEY UPDATE a = 1", "INSERT INTO t VALUES ( 1 ) ON CONFLICT DO NOTHING WHERE a", "SELECT 1 x y", "SELECT 1 FETCH FIRST 1 ROWS ONLY",
    "SELECT DISTINCT ON ( a + 1 , ( b ) ) c , d FROM t", "SELECT a FROM t GROUP BY ROLLUP ( a , b + 1 ) , c , CUBE ( ( d ) )", "SELECT a FROM t GROUP BY ROLLUP ( )",
    "SELECT a FROM t GROUP BY ROLLUP a", "SELECT a FROM t GROUP BY CUBE ( a b )", "SELECT a FROM t GROUP BY ROLLUP ( a ) HAVING b ORDER BY c",
    "SELECT t . * , u . * FROM t , u", "SELECT t . * AS x FROM t", "SELECT t . * x FROM t", "SELECT t . FROM t", "SELECT t . * [ 1 ] FROM t", "SELECT * . a FROM t",
    "SELECT a FROM t FETCH FIRST 3 ROWS ONLY", "SELECT a FROM t OFFSET 2 FETCH NEXT 10 PERCENT ROW WITH TIES", "SELECT a FROM t FETCH FIRST 3", "SELECT a FROM t FETCH 3 ROWS ONLY",
    "SELECT a FROM t FETCH NEXT 3 WITH", "SELECT a FROM t FETCH FIRST x ROWS ONLY", "SELECT a FROM t FETCH FIRST 3 ROWS ONLY FOR UPDATE", "SELECT a FROM t FETCH FIRST 1 ROW ONLY UNION SELECT b FROM u",
    "SELECT a FROM t GROUP BY 'GROUPING SETS' , b", 'SELECT a FROM t GROUP BY "GROUPING SETS"', "SELECT a FROM t GROUP BY GROUPING SETS ( ( a ) )",
    # MERGE (parseMergeStatement / parseMergeWhenClause / parseMergeAction): every error branch, optional words, quirks
    "MERGE INTO t USING u ON a", "MERGE t USING u ON a WHEN NOT MATCHED THEN DELETE", "MERGE INTO t USING u ON a WHEN MATCHED THEN INSERT VALUES ( 1 )",
    "MERGE INTO t USING u ON a WHEN NOT MATCHED BY SOURCE THEN INSERT VALUES ( 1 )", "MERGE INTO t USING u ON a WHEN NOT MATCHED THEN UPDATE SET a = 1",
    "MERGE INTO t USING u ON a WHEN NOT MATCHED BY TARGET THEN INSERT VALUES ( 1 )", "MERGE INTO t USING u ON a WHEN NOT MATCHED BY THEN DELETE",
    "MERGE INTO t USING u ON a WHEN MATCHED AND THEN DELETE", "MERGE INTO t USING u ON a WHEN MATCHED AND b > 1 DELETE", "MERGE INTO t USING u ON a WHEN NOT THEN DELETE",
    "MERGE INTO t USING u ON a WHEN THEN DELETE", "MERGE INTO t USING u ON a WHEN MATCHED THEN", "MERGE INTO t USING u ON a WHEN MATCHED THEN SELECT 1",
    "MERGE INTO t USING u ON a WHEN NOT MATCHED THEN INSERT ( ) VALUES ( 1 )", "MERGE INTO t USING u ON a WHEN NOT MATCHED THEN INSERT VALUES ( )",
    "MERGE INTO t USING u ON a WHEN NOT MATCHED THEN INSERT DEFAULT", "MERGE INTO t USING u ON a WHEN NOT MATCHED THEN INSERT ( a , b VALUES ( 1 , 2 )",
    "MERGE INTO t USING u ON a WHEN NOT MATCHED THEN INSERT VALUES 1", "MERGE INTO t USING u ON a WHEN NOT MATCHED THEN INSERT VALUES ( 1 , 2",
    "MERGE INTO t USING u ON a WHEN NOT MATCHED THEN INSERT ( a ) DEFAULT VALUES WHEN MATCHED THEN DELETE", "MERGE INTO t USING u ON a WHEN NOT MATCHED THEN INSERT",
    "MERGE INTO t USING u ON a WHEN NOT MATCHED THEN INSERT VALUES ( 1 ) , ( 2 )", "MERGE INTO t USING u ON a WHEN NOT MATCHED THEN INSERT ( name , value ) VALUES ( 1 , 2 )",
    "MERGE INTO t USING u ON a WHEN MATCHED THEN UPDATE SET a . b . c = 1", "MERGE INTO t USING u ON a WHEN MATCHED THEN UPDATE a = 1", "MERGE INTO t USING u ON a WHEN MATCHED THEN UPDATE SET",
    "MERGE INTO t USING u ON a WHEN MATCHED THEN UPDATE SET a 1", "MERGE INTO t USING u ON a WHEN MATCHED THEN UPDATE SET a = 1 ,", "MERGE INTO t USING u ON a WHEN MATCHED THEN UPDATE SET a . = 1",
    "MERGE INTO t USING u ON a WHEN MATCHED THEN UPDATE SET target . source = matched , name = value , t . status = 1", "MERGE INTO t USING u ON a WHEN MATCHED THEN UPDATE SET a = 1 WHERE b",
    "MERGE INTO t AS USING u ON a WHEN MATCHED THEN DELETE", "MERGE INTO t x y USING u ON a WHEN MATCHED THEN DELETE", "MERGE INTO target source USING matched ON a WHEN MATCHED THEN DELETE",
    "MERGE INTO t AS target USING u AS source ON a WHEN matched THEN DELETE", "MERGE INTO t USING u AS ON a WHEN MATCHED THEN DELETE", "MERGE INTO t USING u x y ON a WHEN MATCHED THEN DELETE",
    "MERGE INTO t name USING u value ON a WHEN NOT MATCHED BY source THEN DELETE", "MERGE INTO USING u ON a WHEN MATCHED THEN DELETE", "MERGE INTO t USING ON a WHEN MATCHED THEN DELETE",
    "MERGE INTO t u ON a WHEN MATCHED THEN DELETE", "MERGE INTO t USING u WHEN MATCHED THEN DELETE", "MERGE INTO t USING u ON WHEN MATCHED THEN DELETE", "MERGE INTO INTO t USING u ON a WHEN MATCHED THEN DELETE",
    "MERGE INTO s . t . v x USING a . b AS y ON x . id = y . id WHEN MATCHED THEN DELETE", "MERGE INTO t . USING u ON a WHEN MATCHED THEN DELETE", "MERGE INTO t USING ( SELECT 1 ) x ON a WHEN MATCHED THEN DELETE",
    "merge into t using u on a when not matched by source and b then update set c = 1 when not matched then insert default values", "MERGE",
    "WITH c AS ( SELECT 1 ) MERGE INTO t USING c ON a WHEN MATCHED THEN DELETE", "MERGE INTO t USING u ON a WHEN MATCHED THEN DELETE WHEN", "MERGE INTO t USING u ON a WHEN MATCHED THEN DELETE x",
    "MERGE INTO t USING u ON a WHEN MATCHED THEN DELETE RETURNING a", "MERGE INTO t USING u ON a WHEN MATCHED THEN DELETE ; SELECT 1", "MERGE INTO t USING u ON a WHEN MATCHED THEN DELETE ) WHEN MATCHED THEN DELETE",
    "MERGE INTO t USING u ON a = CASE WHEN b THEN 1 END WHEN MATCHED THEN DELETE", "MERGE INTO t USING u ON a WHEN MATCHED AND b AND c OR d THEN DELETE WHEN NOT MATCHED THEN INSERT ( a ) VALUES ( b , c + 1 )",
    # the FOR clause (parseForClause): words compared by their text, case-insensitively
    "SELECT a FROM t FOR", "SELECT a FROM t FOR UPDATE OF", "SELECT a FROM t FOR NO UPDATE", "SELECT a FROM t FOR NO KEY", "SELECT a FROM t FOR NO KEY SHARE", "SELECT a FROM t FOR KEY UPDATE",
    "SELECT a FROM t FOR KEY", "SELECT a FROM t FOR UPDATE SKIP", "SELECT a FROM t FOR UPDATE NOWAIT SKIP LOCKED", "SELECT a FROM t FOR UPDATE SKIP LOCKED NOWAIT", "SELECT a FROM t FOR UPDATE OF t , SKIP LOCKED",
    "SELECT a FROM t FOR UPDATE OF t , u , v NOWAIT", "SELECT a FROM t FOR UPDATE OF s . t", "SELECT a FROM t FOR UPDATE OF target", "SELECT a FROM t FOR UPDATE OF t u", "select a from t for update of t nowait",
    "SELECT a FROM t for No Key Update Of t Skip Locked", "SELECT a FROM t FOR key share", "SELECT a FROM t FOR UPDATE FOR SHARE", "SELECT 1 FOR UPDATE", "SELECT 1 FOR SHARE OF t", "SELECT a FROM t FOR UPDATE LIMIT 1",
    "SELECT a FROM t FOR UPDATE ORDER BY a", "SELECT a FROM t LIMIT 1 OFFSET 2 FOR SHARE NOWAIT", "SELECT a FROM t WHERE FOR UPDATE", "SELECT a FROM t WHERE b FOR READ ONLY", "SELECT a FROM t FOR \"UPDATE\"", "SELECT a FROM t FOR 'UPDATE'",
    "SELECT a FROM t FOR UPDATE OF \"t\" NOWAIT", "SELECT a FROM t FOR UPDATE \"NOWAIT\"", "WITH c AS ( SELECT a FROM t FOR UPDATE ) SELECT a FROM c FOR SHARE", "SELECT a FROM t FOR UPDATE UNION SELECT b FROM u",
    "SELECT a FROM t UNION SELECT b FROM u FOR UPDATE", "INSERT INTO t SELECT a FROM u FOR UPDATE RETURNING a", "SELECT a FROM t FOR UPDATE ;", "SELECT a FROM t FOR UPDATE )", "SELECT a FROM t FOR UPDATE NOWAIT x",
    "SELECT a FROM t FOR UPDATE OF", "SELECT a FROM t FOR SHARE OF 1", "SELECT a no FROM t FOR no key update", "SELECT a FROM t FOR UPDATE SKIP x",
    # GROUP BY GROUPING SETS (parseGroupingSets)
    "SELECT a FROM t GROUP BY GROUPING SETS ( )", "SELECT a FROM t GROUP BY GROUPING SETS ( ( ) )", "SELECT a FROM t GROUP BY GROUPING SETS ( a , ( b , c ) , ( ) )", "SELECT a FROM t GROUP BY GROUPING SETS ( ( a + b ) * c )",
    "SELECT a FROM t GROUP BY GROUPING SETS ( ( ( a ) ) )", "SELECT a FROM t GROUP BY GROUPING SETS ( ( a , b )", "SELECT a FROM t GROUP BY GROUPING SETS a", "SELECT a FROM t GROUP BY GROUPING SETS ( a b )",
    "SELECT a FROM t GROUP BY grouping sets ( a )", "SELECT a FROM t GROUP BY Grouping Sets ( ( a ) , b )", "SELECT a FROM t GROUP BY a , GROUPING SETS ( ( a ) ) , ROLLUP ( b )", "SELECT a FROM t GROUP BY GROUPING SETS ( ( a b ) )",
    "SELECT a FROM t GROUP BY GROUPING SETS ( ( a , ) )", "SELECT a FROM t GROUP BY GROUPING SETS ( a , )", "SELECT a FROM t GROUP BY GROUPING SETS ( , a )", "SELECT a FROM t GROUP BY GROUPING SETS ( a ) b",
    "SELECT a FROM t GROUP BY GROUPING SETS ( a + 1 , b * ( c + d ) , ( e ) + 1 )", "SELECT a FROM t GROUP BY GROUPING SETS ( ( a ) , ( a , b ) , ( a , b , c ) , ( b ) , a ) HAVING a ORDER BY b",
    "SELECT a FROM t GROUP BY GROUPING SETS ( ROLLUP ( a ) , CUBE ( b ) )", "SELECT a FROM t GROUP BY GROUPING SETS ( GROUPING SETS ( a ) )", "SELECT a FROM t GROUP BY GROUPING", "SELECT a FROM t GROUP BY GROUPING ( a )",
    "SELECT a FROM t GROUP BY SETS ( a )", "SELECT a FROM t GROUP BY GROUPING SETS", "SELECT a FROM t GROUP BY GROUPING SETS (", "SELECT a FROM t GROUP BY GROUPING SETS ( (", "SELECT a FROM t GROUP BY GROUPING SETS ( a ) , GROUPING SETS ( ( ) , ( b ) ) FOR UPDATE",
    "SELECT a FROM t GROUP BY GROUPING SETS ( ( a ) ) WITH ROLLUP", "SELECT a FROM t GROUP BY ROLLUP ( GROUPING SETS ( a ) )", "SELECT a FROM t GROUP BY GROUPING SETS ( * )",
    # words the three parsers compare by their text: a string literal / quoted identifier spelled like the keyword is taken for it (mirrored by the model)
    "MERGE INTO t USING u ON a WHEN 'MATCHED' THEN DELETE", 'MERGE INTO t USING u ON a WHEN NOT "MATCHED" THEN INSERT DEFAULT VALUES', "MERGE INTO t 'USING' u ON a WHEN MATCHED THEN DELETE",
    'MERGE INTO t "USING" u ON a WHEN MATCHED THEN DELETE', "MERGE INTO t USING u ON a WHEN NOT MATCHED BY 'SOURCE' THEN DELETE", 'MERGE INTO t USING u "ON" a WHEN MATCHED THEN DELETE',
    "MERGE INTO t USING u 'x' ON a WHEN MATCHED THEN DELETE", "MERGE INTO t AS 'x' USING u ON a WHEN MATCHED THEN DELETE", 'MERGE INTO t USING u ON a WHEN MATCHED THEN UPDATE SET "a" . "b" = 1 , \'c\' = 2',
    "SELECT a FROM t GROUP BY GROUPING 'SETS' ( a )", 'SELECT a FROM t GROUP BY GROUPING "sets" ( a )', "SELECT a FROM t GROUP BY GROUPING sets ( a )", "SELECT a FROM t FOR UPDATE 'OF' t", "SELECT a FROM t FOR UPDATE SKIP 'LOCKED'",
    "SELECT " + "( " * 98 + "a" + " )" * 98 + " FROM t", "SELECT " + "( " * 99 + "a" + " )" * 99 + " FROM t", "SELECT " + "NOT " * 99 + "a FROM t",
]


# OVER ( window specification ): modelled in Model/ExprParse.v (parse_window_spec / parse_window_frame / parse_frame_bound), outside the
# reference expressions of the theorems: hand-picked texts for tie (a) - both frame forms, every bound kind, every error branch
WINDOW_TEXTS = [
    "SELECT SUM ( a ) OVER ( PARTITION BY b , c ORDER BY d DESC NULLS LAST , e ROWS BETWEEN 1 PRECEDING AND CURRENT ROW ) FROM t",
    "SELECT SUM ( a ) OVER ( ORDER BY d ROWS 5 PRECEDING ) FROM t", "SELECT SUM ( a ) OVER ( ORDER BY d range UNBOUNDED PRECEDING ) FROM t",
    "SELECT SUM ( a ) OVER ( ROWS CURRENT ROW ) FROM t", "SELECT SUM ( a ) OVER ( RANGE 2 FOLLOWING ) x FROM t", "SELECT ROW_NUMBER ( ) OVER ( ) FROM t",
    "SELECT SUM ( a ) OVER ( RANGE BETWEEN UNBOUNDED PRECEDING AND UNBOUNDED FOLLOWING ) x FROM t",
    "SELECT SUM ( a ) OVER ( ROWS BETWEEN a + 1 FOLLOWING AND 2 FOLLOWING ) , b FROM t", "SELECT SUM ( a ) OVER ( ROWS BETWEEN CURRENT ROW AND 3 FOLLOWING ) FROM t",
    "SELECT SUM ( a ) OVER ( PARTITION BY b ) + 1 , RANK ( ) OVER ( ORDER BY c ASC NULLS FIRST ) AS r FROM t ORDER BY SUM ( a ) OVER ( ORDER BY d )",
    "SELECT SUM ( a ) OVER ( ROWS CURRENT ) FROM t", "SELECT SUM ( a ) OVER ( ROWS BETWEEN 1 PRECEDING ) FROM t", "SELECT SUM ( a ) OVER w FROM t",
    "SELECT SUM ( a ) OVER ( PARTITION b ) FROM t", "SELECT SUM ( a ) OVER ( ORDER a ) FROM t", "SELECT SUM ( a ) OVER ( ORDER BY a ROWS 1 ) FROM t",
    "SELECT SUM ( a ) OVER ( ROWS UNBOUNDED ) FROM t", "SELECT SUM ( a ) OVER ( ORDER BY a PARTITION BY b ) FROM t", "SELECT SUM ( a ) OVER ( PARTITION BY b", "SELECT SUM ( a ) OVER ( ORDER BY a NULLS ) FROM t",
    "SELECT SUM ( a ) OVER ( ROWS BETWEEN 1 PRECEDING AND ) FROM t", "SELECT SUM ( a ) OVER ( ROWS 1 PRECEDING AND CURRENT ROW ) FROM t",
]
FIXED_TEXTS += WINDOW_TEXTS
