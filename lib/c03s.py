"""C03, statement level in Coq: conversion of generator statements (lib/c03gen.py dicts) into terms of the reference
statement grammar Spec/RefStmt.v (`mstmt`), with the parenthesisation choices actually used by the renderer, so that
  * Spec.RefStmt.render_stmt / ast_of_stmt are cross-checked against the Python renderer / prescriber (tie c), and
  * the Gallina model of parseStatement (Model/StmtParse.v) is run against the real parseStatement on the same token
    lists (tie a): rendered reference statements, statements of the wider generator surface, corrupted token lists.
"""
import c03gen as G

CL = dict(items=0, on=1, where=2, group=3, having=4, order=5, values=6, set=7, returning=8, don=9, cset=10, cwhere=11)


class CoreStmtGen(G.StmtGen):
    """statements inside the surface of Spec/RefStmt.v (core expressions only, no derived tables, ...)"""
    def expr(self, budget=6, allow_sub=True, depth=0):
        return G.rand_expr(self.r, budget)

    def tableref(self, depth, allow_sub=True):
        return super().tableref(depth, allow_sub=False)

    def select(self, depth=0, simple=False, scalar=False):
        s = super().select(depth, simple, scalar)
        s["all_kw"], s["for_"], s["offset_rows"] = False, None, False
        s["cols"] = [((e, None, False) if e[0] == "qstar" else (e, al, askw)) for e, al, askw in s["cols"]]
        s["group_by"] = [g for g in s["group_by"] if g[0] in ("expr", "rollup", "cube")]
        return s

    def returning(self):
        r = super().returning()
        return [] if r and r[0][0] == "star" else r

    def insert(self):
        s = super().insert()
        c = s["conflict"]
        if c:
            if c["nothing"]: c["updates"], c["where"] = [], None
        return s

    def statement(self):
        k = self.r.random()
        if k < 0.6: return self.query()
        if k < 0.75: return self.insert()
        if k < 0.88: return self.update()
        return self.delete()


class LoggingRenderer(G.StmtRenderer):
    """records the parenthesisation choice of every expression in rendering order"""
    def __init__(self, rng, paren_p=0.1):
        super().__init__(rng, paren_p)
        self.log = []

    def E(self, e, lv=0):
        rho = G.rand_rho(self.r, e, self.paren_p) if self.paren_p else {}
        self.log.append((e, rho))
        return [t[2] for t in G.Renderer(rho, stmt_renderer=self.S).render(lv, e)]


class Unsupported(Exception):
    pass


def need(c):
    if not c: raise Unsupported()


class Conv:
    """dict statement -> Coq `mstmt` term + the list of ((clause, index), expr) in the order the renderer visits them"""
    def __init__(self):
        self.keys = []           # (clause key, index, expr) in rendering order

    def E(self, e, clause, idx):
        need(G.is_core(e))
        self.keys.append((clause, idx, e))
        return G.coq_mexpr(e)

    def alias(self, al, askw):
        return "None" if not al else "(Some (%s, %s))" % (G.coq_bool(askw), G.coq_str(al))

    def path(self, name):
        return "[%s]" % "; ".join(G.coq_str(p) for p in name.split("."))

    def table(self, t):
        need(t["sub"] is None and not t.get("lateral"))
        return "(MkTable %s %s)" % (self.path(t["name"]), self.alias(t["alias"], t["as_kw"]))

    def select(self, s, k):
        sh = 16 * k
        need(not s["all_kw"] and not s["for_"] and not s["offset_rows"] and not s.get("rollup_mysql"))
        need(s["distinct"] or not s["distinct_on"])
        don = [self.E(e, CL["don"] + sh, i) for i, e in enumerate(s["distinct_on"])]
        items = []
        for i, (e, al, askw) in enumerate(s["cols"]):
            if e[0] == "star":
                need(not al)
                items.append("IStar")
            elif e[0] == "qstar":
                need(not al)
                items.append("(IQStar %s)" % G.coq_str(e[1]))
            else:
                items.append("(IExpr %s %s)" % (self.E(e, CL["items"] + sh, i), self.alias(al, askw)))
        frm = [self.table(t) for t in s["from_"]]
        joins = []
        for i, (jt, tr, cond) in enumerate(s["joins"]):
            words = jt.split()[:-1]
            nat = "NATURAL" in words
            words = [w for w in words if w != "NATURAL"]
            outer = "OUTER" in words
            base = [w for w in words if w != "OUTER"]
            side = {"": "SNone", "INNER": "SInner", "LEFT": "(SLeft %s)" % G.coq_bool(outer), "RIGHT": "(SRight %s)" % G.coq_bool(outer),
                    "FULL": "(SFull %s)" % G.coq_bool(outer), "CROSS": "SCross"}[base[0] if base else ""]
            tb = self.table(tr)        # table first: no expression inside
            if cond is None: c = "None"
            elif cond[0] == "on": c = "(Some (JOn %s))" % self.E(cond[1], CL["on"] + sh, i)
            else: c = "(Some (JUsing [%s]))" % "; ".join(G.coq_str(x) for x in cond[1])
            joins.append("(MkJoin %s %s %s %s)" % (G.coq_bool(nat), side, tb, c))
        wh = "None" if s["where"] is None else "(Some %s)" % self.E(s["where"], CL["where"] + sh, 0)
        gb, gi = [], 0
        for g in s["group_by"]:
            if g[0] == "expr":
                gb.append("(GrExpr %s)" % self.E(g[1], CL["group"] + sh, gi)); gi += 1
            else:
                need(g[0] in ("rollup", "cube") and g[1])
                xs = []
                for x in g[1]:
                    xs.append(self.E(x, CL["group"] + sh, gi)); gi += 1
                gb.append("(%s [%s])" % ("GrRollup" if g[0] == "rollup" else "GrCube", "; ".join(xs)))
        hv = "None" if s["having"] is None else "(Some %s)" % self.E(s["having"], CL["having"] + sh, 0)
        ob = []
        for i, (e, d, n) in enumerate(s["order_by"]):
            ob.append("(MkOrder %s %s %s)" % (self.E(e, CL["order"] + sh, i), "None" if d is None else "(Some %s)" % G.coq_bool(d == "ASC"),
                                              "None" if n is None else "(Some %s)" % G.coq_bool(n)))
        num = lambda v: "None" if v is None else "(Some %s)" % G.coq_str(str(v))
        f = s["fetch"]
        if f:
            rows = {"": "None", "ROWS": "(Some true)", "ROW": "(Some false)"}[f["rows"]]
            fe = "(Some (MkFetch %s %s %s %s %s))" % (G.coq_bool(f["type"] == "NEXT"), G.coq_str(str(f["value"])), G.coq_bool(f["percent"]), rows, G.coq_bool(f["ties"]))
        else:
            fe = "None"
        return "(MkSelect %s [%s] [%s] [%s] [%s] %s [%s] %s [%s] %s %s %s)" % (
            G.coq_bool(s["distinct"]), "; ".join(don), "; ".join(items), "; ".join(frm), "; ".join(joins), wh, "; ".join(gb), hv, "; ".join(ob),
            num(s["limit"]), num(s["offset"]), fe)

    def query(self, q, base):
        """-> (term, number of selects)"""
        need(not q.get("with_"))
        if q["kind"] == "select":
            return "(QSelect %s)" % self.select(q, base), 1
        need(q["kind"] == "setop" and q["right"]["kind"] == "select")
        l, n = self.query(q["left"], base)
        r = self.select(q["right"], base + n)
        op = {"UNION": "OUnion", "EXCEPT": "OExcept", "INTERSECT": "OIntersect"}[q["op"]]
        return "(QSetOp %s %s %s %s)" % (l, op, G.coq_bool(q["all"]), r), n + 1

    def stmt(self, s):
        w = s.get("with_")
        base = 0
        if w:
            ctes = []
            for c in w["ctes"]:
                body, n = self.query(c["stmt"], base)
                base += n
                mat = "None" if c["mat"] is None else "(Some %s)" % G.coq_bool(c["mat"])
                ctes.append("(MkCte %s [%s] %s %s)" % (G.coq_str(c["name"]), "; ".join(G.coq_str(x) for x in c["cols"]), mat, body))
            wt = "(Some (MkWith %s [%s]))" % (G.coq_bool(w["recursive"]), "; ".join(ctes))
        else:
            wt = "None"
        s2 = dict(s); s2["with_"] = None
        k = s["kind"]
        sh = 16 * base
        if k in ("select", "setop"):
            body = "(BQuery %s)" % self.query(s2, base)[0]
        elif k == "insert":
            cols = "[%s]" % "; ".join(G.coq_str(c) for c in s["cols"])
            if s["rows"] is not None:
                rows, i = [], 0
                for row in s["rows"]:
                    vs = []
                    for e in row:
                        vs.append(self.E(e, CL["values"] + sh, i)); i += 1
                    rows.append("[%s]" % "; ".join(vs))
                src, n = "(inl [%s])" % "; ".join(rows), 0
            else:
                qt, n = self.query(s["query"], base)
                src = "(inr %s)" % qt
            c = s["conflict"]
            if c:
                need(not c["constraint"] or not c["target"])
                tg = "(CtCols [%s])" % "; ".join(G.coq_str(x) for x in c["target"]) if c["target"] else ("(CtConstraint %s)" % G.coq_str(c["constraint"]) if c["constraint"] else "CtNone")
                if c["nothing"]:
                    act = "CaNothing"
                else:
                    need(c["updates"])
                    sets = ["(%s, %s)" % (G.coq_str(nm), self.E(e, CL["cset"] + 16 * (base + n), i)) for i, (nm, e) in enumerate(c["updates"])]
                    wh = "None" if c["where"] is None else "(Some %s)" % self.E(c["where"], CL["cwhere"] + 16 * (base + n), 0)
                    act = "(CaUpdate [%s] %s)" % ("; ".join(sets), wh)
                cf = "(Some (MkConflict %s %s))" % (tg, act)
            else:
                cf = "None"
            ret = [self.E(e, CL["returning"] + 16 * (base + n), i) for i, e in enumerate(s["returning"])]
            body = "(BInsert %s %s %s %s [%s])" % (self.path(s["table"]), cols, src, cf, "; ".join(ret))
        elif k == "update":
            sets = ["(%s, %s)" % (G.coq_str(c), self.E(e, CL["set"] + sh, i)) for i, (c, e) in enumerate(s["sets"])]
            wh = "None" if s["where"] is None else "(Some %s)" % self.E(s["where"], CL["where"] + sh, 0)
            ret = [self.E(e, CL["returning"] + sh, i) for i, e in enumerate(s["returning"])]
            body = "(BUpdate %s [%s] %s [%s])" % (self.path(s["table"]), "; ".join(sets), wh, "; ".join(ret))
        elif k == "delete":
            wh = "None" if s["where"] is None else "(Some %s)" % self.E(s["where"], CL["where"] + sh, 0)
            ret = [self.E(e, CL["returning"] + sh, i) for i, e in enumerate(s["returning"])]
            body = "(BDelete %s %s [%s])" % (self.path(s["table"]), wh, "; ".join(ret))
        else:
            raise Unsupported()
        return "(MkStmt %s %s)" % (wt, body)


def convert(s, log):
    """-> (coq mstmt term, coq srho term) or None.  `log` = LoggingRenderer.log of the rendering of s."""
    c = Conv()
    try:
        term = c.stmt(s)
    except Unsupported:
        return None
    if len(c.keys) != len(log):
        return None
    ent = []
    for (cl, idx, e), (e2, rho) in zip(c.keys, log):
        if e is not e2:
            return None
        if any(rho.values()):
            ent.append("((%d, %d), [%s])" % (cl, idx, "; ".join("([%s], %d)" % ("; ".join(str(i) for i in p), n) for p, n in sorted(rho.items()) if n)))
    return term, "(srho_of [%s])" % "; ".join(ent)


def corrupt_text(r, words):
    return G.corrupt(r, words)


STMT_JUNK = ["SELECT", "FROM", "WHERE", "GROUP", "BY", "HAVING", "ORDER", "LIMIT", "OFFSET", "UNION", "ALL", "JOIN", "LEFT", "ON", "USING",
             "AS", "WITH", "INSERT", "INTO", "VALUES", "UPDATE", "SET", "DELETE", "RETURNING", "DISTINCT", ",", "(", ")", "*", "t", "a", "1",
             "NULLS", "FIRST", "ASC", "DESC", "NATURAL", "CROSS", "OUTER", ";", ".", "=", "RECURSIVE", "MATERIALIZED", "NOT", "x y"]


def corrupt_stmt(r, words):
    t = list(words)
    if not t: return [r.choice(STMT_JUNK)]
    i = r.randrange(len(t))
    k = r.randrange(4)
    if k == 0: t[i] = r.choice(STMT_JUNK)
    elif k == 1: t.insert(i, r.choice(STMT_JUNK))
    elif k == 2: t = t[:i] + t[i + 1:]
    else:
        j = r.randrange(len(t)); t[i], t[j] = t[j], t[i]
    return t


# hand-picked texts for the model-vs-code tie: clause order, optional keywords, the defect switch, depth, unmodelled branches
FIXED_TEXTS = [
    # keywords whose canonical spelling the parser stores (repo a8df5c2 7e001b2), written in lower / mixed case
    "SELECT a FROM t WHERE a = 1 and b = 2 or c like 'x' And d Not iLike 'y'", "select a from t union all select b from u Intersect select c from v eXcept select d from w",
    "SELECT a FROM t WHERE a and ( b Or c ) GROUP BY a HAVING a or b ORDER BY a and b",
    "SELECT a b FROM t", "SELECT t . a b FROM t", "SELECT f ( a ) b FROM t", "SELECT a AS b , c d FROM t", "SELECT 1", "SELECT 1 ;", "SELECT",
    "SELECT a FROM", "SELECT a FROM t WHERE", "SELECT a FROM t WHERE GROUP BY a", "SELECT a , FROM t", "SELECT a FROM t ,", "SELECT * , a FROM t u , v AS w",
    "SELECT a FROM s . t . u x", "SELECT a FROM t JOIN u", "SELECT a FROM t CROSS JOIN u ON a = b", "SELECT a FROM t NATURAL JOIN u USING ( a )",
    "SELECT a FROM t NATURAL LEFT OUTER JOIN u", "SELECT a FROM t LEFT JOIN u USING ( )", "SELECT a FROM t JOIN u USING ( a , b ) JOIN v ON TRUE JOIN w USING ( c )",
    "SELECT a FROM t , u FULL OUTER JOIN v ON a = b RIGHT JOIN w ON c", "SELECT a FROM t INNER u", "SELECT a FROM t OUTER JOIN u ON a",
    "SELECT DISTINCT ON ( a , b ) c FROM t", "SELECT DISTINCT ON a FROM t", "SELECT ALL a FROM t", "SELECT DISTINCT ALL a FROM t",
    "SELECT a FROM t GROUP BY a , b + 1 HAVING COUNT ( c ) > 1 ORDER BY a DESC NULLS FIRST , b ASC , c NULLS LAST LIMIT 10 OFFSET 20",
    "SELECT a FROM t ORDER BY a NULLS", "SELECT a FROM t LIMIT a", "SELECT a FROM t LIMIT 1.5 OFFSET 1e3", "SELECT a FROM t OFFSET 5 ROWS", "SELECT a FROM t OFFSET 5 LIMIT 3",
    "SELECT a FROM t LIMIT 3 FETCH FIRST 2 ROWS ONLY", "SELECT a FROM t FOR UPDATE", "SELECT a FROM t GROUP BY ROLLUP ( a )", "SELECT a FROM t GROUP BY a WITH ROLLUP",
    "SELECT a FROM t GROUP a", "SELECT a FROM t ORDER a", "SELECT a FROM t HAVING a > 1", "SELECT a FROM t WHERE a ORDER BY b GROUP BY c",
    "SELECT a FROM t UNION SELECT b FROM u", "SELECT a FROM t UNION ALL SELECT b FROM u EXCEPT SELECT c FROM v INTERSECT ALL SELECT d FROM w", "SELECT a FROM t UNION b",
    "SELECT a FROM t UNION SELECT b FROM u ORDER BY 1", "SELECT a FROM ( SELECT b FROM u ) x", "SELECT a FROM LATERAL t", "SELECT a FROM t JOIN LATERAL u ON TRUE",
    "WITH c AS ( SELECT 1 ) SELECT a FROM c", "WITH RECURSIVE c ( x , y ) AS NOT MATERIALIZED ( SELECT 1 UNION ALL SELECT 2 ) , d AS MATERIALIZED ( SELECT 3 ) SELECT a FROM c UNION SELECT b FROM d",
    "WITH c AS ( SELECT 1 ) INSERT INTO t SELECT a FROM c", "WITH c AS ( SELECT 1 ) UPDATE t SET a = 1", "WITH c AS ( SELECT 1 ) DELETE FROM t WHERE a IN ( 1 , 2 )",
    "WITH c AS ( INSERT INTO t VALUES ( 1 ) ) SELECT 1", "WITH c AS SELECT 1", "WITH c ( ) AS ( SELECT 1 ) SELECT 1", "WITH c AS ( SELECT 1 ) CREATE TABLE t ( a INT )", "WITH",
    "INSERT INTO t VALUES ( 1 , 'x' ) , ( a + 1 , NULL )", "INSERT INTO s . t ( a , b ) VALUES ( 1 , 2 ) RETURNING a , b + 1", "INSERT INTO t SELECT a FROM u RETURNING a",
    "INSERT INTO t VALUES", "INSERT INTO t VALUES ( )", "INSERT INTO t ( ) VALUES ( 1 )", "INSERT t VALUES ( 1 )", "INSERT INTO t VALUES ( 1 ) ON CONFLICT DO NOTHING",
    "INSERT INTO t VALUES ( 1 ) ON a", "INSERT INTO t SELECT 1 UNION SELECT 2", "INSERT INTO t VALUES ( 1 ) , RETURNING a", "INSERT INTO t VALUES ( 1 ) RETURNING *",
    "UPDATE t SET a = 1 , b = c + 2 WHERE d > 1 RETURNING a", "UPDATE s . t SET a = 1 LIMIT 3 RETURNING a", "UPDATE t SET", "UPDATE t SET a 1", "UPDATE t a SET b = 1", "UPDATE SET a = 1",
    "DELETE FROM t", "DELETE FROM t WHERE a = 1 LIMIT 2", "DELETE FROM s . t WHERE a RETURNING a , b", "DELETE t", "DELETE FROM t WHERE", "DELETE FROM t RETURNING",
    "CREATE TABLE t ( a INT )", "DROP TABLE t", "MERGE INTO t USING u ON a WHEN MATCHED THEN DELETE", "a", "RETURNING a", "REPLACE INTO t VALUES ( 1 )", "TRUNCATE t", ";",
    "SELECT name FROM target", "SELECT a FROM source s JOIN matched m ON TRUE", "SELECT a value FROM t", "SELECT f ( a ) status FROM t",
    "SELECT 1 WHERE a = 1", "SELECT 1 ORDER BY 1 LIMIT 1 OFFSET 2", "SELECT COUNT ( x ) n HAVING COUNT ( x ) > 1", "SELECT 1 GROUP BY a", "SELECT 1 ON a",
    "INSERT INTO t SELECT 1 RETURNING a", "INSERT INTO t SELECT 1 ON CONFLICT DO NOTHING", "INSERT INTO t VALUES ( 1 ) on conflict do nothing",
    "INSERT INTO t VALUES ( 1 ) ON CONFLICT ( a , b ) DO UPDATE SET a = 1 , b = excluded . b + 1 WHERE t . a > 0 RETURNING a",
    "INSERT INTO t VALUES ( 1 ) ON CONFLICT ON CONSTRAINT c1 DO NOTHING", "INSERT INTO t SELECT a FROM u ON CONFLICT ( a ) DO UPDATE SET a = 2",
    "INSERT INTO t VALUES ( 1 ) ON CONFLICT DO", "INSERT INTO t VALUES ( 1 ) ON CONFLICT ( ) DO NOTHING", "INSERT INTO t VALUES ( 1 ) ON CONFLICT DO UPDATE a = 1",
    "INSERT INTO t VALUES ( 1 ) ON CONFLICT ON CONSTRAINT DO NOTHING", "INSERT INTO t VALUES ( 1 ) ON DUPLICATE KEY UPDATE a = 1", "INSERT INTO t VALUES ( 1 ) ON CONFLICT DO NOTHING WHERE a", "SELECT 1 x y", "SELECT 1 FETCH FIRST 1 ROWS ONLY",
    "SELECT DISTINCT ON ( a + 1 , ( b ) ) c , d FROM t", "SELECT a FROM t GROUP BY ROLLUP ( a , b + 1 ) , c , CUBE ( ( d ) )", "SELECT a FROM t GROUP BY ROLLUP ( )",
    "SELECT a FROM t GROUP BY ROLLUP a", "SELECT a FROM t GROUP BY CUBE ( a b )", "SELECT a FROM t GROUP BY ROLLUP ( a ) HAVING b ORDER BY c",
    "SELECT t . * , u . * FROM t , u", "SELECT t . * AS x FROM t", "SELECT t . * x FROM t", "SELECT t . FROM t", "SELECT t . * [ 1 ] FROM t", "SELECT * . a FROM t",
    "SELECT a FROM t FETCH FIRST 3 ROWS ONLY", "SELECT a FROM t OFFSET 2 FETCH NEXT 10 PERCENT ROW WITH TIES", "SELECT a FROM t FETCH FIRST 3", "SELECT a FROM t FETCH 3 ROWS ONLY",
    "SELECT a FROM t FETCH NEXT 3 WITH", "SELECT a FROM t FETCH FIRST x ROWS ONLY", "SELECT a FROM t FETCH FIRST 3 ROWS ONLY FOR UPDATE", "SELECT a FROM t FETCH FIRST 1 ROW ONLY UNION SELECT b FROM u",
    "SELECT a FROM t GROUP BY 'GROUPING SETS' , b", 'SELECT a FROM t GROUP BY "GROUPING SETS"', "SELECT a FROM t GROUP BY GROUPING SETS ( ( a ) )",
    "SELECT " + "( " * 98 + "a" + " )" * 98 + " FROM t", "SELECT " + "( " * 99 + "a" + " )" * 99 + " FROM t", "SELECT " + "NOT " * 99 + "a FROM t",
]
