"""Deterministic work measurement for C20: statement-execution counts of the repository's packages (Go coverage
counters in count mode) for one call of one entry point on one member of an input family."""
import json, os, re, shutil, subprocess, tempfile
from concurrent.futures import ThreadPoolExecutor
import common

LINE = re.compile(r"^(\S+?):(\d+)\.\d+,(\d+)\.\d+ (\d+) (\d+)$")


def measure(vhc, entry, family, k, timeout=120):
    """returns dict(total=statement executions in pkg/..., blocks={(file, startline): executions}, info=harness JSON)
    or dict(timeout=True)"""
    d = tempfile.mkdtemp(prefix="cov", dir=os.path.join(common.BUILD, "cases") if os.path.isdir(os.path.join(common.BUILD, "cases")) else None)
    try:
        env = dict(common.GOENV, GOCOVERDIR=d)
        try:
            p = subprocess.run([vhc, "cost", entry, family, str(k)], env=env, timeout=timeout, stdout=subprocess.PIPE, stderr=subprocess.PIPE, text=True)
        except subprocess.TimeoutExpired:
            return {"timeout": True, "entry": entry, "family": family, "k": k}
        if p.returncode != 0:
            return {"crash": p.stderr[-1500:], "entry": entry, "family": family, "k": k}
        info = json.loads(p.stdout.splitlines()[-1])
        out = os.path.join(d, "out.txt")
        q = subprocess.run(["go", "tool", "covdata", "textfmt", "-i=" + d, "-o=" + out], env=common.GOENV, stdout=subprocess.PIPE, stderr=subprocess.PIPE, text=True, timeout=120)
        blocks, total = {}, 0
        for line in open(out):
            m = LINE.match(line.strip())
            if not m:
                continue
            f, sl, el, ns, cnt = m.group(1), int(m.group(2)), int(m.group(3)), int(m.group(4)), int(m.group(5))
            if "/GoSQLX/pkg/" not in f or cnt == 0:
                continue
            f = f.split("/GoSQLX/")[1]
            w = ns * cnt
            total += w
            blocks[(f, sl)] = blocks.get((f, sl), 0) + w
        return {"total": total, "blocks": blocks, "info": info, "entry": entry, "family": family, "k": k}
    finally:
        shutil.rmtree(d, ignore_errors=True)


def measure_many(jobs, workers=12, timeout=120):
    vhc = common.stage_harness(cover=True)
    with ThreadPoolExecutor(max_workers=workers) as ex:
        return list(ex.map(lambda j: measure(vhc, j[0], j[1], j[2], timeout), jobs))


_func_cache = {}


def func_at(relfile, line):
    """name of the Go function containing the line (regex scan of the source)"""
    path = os.path.join(common.REPO, relfile)
    if path not in _func_cache:
        fs = []
        try:
            for i, l in enumerate(open(path), 1):
                m = re.match(r"^func\s+(\([^)]*\)\s*)?([A-Za-z_0-9]+)", l)
                if m:
                    recv = re.sub(r"[()*\s]|^\w+\s", "", m.group(1) or "")
                    recv = (m.group(1) or "").replace("(", "").replace(")", "").split()[-1].lstrip("*") + "." if m.group(1) else ""
                    fs.append((i, recv + m.group(2)))
        except OSError:
            pass
        _func_cache[path] = fs
    name = "?"
    for i, n in _func_cache[path]:
        if i <= line:
            name = n
        else:
            break
    return name
