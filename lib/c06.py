"""C06 — serialising a tree and re-parsing gives the same tree; formatting is stable."""
import collections, concurrent.futures, itertools, json, os, random, re
import common, sqlgen
import c03gen as G
from common import Report, log

MANIFEST = dict(
    technique='Coq proof that a Gallina mirror of the expression serialiser (exprSQL with precedence-aware parentheses, identifier quoting, string escaping) prints every reference expression as one of its admissible renderings, composed with the C03 parser theorem into an unbounded print -> parse round trip; printer tied to Go SQL() on reflected real trees; implementation-side round-trip / idempotence / serialiser-agreement oracle over every serialiser x option combination',
    text='Model/ExprPrint.v mirrors pkg/sql/ast/sql.go for expressions (BinaryExpression/UnaryExpression/Between/In/Cast/literal/identifier printers, operandSQL parenthesisation, safeIdentifier, escapeStringLiteral) over the typed tree mirror of C03, producing the token list. Theorems (Props/C06.v): the printer output of the prescribed tree of every reference expression of the proved sub-surface is a rendering `render 0 rho e` with only required parentheses (print_is_render), hence with C03_parse_render_expr_partial the model parser maps it back to exactly that tree with nothing left over (C06_print_parse_expr; no size bound, any follow token, any depth limit the nesting fits in); the string-literal and identifier codecs round-trip (literal_roundtrip, ident_roundtrip) for all contents without typographic quotes; formatting is idempotent where the formatter is print after parse (format_idempotent); refuted witnesses for the pinned printer (no parentheses, IS NOT NULL printed IS NULL) with the defect switches on. Tie: Go SQL() and print_expr are run on the same real trees (parser output for generated expressions, reflected into the typed mirror) and must give the same token sequence (real tokenizer on the Go text). Oracle (implementation only, independent of the model): for every accepted input (model-generated expressions and statements with every operator pair x nesting x parenthesisation, generated statements, the repository corpus, special statements) and every serialiser (AST.SQL, AST.Format, gosqlx.Format, formatter.Format/FormatString, the CLI SQLFormatter) x option combination (pairwise-covering in quick, all in thorough): output accepted, tree equal up to keyword case, re-formatting returns the same text, token sequences agree.',
    note=common.BASE_NOTE + "Lexing of the printed text is C04's theorem: the tie tokenizes the Go output with the real tokenizer. Statement-level printers (SELECT/DML/DDL clauses, the Format and CLI layouts) are covered by the oracle only (exploration level, no statement theorem). The theorem covers the sub-surface `proved` of C03 (no function calls, CASE, tuples). Keyword-spelling fields (C04 finding parse-keeps-keyword-spelling) are compared case-insensitively as the property text says.",
    design='6/C06')


# ------------------------------------------------------------------------------------------------
# serialiser configurations

def all_options():
    o = [dict(ser="sql")]
    for kw, ist, iw, nl, semi, lw in itertools.product([0, 1, 2], [0, 1], [0, 2, 4], [False, True], [False, True], [0, 80]):
        o.append(dict(ser="astfmt", kw=kw, istyle=ist, iwidth=iw, nl=nl, semi=semi, lw=lw))
    for iw, up, semi, lw in itertools.product([0, 2, 4], [False, True], [False, True], [0, 80]):
        o.append(dict(ser="gosqlx", iwidth=iw, upper=up, semi=semi, lw=lw))
    for iw, up, c in itertools.product([0, 2, 4], [False, True], [False, True]):
        o.append(dict(ser="formatter", iwidth=iw, upper=up, compact=c))
    o.append(dict(ser="fmtstring"))
    for ind, c, up, al in itertools.product(["", "  ", "    ", "\t"], [False, True], [False, True], [False, True]):
        o.append(dict(ser="cli", indent=ind, compact=c, upper=up, align=al))
    return o


def pairwise(opts):
    """greedy pairwise-covering subset per serialiser: every pair of (parameter, value) assignments that occurs in the
    full product occurs in a chosen configuration"""
    out = []
    by = collections.OrderedDict()
    for i, o in enumerate(opts):
        by.setdefault(o["ser"], []).append(i)
    for ser, idx in by.items():
        keys = [k for k in opts[idx[0]] if k != "ser"]
        if not keys:
            out += idx
            continue
        need = set()
        for i in idx:
            for a, b in itertools.combinations(keys, 2):
                need.add((a, opts[i][a], b, opts[i][b]))
        chosen = []
        while need:
            best, bestc = None, -1
            for i in idx:
                c = sum(1 for a, b in itertools.combinations(keys, 2) if (a, opts[i][a], b, opts[i][b]) in need)
                if c > bestc:
                    best, bestc = i, c
            chosen.append(best)
            for a, b in itertools.combinations(keys, 2):
                need.discard((a, opts[best][a], b, opts[best][b]))
        out += sorted(chosen)
    return out


def opt_name(o):
    return o["ser"] + "".join("/%s=%s" % (k, json.dumps(v)) for k, v in o.items() if k != "ser")


OPTS = all_options()


def opts_file():
    path = os.path.join(common.BUILD, "c06_opts.json")
    os.makedirs(common.BUILD, exist_ok=True)
    with open(path, "w") as f:
        json.dump(OPTS, f)
    return path


# ------------------------------------------------------------------------------------------------
# running the implementation

def vh_lines(sub, args, objs, timeout=1500):
    inp = "".join(json.dumps(o) + "\n" for o in objs)
    p = common.vh([sub] + args, input=inp, timeout=timeout)
    outs = [json.loads(l) for l in p.stdout.splitlines() if l.strip()]
    if p.returncode != 0 or len(outs) != len(objs):
        raise common.StageError("harness-" + sub, (p.stderr or "")[-2000:] + " got %d of %d" % (len(outs), len(objs)), tree_caused=True)
    return outs


def run_rt(objs, shards=8):
    """c06rt over the objects, in parallel shards"""
    of = opts_file()
    with common.Lock("c06stage"):
        common.stage_harness()
    if len(objs) < 64:
        return vh_lines("c06rt", [of], objs)
    n = (len(objs) + shards - 1) // shards
    parts = [objs[i:i + n] for i in range(0, len(objs), n)]
    out = []
    with concurrent.futures.ThreadPoolExecutor(max_workers=shards) as ex:
        for r in ex.map(lambda p: vh_lines("c06rt", [of], p), parts):
            out += r
    return out


# ------------------------------------------------------------------------------------------------
# failure signatures, shrinking

SER_FAMILY = {"sql": "sql", "astfmt": "format", "gosqlx": "format", "formatter": "format", "fmtstring": "format", "cli": "cli"}


def fail_sig(f):
    """narrow signature of one failure: serialiser family, kind, struct type + field of the first difference"""
    fam = SER_FAMILY[OPTS[f["opt"]]["ser"]]
    if f["kind"] == "tree":
        return (fam, "tree", f.get("type") or "", f.get("field") or "")
    if f["kind"] == "reject":
        return (fam, "reject", "", "")
    if f["kind"] == "agree":
        return (fam, "agree", "", "")
    return (fam, f["kind"], "", "")


LEX = re.compile(r"""'(?:[^'\\]|''|\\.)*'|"(?:[^"]|"")*"|`[^`]*`|--[^\n]*|/\*.*?\*/|\$\$.*?\$\$|[A-Za-z_@$#][\w$@#]*|\d+(?:\.\d+)?(?:[eE][+-]?\d+)?|::|<>|!=|<=|>=|\|\||->>|->|#>>|#>|@>|<@|\s+|.""", re.S)


def lexemes(sql):
    return [m.group(0) for m in LEX.finditer(sql) if not m.group(0).isspace() and not m.group(0).startswith("--") and not m.group(0).startswith("/*")]


def join_lex(ls):
    return " ".join(ls)


def shrink(sql, sig, opt, budget=40):
    """delta debugging over lexemes: smallest accepted statement that still fails with the same signature under the
    same configuration (or any configuration of the same family)"""
    toks = lexemes(sql)
    def still(cands):
        objs = [{"id": str(i), "sql": join_lex(c), "opts": [opt], "max_fails": 3} for i, c in enumerate(cands)]
        outs = run_rt(objs)
        for c, o in zip(cands, outs):
            if o.get("accepted") and any(fail_sig(f) == sig for f in o.get("fails", [])):
                return c
        return None
    rounds = 0
    chunk = max(1, len(toks) // 2)
    while rounds < budget and len(toks) > 1:
        rounds += 1
        cands = []
        for i in range(0, len(toks), chunk):
            c = toks[:i] + toks[i + chunk:]
            if c:
                cands.append(c)
        # balanced groups: drop "( ... )" or replace it by a plain name; drop "x ," list items
        if chunk <= 4:
            stack = []
            for i, t in enumerate(toks):
                if t == "(":
                    stack.append(i)
                elif t == ")" and stack:
                    j = stack.pop()
                    cands.append(toks[:j] + toks[i + 1:])
                    cands.append(toks[:j] + ["a"] + toks[i + 1:])
                    cands.append(toks[:j] + toks[j + 1:i] + toks[i + 1:])
        cands.sort(key=len)
        got = still(cands[:400])
        if got is not None:
            toks = got
            chunk = max(1, min(chunk, len(toks) // 2))
        elif chunk > 1:
            chunk = max(1, chunk // 2)
        else:
            break
    return join_lex(toks)


# ------------------------------------------------------------------------------------------------
# inputs

def expr_statement(toks):
    return "SELECT " + G.text_of(toks) + " FROM t"


def gather_inputs(rng, tier):
    """list of dict(id, sql, src)"""
    items = []
    # 1. model-generated expressions: every (outer operator, slot, inner operator) x parenthesisation variant
    pcs = G.pair_cases()
    if tier == "quick":
        keep = []
        for i in range(0, len(pcs), 3):
            trio = pcs[i:i + 3]
            keep.append(trio[(i // 3) % 3])
        pcs = keep
    for cid, e, rho in pcs:
        items.append(dict(id=cid, sql=expr_statement(G.Renderer(rho).render(0, e)), src="pair", e=e))
    n_rand = 400 if tier == "quick" else 6000
    for i in range(n_rand):
        e = G.rand_expr(rng, rng.choice([2, 3, 4, 6, 8, 12, 20, 30]))
        rho = G.rand_rho(rng, e, rng.choice([0.0, 0.1, 0.3]))
        if G.pdepth(0, e, rho) + 3 > 95:
            continue
        ctx = rng.randrange(4)
        body = G.text_of(G.Renderer(rho).render(0, e))
        sql = ["SELECT %s FROM t", "SELECT a FROM t WHERE %s", "UPDATE t SET a = %s", "SELECT a FROM t JOIN u ON %s"][ctx] % body
        items.append(dict(id="rexpr:%d" % i, sql=sql, src="rand-expr", e=e))
    # 2. model-generated statements (C03 reference surface)
    gen = G.StmtGen(rng)
    for i in range(500 if tier == "quick" else 8000):
        s = gen.statement()
        rd = G.StmtRenderer(rng, rng.choice([0.0, 0.0, 0.1, 0.25]))
        try:
            sql = " ".join(rd.S(s))
        except RecursionError:
            continue
        items.append(dict(id="mstmt:%d" % i, sql=sql, src="model-stmt"))
    # 3. sqlgen statements
    for i, s in enumerate(sqlgen.generated_statements(rng, 300 if tier == "quick" else 5000)):
        items.append(dict(id="gen:%d" % i, sql=s, src="sqlgen"))
    # 4. the repository's corpus and the special statements
    for i, s in enumerate(sqlgen.corpus_statements()):
        items.append(dict(id="corpus:%d" % i, sql=s, src="corpus"))
    for i, s in enumerate(sqlgen.SPECIAL):
        items.append(dict(id="special:%d" % i, sql=s, src="special"))
    for i, s in enumerate(EXTRA):
        items.append(dict(id="extra:%d" % i, sql=s, src="special"))
    return items


# statements aimed at the serialiser mechanisms the property names
EXTRA = [
    "SELECT a FROM t WHERE (a OR b) AND c",
    "SELECT a FROM t WHERE a IS NOT NULL AND NOT (b IS NULL)",
    "SELECT a FROM t WHERE NOT EXISTS (SELECT 1 FROM u WHERE u.x = t.x)",
    "SELECT SUM(a) OVER (ORDER BY b ROWS BETWEEN 2 PRECEDING AND 3 FOLLOWING) FROM t",
    "SELECT SUM(a) OVER (PARTITION BY c ORDER BY b RANGE UNBOUNDED PRECEDING) FROM t",
    "SELECT * FROM a JOIN b USING (id, k) LEFT JOIN c USING (z)",
    "SELECT \"select\", \"from\" FROM \"order\" AS \"group\" WHERE \"a b\" = 1",
    "SELECT \"x\"\"y\", t.\"a.b\" FROM \"my table\" t",
    "WITH \"select\" AS (SELECT 1) SELECT * FROM \"select\"",
    "SELECT 'it''s', 'a\\\\b', 'line\\nbreak', 'tab\\there', '' FROM t",
    "SELECT INTERVAL '1 day', INTERVAL 3 DAY, d + INTERVAL '2 hours' FROM t",
    "SELECT DISTINCT a, b FROM t",
    "SELECT a - (b - c), a - b - c, a / (b * c), (a + b) * c, a || (b || c) FROM t",
    "SELECT a FROM t WHERE a NOT BETWEEN 1 AND 2 AND b NOT IN (1, 2) AND c NOT LIKE 'x%' AND d NOT ILIKE 'y'",
    "SELECT a FROM t WHERE (a = b) = c OR a = (b = c) OR (a IS NULL) IS NULL OR (a BETWEEN 1 AND 2) = TRUE",
    "SELECT a FROM t WHERE NOT (a AND b) OR NOT a AND b",
    "SELECT (a + b)::int, a + b::int, CAST(a + b AS text), (NOT a)::text FROM t",
    "SELECT CASE WHEN (a OR b) AND c THEN 1 ELSE 2 END, f((a, b), (c OR d) AND e) FROM t",
    "SELECT a FROM t; SELECT b FROM u; DELETE FROM v WHERE (a OR b) AND c",
    "INSERT INTO t SELECT a FROM u UNION SELECT b FROM v",
    "SELECT a FROM t UNION ALL SELECT b FROM u EXCEPT SELECT c FROM v",
    "select a from t where a = 1 and b like 'x' or c is not null order by a desc nulls last",
    "SELECT a FROM t WHERE a = TRUE AND b = false AND c IS NULL",
]


# ------------------------------------------------------------------------------------------------
# known findings

def known_match(k, sig, shrunk_types):
    s = k["signature"]
    if s.get("family") and sig[0] not in s["family"]:
        return False
    if s.get("fail_kind") and s["fail_kind"] != sig[1]:
        return False
    if s.get("type") is not None and (s.get("type"), s.get("field")) != (sig[2], sig[3]):
        return False
    need = set(s.get("node_types", []))
    if need and not need <= set(shrunk_types or []):
        return False
    return True


def witness_outcome(w):
    o = run_rt([{"id": "w", "sql": w["sql"], "max_fails": 50}])[0]
    return o


def run_known(rp, kf):
    for k in kf:
        w = k["witness"]
        o = witness_outcome(w)
        fails = [f for f in o.get("fails", []) if not k["signature"].get("family") or SER_FAMILY[OPTS[f["opt"]]["ser"]] in k["signature"]["family"]]
        if k["status"] == "fixed":
            ok = o.get("accepted") and not fails
            rp.obligation("fixed finding stays fixed: " + k["key"], ok, "" if ok else json.dumps(fails[:1])[:300])
            if not ok:
                rp.violation(dict(kind="roundtrip", sql=w["sql"], fails=fails[:3], note="defect recorded as fixed in %s is back" % k.get("commit")), "fixed_" + k["key"])
        else:
            still = o.get("accepted") and any(known_match(k, fail_sig(f), o.get("types")) for f in fails)
            if still:
                rp.known(k["key"], k["what"])
            else:
                rp.cov["notes"].append("stale known finding (witness holds now): " + k["key"])
            rp.cov.setdefault("known_witnesses", {})[k["key"]] = {"witness_fails": bool(still)}


# ------------------------------------------------------------------------------------------------
# the oracle

def run_oracle(rp, tier, rng, kf):
    items = gather_inputs(rng, tier)
    use = list(range(len(OPTS))) if tier != "quick" else pairwise(OPTS)
    rp.cov["configurations_total"] = len(OPTS)
    rp.cov["configurations_run_per_input"] = len(use)
    rp.cov["configurations"] = collections.Counter(OPTS[i]["ser"] for i in use)
    objs = [{"id": it["id"], "sql": it["sql"], "opts": use} for it in items]
    outs = run_rt(objs)
    accepted = 0
    by_src = collections.Counter()
    rej_src = collections.Counter()
    kinds = collections.Counter()
    node_types = collections.Counter()
    groups = collections.OrderedDict()
    runs = 0
    for it, o in zip(items, outs):
        it["out"] = o
        by_src[it["src"]] += 1
        if o.get("panic"):
            groups.setdefault(("harness", "panic", "", ""), []).append((it, {"opt": 0, "kind": "panic", "detail": o["panic"]}))
            continue
        if not o["accepted"]:
            rej_src[it["src"]] += 1
            continue
        accepted += 1
        runs += o["runs"]
        for k in o.get("kinds", []):
            kinds[k] += 1
        for t in o.get("types", []):
            node_types[t] += 1
        for f in o.get("fails", []):
            groups.setdefault(fail_sig(f), []).append((it, f))
    rp.cov["inputs"] = dict(by_src)
    rp.cov["inputs_rejected_by_parser"] = dict(rej_src)
    rp.cov["accepted_inputs"] = accepted
    rp.cov["serialisations_checked"] = runs
    rp.cov["statement_kinds"] = dict(kinds)
    rp.cov["node_types_reached"] = dict(sorted(node_types.items()))
    corpus_acc = [it for it in items if it["src"] == "corpus" and it["out"].get("accepted")]
    rp.cov["corpus_accepted"] = len(corpus_acc)
    rp.cov["corpus_failing_any_serialiser"] = sum(1 for it in corpus_acc if it["out"].get("fails"))
    rp.cov["corpus_failing_plain_SQL"] = sum(1 for it in corpus_acc if any(OPTS[f["opt"]]["ser"] == "sql" for f in it["out"].get("fails", [])))
    # classify each group: shrink representatives (several for the coarse kinds), match against known findings
    new_groups, known_groups = [], collections.OrderedDict()
    seen_sub = set()
    for sig, members in groups.items():
        members.sort(key=lambda m: len(m[0]["sql"]))
        reps = [members[0]]
        if sig[1] != "tree":
            seen_t = {tuple(members[0][0]["out"].get("types") or [])}
            for m in members[1:]:
                t = tuple(m[0]["out"].get("types") or [])
                if t not in seen_t and len(reps) < int(os.environ.get("C06_REPS", 6 if tier == "quick" else 16)):
                    seen_t.add(t); reps.append(m)
        for it, f in reps:
            small, stypes = it["sql"], it["out"].get("types")
            if sig[1] != "panic" and len(it["sql"]) < 4000:
                try:
                    small = shrink(it["sql"], sig, f["opt"], budget=25 if tier == "quick" else 60)
                    so = run_rt([{"id": "s", "sql": small, "opts": [f["opt"]]}])[0]
                    stypes = so.get("types")
                    f2 = [x for x in so.get("fails", []) if fail_sig(x) == sig]
                    if f2:
                        f = f2[0]
                except common.StageError:
                    pass
            sub = (sig, tuple(stypes or []))
            if sub in seen_sub:
                continue
            seen_sub.add(sub)
            hit = [k for k in kf if k["status"] == "known" and known_match(k, sig, stypes)]
            rec = dict(signature=list(sig), count=len(members), minimal=small, node_types=stypes, config=opt_name(OPTS[f["opt"]]),
                       failure={x: f.get(x) for x in ("kind", "type", "field", "path", "a", "b", "code", "out", "detail") if f.get(x)},
                       first_input=it["sql"][:600], first_id=it["id"])
            if hit:
                known_groups.setdefault(hit[0]["key"], []).append(rec)
            else:
                new_groups.append(rec)
    with open(os.path.join(common.BUILD, "c06_groups.json"), "w") as fh:
        json.dump(dict(new=new_groups, known=known_groups), fh, indent=1)
    rp.cov["failure_groups_known"] = {k: sum(r["count"] for r in v) for k, v in known_groups.items()}
    rp.cov["failure_groups_new"] = len(new_groups)
    return items, new_groups, known_groups


THEOREMS = []


def run(tier):
    rp = Report("C06", tier)
    rng = random.Random(common.seed())
    kf = common.known_findings("C06")
    try:
        with common.Lock():
            common.stage_harness()
    except common.StageError as e:
        return common.stage_fail(rp, e)
    try:
        items, new_groups, known_groups = run_oracle(rp, tier, rng, kf)
        run_known(rp, kf)
    except common.StageError as e:
        return common.stage_fail(rp, e)
    rp.obligation("oracle: every serialiser x configuration output is accepted, re-parses to the same tree, is a fixpoint of the serialiser and agrees with SQL() on tokens",
                  not new_groups, "%d failure groups" % len(new_groups))
    for g in new_groups[:40]:
        rp.violation(dict(kind="roundtrip", sql=g["minimal"], config=g["config"], signature=g["signature"], count=g["count"],
                          failure=g["failure"], first_input=g["first_input"]),
                     "rt_%s_%s_%s_%s_%d" % (tuple(g["signature"]) + (new_groups.index(g),)))
    rp.cov["evaluations"] = rp.cov.get("serialisations_checked", 0)
    rp.cov["distinct_nontrivial"] = len({it["sql"] for it in items if it["out"].get("accepted") and len(it["out"].get("types", [])) >= 4})
    rp.cov["rule"] = "every (outer operator, slot, inner operator) expression x parenthesisation variant, random reference expressions in four clause positions, model statements of the C03 surface, sqlgen statements, repository corpus, special statements; x serialiser configurations (pairwise-covering quick / all thorough)"
    rp.cov["samples"] = [it["sql"][:200] for it in items[:2]] + [it["sql"][:200] for it in items if it["src"] == "model-stmt"][:2]
    return rp.finish()


def replay(path):
    r = json.load(open(path))
    if r.get("kind") == "roundtrip":
        o = run_rt([{"id": "r", "sql": r["sql"], "max_fails": 20}])[0]
        sig = tuple(r.get("signature") or ())
        bad = (not o.get("accepted")) or [f for f in o.get("fails", []) if not sig or fail_sig(f) == sig]
        print("replay: %s -> %s" % (r["sql"][:200], "STILL FAILS" if bad else "holds"))
        if bad and bad is not True:
            print("  ", json.dumps(bad[0])[:500])
        return 1 if bad else 0
    print("replay: no implementation input in this file (%s)" % r.get("kind"))
    return 1


if __name__ == "__main__":
    import sys
    sys.exit(run(sys.argv[1] if len(sys.argv) > 1 else "quick"))
