"""C06 — serialising a tree and re-parsing gives the same tree; formatting is stable."""
import collections, concurrent.futures, itertools, json, os, random, re
import common, sqlgen
import c03gen as G
from common import Report, log

MANIFEST = dict(
    technique='Coq proof that a Gallina mirror of the expression serialiser (exprSQL with precedence-aware parentheses, identifier quoting, string escaping) prints every reference expression as one of its admissible renderings, composed with the C03 parser theorem into an unbounded print -> parse round trip; printer tied to Go SQL() on reflected real trees; implementation-side round-trip / idempotence / serialiser-agreement oracle over every serialiser x option combination',
    text='Model/ExprPrint.v mirrors pkg/sql/ast/sql.go for expressions (BinaryExpression/UnaryExpression/Between/In/Cast/literal/identifier printers, operandSQL parenthesisation, safeIdentifier, escapeStringLiteral) over the typed tree mirror of C03, producing the token list. Theorems (Props/C06.v): the printer output of the prescribed tree of every reference expression of the proved sub-surface is a rendering `render 0 rho e` with only required parentheses (print_is_render), hence with C03_parse_render_expr_partial the model parser maps it back to exactly that tree with nothing left over (C06_print_parse_expr; no size bound, any follow token, any depth limit the nesting fits in); the string-literal and identifier codecs round-trip (literal_roundtrip, ident_roundtrip) for all contents without typographic quotes; formatting is idempotent where the formatter is print after parse (format_idempotent); refuted witnesses for the pinned printer (no parentheses, IS NOT NULL printed IS NULL) with the defect switches on. Tie: Go SQL() and print_expr are run on the same real trees (parser output for generated expressions, reflected into the typed mirror) and must give the same token sequence (real tokenizer on the Go text). Oracle (implementation only, independent of the model): for every accepted input (model-generated expressions and statements with every operator pair x nesting x parenthesisation, generated statements, the repository corpus, special statements) and every serialiser (AST.SQL, AST.Format, gosqlx.Format, formatter.Format/FormatString, the CLI SQLFormatter) x option combination (pairwise-covering in quick, all in thorough): output accepted, tree equal up to keyword case, re-formatting returns the same text, token sequences agree.',
    note=common.BASE_NOTE + "Lexing of the printed text is C04's theorem: the tie tokenizes the Go output with the real tokenizer. Statement-level printers (SELECT/DML/DDL clauses, the Format and CLI layouts) are covered by the oracle only (exploration level, no statement theorem). The theorem covers the sub-surface `proved` of C03 (no function calls, CASE, tuples). Keyword-spelling fields (C04 finding parse-keeps-keyword-spelling) are compared case-insensitively as the property text says.",
    design='6/C06')


# ------------------------------------------------------------------------------------------------
# serialiser configurations

def all_options():
    o = [dict(ser="sql")]
    for kw, ist, iw, nl, semi, lw in itertools.product([0, 1, 2], [0, 1], [0, 2, 4], [False, True], [False, True], [0, 80]):
        o.append(dict(ser="astfmt", kw=kw, istyle=ist, iwidth=iw, nl=nl, semi=semi, lw=lw))
    for iw, up, semi, lw in itertools.product([0, 2, 4], [False, True], [False, True], [0, 80]):
        o.append(dict(ser="gosqlx", iwidth=iw, upper=up, semi=semi, lw=lw))
    for iw, up, c in itertools.product([0, 2, 4], [False, True], [False, True]):
        o.append(dict(ser="formatter", iwidth=iw, upper=up, compact=c))
    o.append(dict(ser="fmtstring"))
    for ind, c, up, al in itertools.product(["", "  ", "    ", "\t"], [False, True], [False, True], [False, True]):
        o.append(dict(ser="cli", indent=ind, compact=c, upper=up, align=al))
    return o


def pairwise(opts):
    """greedy pairwise-covering subset per serialiser: every pair of (parameter, value) assignments that occurs in the
    full product occurs in a chosen configuration"""
    out = []
    by = collections.OrderedDict()
    for i, o in enumerate(opts):
        by.setdefault(o["ser"], []).append(i)
    for ser, idx in by.items():
        keys = [k for k in opts[idx[0]] if k != "ser"]
        if not keys:
            out += idx
            continue
        need = set()
        for i in idx:
            for a, b in itertools.combinations(keys, 2):
                need.add((a, opts[i][a], b, opts[i][b]))
        chosen = []
        while need:
            best, bestc = None, -1
            for i in idx:
                c = sum(1 for a, b in itertools.combinations(keys, 2) if (a, opts[i][a], b, opts[i][b]) in need)
                if c > bestc:
                    best, bestc = i, c
            chosen.append(best)
            for a, b in itertools.combinations(keys, 2):
                need.discard((a, opts[best][a], b, opts[best][b]))
        out += sorted(chosen)
    return out


def opt_name(o):
    return o["ser"] + "".join("/%s=%s" % (k, json.dumps(v)) for k, v in o.items() if k != "ser")


OPTS = all_options()


def opts_file():
    path = os.path.join(common.BUILD, "c06_opts.json")
    os.makedirs(common.BUILD, exist_ok=True)
    with open(path, "w") as f:
        json.dump(OPTS, f)
    return path


# ------------------------------------------------------------------------------------------------
# running the implementation

def vh_lines(sub, args, objs, timeout=1500):
    inp = "".join(json.dumps(o) + "\n" for o in objs)
    p = common.vh([sub] + args, input=inp, timeout=timeout)
    outs = [json.loads(l) for l in p.stdout.splitlines() if l.strip()]
    if p.returncode != 0 or len(outs) != len(objs):
        raise common.StageError("harness-" + sub, (p.stderr or "")[-2000:] + " got %d of %d" % (len(outs), len(objs)), tree_caused=True)
    return outs


def run_rt(objs, shards=8):
    """c06rt over the objects, in parallel shards"""
    of = opts_file()
    with common.Lock("c06stage"):
        common.stage_harness()
    if len(objs) < 64:
        return vh_lines("c06rt", [of], objs)
    n = (len(objs) + shards - 1) // shards
    parts = [objs[i:i + n] for i in range(0, len(objs), n)]
    out = []
    with concurrent.futures.ThreadPoolExecutor(max_workers=shards) as ex:
        for r in ex.map(lambda p: vh_lines("c06rt", [of], p), parts):
            out += r
    return out


# ------------------------------------------------------------------------------------------------
# failure signatures, shrinking

SER_FAMILY = {"sql": "sql", "astfmt": "format", "gosqlx": "format", "formatter": "format", "fmtstring": "format", "cli": "cli"}


def fail_sig(f):
    """narrow signature of one failure: serialiser family, kind, struct type + field of the first difference"""
    fam = SER_FAMILY[OPTS[f["opt"]]["ser"]]
    if f["kind"] == "tree":
        return (fam, "tree", f.get("type") or "", f.get("field") or "")
    if f["kind"] == "reject":
        return (fam, "reject", "", "")
    if f["kind"] == "agree":
        return (fam, "agree", "", "")
    return (fam, f["kind"], "", "")


LEX = re.compile(r"""'(?:[^'\\]|''|\\.)*'|"(?:[^"]|"")*"|`[^`]*`|--[^\n]*|/\*.*?\*/|\$\$.*?\$\$|[A-Za-z_@$#][\w$@#]*|\d+(?:\.\d+)?(?:[eE][+-]?\d+)?|::|<>|!=|<=|>=|\|\||->>|->|#>>|#>|@>|<@|\s+|.""", re.S)


def lexemes(sql):
    return [m.group(0) for m in LEX.finditer(sql) if not m.group(0).isspace() and not m.group(0).startswith("--") and not m.group(0).startswith("/*")]


def join_lex(ls):
    return " ".join(ls)


def shrink(sql, sig, opt, budget=40):
    """delta debugging over lexemes: smallest accepted statement that still fails with the same signature under the
    same configuration (or any configuration of the same family)"""
    toks = lexemes(sql)
    def still(cands):
        objs = [{"id": str(i), "sql": join_lex(c), "opts": [opt], "max_fails": 3} for i, c in enumerate(cands)]
        outs = run_rt(objs)
        for c, o in zip(cands, outs):
            if o.get("accepted") and any(fail_sig(f) == sig for f in o.get("fails", [])):
                return c
        return None
    rounds = 0
    chunk = max(1, len(toks) // 2)
    while rounds < budget and len(toks) > 1:
        rounds += 1
        cands = []
        for i in range(0, len(toks), chunk):
            c = toks[:i] + toks[i + chunk:]
            if c:
                cands.append(c)
        # balanced groups: drop "( ... )" or replace it by a plain name; drop "x ," list items
        if chunk <= 4:
            stack = []
            for i, t in enumerate(toks):
                if t == "(":
                    stack.append(i)
                elif t == ")" and stack:
                    j = stack.pop()
                    cands.append(toks[:j] + toks[i + 1:])
                    cands.append(toks[:j] + ["a"] + toks[i + 1:])
                    cands.append(toks[:j] + toks[j + 1:i] + toks[i + 1:])
        cands.sort(key=len)
        got = still(cands[:400])
        if got is not None:
            toks = got
            chunk = max(1, min(chunk, len(toks) // 2))
        elif chunk > 1:
            chunk = max(1, chunk // 2)
        else:
            break
    return join_lex(toks)


# ------------------------------------------------------------------------------------------------
# inputs

def expr_statement(toks):
    return "SELECT " + G.text_of(toks) + " FROM t"


def gather_inputs(rng, tier):
    """list of dict(id, sql, src)"""
    items = []
    # 1. model-generated expressions: every (outer operator, slot, inner operator) x parenthesisation variant
    pcs = G.pair_cases()
    if tier == "quick":
        keep = []
        for i in range(0, len(pcs), 3):
            trio = pcs[i:i + 3]
            keep.append(trio[(i // 3) % 3])
        pcs = keep
    for cid, e, rho in pcs:
        items.append(dict(id=cid, sql=expr_statement(G.Renderer(rho).render(0, e)), src="pair", e=e))
    # unary signs against every operator, sign chains (a sign under a sign must never be written as a comment opener)
    if hasattr(G, "neg_cases"):
        for cid, e, rho in G.neg_cases():
            items.append(dict(id=cid, sql=expr_statement(G.Renderer(rho).render(0, e)), src="pair", e=e))
    n_rand = 400 if tier == "quick" else 6000
    for i in range(n_rand):
        e = G.rand_expr(rng, rng.choice([2, 3, 4, 6, 8, 12, 20, 30]))
        if hasattr(G, "with_signs") and rng.random() < 0.3:
            e = G.with_signs(rng, e, 0.25)
        rho = G.rand_rho(rng, e, rng.choice([0.0, 0.1, 0.3]))
        if G.pdepth(0, e, rho) + 3 > 95:
            continue
        ctx = rng.randrange(4)
        body = G.text_of(G.Renderer(rho).render(0, e))
        sql = ["SELECT %s FROM t", "SELECT a FROM t WHERE %s", "UPDATE t SET a = %s", "SELECT a FROM t JOIN u ON %s"][ctx] % body
        items.append(dict(id="rexpr:%d" % i, sql=sql, src="rand-expr", e=e))
    # 2. model-generated statements (C03 reference surface)
    gen = G.StmtGen(rng)
    for i in range(500 if tier == "quick" else 8000):
        s = gen.statement()
        rd = G.StmtRenderer(rng, rng.choice([0.0, 0.0, 0.1, 0.25]))
        try:
            sql = " ".join(rd.S(s))
        except RecursionError:
            continue
        items.append(dict(id="mstmt:%d" % i, sql=sql, src="model-stmt"))
    # 3. sqlgen statements
    for i, s in enumerate(sqlgen.generated_statements(rng, 300 if tier == "quick" else 5000)):
        items.append(dict(id="gen:%d" % i, sql=s, src="sqlgen"))
    # 4. the repository's corpus and the special statements
    for i, s in enumerate(sqlgen.corpus_statements()):
        items.append(dict(id="corpus:%d" % i, sql=s, src="corpus"))
    for i, s in enumerate(sqlgen.SPECIAL):
        items.append(dict(id="special:%d" % i, sql=s, src="special"))
    for i, s in enumerate(EXTRA):
        items.append(dict(id="extra:%d" % i, sql=s, src="special"))
    # 5. comments that share a line with code, in front of and between clauses (the comment-preserving formatters must
    #    stay stable under a second pass whatever number of comments a statement carries)
    base = [it["sql"] for it in items if it["src"] in ("sqlgen", "model-stmt") and len(it["sql"]) < 200 and "--" not in it["sql"] and "/*" not in it["sql"]]
    rng.shuffle(base)
    for i, s in enumerate(base[:60 if tier == "quick" else 600]):
        items.append(dict(id="cmt:%d" % i, sql=comment_variant(rng, s), src="commented"))
    for i, s in enumerate(COMMENTED):
        items.append(dict(id="cmtx:%d" % i, sql=s, src="commented"))
    return items


COMMENTED = [
    "SELECT id, -- surrogate key\n name -- display name\nFROM users",
    "SELECT a -- one\nFROM t -- two\nWHERE a = 1 -- three",
    "-- head\nSELECT a FROM t -- tail",
    "SELECT a /* b1 */ FROM t /* b2 */ WHERE a = 1 /* b3 */",
    "SELECT a, /* b1 */ b -- l1\nFROM t",
    "/* head */ SELECT a FROM t; -- after first\nSELECT b FROM u -- after second",
    "SELECT a FROM t\n-- own line 1\n-- own line 2\nWHERE a = 1",
]


def comment_variant(rng, sql):
    """the statement with line / block comments placed at clause boundaries (each line comment ends its line)"""
    import re
    n = [0]
    def deco(m):
        n[0] += 1
        k = rng.randrange(4)
        if k == 0:
            return " -- c%d\n%s " % (n[0], m.group(1))
        if k == 1:
            return " /* c%d */ %s " % (n[0], m.group(1))
        if k == 2:
            return " /* c%d */ -- d%d\n%s " % (n[0], n[0], m.group(1))
        return " %s " % m.group(1)
    out = re.sub(r" (FROM|WHERE|GROUP BY|ORDER BY|HAVING|LIMIT|JOIN|SET|VALUES) ", deco, sql)
    if rng.random() < 0.5:
        out += " -- end"
    if rng.random() < 0.3:
        out = "-- head\n" + out
    return out


# statements aimed at the serialiser mechanisms the property names
EXTRA = [
    "SELECT a FROM t WHERE (a OR b) AND c",
    "SELECT a FROM t WHERE a IS NOT NULL AND NOT (b IS NULL)",
    "SELECT a FROM t WHERE NOT EXISTS (SELECT 1 FROM u WHERE u.x = t.x)",
    "SELECT SUM(a) OVER (ORDER BY b ROWS BETWEEN 2 PRECEDING AND 3 FOLLOWING) FROM t",
    "SELECT SUM(a) OVER (PARTITION BY c ORDER BY b RANGE UNBOUNDED PRECEDING) FROM t",
    "SELECT * FROM a JOIN b USING (id, k) LEFT JOIN c USING (z)",
    "SELECT \"select\", \"from\" FROM \"order\" AS \"group\" WHERE \"a b\" = 1",
    "SELECT \"x\"\"y\", t.\"a.b\" FROM \"my table\" t",
    "WITH \"select\" AS (SELECT 1) SELECT * FROM \"select\"",
    "SELECT 'it''s', 'a\\\\b', 'line\\nbreak', 'tab\\there', '' FROM t",
    "SELECT INTERVAL '1 day', INTERVAL 3 DAY, d + INTERVAL '2 hours' FROM t",
    "SELECT DISTINCT a, b FROM t",
    "SELECT a - (b - c), a - b - c, a / (b * c), (a + b) * c, a || (b || c) FROM t",
    "SELECT a FROM t WHERE a NOT BETWEEN 1 AND 2 AND b NOT IN (1, 2) AND c NOT LIKE 'x%' AND d NOT ILIKE 'y'",
    "SELECT a FROM t WHERE (a = b) = c OR a = (b = c) OR (a IS NULL) IS NULL OR (a BETWEEN 1 AND 2) = TRUE",
    "SELECT a FROM t WHERE NOT (a AND b) OR NOT a AND b",
    "SELECT (a + b)::int, a + b::int, CAST(a + b AS text), (NOT a)::text FROM t",
    "SELECT CASE WHEN (a OR b) AND c THEN 1 ELSE 2 END, f((a, b), (c OR d) AND e) FROM t",
    "SELECT a FROM t; SELECT b FROM u; DELETE FROM v WHERE (a OR b) AND c",
    "INSERT INTO t SELECT a FROM u UNION SELECT b FROM v",
    "SELECT a FROM t UNION ALL SELECT b FROM u EXCEPT SELECT c FROM v",
    "select a from t where a = 1 and b like 'x' or c is not null order by a desc nulls last",
    "SELECT a FROM t WHERE a = TRUE AND b = false AND c IS NULL",
    "SELECT - -a, -(-1), -(+a), +(-a), - - -a, a - -b, a - (-b), -(a - b), -a::int, (-a)::int FROM t",
    "SELECT a FROM t WHERE x BETWEEN -(-1) AND - -5 AND y IN (-1, -(-2)) AND -a < - -b",
    "SELECT a::numeric::int, CAST(CAST(a AS text) AS int), (a::int)::text::varchar(10) FROM t",
    "SELECT a" + "::int" * 120 + " FROM t",
    "SELECT $$it\u2019s$$, '\\'x', 'a''b' FROM t",
    "SELECT a FROM t WHERE b = ARRAY[]::varchar[]",
    "ALTER TABLE t ADD COLUMN c INT",
    "ALTER POLICY p ON t RENAME TO q",
    "ALTER CONNECTOR c SET DCPROPERTIES (b = '2', a = 'it''s')",
    "MERGE INTO target t USING source s ON t.id = s.id WHEN MATCHED THEN UPDATE SET val = s.val WHEN NOT MATCHED THEN INSERT (id, val) VALUES (s.id, s.val)",
]


# ------------------------------------------------------------------------------------------------
# known findings

def known_match(k, sig, shrunk_types, minimal=None):
    """a failure (signature of the shrunk statement, its node types, its text) belongs to known finding k iff every
    criterion the entry lists holds: serialiser family, failure kind, (type, field) of the first tree difference (one pair
    or a list of pairs), node types that must occur in the minimal statement, a regular expression its text matches"""
    s = k["signature"]
    if s.get("family") and sig[0] not in s["family"]:
        return False
    if s.get("fail_kind") and sig[1] not in (s["fail_kind"] if isinstance(s["fail_kind"], list) else [s["fail_kind"]]):
        return False
    if sig[1] == "tree":
        if s.get("fields") is not None:
            if [sig[2], sig[3]] not in s["fields"]:
                return False
        elif s.get("type") is not None and (s.get("type"), s.get("field")) != (sig[2], sig[3]):
            return False
    need = set(s.get("node_types", []))
    if need and not need <= set(shrunk_types or []):
        return False
    if s.get("sql_regex") and not (minimal is not None and re.search(s["sql_regex"], minimal, re.S)):
        return False
    return True


def witness_outcome(w):
    o = run_rt([{"id": "w", "sql": w["sql"], "max_fails": 50}])[0]
    return o


def run_known(rp, kf):
    for k in kf:
        w = k["witness"]
        if w.get("kind") == "codec":
            o = vh_lines("c06lit", [], [{"id": "w", "bytes": w["bytes"]}])[0]
            side = o["lit" if w.get("what", "literal") == "literal" else "ident"]
            fails_now = not side["same"]
            detail = json.dumps(side)[:300]
        elif w.get("kind") == "expr":
            o = vh_lines("c06expr", [], [{"id": "w", "sql": w["sql"]}])[0]
            fails_now = (not o.get("accepted")) or bool(o.get("reparse")) or bool(o.get("panic"))
            detail = (o.get("reparse") or o.get("panic") or "")[:300]
        else:
            o = witness_outcome(w)
            fams = k["signature"].get("family")
            fails = [f for f in o.get("fails", []) if not fams or SER_FAMILY[OPTS[f["opt"]]["ser"]] in fams]
            if k["status"] == "known":
                fails = [f for f in fails if known_match(k, fail_sig(f), o.get("types"), w["sql"])]
            fails_now = (not o.get("accepted")) or bool(fails) or bool(o.get("panic"))
            detail = json.dumps(fails[:1])[:300]
        if k["status"] == "fixed":
            rp.obligation("fixed finding stays fixed: " + k["key"], not fails_now, "" if not fails_now else detail)
            if fails_now:
                rp.violation(dict(w, detail=detail, note="defect recorded as fixed in %s is back" % k.get("commit")), "fixed_" + k["key"])
        else:
            if fails_now:
                rp.known(k["key"], k["what"])
            else:
                rp.cov["notes"].append("stale known finding (witness holds now): " + k["key"])
            rp.cov.setdefault("known_witnesses", {})[k["key"]] = {"witness_fails": bool(fails_now)}


# ------------------------------------------------------------------------------------------------
# tie: Go SQL() vs Model/ExprPrint.print_expr on reflected real trees; codec model vs escapeStringLiteral / tokenizer

COQ_HEAD = ("From Coq Require Import List String Ascii NArith ZArith.\n"
            "From GV Require Import Spec.RefGrammar Model.Expr Model.ExprParse Model.ExprPrint.\n"
            "Import ListNotations.\nLocal Open Scope string_scope.\n")
PF_TREE = "print_tree"       # the defect switches as the tree has them (known_findings.d/C06.json)
CF_TREE = "codec_tree"


def coq_eval(name, decls, value, timeout=900):
    body = COQ_HEAD + decls + "\nDefinition results := Eval vm_compute in (%s).\nPrint results.\n" % value
    ok, out, err = common.coq_cases(name, body, timeout=timeout)
    if not ok:
        raise common.StageError("coq-cases", "case file %s failed: %s" % (name, err[-1500:]))
    return common.parse_nlist(out)


def coq_eval_shards(name, items, mk_case, fn, shard=300, decl_type=None):
    shards = [items[i:i + shard] for i in range(0, len(items), shard)]
    def one(ix):
        terms = [mk_case(x) for x in shards[ix]]
        decls = "Definition cases%s := [\n  %s].\n" % ("" if decl_type is None else " : " + decl_type, ";\n  ".join(terms))
        return coq_eval("%s_%d" % (name, ix), decls, "map (%s) cases" % fn)
    res = []
    with concurrent.futures.ThreadPoolExecutor(max_workers=8) as ex:
        for r in ex.map(one, range(len(shards))):
            res += r
    return res


def printable_str(s):
    return all(32 <= ord(c) < 127 or ord(c) >= 128 for c in s)


def coq_gexpr(t):
    """typed mirror (Model/Expr.v gexpr) of a harness tree; None = node type / shape outside the printer model.  The
    emission is checked inside Coq: reflect_expr of the term must equal the dump."""
    if not isinstance(t, dict):
        return None
    k = t.get("_")
    S = G.coq_str
    def C(x):
        r = coq_gexpr(x)
        if r is None:
            raise KeyError("unmodelled")
        return r
    L = lambda l: "[" + "; ".join(C(x) for x in (l or [])) + "]"
    extra = lambda allowed: set(t) - {"_"} - set(allowed)
    try:
        if k == "Identifier" and not extra(["Name", "Table"]):
            return "(GIdent %s %s)" % (S(t.get("Name", "")), S(t.get("Table", "")))
        if k == "LiteralValue" and not extra(["Value", "Type"]):
            v = t.get("Value")
            if v is not None and not isinstance(v, str): return None
            return "(GLit %s %s)" % ("None" if v is None else "(Some %s)" % S(v), S(t.get("Type", "")))
        if k == "BinaryExpression" and not extra(["Left", "Operator", "Right", "Not"]) and "Left" in t:
            r = t.get("Right")
            return "(GBinary %s %s %s %s)" % (C(t["Left"]), S(t.get("Operator", "")), "None" if r is None else "(Some %s)" % C(r),
                                              G.coq_bool(t.get("Not", False)))
        if k == "UnaryExpression" and not extra(["Operator", "Expr"]) and "Expr" in t:
            return "(GUnary %d%%N %s)" % (t.get("Operator", 0), C(t["Expr"]))
        if k == "FunctionCall" and not extra(["Name", "Arguments", "Distinct"]):
            return "(GFunc %s %s %s None [] [] None)" % (S(t.get("Name", "")), L(t.get("Arguments")), G.coq_bool(t.get("Distinct", False)))
        if k == "CaseExpression" and not extra(["Value", "WhenClauses", "ElseClause"]):
            ws = []
            for w in t.get("WhenClauses", []):
                if set(w) - {"_", "Condition", "Result"} or "Condition" not in w or "Result" not in w: return None
                ws.append("(%s, %s)" % (C(w["Condition"]), C(w["Result"])))
            opt = lambda x: "None" if x is None else "(Some %s)" % C(x)
            return "(GCase %s [%s] %s)" % (opt(t.get("Value")), "; ".join(ws), opt(t.get("ElseClause")))
        if k == "CastExpression" and not extra(["Expr", "Type"]) and "Expr" in t:
            return "(GCast %s %s)" % (C(t["Expr"]), S(t.get("Type", "")))
        if k == "InExpression" and not extra(["Expr", "List", "Not"]) and "Expr" in t:
            return "(GIn %s %s None %s)" % (C(t["Expr"]), L(t.get("List")), G.coq_bool(t.get("Not", False)))
        if k == "BetweenExpression" and not extra(["Expr", "Lower", "Upper", "Not"]) and all(x in t for x in ("Expr", "Lower", "Upper")):
            return "(GBetween %s %s %s %s)" % (C(t["Expr"]), C(t["Lower"]), C(t["Upper"]), G.coq_bool(t.get("Not", False)))
        if k == "TupleExpression" and not extra(["Expressions"]):
            return "(GTuple %s)" % L(t.get("Expressions"))
        if k == "IntervalExpression" and not extra(["Value"]):
            return "(GInterval %s)" % S(t.get("Value", ""))
        if k == "ArrayConstructorExpression" and not extra(["Elements"]):
            return "(GArray %s None)" % L(t.get("Elements"))
        if k == "AliasedExpression" and not extra(["Alias", "Expr"]) and "Expr" in t:
            return "(GAliased %s %s)" % (C(t["Expr"]), S(t.get("Alias", "")))
        if k == "ListExpression" and not extra(["Values"]):
            return "(GList %s)" % L(t.get("Values"))
        if k == "RollupExpression" and not extra(["Expressions"]):
            return "(GRollup %s)" % L(t.get("Expressions"))
        if k == "CubeExpression" and not extra(["Expressions"]):
            return "(GCube %s)" % L(t.get("Expressions"))
    except KeyError:
        return None
    return None


class Unmodelled(Exception):
    pass


def coq_gstmt(t):
    """typed mirror (gstmt) of a harness statement tree; raises Unmodelled for shapes outside Model/StmtPrint.v.  Checked in
    Coq against the dump (reflect_stmt)."""
    S = G.coq_str
    B = G.coq_bool
    def only(t, allowed):
        if set(t) - {"_"} - set(allowed):
            raise Unmodelled(t.get("_"))
    def E(x):
        r = coq_gexpr(x)
        if r is None:
            raise Unmodelled("expr")
        return r
    def EL(l): return "[" + "; ".join(E(x) for x in (l or [])) + "]"
    def OE(x): return "None" if x is None else "(Some %s)" % E(x)
    def ptr(x, f):
        if x is None: return "None"
        return "(Some %s)" % f(x["*"])
    Zs = lambda n: "(%d)%%Z" % n
    def strs(l): return "[" + "; ".join(S(x) for x in (l or [])) + "]"
    def order(o):
        only(o, ["Ascending", "Expression", "NullsFirst"])
        return "(GOrder %s %s %s)" % (E(o["Expression"]), B(o.get("Ascending", False)), ptr(o.get("NullsFirst"), B))
    def table(x):
        only(x, ["Alias", "Lateral", "Name", "Subquery"])
        q = x.get("Subquery")
        return "(GTable %s %s %s %s)" % (S(x.get("Name", "")), S(x.get("Alias", "")), "None" if q is None else "(Some %s)" % select(q), B(x.get("Lateral", False)))
    def join(j):
        only(j, ["Condition", "Left", "Right", "Type"])
        return "(GJoin %s %s %s %s)" % (S(j.get("Type", "")), table(j.get("Left", {"_": "TableReference"})), table(j.get("Right", {"_": "TableReference"})), OE(j.get("Condition")))
    def with_(w):
        if w is None: return "None"
        only(w, ["CTEs", "Recursive"])
        ctes = []
        for c in w.get("CTEs", []):
            only(c, ["Columns", "Materialized", "Name", "Statement"])
            ctes.append("(GCte %s %s %s %s)" % (S(c.get("Name", "")), strs(c.get("Columns")), stmt(c["Statement"]), ptr(c.get("Materialized"), B)))
        return "(Some (GWith %s [%s]))" % (B(w.get("Recursive", False)), "; ".join(ctes))
    def fetch(f):
        if f is None: return "None"
        only(f, ["FetchType", "FetchValue", "IsPercent", "WithTies"])
        return "(Some (GFetch %s %s %s %s))" % (S(f.get("FetchType", "")), ptr(f.get("FetchValue"), Zs), B(f.get("IsPercent", False)), B(f.get("WithTies", False)))
    def for_(f):
        if f is None: return "None"
        only(f, ["LockType", "NoWait", "SkipLocked", "Tables"])
        return "(Some (GFor %s %s %s %s))" % (S(f.get("LockType", "")), strs(f.get("Tables")), B(f.get("NoWait", False)), B(f.get("SkipLocked", False)))
    def select(q):
        if q.get("_") != "SelectStatement": raise Unmodelled(q.get("_"))
        only(q, ["Columns", "Distinct", "DistinctOnColumns", "Fetch", "For", "From", "GroupBy", "Having", "Joins", "Limit", "Offset", "OrderBy",
                 "TableName", "Where", "With"])
        return "(GSelect %s %s %s %s [%s] %s [%s] %s %s %s [%s] %s %s %s %s)" % (
            with_(q.get("With")), B(q.get("Distinct", False)), EL(q.get("DistinctOnColumns")), EL(q.get("Columns")),
            "; ".join(table(x) for x in q.get("From", [])), S(q.get("TableName", "")), "; ".join(join(j) for j in q.get("Joins", [])),
            OE(q.get("Where")), EL(q.get("GroupBy")), OE(q.get("Having")), "; ".join(order(o) for o in q.get("OrderBy", [])),
            ptr(q.get("Limit"), Zs), ptr(q.get("Offset"), Zs), fetch(q.get("Fetch")), for_(q.get("For")))
    def upd(l):
        out = []
        for u in l or []:
            only(u, ["Column", "Value"])
            out.append("(%s, %s)" % (E(u["Column"]), E(u["Value"])))
        return "[" + "; ".join(out) + "]"
    def conflict(c):
        if c is None: return "None"
        only(c, ["Action", "Constraint", "Target"])
        a = c.get("Action", {"_": "OnConflictAction"})
        only(a, ["DoNothing", "DoUpdate", "Where"])
        return "(Some (GConflict %s %s %s %s %s))" % (EL(c.get("Target")), S(c.get("Constraint", "")), B(a.get("DoNothing", False)), upd(a.get("DoUpdate")), OE(a.get("Where")))
    def stmt(x):
        k = x.get("_")
        if k == "SelectStatement":
            return "(GSelectS %s)" % select(x)
        if k == "SetOperation":
            only(x, ["All", "Left", "Operator", "Right"])
            return "(GSetOp %s %s %s %s)" % (stmt(x["Left"]), S(x.get("Operator", "")), stmt(x["Right"]), B(x.get("All", False)))
        if k == "InsertStatement":
            only(x, ["Columns", "OnConflict", "OnDuplicateKey", "Query", "Returning", "TableName", "Values", "With"])
            od = x.get("OnDuplicateKey")
            if od is not None: only(od, ["Updates"])
            rows = "[" + "; ".join(EL(r) for r in x.get("Values", [])) + "]"
            q = x.get("Query")
            return "(GInsert %s %s %s %s %s %s %s %s)" % (with_(x.get("With")), S(x.get("TableName", "")), EL(x.get("Columns")), rows,
                                                       "None" if q is None else "(Some %s)" % stmt(q), EL(x.get("Returning")),
                                                       conflict(x.get("OnConflict")), upd(od.get("Updates") if od else []))
        if k == "UpdateStatement":
            only(x, ["Alias", "Assignments", "From", "Returning", "TableName", "Where", "With"])
            return "(GUpdate %s %s %s %s [%s] %s %s)" % (with_(x.get("With")), S(x.get("TableName", "")), S(x.get("Alias", "")), upd(x.get("Assignments")),
                                                       "; ".join(table(t2) for t2 in x.get("From", [])), OE(x.get("Where")), EL(x.get("Returning")))
        if k == "DeleteStatement":
            only(x, ["Alias", "Returning", "TableName", "Using", "Where", "With"])
            return "(GDelete %s %s %s [%s] %s %s)" % (with_(x.get("With")), S(x.get("TableName", "")), S(x.get("Alias", "")),
                                                    "; ".join(table(t2) for t2 in x.get("Using", [])), OE(x.get("Where")), EL(x.get("Returning")))
        raise Unmodelled(k)
    return stmt(t)


def run_tie_statements(rp, tier, rng, items):
    """Go SQL() of real statements vs Model/StmtPrint.print_stmt on the reflected tree"""
    seen, texts = set(), []
    for it in items:
        if it["src"] in ("model-stmt", "sqlgen", "corpus", "special") and it["out"].get("accepted") and it["sql"] not in seen \
           and printable_str(it["sql"]) and len(it["sql"]) < 3000:
            seen.add(it["sql"]); texts.append((it["id"], it["sql"]))
    rng.shuffle(texts)
    texts = texts[:700 if tier == "quick" else 9000]
    outs = vh_lines("c06stmt", [], [{"id": i, "sql": s} for i, s in texts])
    cases, unmod, oracle_bad = [], 0, []
    for (cid, sql), o in zip(texts, outs):
        if o.get("panic"):
            oracle_bad.append((cid, sql, "panic: " + o["panic"][:200])); continue
        if not o.get("accepted"):
            continue
        if o.get("reparse"):
            oracle_bad.append((cid, sql, o["reparse"]))
        if "tokens" not in o or not printable_str(o.get("sql_out", "")):
            unmod += 1; continue
        try:
            g = coq_gstmt(o["tree"])
        except (Unmodelled, KeyError):
            unmod += 1; continue
        cases.append((cid, sql, o, g))
    def mk(c):
        cid, sql, o, g = c
        toks = "[" + "; ".join(G.coq_tok(t["ty"], t["lit"], t["n"]) for t in o["tokens"]) + "]"
        return "(%s, %s, %s)" % (g, G.coq_sx(o["tree"]), toks)
    head = COQ_HEAD.replace("Model.ExprPrint.", "Model.ExprPrint Spec.RefStmt Model.StmtPrint.")
    shards = [cases[i:i + 150] for i in range(0, len(cases), 150)]
    def one(ix):
        terms = [mk(x) for x in shards[ix]]
        decls = "Definition cases : list (gstmt * sx * list token) := [\n  %s].\n" % ";\n  ".join(terms)
        body = head + decls + "\nDefinition results := Eval vm_compute in (map (print_stmt_case %s) cases).\nPrint results.\n" % PF_TREE
        ok, out, err = common.coq_cases("c06_stmt_%d" % ix, body, timeout=900)
        if not ok:
            raise common.StageError("coq-cases", "case file c06_stmt_%d failed: %s" % (ix, err[-1500:]))
        return common.parse_nlist(out)
    res = []
    with concurrent.futures.ThreadPoolExecutor(max_workers=8) as ex:
        for r in ex.map(one, range(len(shards))):
            res += r
    bad = [(c, r) for c, r in zip(cases, res) if r in (1, 3)]
    rp.cov["tie_stmt_cases"] = len(cases)
    rp.cov["tie_stmt_agree"] = sum(1 for r in res if r == 0)
    rp.cov["tie_stmt_unmodelled"] = sum(1 for r in res if r == 2) + unmod
    kinds = collections.Counter(c[2]["tree"].get("_") for c, r in zip(cases, res) if r == 0)
    rp.cov["tie_stmt_kinds_agree"] = dict(kinds)
    return cases, bad, oracle_bad



def tie_expressions(rng, tier, items):
    """expression texts for the printer correspondence"""
    out = []
    seen = set()
    def add(cid, text):
        if text not in seen and printable_str(text):
            seen.add(text); out.append((cid, text))
    for k, it in enumerate(items):
        if "e" in it and (tier != "quick" or it["src"] != "pair" or k % 2 == 0 or it["id"].startswith("neg")):
            add(it["id"], G.text_of(G.Renderer({}).render(0, it["e"])))
    n = 300 if tier == "quick" else 4000
    for i in range(n):
        e = G.rand_expr(rng, rng.choice([2, 3, 5, 8, 14, 25]))
        if rng.random() < 0.5 and hasattr(G, "with_signs"):
            e = G.with_signs(rng, e, 0.2)
        rho = G.rand_rho(rng, e, rng.choice([0.0, 0.2]))
        try:
            if G.pdepth(0, e, rho) + 3 > 90: continue
        except Exception:
            continue
        add("tie:%d" % i, G.text_of(G.Renderer(rho).render(0, e)))
    for i, t in enumerate(TIE_EXTRA):
        add("tiex:%d" % i, t)
    return out


TIE_EXTRA = [
    '"select" + "a.b" * t."from"', "a IS NOT NULL AND NOT (b IS NULL)", "NOT EXISTS (SELECT 1)", "a -> 'k' ->> 'j'", "- a * - b", "-(a + b)",
    "a - -b", "(-a)::int", "x = ANY (SELECT 1)", "f(DISTINCT a, (b OR c) AND d)", "CASE WHEN (a OR b) AND c THEN 1 ELSE 2 END",
    "(a, b) IN ((1, 2), (3, 4))", "INTERVAL '1 day' + d", "ARRAY[1, a + 2]", "a::numeric(10,2)", "CAST(a AS varchar(20))", "a LIKE 'x' || 'y'",
    "a NOT ILIKE b", "(a = b) = c", "a = (b = c)", "(a IS NULL) IS NULL", "(a BETWEEN 1 AND 2) = TRUE", "a BETWEEN (b = c) AND d",
    "'it''s' || 'a\\\\b' || 'line\\nbreak'", "TRUE AND false OR Null", "a AND (b AND c)", "(a AND b) AND c", "a - (b - c)", "a / (b * c)",
    "a || (b || c)", "NOT (a AND b)", "NOT a AND b", "NOT NOT a", "(NOT a) = b", "$1 + @p", "t.* ", "*",
]


def run_tie_printer(rp, tier, rng, items):
    exprs = tie_expressions(rng, tier, items)
    outs = vh_lines("c06expr", [], [{"id": i, "sql": s} for i, s in exprs])
    cases, unmod_py, rejected, oracle_bad = [], 0, 0, []
    for (cid, sql), o in zip(exprs, outs):
        if o.get("panic"):
            oracle_bad.append((cid, sql, "panic: " + o["panic"][:200])); continue
        if not o.get("accepted"):
            rejected += 1; continue
        if o.get("reparse"):
            oracle_bad.append((cid, sql, o["reparse"]))
        g = coq_gexpr(o["tree"])
        if g is None or not printable_str(o.get("sql_out", "")) or "tokens" not in o:
            unmod_py += 1; continue
        cases.append((cid, sql, o, g))
    def mk(c):
        cid, sql, o, g = c
        toks = "[" + "; ".join(G.coq_tok(t["ty"], t["lit"], t["n"]) for t in o["tokens"]) + "]"
        return "(%s, %s, %s)" % (g, G.coq_sx(o["tree"]), toks)
    res = coq_eval_shards("c06_print", cases, mk, "print_case " + PF_TREE, shard=200, decl_type="list (gexpr * sx * list token)")
    bad = [(c, r) for c, r in zip(cases, res) if r in (1, 3)]
    rp.cov["tie_printer_cases"] = len(cases)
    rp.cov["tie_printer_agree"] = sum(1 for r in res if r == 0)
    rp.cov["tie_printer_unmodelled"] = sum(1 for r in res if r == 2) + unmod_py
    rp.cov["tie_printer_inputs_rejected"] = rejected
    rp.cov["tie_printer_distinct_outputs"] = len({c[2]["sql_out"] for c in cases})
    return cases, bad, oracle_bad


def reserved_candidates():
    """every word the tokenizer / token converter sources spell as an upper-case literal, plus the tokenizer's keyword table"""
    import glob
    words = set()
    for f in (glob.glob(os.path.join(common.REPO, "pkg/sql/keywords/*.go")) + glob.glob(os.path.join(common.REPO, "pkg/sql/tokenizer/*.go"))
              + glob.glob(os.path.join(common.REPO, "pkg/sql/parser/*.go")) + glob.glob(os.path.join(common.REPO, "pkg/models/*.go"))):
        if f.endswith("_test.go"): continue
        try:
            txt = open(f, encoding="utf-8", errors="replace").read()
        except OSError:
            continue
        for m in re.finditer(r'"([A-Za-z_]{1,24})"', txt):
            words.add(m.group(1).upper())
    return sorted(words)


def run_tie_codecs(rp, tier, rng):
    """string literal / identifier codec: model vs Go text vs what the real tokenizer reads back; implementation-side
    round-trip oracle on the same cases"""
    contents = [[b] for b in range(128)]
    special = [0, 9, 10, 13, 26, 34, 39, 92, 96, 32, 97, 46, 42, 95, 48, 110, 114, 116, 90]
    contents += [[a, b] for a in special for b in special]
    n = 300 if tier == "quick" else 5000
    for _ in range(n):
        k = rng.randrange(0, 12)
        contents.append([rng.choice(special) if rng.random() < 0.5 else rng.randrange(0, 128) for _ in range(k)])
    words = reserved_candidates()
    idents = [list(w.lower().encode()) for w in words]
    if tier == "quick":      # the other spellings: a rotating third per run of the quick tier, all in thorough
        idents += [list((w if i % 2 else w.capitalize()).encode()) for i, w in enumerate(words) if i % 3 == common.seed() % 3]
    else:
        idents += [list(w.encode()) for w in words] + [list(w.capitalize().encode()) for w in words]
    idents += [[b] for b in range(1, 128)] + [[97, b, 98] for b in range(1, 128)] + [[b, 97] for b in range(48, 58)]
    for _ in range(n // 2):
        k = rng.randrange(1, 10)
        idents.append([rng.choice([95, 97, 65, 48, 46, 42, 32, 34, 45, 36, 122]) if rng.random() < 0.7 else rng.randrange(1, 128) for _ in range(k)])
    objs = [{"id": "l%d" % i, "bytes": c} for i, c in enumerate(contents)] + [{"id": "i%d" % i, "bytes": c} for i, c in enumerate(idents)]
    outs = vh_lines("c06lit", [], objs)
    lit_cases, id_cases, oracle_bad = [], [], []
    L = lambda l: "[" + "; ".join(str(x) for x in l) + "]"
    for o, c in zip(outs[:len(contents)], contents):
        lit = o["lit"]
        back = None if lit.get("tok_err") or lit["ntok"] != 1 else lit["back"] or []
        lit_cases.append((c, list(lit["text"].encode("utf-8", "surrogateescape")), back))
        expect_ok = 0 not in c            # known: NUL is dropped (codec switch d_drop_nul)
        if expect_ok and not (lit["same"] and lit.get("ty") == "TySQuoted"):
            oracle_bad.append(("literal", c, lit))
    for o, c in zip(outs[len(contents):], idents):
        idn = o["ident"]
        id_cases.append((c, list(idn["text"].encode("utf-8", "surrogateescape"))))
        raw_special = 46 in c or 42 in c       # '.' and '*' are written raw (switch d_dot_safe; the lone * is all columns)
        digit_first = 48 <= c[0] <= 57         # known: written raw and read as a number (switch d_digit_safe)
        if 10 in c or raw_special or digit_first:
            continue
        if not (idn["same"] and idn.get("ty") in ("TyIdent", "TyDQuoted")):
            oracle_bad.append(("identifier", c, idn))
    def mk_l(c):
        return "(%s, %s, %s)" % (L(c[0]), L(c[1]), "None" if c[2] is None else "(Some %s)" % L(c[2]))
    r1 = coq_eval_shards("c06_lit", lit_cases, mk_l, "fun c => if lit_case %s c then 0%%N else 1%%N" % CF_TREE, shard=120,
                         decl_type="list (list nat * list nat * option (list nat))")
    r2 = coq_eval_shards("c06_ident", id_cases, lambda c: "(%s, %s)" % (L(c[0]), L(c[1])),
                         "fun c => if ident_case %s c then 0%%N else 1%%N" % PF_TREE, shard=150, decl_type="list (list nat * list nat)")
    bad = [("literal", c) for c, r in zip(lit_cases, r1) if r] + [("identifier", c) for c, r in zip(id_cases, r2) if r]
    rp.cov["tie_codec_literal_cases"] = len(lit_cases)
    rp.cov["tie_codec_identifier_cases"] = len(id_cases)
    rp.cov["reserved_word_candidates"] = len(words)
    return bad, oracle_bad


# ------------------------------------------------------------------------------------------------
# the oracle

def run_oracle(rp, tier, rng, kf):
    items = gather_inputs(rng, tier)
    use = list(range(len(OPTS))) if tier != "quick" else pairwise(OPTS)
    rp.cov["configurations_total"] = len(OPTS)
    rp.cov["configurations_run_per_input"] = len(use)
    rp.cov["configurations"] = collections.Counter(OPTS[i]["ser"] for i in use)
    objs = [{"id": it["id"], "sql": it["sql"], "opts": use} for it in items]
    outs = run_rt(objs)
    accepted = 0
    by_src = collections.Counter()
    rej_src = collections.Counter()
    kinds = collections.Counter()
    node_types = collections.Counter()
    groups = collections.OrderedDict()
    runs = 0
    for it, o in zip(items, outs):
        it["out"] = o
        by_src[it["src"]] += 1
        if o.get("panic"):
            groups.setdefault(("harness", "panic", "", ""), []).append((it, {"opt": 0, "kind": "panic", "detail": o["panic"]}))
            continue
        if not o["accepted"]:
            rej_src[it["src"]] += 1
            continue
        accepted += 1
        runs += o["runs"]
        for k in o.get("kinds", []):
            kinds[k] += 1
        for t in o.get("types", []):
            node_types[t] += 1
        for f in o.get("fails", []):
            groups.setdefault(fail_sig(f), []).append((it, f))
    rp.cov["inputs"] = dict(by_src)
    rp.cov["inputs_rejected_by_parser"] = dict(rej_src)
    rp.cov["accepted_inputs"] = accepted
    rp.cov["serialisations_checked"] = runs
    rp.cov["statement_kinds"] = dict(kinds)
    rp.cov["node_types_reached"] = dict(sorted(node_types.items()))
    corpus_acc = [it for it in items if it["src"] == "corpus" and it["out"].get("accepted")]
    rp.cov["corpus_accepted"] = len(corpus_acc)
    rp.cov["corpus_failing_any_serialiser"] = sum(1 for it in corpus_acc if it["out"].get("fails"))
    rp.cov["corpus_failing_plain_SQL"] = sum(1 for it in corpus_acc if any(OPTS[f["opt"]]["ser"] == "sql" for f in it["out"].get("fails", [])))
    # classify each group: shrink representatives (several for the coarse kinds), match against known findings
    new_groups, known_groups = [], collections.OrderedDict()
    seen_sub = set()
    for sig, members in groups.items():
        members.sort(key=lambda m: len(m[0]["sql"]))
        reps = [members[0]]
        if sig[1] != "tree":
            seen_t = {tuple(members[0][0]["out"].get("types") or [])}
            for m in members[1:]:
                t = tuple(m[0]["out"].get("types") or [])
                if t not in seen_t and len(reps) < int(os.environ.get("C06_REPS", 6 if tier == "quick" else 16)):
                    seen_t.add(t); reps.append(m)
        for it, f in reps:
            small, stypes = it["sql"], it["out"].get("types")
            if sig[1] != "panic" and len(it["sql"]) < 4000:
                try:
                    small = shrink(it["sql"], sig, f["opt"], budget=25 if tier == "quick" else 60)
                    so = run_rt([{"id": "s", "sql": small, "opts": [f["opt"]]}])[0]
                    stypes = so.get("types")
                    f2 = [x for x in so.get("fails", []) if fail_sig(x) == sig]
                    if f2:
                        f = f2[0]
                except common.StageError:
                    pass
            sub = (sig, tuple(stypes or []))
            if sub in seen_sub:
                continue
            seen_sub.add(sub)
            hit = [k for k in kf if k["status"] == "known" and k["signature"].get("kind") == "roundtrip" and known_match(k, sig, stypes, small)]
            rec = dict(signature=list(sig), count=len(members), minimal=small, node_types=stypes, config=opt_name(OPTS[f["opt"]]),
                       failure={x: f.get(x) for x in ("kind", "type", "field", "path", "a", "b", "code", "out", "detail") if f.get(x)},
                       first_input=it["sql"][:600], first_id=it["id"])
            if hit:
                known_groups.setdefault(hit[0]["key"], []).append(rec)
            else:
                new_groups.append(rec)
    with open(os.path.join(common.BUILD, "c06_groups.json"), "w") as fh:
        json.dump(dict(new=new_groups, known=known_groups), fh, indent=1)
    rp.cov["failure_groups_known"] = {k: sum(r["count"] for r in v) for k, v in known_groups.items()}
    rp.cov["failure_groups_new"] = len(new_groups)
    return items, new_groups, known_groups


THEOREMS = ["Props.C06.C06_print_is_render", "Props.C06.C06_print_parse_expr", "Props.C06.C06_format_canonical",
            "Props.C06.C06_format_idempotent", "Props.C06.C06_literal_roundtrip", "Props.C06.C06_ident_roundtrip",
            "Props.C06.C06_refuted_no_parens", "Props.C06.C06_refuted_is_not_null_lost", "Props.C06.C06_refuted_reserved_raw",
            "Props.C06.C06_refuted_dot_safe", "Props.C06.C06_refuted_digit_safe", "Props.C06.C06_refuted_ctrlz_escape", "Props.C06.C06_refuted_triple_quote",
            "Props.C06.C06_refuted_drop_nul",
            "Props.C06.C06_print_select_is_render", "Props.C06.C06_print_parse_select_partial",
            "Props.C06.C06_print_stmt_is_render", "Props.C06.C06_print_parse_stmt_partial"]


def run(tier):
    rp = Report("C06", tier)
    rng = random.Random(common.seed())
    kf = common.known_findings("C06")
    try:
        with common.Lock():
            common.stage_harness()
            ok_inst, ok_props, _, logs = common.coq_stage(rp, ["theories/Proofs/ExprPrintP.vo", "theories/Proofs/StmtPrintP.vo"], "theories/Props/C06.v", THEOREMS)
            if not ok_inst:
                ok_make, log_make = common.coq_make(["theories/Model/ExprPrint.vo", "theories/Model/StmtPrint.vo"])
                if not ok_make:
                    raise common.StageError("coq-model", log_make[-2000:])
    except common.StageError as e:
        return common.stage_fail(rp, e)
    if not (ok_inst and ok_props):
        rp.violation({"kind": "proof", "theorem": "Proofs/ExprPrintP.v / Props/C06.v", "log": (logs["inst"] + logs["props"])[-3000:]},
                     "props_c06", no_input=True)
    rp.assumptions = ["lexing (text -> tokens) is C04's theorem; per run the Go SQL() text is tokenized with the real tokenizer + converter and compared with the printer model's token list",
                      "theorems cover the expression sub-surface `proved` of C03 with printable names (Props/C06.v); function calls, CASE, tuples, sub-queries, every statement printer and the Format / CLI layouts are covered by the oracle and the printer correspondence only",
                      "byte-level codec models (string literal, quoted identifier) are ASCII: the real reader also normalises typographic quotes; names are compared byte-wise, unicode.IsLetter is taken as true for bytes >= 128"]
    import time as _t
    def phase(name, t0): rp.cov.setdefault("phase_seconds", {})[name] = round(_t.time() - t0, 1)
    phase("coq_stage", rp.t0)
    try:
        t = _t.time(); items, new_groups, known_groups = run_oracle(rp, tier, rng, kf); phase("oracle", t)
        t = _t.time(); pcases, pbad, poracle = run_tie_printer(rp, tier, rng, items); phase("tie_printer", t)
        t = _t.time(); cbad, coracle = run_tie_codecs(rp, tier, rng); phase("tie_codecs", t)
        t = _t.time(); scases, sbad, soracle = run_tie_statements(rp, tier, rng, items); phase("tie_statements", t)
        t = _t.time(); run_known(rp, kf); phase("known_witnesses", t)
    except common.StageError as e:
        return common.stage_fail(rp, e)
    rp.obligation("oracle: every serialiser x configuration output is accepted, re-parses to the same tree, is a fixpoint of the serialiser and agrees with SQL() on tokens",
                  not new_groups, "%d failure groups" % len(new_groups))
    for g in new_groups[:40]:
        rp.violation(dict(kind="roundtrip", sql=g["minimal"], config=g["config"], signature=g["signature"], count=g["count"],
                          failure=g["failure"], first_input=g["first_input"]),
                     "rt_%s_%s_%s_%s_%d" % (tuple(g["signature"]) + (new_groups.index(g),)))
    # expression-level oracle of the tie inputs (independent of the model)
    poracle_new = [x for x in poracle if not any(k["status"] == "known" and k["signature"].get("expr_regex") and re.search(k["signature"]["expr_regex"], x[1]) for k in kf)]
    rp.obligation("oracle: SQL() of every parsed tie expression re-parses to the same expression tree", not poracle_new, "%d failures" % len(poracle_new))
    for cid, sql, why in poracle_new[:5]:
        rp.violation(dict(kind="expr", sql=sql, why=why), "expr_" + re.sub(r"\W+", "_", cid))
    rp.obligation("tie: Go SQL() tokens = Model/ExprPrint.print_expr on the reflected real tree", not pbad, "%d disagreements" % len(pbad))
    for (cid, sql, o, g), r in pbad[:5]:
        failing = bool(o.get("reparse"))
        rp.violation(dict(kind="expr" if failing else "correspondence", broken="ExprPrint.print_expr vs SQL()" if r == 1 else "typed mirror emission vs dump",
                          sql=sql, sql_out=o.get("sql_out"), tokens=o.get("tokens"), why=o.get("reparse")),
                     "print_" + re.sub(r"\W+", "_", cid), no_input=not failing)
    rp.obligation("tie: Go SQL() tokens of real statements = Model/StmtPrint.print_stmt on the reflected tree", not sbad, "%d disagreements" % len(sbad))
    for (cid, sql, o, g), r in sbad[:5]:
        failing = bool(o.get("reparse"))
        rp.violation(dict(kind="roundtrip" if failing else "correspondence", broken="StmtPrint.print_stmt vs SQL()" if r == 1 else "typed mirror emission vs dump",
                          sql=sql, sql_out=o.get("sql_out"), why=o.get("reparse")),
                     "printstmt_" + re.sub(r"\W+", "_", cid), no_input=not failing)
    rp.obligation("tie: codec models = escapeStringLiteral / safeIdentifier text and what the tokenizer reads back", not cbad, "%d disagreements" % len(cbad))
    for kind, c in cbad[:4]:
        rp.violation(dict(kind="correspondence", broken="codec model vs Go (%s)" % kind, case=c), "codec_%s_%d" % (kind, cbad.index((kind, c))), no_input=True)
    rp.obligation("oracle: string literals and identifiers written by SQL() are read back by the tokenizer with the same content", not coracle, "%d failures" % len(coracle))
    for kind, c, got in coracle[:4]:
        rp.violation(dict(kind="codec", what=kind, bytes=c, got=got), "codec_oracle_%s_%d" % (kind, coracle.index((kind, c, got))))
    rp.cov["evaluations"] = rp.cov.get("serialisations_checked", 0) + len(pcases)
    rp.cov["distinct_nontrivial"] = len({it["sql"] for it in items if it["out"].get("accepted") and len(it["out"].get("types", [])) >= 4})
    rp.cov["rule"] = "every (outer operator, slot, inner operator) expression x parenthesisation variant, random reference expressions in four clause positions, model statements of the C03 surface, sqlgen statements, repository corpus, special statements; x serialiser configurations (pairwise-covering quick / all thorough)"
    rp.cov["samples"] = [it["sql"][:200] for it in items[:2]] + [it["sql"][:200] for it in items if it["src"] == "model-stmt"][:2]
    return rp.finish()


def replay(path):
    r = json.load(open(path))
    if r.get("kind") == "roundtrip" or (r.get("sql") and not r.get("kind")):
        o = run_rt([{"id": "r", "sql": r["sql"], "max_fails": 20}])[0]
        sig = tuple(r.get("signature") or ())
        bad = (not o.get("accepted")) or [f for f in o.get("fails", []) if not sig or fail_sig(f) == sig]
        print("replay: %s -> %s" % (r["sql"][:200], "STILL FAILS" if bad else "holds"))
        if bad and bad is not True:
            print("  ", json.dumps(bad[0])[:500])
        return 1 if bad else 0
    if r.get("kind") == "expr":
        o = vh_lines("c06expr", [], [{"id": "r", "sql": r["sql"]}])[0]
        bad = (not o.get("accepted")) or bool(o.get("reparse")) or bool(o.get("panic"))
        print("replay: %s -> %s" % (r["sql"][:200], "STILL FAILS (%s)" % (o.get("reparse") or o.get("panic") or "rejected") if bad else "holds"))
        return 1 if bad else 0
    if r.get("kind") == "codec":
        o = vh_lines("c06lit", [], [{"id": "r", "bytes": r["bytes"]}])[0]
        side = o["lit" if r.get("what") == "literal" else "ident"]
        print("replay: %s %s -> %s" % (r.get("what"), r["bytes"], "holds" if side["same"] else "STILL FAILS"))
        return 0 if side["same"] else 1
    print("replay: no implementation input in this file (%s)" % r.get("kind"))
    return 1


if __name__ == "__main__":
    import sys
    sys.exit(run(sys.argv[1] if len(sys.argv) > 1 else "quick"))
