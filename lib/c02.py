"""C02 — size, token and nesting limits hold for every construct."""
import json, os, random
import common, gen
from common import Report

MANIFEST = dict(
    technique='Coq proof that every realizable call stack is bounded (generic theorem over the static call graph + guard set regenerated from SSA each run, instance by vm_compute) + nesting drivers and limit boundaries on the implementation',
    text="Theorem stack_depth_bounded: for every path in the parser's static call graph on which depth-guard frames have callees only while the counter is within the limit, the number of frames is at most (MaxRecursionDepth+2)*(max rank+1), independent of the input; proved generically and instantiated on the call graph, guard set (recognised semantically on SSA: the counter is found by its role, a function is a guard when on every path it takes every step of the counter back and every call that can reach a cycle happens with the counter stepped once, the decrement deferred and the counter within the limit; helper methods are summarised into their callers) and rank witness regenerated from the current source, the acyclicity hypothesis discharged by complete evaluation. 45+ self-embedding productions are driven to depths around the limit and far beyond in a child process on a reused and a fresh parser (depth-counter leaks, history dependence, crashes); the size limit is proved for every limit value on the tokenizer model (reject above with E1006, no effect at or below), the token bound likewise; both limits are also checked exactly at and one past their boundaries through each entry point of the implementation.",
    note=common.BASE_NOTE + "Static call graph complete for direct calls (dynamic call sites listed in evidence); frame sizes are the compiler's; the size-limit clause is proved on the tokenizer model (tied by the C04 byte-level correspondence); the token-limit clause is proved as an equivalence for every text of the reference lexical grammar (C02_token_limit_iff via the lex_faithful development) and additionally explored at the boundary on the implementation.",
    design='6/C02')



def rep(s, d):
    """s repeated d times with a newline after every 20th copy (the tokenizer's position bookkeeping is
    quadratic in line length; nesting, not line length, is what these inputs are about)"""
    return "".join(s + ("\n" if i % 20 == 19 else "") for i in range(d))


DRIVERS = {
    "paren": lambda d: "SELECT " + rep("(", d) + "a" + rep(")", d) + " FROM t",
    "func": lambda d: "SELECT " + rep("f(", d) + "a" + rep(")", d) + " FROM t",
    "func_multi": lambda d: "SELECT " + rep("COALESCE(1, ", d) + "a" + rep(")", d) + " FROM t",
    "case_when": lambda d: "SELECT " + rep("CASE WHEN a THEN ", d) + "1" + rep(" END", d) + " FROM t",
    "case_cond": lambda d: "SELECT " + rep("CASE WHEN ", d) + "a" + rep(" THEN 1 END", d) + " FROM t",
    "case_else": lambda d: "SELECT " + rep("CASE WHEN a THEN 1 ELSE ", d) + "0" + rep(" END", d) + " FROM t",
    "cast": lambda d: "SELECT " + rep("CAST(", d) + "a" + rep(" AS INT)", d) + " FROM t",
    "not": lambda d: "SELECT * FROM t WHERE " + rep("NOT ", d) + "a",
    "not_paren": lambda d: "SELECT * FROM t WHERE " + rep("NOT (", d) + "a" + rep(")", d),
    "in_subquery": lambda d: rep("SELECT 1 FROM t WHERE a IN (", d) + "SELECT 1 FROM z" + rep(")", d),
    "exists": lambda d: rep("SELECT 1 FROM t WHERE EXISTS (", d) + "SELECT 1 FROM z" + rep(")", d),
    "not_exists": lambda d: rep("SELECT 1 FROM t WHERE NOT EXISTS (", d) + "SELECT 1 FROM z" + rep(")", d),
    "scalar_subquery": lambda d: rep("SELECT (", d) + "SELECT 1" + rep(")", d),
    "cmp_subquery": lambda d: rep("SELECT 1 FROM t WHERE a = (", d) + "SELECT 1 FROM z" + rep(")", d),
    "derived": lambda d: rep("SELECT x FROM (", d) + "SELECT x FROM z" + "".join(") AS d%d%s" % (i, "\n" if i % 20 == 19 else "") for i in range(d)),
    "join_derived": lambda d: rep("SELECT x FROM a JOIN (", d) + "SELECT x FROM z" + "".join(") AS d%d ON 1 = 1%s" % (i, "\n" if i % 20 == 19 else "") for i in range(d)),
    "lateral": lambda d: rep("SELECT x FROM a, LATERAL (", d) + "SELECT x FROM z" + "".join(") AS d%d%s" % (i, "\n" if i % 20 == 19 else "") for i in range(d)),
    "cte": lambda d: "".join("WITH c%d AS (%s" % (i, "\n" if i % 20 == 19 else "") for i in range(d)) + "SELECT 1" + "".join(") SELECT * FROM c%d%s" % (i, "\n" if i % 20 == 19 else "") for i in reversed(range(d))),
    "cte_derived": lambda d: rep("SELECT x FROM (", d) + "WITH c AS (SELECT 1) SELECT x FROM c" + "".join(") AS d%d%s" % (i, "\n" if i % 20 == 19 else "") for i in range(d)),
    "array_subscript": lambda d: "SELECT " + rep("a[", d) + "1" + rep("]", d) + " FROM t",
    "array_ctor": lambda d: "SELECT " + rep("ARRAY[", d) + "1" + rep("]", d),
    "tuple": lambda d: "SELECT * FROM t WHERE a IN (" + rep("(1, ", d) + "2" + rep(")", d) + ")",
    "between": lambda d: "SELECT * FROM t WHERE " + rep("(a BETWEEN ", d) + "1" + rep(" AND 2)", d),
    "extract": lambda d: "SELECT " + rep("EXTRACT(YEAR FROM ", d) + "a" + rep(")", d) + " FROM t",
    "substring": lambda d: "SELECT " + rep("SUBSTRING(", d) + "a" + rep(" FROM 1 FOR 2)", d) + " FROM t",
    "position": lambda d: "SELECT " + rep("POSITION('a' IN ", d) + "s" + rep(")", d) + " FROM t",
    "interval_paren": lambda d: "SELECT " + rep("(", d) + "INTERVAL '1 day'" + rep(")", d),
    "any_subquery": lambda d: rep("SELECT 1 FROM t WHERE a = ANY (", d) + "SELECT 1 FROM z" + rep(")", d),
    "match_against": lambda d: "SELECT " + rep("MATCH (a) AGAINST (", d) + "'x'" + rep(")", d) + " FROM t",
    "window_partition": lambda d: "SELECT SUM(a) OVER (PARTITION BY " + rep("(", d) + "b" + rep(")", d) + ") FROM t",
    "filter": lambda d: "SELECT COUNT(*) FILTER (WHERE " + rep("(", d) + "a" + rep(")", d) + ") FROM t",
    "insert_select": lambda d: "INSERT INTO t (a) SELECT x FROM (" * 1 + rep("SELECT x FROM (", d) + "SELECT x FROM z" + "".join(") AS d%d%s" % (i, "\n" if i % 20 == 19 else "") for i in range(d)) + ") AS o",
    "update_where": lambda d: rep("UPDATE t SET a = 1 WHERE b IN (", d) + "SELECT 1 FROM z" + rep(")", d),
    "delete_where": lambda d: "DELETE FROM t WHERE " + rep("(", d) + "a = 1" + rep(")", d),
    "check_constraint": lambda d: "CREATE TABLE t (a INT CHECK (" + rep("(", d) + "a > 0" + rep(")", d) + "))",
    "default_expr": lambda d: "CREATE TABLE t (a INT DEFAULT " + rep("(", d) + "1" + rep(")", d) + ")",
    "view_derived": lambda d: rep("CREATE VIEW v AS SELECT x FROM (", d) + "SELECT x FROM z" + "".join(") AS d%d%s" % (i, "\n" if i % 20 == 19 else "") for i in range(d)),
    "merge_on": lambda d: "MERGE INTO t USING s ON " + rep("(", d) + "t.a = s.a" + rep(")", d) + " WHEN MATCHED THEN DELETE",
    "setop_paren": lambda d: "SELECT 1 UNION " + rep("(", d) + "SELECT 2" + rep(")", d),
    "having": lambda d: "SELECT a FROM t GROUP BY a HAVING " + rep("(", d) + "COUNT(*) > 1" + rep(")", d),
    "order_by": lambda d: "SELECT a FROM t ORDER BY " + rep("(", d) + "a" + rep(")", d),
    "join_on": lambda d: "SELECT 1 FROM a JOIN b ON " + rep("(", d) + "a.x = b.x" + rep(")", d),
    "on_conflict_where": lambda d: "INSERT INTO t (a) VALUES (1) ON CONFLICT (a) DO UPDATE SET a = 2 WHERE " + rep("(", d) + "t.a > 0" + rep(")", d),
    "returning": lambda d: "DELETE FROM t RETURNING " + rep("(", d) + "a" + rep(")", d),
    "values": lambda d: "INSERT INTO t (a) VALUES (" + rep("(", d) + "1" + rep(")", d) + ")",
    "grouping": lambda d: "SELECT a FROM t GROUP BY ROLLUP(" + rep("(", d) + "a" + rep(")", d) + ")",
}


def run(tier):
    rp = Report("C02", tier)
    try:
        with common.Lock():
            static = common.stage_gotables()
            common.stage_harness()
            common.emit_all_gen()
            cgs, _ = gen.emit_callgraph(static)
            ok_inst, ok_props, _, logs = common.coq_stage(
                rp, ["theories/Inst/Inst_C02.vo", "theories/Proofs/CallGraphP.vo", "theories/Proofs/LexerP.vo", "theories/Proofs/LexFaithP.vo", "theories/Inst/Inst_C04.vo"], "theories/Props/C02.v",
                ["Props.C02.C02_parser_stack_bounded", "Props.C02.C02_tokenizer_stack_bounded",
                 "Props.C02.C02_size_limit", "Props.C02.C02_size_limit_exact", "Props.C02.C02_token_limit_bound_partial",
                 "Props.C02.C02_token_limit_iff"],
                inst_names=["Inst_C02.parser_rank_ok", "Inst_C02.parser_depth_bookkeeping", "Inst_C02.tokenizer_rank_ok"])
    except common.StageError as e:
        return common.stage_fail(rp, e)
    limit = int(static["consts"]["pkg/sql/parser.MaxRecursionDepth"])
    kf = common.known_findings("C02")
    # known call edges still present
    for name, t in cgs.items():
        for (u, v) in t["known"]:
            k = [x for x in kf if x["status"] == "known" and x["signature"].get("caller") == t["funcs"][u] and x["signature"].get("callee") == t["funcs"][v]]
            if (u, v) in set(t["edges"]) and k:
                rp.known(k[0]["key"], k[0]["what"])
    new_cycles = []
    for name, t in cgs.items():
        for c in t["cycles"]:
            new_cycles.append((name, [t["funcs"][i] for i in c]))
    p = cgs["parser"]
    book_ok = p["depth_inc"] == p["guards"] and p["depth_defer_dec"] == p["guards"]
    rp.cov["call_graph"] = {n: {"functions": len(t["funcs"]), "edges": len(t["edges"]), "guards": [t["funcs"][g] for g in t["guards"]],
                                "max_rank": max(t["rank"].values()) if t["rank"] else 0, "dynamic_call_sites": t["dynamic"]} for n, t in cgs.items()}
    rp.cov["stack_bound_frames"] = (limit + 2) * (max(p["rank"].values()) + 1)
    rp.cov["depth_guard_recogniser"] = {"counter_field": p.get("depth_field"), "helpers_inlined": p.get("depth_helpers"),
                                        "guard_bounds": {p["funcs"][g]: l for g, l in (p.get("guard_limits") or {}).items()},
                                        "rule": "semantic over SSA (tools/gotables/depthguard.go): counter found by role; per function a forward data flow (net steps, registered deferred decrements, "
                                                "established bound per branch edge, helper summaries up to 2 levels); guard = every return balanced and every call that can reach a cycle "
                                                "happens with the counter stepped once, its decrement deferred and counter <= bound <= MaxRecursionDepth"}

    # ---- nesting drivers on the implementation (child process; one long-lived parser + fresh parser per input)
    depths = [5, 30, limit - 1, limit, limit + 1, limit + 2, 2 * limit + 5, 1000, 20000]
    if tier != "quick":
        depths += [100000, 300000]
    cases = []
    for name, f in DRIVERS.items():
        for d in depths:
            cases.append({"id": "%s@%d" % (name, d), "sql": f(d)})
    rng = random.Random(common.seed())
    # interleave: after over-deep inputs, boundary inputs again on the same long-lived parser (depth leaks show up)
    tail = []
    for name, f in DRIVERS.items():
        for d in (limit - 1, limit, limit + 1, limit + 3, limit + 6):
            tail.append({"id": "%s@%d#again" % (name, d), "sql": f(d)})
    rng.shuffle(tail)
    cases += tail
    inp = "".join(json.dumps(c) + "\n" for c in cases)
    env = dict(os.environ, VH_MAXSTACK=str(256 << 20))
    vh = common.stage_harness()
    pr = common.run(["bash", "-c", "ulimit -v 16000000; exec timeout 900 %s nest" % vh], input=inp, env=env, timeout=1000)
    outs = [json.loads(l) for l in pr.stdout.splitlines() if l.strip()]
    byid = {o["id"]: o for o in outs}
    rp.cov["evaluations"] = len(outs)
    if len(outs) < len(cases):
        crashed = cases[len(outs)]
        rp.violation({"kind": "oracle", "id": crashed["id"], "sql_prefix": crashed["sql"][:300], "sql_len": len(crashed["sql"]),
                      "driver": crashed["id"].split("@")[0], "depth": crashed["id"].split("@")[1],
                      "stderr": pr.stderr[-1500:], "explanation": "the process died (fatal error / stack overflow / out of memory) while parsing this nested input"},
                     "crash_%s" % crashed["id"].split("@")[0])
    thresholds = {}
    unusable = []
    nontrivial = 0
    for name in DRIVERS:
        rs = [(d, byid.get("%s@%d" % (name, d))) for d in depths]
        rs = [(d, o) for d, o in rs if o is not None]
        if not rs:
            continue
        if not rs[0][1]["accepted"]:
            unusable.append(name)
            continue
        nontrivial += 1
        acc = [d for d, o in rs if o["accepted"]]
        rej = [d for d, o in rs if not o["accepted"]]
        thresholds[name] = {"max_accepted": max(acc), "min_rejected": min(rej) if rej else None}
        for d, o in rs:
            if o.get("panic"):
                rp.violation({"kind": "oracle", "id": o["id"], "sql": DRIVERS[name](d)[:2000], "panic": o["panic"][:1500]}, "panic_%s" % name)
                break
        # beyond the limit must be rejected with a structured error
        bad = [d for d, o in rs if d > limit + 1 and o["accepted"]]
        if bad:
            rp.violation({"kind": "oracle", "driver": name, "depth": min(bad), "sql": DRIVERS[name](min(bad))[:3000], "limit": limit,
                          "explanation": "nesting depth %d of construct '%s' is accepted although the documented limit is %d" % (min(bad), name, limit)},
                         "accepted_beyond_limit_%s" % name)
        for d, o in rs:
            if not o["accepted"] and d > limit + 1 and not o["err"].get("structured"):
                rp.violation({"kind": "oracle", "driver": name, "depth": d, "err": o["err"]}, "unstructured_limit_error_%s" % name)
                break
        # reasonable nesting must not be rejected
        if 30 in rej:
            rp.violation({"kind": "oracle", "driver": name, "depth": 30, "sql": DRIVERS[name](30), "err": byid["%s@30" % name]["err"],
                          "explanation": "nesting depth 30 (far below the limit) is rejected"}, "rejected_below_limit_%s" % name)
        # monotone: once rejected, deeper is rejected too
        if rej and any(a > min(rej) for a in acc):
            rp.violation({"kind": "oracle", "driver": name, "accepted": acc, "rejected": rej,
                          "explanation": "acceptance is not monotone in nesting depth"}, "nonmonotone_%s" % name)
    # depth counter bookkeeping and history independence
    leak = [o for o in outs if o.get("depth_after", 0) != 0]
    if leak:
        o = leak[0]
        idx = outs.index(o)
        rp.violation({"kind": "oracle", "id": o["id"], "depth_after": o["depth_after"], "history": [x["id"] for x in outs[max(0, idx - 5):idx + 1]],
                      "explanation": "the recursion depth counter of a reused parser is not back to 0 after the call: later calls see a shifted limit"},
                     "depth_leak")
    diff = [o for o in outs if not o.get("fresh_same", True)]
    if diff:
        o = diff[0]
        idx = outs.index(o)
        rp.violation({"kind": "oracle", "id": o["id"], "history": [x["id"] for x in outs[max(0, idx - 8):idx + 1]],
                      "explanation": "a parser that was used before accepts/rejects this nested input differently from a fresh parser (limit depends on history)"},
                     "history_dependent_limit")
    rp.cov["nesting_thresholds"] = thresholds
    rp.cov["drivers_unusable"] = unusable
    rp.cov["depths"] = depths

    # ---- new cycles / broken obligations
    for name, funcs in new_cycles:
        # search: does any driver get accepted beyond the limit or crash?  (already reported above if so)
        found = any("accepted_beyond_limit" in v or "crash_" in v for v in rp.violations)
        rp.violation({"kind": "table-gap", "theorem": "Inst_C02.%s_rank_ok" % name, "cycle": funcs,
                      "explanation": "the call graph of %s has a cycle that passes no depth guard: recursion along it is not bounded by the depth limit" % name},
                     "unguarded_cycle_%s_%s" % (name, funcs[0].split(".")[-1]), no_input=not found)
    if not book_ok:
        found = any("depth_leak" in v or "history_dependent" in v for v in rp.violations)
        rp.violation({"kind": "table-gap", "theorem": "Inst_C02.parser_depth_bookkeeping", "depth_inc": [p["funcs"][i] for i in p["depth_inc"]],
                      "guards": [p["funcs"][i] for i in p["guards"]],
                      "balanced": [p["funcs"][i] for i in p["depth_defer_dec"]], "counter_field": p.get("depth_field"), "helpers_inlined": p.get("depth_helpers"),
                      "explanation": "a function steps the depth counter (directly or through a helper) without being a complete guard: on some return path a step is not taken back, "
                                     "or a call that can reach a cycle of the call graph happens before the counter is stepped, without the decrement being deferred, or outside the within-limit side of the limit check"},
                     "depth_bookkeeping", no_input=not found)
    if not ok_inst and not new_cycles and book_ok:
        rp.violation({"kind": "proof", "theorem": "Inst_C02", "log": logs["inst"][-3000:]}, "inst_c02", no_input=True)
    if ok_inst and not ok_props:
        rp.violation({"kind": "proof", "theorem": "Props/C02.v", "log": logs["props"][-3000:]}, "props_c02", no_input=True)

    # ---- size / token limits at their boundaries
    pl = common.vh(["limits"] + (["thorough"] if tier != "quick" else []), timeout=3000)
    lim = json.loads(pl.stdout) if pl.returncode == 0 and pl.stdout.strip() else None
    if lim is None:
        rp.violation({"kind": "harness", "detail": pl.stderr[-2000:]}, "limits_harness", no_input=True)
        lim = {"results": []}
    kfl = {k["signature"].get("case"): k for k in kf if k["status"] == "known" and k["signature"].get("kind") == "limit_case"}
    for r in lim["results"]:
        rp.cov["evaluations"] += 1
        if not r["ok"]:
            base = r["name"].rsplit(" ", 1)[0]
            if base in kfl:
                rp.known(kfl[base]["key"] + " (" + r["name"] + ")", kfl[base]["what"])
                continue
            rp.violation({"kind": "oracle", "case": r["name"], "bytes": r["bytes"], "err": r["err"], "want": r["want"] or "no limit error",
                          "max_input": lim.get("max_input"), "max_tokens": lim.get("max_tokens"),
                          "explanation": "limit boundary: input exactly at a limit must not be rejected for that reason; one past it must be rejected with the dedicated code"},
                         "limit_%s" % r["name"])
    rp.cov["limit_cases"] = [{k: r[k] for k in ("name", "bytes", "ntokens", "ok", "ms")} for r in lim["results"]]
    rp.cov["distinct_nontrivial"] = nontrivial + len(lim["results"])
    rp.cov["rule"] = ("nesting: %d self-embedding productions x depths %s on one long-lived parser and a fresh parser each (child process, max stack 256 MiB), then boundary depths again in shuffled order; "
                      "non-trivial driver = accepted at depth 5 (counted); limits: inputs exactly at / one past MaxInputSize and MaxTokens through each entry point" % (len(DRIVERS), depths))
    rp.cov["samples"] = [cases[0], {"driver_thresholds": dict(list(thresholds.items())[:4])}, lim["results"][:1]]
    rp.cov["notes"].append("size/token limit clauses are decided by boundary exploration on the implementation in this revision; the nesting clause by the theorem over the regenerated call graph")
    rp.assumptions = ["static call graph is complete for direct calls; dynamic call sites are enumerated in evidence and must not re-enter the parser",
                      "frame sizes are the compiler's: the theorem bounds frames, not bytes"]
    return rp.finish()


def replay(path):
    d = json.load(open(path))
    print(json.dumps({k: (v if not isinstance(v, str) or len(v) < 300 else v[:300] + "...") for k, v in d.items()}, indent=1))
    if d.get("driver") and d.get("depth"):
        sql = DRIVERS[d["driver"]](int(d["depth"]))
        p = common.vh(["nest"], input=json.dumps({"id": "replay", "sql": sql}) + "\n")
        print(p.stdout[:1000])
        if not p.stdout.strip():
            return 1
        o = json.loads(p.stdout.splitlines()[0])
        return 1 if (o["accepted"] and int(d["depth"]) > 102) or o.get("panic") else 0
    return 2
