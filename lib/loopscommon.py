"""Shared by C07 and C12: recorded-ps tables from the real parser (harness 'loops') and their evaluation by the
Coq loop models (Model/Loops.v) — the correspondence that ties the loop theorems to the code."""
import json, re
import common

KIND = {"E": 1, "S": 2, "K": 3, ".": 0}
DIFF_BITS = {1: "Parser.Parse", 2: "Parser.Parse(strict)", 4: "Parser.ParseContext", 8: "Parser.ParseContext(strict)",
             16: "parseWithRecovery", 32: "synchronize"}


def code_n(c):
    m = re.match(r"E(\d+)$", c or "")
    return int(m.group(1)) if m else 0


def run_loops(inputs, timeout=1800):
    p = common.vh(["loops"], input="".join(json.dumps({"sql": s}) + "\n" for s in inputs), timeout=timeout)
    rows = [json.loads(l) for l in p.stdout.splitlines() if l.strip()]
    return p, rows


def entry(row, name):
    for e in row.get("entries") or []:
        if e["name"] == name:
            return e
    return None


def lcase_term(row):
    """Coq term of one recorded case, or None if it cannot be expressed (tokenizer failure, too long, panic)"""
    if row.get("tok_err") or not row.get("kinds") or not row.get("ps") or len(row["kinds"]) > 120:
        return None
    ids = {}
    def tid(h):
        if h not in ids:
            ids[h] = len(ids) + 1
        return ids[h]
    tbl = []
    for e in row["ps"]:
        if e.get("panic"):
            return None
        tbl.append("SOk %d %d" % (tid(e["tree"]), e["end"]) if e["ok"] else "SErr %d%%N %d" % (code_n(e.get("code")), e["end"]))
    def pres(e):
        if e is None or e.get("panic"):
            return None
        if e["accepted"]:
            return "POk [%s]" % "; ".join(str(tid(h)) for h in e.get("trees") or [])
        return "PErr %d%%N" % code_n(e["err"].get("code"))
    rec = entry(row, "gosqlx.ParseWithRecovery")
    parts = [pres(entry(row, "Parser.Parse")), pres(row.get("strict_parse")), pres(entry(row, "Parser.ParseContext")),
             pres(row.get("strict_ctx"))]
    if rec is None or rec.get("panic") or any(x is None for x in parts):
        return None
    rres = "ROk [%s] [%s]" % ("; ".join(str(tid(h)) for h in rec.get("trees") or []),
                              "; ".join("(%d, %d%%N)" % (e["idx"], code_n(e["code"])) for e in rec.get("rec_errs") or []))
    kinds = "; ".join(str(KIND[c]) for c in row["kinds"])
    return "mk_lcase [%s] [%s] (%s) (%s) (%s) (%s) (%s) [%s]" % (
        kinds, "; ".join(tbl), parts[0], parts[1], parts[2], parts[3], rres, "; ".join(str(x) for x in row["sync"]))


def model_correspondence(rows, name, shard=400):
    """evaluates the Coq loop models on the recorded tables; returns (n_evaluated, [(row, mask)], error or None)"""
    terms = [(r, lcase_term(r)) for r in rows]
    terms = [(r, t) for r, t in terms if t]
    bad = []
    for si in range(0, len(terms), shard):
        sh = terms[si:si + shard]
        body = ("From Coq Require Import List Arith NArith.\nFrom GV Require Import Model.Loops.\nImport ListNotations.\n"
                "Definition cases : list lcase := [\n" + ";\n".join(t for _, t in sh) + "].\n"
                "Definition bad := Eval vm_compute in diffs_from 0 cases.\nPrint bad.\n")
        ok, out, err = common.coq_cases("%s_%d" % (name, si // shard), body)
        if not ok:
            return len(terms), bad, (err or out)[-2000:]
        m = re.search(r"bad\s*=\s*(\[.*?\])\s*:", out, re.S)
        if not m:
            return len(terms), bad, "cannot parse Coq output: " + out[-400:]
        for i, d in re.findall(r"\((\d+),\s*(\d+)\)", m.group(1)):
            bad.append((sh[int(i)][0], int(d)))
    return len(terms), bad, None


def mask_names(mask):
    return [n for b, n in DIFF_BITS.items() if mask & b]


def ps_hypotheses(row):
    """the two facts about parseStatement the termination theorems assume: success consumes, failure never moves back"""
    out = []
    for p, e in enumerate(row.get("ps") or []):
        if e.get("panic"):
            out.append("panic at %d" % p)
        elif e["ok"] and not e["end"] > p:
            out.append("success without progress at %d" % p)
        elif not e["ok"] and e["end"] < p:
            out.append("cursor moved backwards at %d" % p)
        if e["end"] > len(row.get("kinds") or ""):
            out.append("cursor beyond the end of the token list at %d" % p)
        if e.get("depth_after", 0) != 0:
            out.append("depth counter %d left after parseStatement at %d" % (e["depth_after"], p))
    return out


def err_location_mismatches(row):
    """the tie of C12_errors_located_in_own_segment's [err_loc]: every error recovery reports carries the line/column
    of token p' where the recorded parseStatement table says  ps(start) = SErr c p'  (positions of the tokens of the
    text that was passed in, taken by the harness itself).  Returns descriptions of mismatches."""
    out = []
    tp, ps = row.get("tok_pos"), row.get("ps")
    rec = entry(row, "gosqlx.ParseWithRecovery")
    if not tp or not ps or rec is None or rec.get("panic"):
        return out
    for e in rec.get("rec_errs") or []:
        s = e.get("idx", -1)
        if not (0 <= s < len(ps)) or ps[s]["ok"] or ps[s].get("panic"):
            continue    # reported by the model correspondence (error list differs)
        p2 = ps[s]["end"]
        want = tuple(tp[p2]) if 0 <= p2 < len(tp) else (tuple(tp[-1]) if tp else (0, 0))   # past the last token: the end of input
        got = (e.get("line", 0), e.get("col", 0))
        if got != want:
            out.append("error of the statement at token %d: located at line %d column %d, the token under the cursor (token %d) is at line %d column %d"
                       % (s, got[0], got[1], p2, want[0], want[1]))
    return out
