"""Writes MANIFEST.json from the table below (kept in one place so that it stays valid)."""
import json, os
ROOT = os.path.dirname(os.path.dirname(os.path.abspath(__file__)))

import glob, importlib, sys
sys.path.insert(0, os.path.join(ROOT, "lib"))


def load_checks():
    """every lib/cNN.py that defines MANIFEST = dict(technique, text, note, design[, level]) is a claimed check"""
    out = {}
    for f in sorted(glob.glob(os.path.join(ROOT, "lib", "c[0-9][0-9].py"))):
        name = os.path.basename(f)[:-3]
        mod = importlib.import_module(name)
        if getattr(mod, "MANIFEST", None):
            out[name.upper()] = mod.MANIFEST
    return out


CHECKS = load_checks()

NOT_YET = {}


def main():
    props = [json.loads(l) for l in open(os.path.join(ROOT, "properties.jsonl"))]
    checks, na = [], []
    for p in props:
        pid = p["id"]
        if pid in CHECKS:
            c = CHECKS[pid]
            checks.append({
                "property_id": pid,
                "quick_cmd": "bin/check %s quick" % pid,
                "thorough_cmd": "bin/check %s thorough" % pid,
                "evidence_file": "evidence/%s.json" % pid,
                "replay_cmd_template": "bin/check %s --replay {path}" % pid,
                "engine": "coq-gv",
                "level_claimed": {"category": c.get("level", "proof"), "text": c["text"], "design_ref": c["design"]},
                "level_note": c["note"],
                "technique": c["technique"],
            })
        else:
            na.append({"property_id": pid, "reason": NOT_YET.get(pid, "check not built yet in this revision of /verif (work in progress; the property is in scope of the design, see DESIGN.md section 6)")})
    m = {
        "version": 1,
        "setup_cmd": "bin/setup",
        "hooks": {"guard": "verif", "enable": "go build -tags verif (the harness is built against /repo's working tree with this tag)",
                  "baseline_off_cmd": "bin/baseline_off", "source_commits": HOOK_COMMITS, "add_only": True},
        "engines": [{"name": "coq-gv", "path": "coq/", "serves_properties": sorted(CHECKS),
                     "kind_free_text": "Coq 8.16 development (Model/Proofs/Gen/Inst/Props) + Go translator and correspondence harness + python orchestrator bin/check"}],
        "checks": checks,
        "notes": "bin/check <id> quick|thorough; VERIF_SEED seeds every random choice; evidence/<id>.json rewritten on every run; known_findings.json lists recorded findings and fixed entries.",
        "not_applicable": na,
    }
    with open(os.path.join(ROOT, "MANIFEST.json"), "w") as f:
        json.dump(m, f, indent=1)
    with open(os.path.join(ROOT, "MANIFEST.hooks"), "w") as f:
        f.write("guard: build tag `verif`\nhook commits in /repo (add-only files guarded by //go:build verif):\n" + "".join("  %s\n" % c for c in HOOK_COMMITS))


HOOK_COMMITS = ["05dd841", "0b2e5de", "e5dff40", "36abfc4", "c28fa84", "494a26a", "310e231"]

if __name__ == "__main__":
    main()
