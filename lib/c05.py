"""C05 — reported source positions point at the right characters."""
import bisect, json, os, random, re
import common, sqlgen
from common import Report, log

MANIFEST = dict(
    technique='Coq proof over an executable model of toSQLPosition / getLocation / the parser position lookup + complete offset->location table correspondence per input (vm_compute) + model-independent position oracle on tokens, comments, tokenizer errors and single-token corruptions',
    text='Model/Loc.v mirrors the line table built by Tokenize and the two scans of toSQLPosition (tab counts 4, bytes not runes), getLocation, the position mapping built by the token converter (split compound keywords included) and Parser.currentLocation. Proofs/LocP.v proves for every byte string and every offset: the reported line is 1 + the number of LF before the offset and the column is 1 + the width of the bytes since the line start (loc_exact, with the exact contribution of tabs and UTF-8 continuation bytes), 1-based, strictly increasing in the offset up to the end of input (hence injective), constant past the end, inside the input; for every abstract token stream whose byte spans are ordered the reported spans are 1-based, never decreasing, end of one never after the start of the next (spans_ordered_loc); the resume-point form of toSQLPosition that is in the tree since d9a9811 (Model/Cost.v incr_run) answers to_loc for every list of queried offsets in any order (C05_resume_point_form_is_to_loc, via CostP.incr_run_correct); the parser-side lookup returns the Start of the converted token under the cursor and the sub-spans given to split compound keywords are ordered and lie inside the source token. Tie: on every run the implementation\'s toSQLPosition/getLocation results for EVERY offset 0..len+2 of each generated input and its line table are compared with the model inside Coq, and the same instance is asked again backwards, in stride and zig-zag order and after tokenizing other inputs (answers must not depend on query order or instance history); an oracle written only from the property text re-derives every token/comment offset from the token values and the raw text and checks 1-based, ordering, containment, own-first-character, exact columns on ASCII tab-free lines, tokenizer error anchors, and (via the parser cursor) that every syntax error of ParseFromModelTokensWithPositions on single-token corruptions of valid statements is located at the offending token; a source scan checks that no parser error site is built with a literal zero Location.',
    note=common.BASE_NOTE + "C05: column convention of the code (tab = 4 columns, one column per byte) is part of the model; exact columns are asserted by the oracle only on ASCII tab-free lines as the property says. The byte spans of tokens (start < end <= next start) are a hypothesis of spans_ordered_loc (proved on the lexer model by C04, checked here on every generated input by the oracle). 'Offending token' = token under the parser cursor when the error is returned (verif hook VerifState).",
    design='6/C05')

WS = b" \t\r\n"
EOF_TYPE = 0


# ------------------------------------------------------------------------------------------------
# reference reading of a text (independent of the model and of the implementation)

class Text:
    def __init__(self, bs):
        self.bs = bs
        self.n = len(bs)
        self.starts = [0] + [i + 1 for i, b in enumerate(bs) if b == 10]

    def nlines(self):
        return len(self.starts)

    def line_index(self, off):          # 0-based index of the line containing offset off
        return bisect.bisect_right(self.starts, min(off, self.n)) - 1

    def line_bytes(self, li):
        s = self.starts[li]
        e = self.starts[li + 1] - 1 if li + 1 < len(self.starts) else self.n
        return self.bs[s:e]

    def plain(self, li):                 # ASCII and tab-free: the lines on which the property asserts exact columns
        return all(b < 128 and b != 9 for b in self.line_bytes(li))

    def spec_line(self, off):
        return 1 + self.line_index(off)

    def spec_col_plain(self, off):
        return 1 + min(off, self.n) - self.starts[self.line_index(off)]

    def conv_col(self, off):             # column under the code's documented convention (tab = 4, one per byte)
        s = self.starts[self.line_index(off)]
        return 1 + sum(4 if b == 9 else 1 for b in self.bs[s:min(off, self.n)])

    def max_col(self, li):               # generous bound for "inside the input" on lines with tabs (any tab width <= 8)
        lb = self.line_bytes(li)
        return 1 + len(lb) + 7 * lb.count(9)

    def offset_of(self, line, col):
        """byte offset addressed by a reported (line, col): exact arithmetic on plain lines, the code's convention elsewhere;
        None when nothing is addressed"""
        if line < 1 or line > self.nlines() or col < 1:
            return None
        li = line - 1
        s = self.starts[li]
        lb = self.line_bytes(li)
        if self.plain(li):
            return s + col - 1 if col - 1 <= len(lb) else None
        c = 1
        for k, b in enumerate(lb):
            if c == col:
                return s + k
            c += 4 if b == 9 else 1
        return s + len(lb) if c == col else None


def hexs(h):
    return bytes.fromhex(h)


QUOTE_OPEN = ["'", '"', "`", "‘", "’", "“", "”", "«", "»"]
QUOTE_BYTES = [q.encode() for q in QUOTE_OPEN]


class Fail(Exception):
    def __init__(self, kind, detail):
        super().__init__(kind)
        self.kind, self.detail = kind, detail


def check_loc(T, what, line, col, off, fails, exact=True):
    """reported (line, col) of an element whose true byte offset is off"""
    if line < 1 or col < 1:
        fails.append(("not_one_based", "%s reported %d:%d" % (what, line, col)))
        return
    if line > T.nlines():
        fails.append(("outside_input", "%s reported line %d of %d" % (what, line, T.nlines())))
        return
    if col > T.max_col(line - 1):
        fails.append(("outside_input", "%s reported column %d on a line of %d bytes" % (what, col, len(T.line_bytes(line - 1)))))
        return
    if off is None:
        return
    if line != T.spec_line(off):
        fails.append(("wrong_line", "%s reported %d:%d, its byte offset %d is on line %d" % (what, line, col, off, T.spec_line(off))))
        return
    if exact and T.plain(line - 1) and col != T.spec_col_plain(off):
        fails.append(("wrong_column", "%s reported %d:%d, its byte offset %d is column %d" % (what, line, col, off, T.spec_col_plain(off))))


def match_lexeme(T, pos, tok):
    """true end offset of the token whose lexeme starts at pos, from its value; None = needs the reported end"""
    bs = T.bs
    val = hexs(tok["vhex"])
    for q in QUOTE_BYTES:
        if bs.startswith(q, pos):
            return None
    if bs.startswith(b"$", pos) and not (val.startswith(b"$") and bs.startswith(val, pos)):
        return None                      # dollar-quoted string: value is the content
    if not val:
        raise Fail("lexeme_mismatch", "token type %d has an empty value at offset %d" % (tok["type"], pos))
    words = val.split(b" ") if tok["word"] and b" " in val else [val]
    p = pos
    for wi, w in enumerate(words):
        if wi:
            q = p
            while q < T.n and bs[q] in WS:
                q += 1
            if q == p:
                raise Fail("lexeme_mismatch", "compound keyword %r: no separator at offset %d" % (val, p))
            p = q
        if not (bs.startswith(w, p) or (len(words) > 1 and bs[p:p + len(w)].upper() == w.upper())):
            raise Fail("lexeme_mismatch", "token value %r is not the text at offset %d (%r)" % (val, p, bs[p:p + len(w) + 4]))
        p += len(w)
    return p


def token_oracle(bs, r):
    """property C05 on the tokens and comments of one successfully tokenized input; returns (fails, info)"""
    T = Text(bs)
    fails = []
    toks, comments = r["tokens"], r.get("comments") or []
    info = {"unresolved": False, "elements": 0, "multiline": 0, "after_comment": 0, "after_blank": 0, "nonplain": 0}
    if not toks or toks[-1]["type"] != EOF_TYPE or any(t["type"] == EOF_TYPE for t in toks[:-1]):
        fails.append(("eof_shape", "token stream must end with exactly one EOF"))
    seq = []                 # merged elements in text order: (what, true_start, true_end, reported)
    pos, ci = 0, 0
    prev_kind = None
    try:
        for k, t in enumerate(toks):
            # separators: whitespace and the reported comments, in order
            blank = False
            while True:
                q = pos
                while q < T.n and bs[q] in WS:
                    q += 1
                if bs[pos:q].count(b"\n") >= 2:
                    blank = True
                pos = q
                if ci < len(comments):
                    ct = hexs(comments[ci]["thex"])
                    if ct and bs.startswith(ct, pos):
                        c = comments[ci]
                        seq.append(("comment %d" % ci, pos, pos + len(ct), c))
                        pos += len(ct); ci += 1; prev_kind = "comment"
                        continue
                break
            if t["type"] == EOF_TYPE and k == len(toks) - 1:
                if ci < len(comments):
                    raise Fail("comment_mismatch", "comment %d (%r) is not in the text where the stream says" % (ci, hexs(comments[ci]["thex"])[:30]))
                if pos != T.n:
                    raise Fail("lexeme_mismatch", "EOF token but text remains at offset %d: %r" % (pos, bs[pos:pos + 12]))
                seq.append(("EOF", T.n, T.n, t))
                break
            start = pos
            end = match_lexeme(T, pos, t)
            if end is None:
                end = T.offset_of(t["el"], t["ec"])
                closing = None
                if end is not None and end > start:
                    closing = any(bs[:end].endswith(q) for q in QUOTE_BYTES) or bs[end - 1:end] == b"$"
                if end is None or end <= start or not closing:
                    if t["el"] >= 1 and t["el"] <= T.nlines() and not T.plain(t["el"] - 1):
                        info["unresolved"] = True      # end of a quoted element on a line where exact columns are not asserted
                        return fails, info
                    raise Fail("quoted_end", "quoted element starting at offset %d: reported end %d:%d does not follow its closing quote" % (start, t["el"], t["ec"]))
            if prev_kind == "comment":
                info["after_comment"] += 1
            if blank:
                info["after_blank"] += 1
            if bs[start:end].count(b"\n"):
                info["multiline"] += 1
            seq.append(("token %d" % k, start, end, t))
            pos = end; prev_kind = "token"
    except Fail as f:
        fails.append((f.kind, f.detail))
        seq = None
    # reported values alone: 1-based, inside, never decreasing, end of one never after start of next
    rep = [(t["sl"], t["sc"], t["el"], t["ec"], "token %d" % k) for k, t in enumerate(toks)]
    prev = (1, 1, "start of input")
    for sl, sc, el, ec, what in rep:
        check_loc(T, what + " start", sl, sc, None, fails)
        check_loc(T, what + " end", el, ec, None, fails)
        if (sl, sc) < prev[:2]:
            fails.append(("decreasing", "%s starts at %d:%d before the end %d:%d of %s" % (what, sl, sc, prev[0], prev[1], prev[2])))
        if (el, ec) < (sl, sc):
            fails.append(("decreasing", "%s ends at %d:%d before its start %d:%d" % (what, el, ec, sl, sc)))
        prev = (el, ec, what)
    prevc = (1, 1)
    for i, c in enumerate(comments):
        # where a comment really ends: a block comment at the FIRST */ after its opener, a line comment before the
        # first line break (a span that runs on to a later closer swallows the elements in between)
        try:
            ctext = bytes.fromhex(c.get("thex", ""))
        except ValueError:
            ctext = b""
        if ctext.startswith(b"/*"):
            j = ctext.find(b"*/", 2)
            if j >= 0 and j != len(ctext) - 2:
                fails.append(("comment_end", "block comment %d %r runs past its first closing */ (it really ends %d bytes earlier)" % (i, ctext[:40], len(ctext) - 2 - j)))
        elif ctext.startswith(b"--") and (b"\n" in ctext[:-1]):
            fails.append(("comment_end", "line comment %d %r runs past the end of its line" % (i, ctext[:40])))
        check_loc(T, "comment %d start" % i, c["sl"], c["sc"], None, fails)
        check_loc(T, "comment %d end" % i, c["el"], c["ec"], None, fails)
        if (c["sl"], c["sc"]) < prevc or (c["el"], c["ec"]) < (c["sl"], c["sc"]):
            fails.append(("decreasing", "comment %d span %d:%d-%d:%d is out of order" % (i, c["sl"], c["sc"], c["el"], c["ec"])))
        prevc = (c["el"], c["ec"])
    if seq is not None:
        info["elements"] = len(seq)
        prev = (1, 1, "start of input")
        for what, s, e, rr in seq:
            check_loc(T, what + " start", rr["sl"], rr["sc"], s, fails)
            check_loc(T, what + " end", rr["el"], rr["ec"], e, fails)
            if not T.plain(T.line_index(s)):
                info["nonplain"] += 1
            if (rr["sl"], rr["sc"]) < prev[:2]:
                fails.append(("overlap", "%s starts at %d:%d before the end %d:%d of %s" % (what, rr["sl"], rr["sc"], prev[0], prev[1], prev[2])))
            prev = (rr["el"], rr["ec"], what)
    if not r.get("ctx_same", True):
        fails.append(("ctx_differs", "TokenizeContext reports different spans or error location than Tokenize"))
    return fails, info


def skip_sep(bs, q):
    """skip whitespace and comments from q (used only to find where the failing element begins)"""
    n = len(bs)
    while True:
        while q < n and bs[q] in WS:
            q += 1
        if bs.startswith(b"--", q):
            j = bs.find(b"\n", q)
            q = n if j < 0 else j + 1
            continue
        if bs.startswith(b"/*", q):
            j = bs.find(b"*/", q + 2)
            if j < 0:
                return q
            q = j + 2
            continue
        return q


def tokerr_oracle(bs, r):
    """location of a tokenizer error: 1-based, inside, and the position of the first byte of the element that cannot be
    read or of the byte at which reading stopped"""
    T = Text(bs)
    fails = []
    e = r["err"]
    if not e.get("structured"):
        return fails
    line, col = e["line"], e["col"]
    check_loc(T, "tokenizer error " + e.get("code", ""), line, col, None, fails)
    if fails:
        return fails
    # an "unterminated block comment" must be located at a comment that really has no closer
    off0 = T.offset_of(line, col) if hasattr(T, "offset_of") else None
    if off0 is not None and bs.startswith(b"/*", off0) and bs.find(b"*/", off0 + 2) >= 0 and "nterminated" in (e.get("msg") or e.get("text") or ""):
        fails.append(("comment_end", "a block comment that is closed is reported as unterminated at %d:%d" % (line, col)))
    anchors = [min(r["pos_index"], T.n)]
    if r.get("good_prefix", -1) >= 0:
        anchors.append(skip_sep(bs, r["good_prefix"]))
        gl = r.get("good_last") or [0, 0]
        if gl[0] >= 1:
            # the unreadable element may begin where the last token of the readable prefix begins ('' then ', / then *)
            o = T.offset_of(gl[0], gl[1])
            if o is not None:
                anchors.append(o)
    ok = False
    for a in anchors:
        if line == T.spec_line(a) and (not T.plain(line - 1) or col == T.spec_col_plain(a)):
            ok = True
    if not ok:
        fails.append(("error_anchor", "tokenizer error %s located at %d:%d; the unreadable element begins at %s and reading stopped at %s"
                      % (e.get("code"), line, col,
                         " / ".join("%d:%d" % (T.spec_line(a), T.spec_col_plain(a)) for a in anchors[1:]) or "?",
                         "%d:%d" % (T.spec_line(anchors[0]), T.spec_col_plain(anchors[0])))))
    if not r.get("ctx_same", True):
        fails.append(("ctx_differs", "TokenizeContext reports a different error location than Tokenize"))
    return fails


def part_offsets(T, start, end, nparts):
    """true (start, end) of each whitespace-separated word of the lexeme [start, end)"""
    out, p = [], start
    bs = T.bs
    while p < end:
        while p < end and bs[p] in WS:
            p += 1
        q = p
        while q < end and bs[q] not in WS:
            q += 1
        if q > p:
            out.append((p, q))
        p = q
    return out if len(out) == nparts else None


def parse_oracle(bs, r, tok_offsets):
    """location of a syntax error of the position-tracking parser = first character of the offending token (the converted
    token under the parser cursor when the error is returned)"""
    T = Text(bs)
    fails = []
    p = r.get("parse")
    if not p or p["err"]["nil"] or p.get("panic"):
        return fails, None
    e = p["err"]
    if not e.get("structured"):
        fails.append(("parse_error_unstructured", "error carries no location: %s" % e.get("msg", "")[:80]))
        return fails, None
    if e.get("is_canceled") or e.get("is_deadline"):
        return fails, None
    line, col = e["line"], e["col"]
    cur, pos = p["cursor"], p["positions"] or []
    if cur >= len(pos):
        # no token under the cursor: the only position left is the end of input
        exp_off, what = T.n, "end of input (cursor %d beyond the %d tokens)" % (cur, len(pos))
    else:
        oi = pos[cur]["oi"]
        group = [i for i, q in enumerate(pos) if q["oi"] == oi]
        if tok_offsets is None or oi >= len(tok_offsets):
            return fails, None
        s, en = tok_offsets[oi]
        if len(group) > 1:
            parts = part_offsets(T, s, en, len(group))
            if parts is None:
                return fails, None
            exp_off = parts[group.index(cur)][0]
            what = "part %d of the split token %d" % (group.index(cur), oi)
        else:
            exp_off, what = s, "token %d" % oi
    info = {"code": e.get("code"), "cursor": cur, "split": cur < len(pos) and len([1 for q in pos if q["oi"] == pos[cur]["oi"]]) > 1,
            "line": T.spec_line(exp_off)}
    if line < 1 or col < 1:
        fails.append(("parse_error_no_location", "syntax error %s carries location %d:%d; the offending token (%s) is at %d:%d"
                      % (e.get("code"), line, col, what, T.spec_line(exp_off), T.conv_col(exp_off))))
        return fails, info
    check_loc(T, "syntax error", line, col, None, fails)
    if line != T.spec_line(exp_off) or (T.plain(line - 1) and col != T.spec_col_plain(exp_off)):
        fails.append(("parse_error_location", "syntax error %s located at %d:%d; the offending token (%s) begins at %d:%d"
                      % (e.get("code"), line, col, what, T.spec_line(exp_off), T.conv_col(exp_off))))
    return fails, info


def split_mapping_failures(bs, r):
    """position mapping of split compound keywords: each part's span must be that of its own word, parts ordered"""
    T = Text(bs)
    fails = []
    pr = r.get("parse")
    offs = true_offsets(bs, r)
    if not pr or not pr.get("positions") or offs is None:
        return fails
    groups = {}
    for i, q in enumerate(pr["positions"]):
        groups.setdefault(q["oi"], []).append(q)
    for oi, qs in groups.items():
        if len(qs) < 2 or oi >= len(offs):
            continue
        parts = part_offsets(T, offs[oi][0], offs[oi][1], len(qs))
        prev = None
        for j, q in enumerate(qs):
            if prev and (q["sl"], q["sc"]) < prev:
                fails.append(("split_overlap", "part %d of split token %d starts at %d:%d before the end %d:%d of part %d" % (j, oi, q["sl"], q["sc"], prev[0], prev[1], j - 1)))
            prev = (q["el"], q["ec"])
            if parts:
                sub = []
                check_loc(T, "part %d of split token %d start" % (j, oi), q["sl"], q["sc"], parts[j][0], sub)
                check_loc(T, "part %d of split token %d end" % (j, oi), q["el"], q["ec"], parts[j][1], sub)
                fails += [("split_span", d) for _, d in sub]
    return fails


def recovery_failures(bs, r):
    """ParseWithRecoveryFromModelTokens: every recovered error is located (1-based, inside, at the first character of some
    token), its Line/Column are those of its cause, and the first one is where the strict position-tracking parser stops"""
    T = Text(bs)
    fails = []
    pr = r.get("parse")
    if not pr or pr.get("rec_panic") or pr["err"]["nil"] or not pr["err"].get("structured"):
        return fails
    recs = pr.get("rec_errs") or []
    if not recs:
        return fails            # whether recovery must report an error here is C12's question, not a position
    starts = {(t["sl"], t["sc"]) for t in r["tokens"]} | {(q["sl"], q["sc"]) for q in pr.get("positions") or []}
    for k, e in enumerate(recs):
        if not e.get("typed") or not e["cause"].get("structured"):
            continue
        if e["line"] < 1 or e["col"] < 1:
            fails.append(("recovery_no_location", "recovered error %d (%s) carries location %d:%d" % (k, e["cause"].get("code"), e["line"], e["col"])))
            continue
        if (e["line"], e["col"]) != (e["cause"]["line"], e["cause"]["col"]):
            fails.append(("recovery_location", "recovered error %d is reported at %d:%d, its cause at %d:%d" % (k, e["line"], e["col"], e["cause"]["line"], e["cause"]["col"])))
        if (e["line"], e["col"]) not in starts:
            fails.append(("recovery_location", "recovered error %d at %d:%d is not at the first character of any token" % (k, e["line"], e["col"])))
    f0 = recs[0]
    if f0.get("typed") and f0["cause"].get("structured") and f0["line"] >= 1 and (f0["line"], f0["col"]) != (pr["err"]["line"], pr["err"]["col"]) \
            and f0["cause"].get("code") == pr["err"].get("code"):
        fails.append(("recovery_location", "first recovered error at %d:%d, the strict position-tracking parser stops at %d:%d" % (f0["line"], f0["col"], pr["err"]["line"], pr["err"]["col"])))
    return fails


def true_offsets(bs, r):
    """(start, end) byte offsets of every token of a successfully tokenized input, derived as in token_oracle; None if not derivable"""
    T = Text(bs)
    toks, comments = r["tokens"], r.get("comments") or []
    out, pos, ci = [], 0, 0
    try:
        for k, t in enumerate(toks):
            while True:
                while pos < T.n and bs[pos] in WS:
                    pos += 1
                if ci < len(comments):
                    ct = hexs(comments[ci]["thex"])
                    if ct and bs.startswith(ct, pos):
                        pos += len(ct); ci += 1
                        continue
                break
            if t["type"] == EOF_TYPE:
                out.append((T.n, T.n))
                continue
            end = match_lexeme(T, pos, t)
            if end is None:
                end = T.offset_of(t["el"], t["ec"])
                if end is None or end <= pos:
                    return None
            out.append((pos, end)); pos = end
    except Fail:
        return None
    return out


# ------------------------------------------------------------------------------------------------
# generators

KEYWORDS = ["SELECT", "FROM", "WHERE", "AND", "OR", "NOT", "INSERT", "INTO", "VALUES", "UPDATE", "SET", "DELETE", "JOIN", "ON", "AS",
            "select", "from", "Where", "NULL", "IN", "IS", "LIKE", "BETWEEN", "CASE", "WHEN", "THEN", "ELSE", "END", "UNION", "ALL",
            "HAVING", "LIMIT", "OFFSET", "WITH", "CREATE", "TABLE", "DROP", "INNER", "LEFT", "OUTER", "CROSS", "GROUP", "ORDER", "BY",
            "FULL", "NATURAL", "RIGHT", "GROUPING", "SETS"]
COMPOUNDS = [("GROUP", "BY"), ("ORDER", "BY"), ("LEFT", "JOIN"), ("RIGHT", "JOIN"), ("INNER", "JOIN"), ("OUTER", "JOIN"), ("FULL", "JOIN"),
             ("CROSS", "JOIN"), ("LEFT", "OUTER"), ("GROUPING", "SETS"), ("group", "by"), ("Order", "bY"), ("NATURAL", "JOIN")]
IDENTS = ["a", "b", "t1", "users", "x_y", "col1", "_u", "名前", "ユーザー", "straße", "café", "Ünï", "z9", "naïve"]
NUMBERS = ["0", "1", "42", "3.14", "1e5", "2.5E-3", "007", "1e+9", "10.0"]
STRINGS = ["''", "'a'", "'it''s'", "'two words'", "'line1\nline2'", "'a\n\nb\n'", "'tab\there'", "'héllo'", "'日本語'", "'a\\nb'", "'q\\'q'",
           "'-- not a comment'", "'/* nor this */'", "'x\r\ny'"]
QIDENTS = ['"a"', '"A b"', '"x""y"', '"名"', "`a`", "`a b`", "`x``y`", "`multi\nline`", "“quoted”", "«guil»", "‘uq’"]
OPERATORS = ["(", ")", ",", ";", ".", "+", "-", "*", "/", "=", "<", ">", "<=", ">=", "<>", "!=", "||", "::", "->", "->>", "=>", "%", "[", "]",
             "@>", "<@", "#>", "#>>", "?", "~", "~*", "!~", "!~*", "&", "|", "^", ":", "@", "#"]
PLACEHOLDERS = ["$1", "$23", "?", ":name", "@v"]
DOLLARS = ["$$x$$", "$$a\nb$$", "$t$ body $t$", "$fn$\n  SELECT 1;\n$fn$", "$$$$"]
LINE_COMMENTS = ["-- c", "--", "-- héllo wörld", "-- 'quote", "--x--y", "-- /* z", "-- tab\tin comment"]
BLOCK_COMMENTS = ["/* c */", "/**/", "/* a\n b */", "/* é */", "/*\n\n*/", "/* -- */", "/* ' */", "/* * / */", "/*\tt */", "/***/", "/****/", "/** doc **/", "/* text **/", "/* a ***/", "/* a * b * c */", "/* / * */"]


def gen_sep(rng, mode):
    """a separator: mixtures of blanks, tabs, CR, LF, CRLF, blank lines, comments"""
    parts = []
    for _ in range(rng.choice([1, 1, 1, 2, 2, 3, 4])):
        x = rng.random()
        if x < 0.30:
            parts.append(" " * rng.choice([1, 1, 2, 3, 7]))
        elif x < 0.45:
            parts.append("\n" * rng.choice([1, 1, 2, 3]))
        elif x < 0.52:
            parts.append("\r\n" * rng.choice([1, 2]))
        elif x < 0.58 and mode != "plain":
            parts.append("\t" * rng.choice([1, 2]))
        elif x < 0.61:
            parts.append("\r")
        elif x < 0.78:
            c = rng.choice(LINE_COMMENTS)
            if mode == "plain":
                c = c.encode("ascii", "ignore").decode().replace("\t", " ")
            parts.append(c + rng.choice(["\n", "\n", "\r\n", "\n\n", "\n  "]))
        elif x < 0.95:
            c = rng.choice(BLOCK_COMMENTS)
            if mode == "plain":
                c = c.encode("ascii", "ignore").decode().replace("\t", " ")
            parts.append(c)
        else:
            parts.append(" ")
    s = "".join(parts)
    if not s.strip(" \t\r\n") and not s:
        s = " "
    return s


def gen_lexeme(rng, mode):
    x = rng.random()
    def pick(l):
        v = rng.choice(l)
        if mode == "plain":
            tries = 0
            while (any(ord(c) > 127 for c in v) or "\t" in v) and tries < 20:
                v = rng.choice(l); tries += 1
            if any(ord(c) > 127 for c in v) or "\t" in v:
                v = "x"
        return v
    if x < 0.22:
        return pick(KEYWORDS)
    if x < 0.30:
        a, b = rng.choice(COMPOUNDS)
        return a + gen_ws(rng, mode) + b
    if x < 0.48:
        return pick(IDENTS)
    if x < 0.58:
        return pick(NUMBERS)
    if x < 0.70:
        return pick(STRINGS)
    if x < 0.78:
        return pick(QIDENTS)
    if x < 0.93:
        return pick(OPERATORS)
    if x < 0.97:
        return pick(PLACEHOLDERS)
    return pick(DOLLARS)


def gen_ws(rng, mode):
    return "".join(rng.choice([" ", " ", "  ", "\n", "\n ", "\r\n", "\n\n"] + ([] if mode == "plain" else ["\t"])) for _ in range(rng.choice([1, 1, 2])))


def gen_lexical(rng, n, maxlen=380):
    """random lexeme sequences with arbitrary line structure and comment placement"""
    out = []
    for i in range(n):
        mode = "plain" if rng.random() < 0.55 else "any"
        parts = []
        if rng.random() < 0.5:
            parts.append(gen_sep(rng, mode))
        for _ in range(rng.randint(1, 14)):
            lx = gen_lexeme(rng, mode)
            parts.append(lx)
            tight = lx in OPERATORS and rng.random() < 0.3
            parts.append("" if tight else gen_sep(rng, mode))
        if rng.random() < 0.3:
            parts.append(rng.choice(LINE_COMMENTS if mode != "plain" else ["-- c", "--"]))      # trailing comment without newline
        s = "".join(parts).encode("utf-8")
        if len(s) > maxlen:
            s = s[:maxlen]
            while s and (s[-1] & 0xC0) == 0x80:
                s = s[:-1]
        out.append(s)
    return out


def layout_noise(rng, sql, mode="any"):
    """replace blanks outside quotes by arbitrary separators"""
    out, i, n = [], 0, len(sql)
    q = None
    while i < n:
        c = sql[i]
        if q:
            out.append(c)
            if c == q:
                q = None
            elif c == "\\" and i + 1 < n:
                out.append(sql[i + 1]); i += 1
        elif c in "'\"`":
            q = c; out.append(c)
        elif c == " " and rng.random() < 0.6:
            out.append(gen_sep(rng, mode))
        elif c in "(,)" and rng.random() < 0.15:
            out.append(c + rng.choice(["\n", "\n  ", " /* k */ ", " -- e\n"]))
        else:
            out.append(c)
        i += 1
    pre = gen_sep(rng, mode) if rng.random() < 0.4 else ""
    return pre + "".join(out)


MALFORMED_TAILS = ["'abc", "\"abc", "\"ab\ncd", "`abc", "1.", "1.x", "1e", "2e+", "'a\\q'", "'a\\", "$a$ xx", "$$ never", "§", "\\", "'''abc",
                   "\"\"\"abc", "{", "}", "\x01", "/* open", "'x\n\ny", "3.e", "“abc", "!"]


def gen_malformed(rng, n):
    out = []
    for _ in range(n):
        mode = "plain" if rng.random() < 0.6 else "any"
        parts = [gen_sep(rng, mode) if rng.random() < 0.6 else ""]
        for _ in range(rng.randint(0, 6)):
            parts.append(gen_lexeme(rng, mode)); parts.append(gen_sep(rng, mode))
        parts.append(rng.choice(MALFORMED_TAILS))
        if rng.random() < 0.4:
            parts.append(gen_sep(rng, mode) + gen_lexeme(rng, mode))
        s = "".join(parts).encode("utf-8")
        if rng.random() < 0.1:
            k = rng.randrange(len(s) + 1)
            s = s[:k] + bytes([rng.choice([0xff, 0xc3, 0x80, 0xe2, 0x00])]) + s[k:]
        out.append(s[:400])
    return out


REPLACEMENTS = [b",", b")", b"(", b"FROM", b"SELECT", b"1", b"zz", b"'s'", b";", b"=", b"BY", b"JOIN", b"WHERE", b"GROUP\n BY", b"ORDER BY", b"LEFT  JOIN",
                b"WITHIN GROUP BY", b"INNER\n\nJOIN"]


def corruptions(rng, bs, offs, limit):
    """single-token corruptions of a valid statement (delete / duplicate / replace one token), layout kept"""
    out = []
    idx = [k for k, (s, e) in enumerate(offs) if e > s]
    cand = []
    for k in idx:
        s, e = offs[k]
        cand.append(("delete", k, bs[:s] + bs[e:]))
        cand.append(("duplicate", k, bs[:e] + b" " + bs[s:e] + bs[e:]))
        cand.append(("replace", k, bs[:s] + rng.choice(REPLACEMENTS) + bs[e:]))
    if offs:
        cand.append(("truncate", len(idx), bs[:offs[idx[rng.randrange(len(idx))]][0]] if idx else bs))
    rng.shuffle(cand)
    return cand[:limit]


# ------------------------------------------------------------------------------------------------
# harness / Coq plumbing

def run_loc(inputs, tbl=False, parse=False, timeout=1800):
    inp = "".join(json.dumps({"hex": b.hex(), "tbl": tbl, "parse": parse}) + "\n" for b in inputs)
    p = common.vh(["loc"], input=inp, timeout=timeout)
    res = []
    for l in p.stdout.splitlines():
        if l.strip():
            try:
                res.append(json.loads(l))
            except ValueError:
                res.append({"harness_error": l[:200]})
    return p, res


def coq_case(bs, r):
    nl = lambda xs: "[" + "; ".join("%d%%N" % x for x in xs) + "]"
    pl = lambda xs: "[" + "; ".join("(%d%%N, %d%%N)" % (a, b) for a, b in xs) + "]"
    return "(%s, %s, %s, %s)" % (nl(bs), nl(r["linestarts"]), pl(r["tbl"]), pl(r["gtbl"]))


def coq_tables(rp, cases, tier):
    """the model evaluated inside Coq on the same bytes: line table, to_loc and get_location for every offset"""
    nsh = 4 if tier == "quick" else 16
    shards = [cases[i::nsh] for i in range(nsh)]
    bad = []
    for si, sh in enumerate(shards):
        if not sh:
            continue
        body = ("From Coq Require Import List NArith.\nFrom GV Require Import Model.Loc.\nImport ListNotations.\n"
                "Definition cases : list (list N * list N * list (N * N) * list (N * N)) := [\n" +
                ";\n".join(coq_case(bs, r) for bs, r in sh) + "].\n"
                "Definition bad := Eval vm_compute in bad_idx loc_case_ok 0%N cases.\nPrint bad.\n")
        ok, out, err = common.coq_cases("c05_cases_%d" % si, body)
        if not ok:
            rp.violation({"kind": "correspondence", "broken": "Coq evaluation of Model/Loc.v on generated cases", "detail": err[-2000:]},
                         "loc_cases_coq", no_input=True)
            return None
        bad += [sh[i] for i in common.parse_nlist(out)]
    return bad


def parse_case(r):
    """Coq term of one parser-side case: tokenizer tokens (span + literal lengths of the parser tokens each expands to),
    the implementation's position mapping, the cursor, the error location"""
    pr = r["parse"]
    groups = {}
    for q, c in zip(pr["positions"], pr["conv"]):
        groups.setdefault(q["oi"], []).append(len(c["lit"].encode()))
    toks = []
    for k, t in enumerate(r["tokens"]):
        ws = groups.get(k, [])
        toks.append("((%d%%N, %d%%N), (%d%%N, %d%%N), [%s])" % (t["sl"], t["sc"], t["el"], t["ec"], "; ".join("%d%%N" % w for w in ws)))
    pos = ["(%d%%N, ((%d%%N, %d%%N), (%d%%N, %d%%N)))" % (q["oi"], q["sl"], q["sc"], q["el"], q["ec"]) for q in pr["positions"]]
    return "([%s], [%s], %d%%N, (%d%%N, %d%%N))" % ("; ".join(toks), "; ".join(pos), pr["cursor"], pr["err"]["line"], pr["err"]["col"])


def coq_parse_cases(rp, cases, tier, own="true"):
    nsh = 2 if tier == "quick" else 8
    bad = []
    for si in range(nsh):
        sh = cases[si::nsh]
        if not sh:
            continue
        body = ("From Coq Require Import List NArith.\nFrom GV Require Import Model.Loc.\nImport ListNotations.\n"
                "Definition cases : list (list ((N * N) * (N * N) * list N) * list (N * ((N * N) * (N * N))) * N * (N * N)) := [\n" +
                ";\n".join(parse_case(r) for _, r in sh) + "].\n"
                "Definition bad := Eval vm_compute in bad_idx (parse_case_ok %s) 0%%N cases.\nPrint bad.\n" % own)
        ok, out, err = common.coq_cases("c05_pcases_%s_%d" % (own, si), body)
        if not ok:
            rp.violation({"kind": "correspondence", "broken": "Coq evaluation of the position mapping model on generated cases", "detail": err[-2000:]},
                         "loc_pcases_coq", no_input=True)
            return None
        bad += [sh[i] for i in common.parse_nlist(out)]
    return bad


ERR_CTOR = re.compile(r"(goerrors|errors)\.\w*(Error|NewError|WrapError)\w*\(|\.WithLocation\(|expectedError\(|errorAt\(")
ZERO_LOC = re.compile(r"models\.Location\{\s*(Line:\s*0\s*,\s*Column:\s*0\s*)?\}")


def scan_error_sites():
    """every error constructed in the grammar functions of pkg/sql/parser (the unexported methods of *Parser) must take its
    location from p.currentLocation(); returns all sites that pass a literal zero Location, flagged grammar / not
    (exported entry points and package-level helpers run without a position mapping by construction)"""
    d = os.path.join(common.REPO, "pkg", "sql", "parser")
    sites, total_cur = [], 0
    for fn in sorted(os.listdir(d)):
        if not fn.endswith(".go") or fn.endswith("_test.go") or fn.startswith("verif_hooks"):
            continue
        func, method = "", False
        for i, line in enumerate(open(os.path.join(d, fn), encoding="utf-8", errors="replace"), 1):
            m = re.match(r"func (\([^)]*\) )?(\w+)", line)
            if m:
                func, method = m.group(2), bool(m.group(1)) and "*Parser" in m.group(1)
            code = line.split("//")[0]
            total_cur += code.count("currentLocation()")
            # only a zero Location handed to an error constructor locates an error at 0:0 (a comparison with the zero
            # value, or a zero Location used for something else, is not an error site)
            if ZERO_LOC.search(code) and ERR_CTOR.search(code):
                sites.append({"file": fn, "line": i, "func": func, "grammar": method and func[:1].islower() and func != "currentLocation"})
    return sites, total_cur


def known_match(kf, kind, bs, detail):
    for k in kf:
        if k["status"] != "known":
            continue
        sig = k["signature"]
        if sig.get("kind") != kind:
            continue
        if "contains_hex" in sig and bytes.fromhex(sig["contains_hex"]) not in bs:
            continue
        if "detail_re" in sig and not re.search(sig["detail_re"], detail):
            continue
        return k
    return None


def shrink(bs, still_fails, budget=60):
    """cheap delta debugging over bytes chunks"""
    cur = bs
    step = max(1, len(cur) // 2)
    calls = 0
    while step >= 1 and calls < budget:
        i, changed = 0, False
        while i < len(cur) and calls < budget:
            cand = cur[:i] + cur[i + step:]
            calls += 1
            if cand and still_fails(cand):
                cur = cand; changed = True
            else:
                i += step
        if not changed:
            step //= 2
    return cur


def eval_input(bs, parse=False):
    """oracle verdict on one input (used by replay and shrinking): list of (kind, detail)"""
    p, res = run_loc([bs], parse=parse)
    if not res or "harness_error" in res[0]:
        return [("harness", p.stderr[-300:])]
    r = res[0]
    if r.get("panic"):
        return [("panic", r["panic"][:200])]
    if not r["err"]["nil"]:
        return tokerr_oracle(bs, r)
    fails, _ = token_oracle(bs, r)
    if parse:
        f2, _ = parse_oracle(bs, r, true_offsets(bs, r))
        fails = fails + f2 + split_mapping_failures(bs, r) + recovery_failures(bs, r)
    return fails


# ------------------------------------------------------------------------------------------------

THEOREMS = ["C05_loc_spec", "C05_loc_one_based", "C05_loc_monotone", "C05_loc_strict", "C05_loc_injective", "C05_loc_injective_on_line", "C05_loc_inside",
            "C05_loc_exact_ascii", "C05_loc_exact_chars", "C05_loc_clamped", "C05_resume_point_form_is_to_loc", "C05_get_location_agrees", "C05_spans_ordered_loc",
            "C05_spans_one_based_strict", "C05_error_at_offending_token", "C05_error_at_plain_token", "C05_error_beyond_tokens",
            "C05_split_spans_exact", "C05_split_positions_ordered", "C05_split_positions_inside", "C05_split_positions_shared_refuted",
            "C05_tokenizer_error_offset", "C05_tokenizer_error_location_inside"]


def run(tier):
    rp = Report("C05", tier)
    rng = random.Random(common.seed())
    quick = tier == "quick"
    try:
        with common.Lock():
            common.stage_harness()
            import gen04   # the tokenizer model (error-location theorems, Proofs/LexErrLocP.v) is built over the lexical tables of this tree
            gen04.emit_lextables(gen04.stage_lextables())
            ok_inst, ok_props, _, logs = common.coq_stage(rp, ["theories/Proofs/LocP.vo", "theories/Proofs/LocCostP.vo", "theories/Proofs/LexErrLocP.vo"], "theories/Props/C05.v",
                                                          ["Props.C05." + t for t in THEOREMS])
    except common.StageError as e:
        return common.stage_fail(rp, e)
    if not ok_inst or not ok_props:
        rp.violation({"kind": "proof", "theorem": "Props/C05.v", "log": (logs["props"] or logs["inst"])[-3000:]}, "props_c05", no_input=True)
    kf = common.known_findings("C05")

    # ---- inputs
    corpus = sqlgen.corpus_statements()
    files = []
    for f in sqlgen.corpus_files():
        try:
            b = open(f, "rb").read()
        except OSError:
            continue
        if 0 < len(b) < 60000:
            files.append(b)
    gen_sql = sqlgen.generated_statements(rng, 150 if quick else 2500) + sqlgen.SPECIAL
    lexical = gen_lexical(rng, 700 if quick else 12000)
    noisy = [layout_noise(rng, s, "plain" if rng.random() < 0.5 else "any").encode() for s in (gen_sql + rng.sample(corpus, min(len(corpus), 150 if quick else 1500)))]
    malformed = gen_malformed(rng, 250 if quick else 4000)
    witnesses = [bytes.fromhex(k["witness"]["hex"]) for k in kf if isinstance(k.get("witness"), dict) and "hex" in k["witness"]]
    streams = [("witness", witnesses), ("corpus_file", files if not quick else files[:60]), ("corpus_stmt", [s.encode() for s in (corpus if not quick else corpus[:400])]),
               ("lexical", lexical), ("layout_noise", noisy), ("malformed", malformed)]
    inputs, origin = [], []
    for name, l in streams:
        for b in l:
            inputs.append(b); origin.append(name)

    # table correspondence: inputs small enough for Coq
    small = [i for i, b in enumerate(inputs) if len(b) <= 400 and origin[i] in ("lexical", "layout_noise", "malformed", "witness")]
    rng.shuffle(small)
    tbl_set = set(small[:160 if quick else 2400])

    p, res = run_loc(inputs, parse=False)
    if p.returncode != 0 or len(res) != len(inputs):
        rp.violation({"kind": "harness", "detail": p.stderr[-2000:], "got": len(res), "want": len(inputs)}, "loc_harness", no_input=True)
        return rp.finish()
    tbl_inputs = [inputs[i] for i in sorted(tbl_set)]
    p2, res_tbl = run_loc(tbl_inputs, tbl=True)
    if p2.returncode != 0 or len(res_tbl) != len(tbl_inputs):
        rp.violation({"kind": "harness", "detail": p2.stderr[-2000:]}, "loc_harness_tbl", no_input=True)
        return rp.finish()

    unstable = [b for b, r in zip(tbl_inputs, res_tbl) if "tbl" in r and not r.get("tbl_stable", True)]
    rp.obligation("toSQLPosition is a function of (input, offset): same answers queried forwards, backwards, in stride and zig-zag order and after the instance read another input (%d inputs)"
                  % len(tbl_inputs), not unstable)
    for b in unstable[:2]:
        rp.violation({"kind": "oracle", "failure": "loc_order_dependent", "hex": b.hex(), "text": b.decode("utf-8", "replace"), "tbl": True,
                      "explanation": "toSQLPosition reports different line/column for the same offset of the same input depending on which offsets were asked before (or on an earlier input of the instance)"},
                     "loc_order_dependent_%d" % len(rp.violations))

    # ---- oracle on tokens / comments / tokenizer errors
    dist = {}
    fail_by_kind = {}
    stats = {"ok_inputs": 0, "err_inputs": 0, "elements": 0, "multiline": 0, "after_comment": 0, "after_blank": 0, "nonplain": 0, "unresolved": 0,
             "err_codes": {}}
    distinct = set()
    for i, (bs, r) in enumerate(zip(inputs, res)):
        dist[origin[i]] = dist.get(origin[i], 0) + 1
        if "harness_error" in r:
            rp.violation({"kind": "harness", "detail": r["harness_error"]}, "loc_harness_line", no_input=True)
            continue
        if r.get("panic"):
            fails = [("panic", r["panic"][:300])]
        elif not r["err"]["nil"]:
            stats["err_inputs"] += 1
            c = r["err"].get("code", "?")
            stats["err_codes"][c] = stats["err_codes"].get(c, 0) + 1
            fails = tokerr_oracle(bs, r)
            if b"\n" in bs[:r["pos_index"]]:
                distinct.add(("err", c, bs))
        else:
            fails, info = token_oracle(bs, r)
            stats["ok_inputs"] += 1
            for k in ("elements", "multiline", "after_comment", "after_blank", "nonplain"):
                stats[k] += info[k]
            stats["unresolved"] += 1 if info["unresolved"] else 0
            if info["elements"] > 2 and b"\n" in bs:
                distinct.add(("tok", bs))
        for kind, detail in fails:
            fail_by_kind.setdefault(kind, []).append((i, detail))

    report_failures(rp, kf, fail_by_kind, inputs, origin, parse=False)

    # ---- model correspondence inside Coq: full tables
    if ok_inst:
        cases = [(bs, r) for bs, r in zip(tbl_inputs, res_tbl) if "tbl" in r]
        bad = coq_tables(rp, cases, tier)
        if bad is not None:
            rp.obligation("correspondence: Coq line_starts/to_loc/get_location = Tokenizer line table/toSQLPosition/getLocation on every offset 0..len+2 of %d inputs (%d offsets)"
                          % (len(cases), sum(len(r["tbl"]) for _, r in cases)), not bad)
            rp.cov["offset_tables_validated_against_model"] = len(cases)
            rp.cov["offsets_validated_against_model"] = sum(len(r["tbl"]) for _, r in cases)
            for bs, r in bad[:3]:
                # does the implementation violate the property on this input?  decide with the reference reading
                T = Text(bs)
                wrong = [o for o in range(len(bs) + 1) if (r["tbl"][o][0] != T.spec_line(o)) or (T.plain(T.line_index(o)) and r["tbl"][o][1] != T.spec_col_plain(o))]
                rp.violation({"kind": "correspondence" if not wrong else "oracle", "hex": bs.hex(), "text": bs.decode("utf-8", "replace"),
                              "offsets_with_wrong_location": wrong[:10], "impl_table": r["tbl"][:40],
                              "explanation": "toSQLPosition of the tree differs from Model/Loc.v on this input" +
                                             ("; at the listed offsets it also differs from line = 1 + LFs before, column = 1 + bytes since line start" if wrong else
                                              " (on lines with tabs / non-ASCII only: the column convention changed; theorems C05_loc_* speak about the old one)")},
                             "loc_model_mismatch_%d" % len(rp.violations), no_input=not wrong)

    # ---- parser side: single-token corruptions of valid statements
    valid_src = [s.encode() for s in (sqlgen.SPECIAL + gen_sql[:120 if quick else 1200] + rng.sample(corpus, min(len(corpus), 80 if quick else 800)))]
    valid_src = [layout_noise(rng, b.decode("utf-8", "replace"), "plain" if rng.random() < 0.7 else "any").encode() if rng.random() < 0.7 else b for b in valid_src]
    valid_src = [b for b in valid_src if len(b) < 3000]
    pv, rv = run_loc(valid_src, parse=True)
    corrupted, cmeta = [], []
    nvalid = 0
    for bs, r in zip(valid_src, rv):
        if "harness_error" in r or not r["err"]["nil"] or not r.get("parse") or not r["parse"]["err"]["nil"]:
            continue
        offs = true_offsets(bs, r)
        if not offs:
            continue
        nvalid += 1
        for kind, k, cb in corruptions(rng, bs, offs, 12 if quick else 40):
            corrupted.append(cb); cmeta.append((kind, k))
    # hand-written shapes: errors at the second half of a split compound keyword, at EOF, after comments / blank lines
    for s in PARSE_SPECIAL:
        corrupted.append(s.encode()); cmeta.append(("special", 0))
    pc, rc = run_loc(corrupted, parse=True)
    if pc.returncode != 0 or len(rc) != len(corrupted):
        rp.violation({"kind": "harness", "detail": pc.stderr[-2000:]}, "loc_harness_parse", no_input=True)
        return rp.finish()
    pfail = {}
    pstats = {"valid_statements": nvalid, "corruptions": len(corrupted), "rejected_by_parser": 0, "rejected_by_tokenizer": 0, "still_accepted": 0,
              "codes": {}, "error_on_later_line": 0, "error_at_split_part": 0, "by_kind": {}}
    for i, (bs, r) in enumerate(zip(corrupted, rc)):
        if "harness_error" in r:
            continue
        if not r["err"]["nil"]:
            pstats["rejected_by_tokenizer"] += 1
            for kind, detail in tokerr_oracle(bs, r):
                pfail.setdefault(kind, []).append((i, detail))
            continue
        pr = r.get("parse")
        if pr and pr.get("panic"):
            continue        # C01's business
        if not pr or pr["err"]["nil"]:
            pstats["still_accepted"] += 1
            continue
        pstats["rejected_by_parser"] += 1
        fails, info = parse_oracle(bs, r, true_offsets(bs, r))
        fails = fails + split_mapping_failures(bs, r) + recovery_failures(bs, r)
        pstats["recovered_errors"] = pstats.get("recovered_errors", 0) + len(pr.get("rec_errs") or [])
        if info:
            pstats["codes"][info["code"]] = pstats["codes"].get(info["code"], 0) + 1
            pstats["by_kind"][cmeta[i][0]] = pstats["by_kind"].get(cmeta[i][0], 0) + 1
            if info["line"] > 1:
                pstats["error_on_later_line"] += 1
                distinct.add(("perr", bs))
            if info["split"]:
                pstats["error_at_split_part"] += 1
        for kind, detail in fails:
            pfail.setdefault(kind, []).append((i, detail))
    report_failures(rp, kf, pfail, corrupted, ["corruption"] * len(corrupted), parse=True)

    # ---- model correspondence inside Coq: position mapping (split compound keywords) and the location lookup at the cursor
    if ok_inst:
        pcs = [(bs, r) for bs, r in zip(corrupted, rc) if r.get("parse") and not r["parse"]["err"]["nil"] and r["parse"]["err"].get("structured")
               and not r["parse"].get("panic") and r["parse"]["positions"] and len(r["tokens"]) <= 120
               and len(r["parse"]["positions"]) == len(r["parse"]["conv"])]
        split_cases = [c for c in pcs if len(c[1]["parse"]["positions"]) > len(c[1]["tokens"])]
        rest = [c for c in pcs if len(c[1]["parse"]["positions"]) == len(c[1]["tokens"])]
        rng.shuffle(rest)
        pcs = split_cases[:150 if quick else 1500] + rest[:150 if quick else 1500]
        badp = coq_parse_cases(rp, pcs, tier)
        if badp is not None:
            rp.obligation("correspondence: Coq conv_positions/current_location = converter position mapping / error location at the parser cursor on %d rejected corruptions (%d with split compound keywords)"
                          % (len(pcs), len([c for c in pcs if len(c[1]["parse"]["positions"]) > len(c[1]["tokens"])])), not badp)
            rp.cov["parse_cases_validated_against_model"] = len(pcs)
            for bs, r in badp[:3]:
                f, _ = parse_oracle(bs, r, true_offsets(bs, r))
                mapping_bad = split_mapping_failures(bs, r)
                rp.violation({"kind": "oracle" if (f or mapping_bad) else "correspondence", "hex": bs.hex(), "text": bs.decode("utf-8", "replace"), "parse": True,
                              "failures": f + mapping_bad, "cursor": r["parse"]["cursor"], "positions": r["parse"]["positions"],
                              "explanation": "position mapping / error location of the tree differs from Model/Loc.v (conv_positions, current_location) on this input"},
                             "pos_model_mismatch_%d" % len(rp.violations), no_input=not (f or mapping_bad))

    # ---- source scan: no grammar function builds an error with a literal zero Location
    sites, ncur = scan_error_sites()
    bad_sites = [s for s in sites if s["grammar"]]
    known_sites = [k for k in kf if k["status"] == "known" and k["signature"].get("kind") == "error_site"]
    unlisted = []
    for s in bad_sites:
        k = [x for x in known_sites if x["signature"].get("file") == s["file"] and x["signature"].get("func") == s["func"]]
        if k:
            rp.known(k[0]["key"], k[0]["what"])
        else:
            unlisted.append(s)
    rp.obligation("error-site table: every error built in pkg/sql/parser grammar functions takes p.currentLocation() (%d uses), none passes a literal zero Location" % ncur,
                  not unlisted, json.dumps(unlisted)[:300])
    rp.cov["parser_error_sites_using_currentLocation"] = ncur
    if unlisted:
        # look for an input that reaches one of them: any corruption whose error has no location was already reported by the oracle
        already = "parse_error_no_location" in pfail
        if not already:
            rp.violation({"kind": "table", "sites": unlisted, "theorem": "C05_error_at_offending_token (hypothesis: errors are located by currentLocation)",
                          "explanation": "these parser error sites pass a literal zero Location instead of p.currentLocation(); no generated corruption reached them"},
                         "zero_location_sites", no_input=True)

    # ---- the one tokenizer error raised before any scanning: input larger than MaxInputSize
    inp = json.dumps({"hex": b"SELECT 1;\n".hex(), "repeat": 1048577}) + "\n"
    po = common.vh(["loc"], input=inp, timeout=300)
    try:
        ro = json.loads(po.stdout.splitlines()[0])
        big_ok = (not ro["err"]["nil"]) and ro["err"].get("structured") and ro["err"]["line"] >= 1 and ro["err"]["col"] >= 1 and ro["err"]["line"] <= 1048578
        rp.obligation("oversized input (%d bytes): the size-limit error carries a 1-based location inside the input" % ro["n"], bool(big_ok),
                      "%s at %d:%d" % (ro["err"].get("code"), ro["err"]["line"], ro["err"]["col"]))
        if not big_ok:
            rp.violation({"kind": "oracle", "failure": "not_one_based", "oversize": {"hex": b"SELECT 1;\n".hex(), "repeat": 1048577},
                          "error": ro["err"], "explanation": "the tokenizer error for an input larger than MaxInputSize carries location %d:%d (not 1-based / not inside the input)" % (ro["err"]["line"], ro["err"]["col"])},
                         "oversize_error_location")
    except (ValueError, IndexError, KeyError) as ex:
        rp.violation({"kind": "harness", "detail": po.stderr[-1000:] + repr(ex)}, "loc_harness_oversize", no_input=True)

    # ---- fixed findings: their witnesses must pass
    for k in kf:
        if k["status"] == "fixed" and isinstance(k.get("witness"), dict) and "hex" in k["witness"]:
            wb = bytes.fromhex(k["witness"]["hex"])
            f = eval_input(wb, parse=bool(k["witness"].get("parse")))
            rp.obligation("fixed finding stays fixed: " + k["key"], not f, "; ".join(d for _, d in f)[:300])
            if f:
                rp.violation({"kind": "oracle", "hex": wb.hex(), "text": wb.decode("utf-8", "replace"), "parse": bool(k["witness"].get("parse")),
                              "failures": f, "explanation": "defect recorded as fixed (%s) is back: %s" % (k.get("commit"), k["what"])},
                             "regressed_" + k["key"])
        elif k["status"] == "known" and isinstance(k.get("witness"), dict) and "hex" in k["witness"]:
            wb = bytes.fromhex(k["witness"]["hex"])
            f = eval_input(wb, parse=bool(k["witness"].get("parse")))
            if not f:
                rp.cov["notes"].append("stale known finding (witness passes now): " + k["key"])

    rp.cov["evaluations"] = len(inputs) + len(corrupted) + len(tbl_inputs)
    rp.cov["distinct_nontrivial"] = len(distinct)
    rp.cov["rule"] = ("inputs: repository SQL files and statements, lexical generator (lexeme classes x separators: blanks, tabs, CR, LF, CRLF, blank lines, "
                      "line/block comments, multi-line literals, non-ASCII), generated statements with layout noise, malformed tails, single-token corruptions "
                      "(delete/duplicate/replace/truncate) of statements the parser accepts; non-trivial = multi-line input with more than 2 located elements, "
                      "or a tokenizer error after a line break, or a syntax error located after line 1; distinct = distinct input bytes")
    rp.cov["input_distribution"] = dist
    rp.cov["token_stats"] = stats
    rp.cov["parse_error_stats"] = pstats
    rp.cov["samples"] = ([{"text": inputs[i].decode("utf-8", "replace")[:160], "tokens": len(res[i].get("tokens") or []), "origin": origin[i]}
                          for i in range(len(inputs)) if origin[i] == "lexical"][:2] +
                         [{"text": corrupted[i].decode("utf-8", "replace")[:160], "error": rc[i]["parse"]["err"].get("code"),
                           "at": [rc[i]["parse"]["err"]["line"], rc[i]["parse"]["err"]["col"]], "cursor": rc[i]["parse"]["cursor"]}
                          for i in range(len(corrupted)) if rc[i].get("parse") and not rc[i]["parse"]["err"]["nil"]][:2])
    rp.assumptions = ["column convention of the code: tab = 4 columns, one column per byte (exact columns asserted by the oracle on ASCII tab-free lines only)",
                      "token byte spans are ordered (start <= end <= next start <= len): hypothesis of C05_spans_ordered_loc, checked by the oracle on every input, proved on the lexer model by C04",
                      "offending token = converted token under the parser cursor when the error is returned (hook Parser.VerifState)"]
    return rp.finish()


PARSE_SPECIAL = [
    "SELECT PERCENTILE_CONT(0.5) WITHIN GROUP\n   BY (ORDER BY a) FROM t",
    "SELECT PERCENTILE_CONT(0.5) WITHIN GROUP BY",
    "SELECT f(x) WITHIN\nGROUP\n\nBY\n(ORDER BY a) FROM t",
    "SELECT a\nFROM t\nGROUP\n  BY",
    "SELECT a FROM t ORDER\n\n BY ,",
    "SELECT *\n-- c\nFROM a LEFT\n JOIN",
    "SELECT * FROM a INNER   JOIN ON",
    "SELECT a FROM t GROUP BY",
    "-- lead\n\nSELECT FROM",
    "/* b */ SELECT a,\n\n\n  FROM t",
    "SELECT 'x\ny\nz' FROM\n  WHERE",
    "INSERT INTO t\n(a, b)\nVALUES (1,\n  )",
    "SELECT a FROM t WHERE\n\t\ta = ",
    "UPDATE t\n  SET\n  WHERE a = 1",
    "SELECT a FROM t CROSS\nJOIN\n;",
    "SELECT GROUPING\n SETS",
    "SELECT a AS GROUP BY FROM t",
    "SELECT x FROM a FULL JOIN",
    "SELECT x FROM a NATURAL\n  JOIN ,",
    "CREATE TABLE t (\n  id INT,\n  ORDER BY\n)",
    "SELECT a FROM t LIMIT\n\n\n",
    "DELETE\nFROM\n",
    ";\n;\n",
    "\n\n   ",
    "SELECT (a +\n  (b *\n    )) FROM t",
    "WITH c AS (\n  SELECT 1\n)\nSELECT * FROM",
    "SELECT a FROM t ORDER BY a LEFT JOIN b",
    "SELECT ORDER BY",
    "ALTER TABLE t ORDER BY x",
    "SELECT a FROM t WINDOW w AS (PARTITION\n BY)",
]


def report_failures(rp, kf, fail_by_kind, inputs, origin, parse):
    for kind, lst in sorted(fail_by_kind.items()):
        # attribute each failing input to a known finding by narrow signature, else report (shrunk) — at most 3 per kind
        reported = 0
        known_seen = set()
        for i, detail in lst:
            bs = inputs[i]
            k = known_match(kf, kind, bs, detail)
            if k:
                if k["key"] not in known_seen:
                    rp.known(k["key"], k["what"]); known_seen.add(k["key"])
                continue
            if reported >= 3:
                continue
            small = bs
            if len(bs) <= 4000:
                def still(c, kind=kind):
                    f = eval_input(c, parse=parse)
                    return any(kk == kind for kk, _ in f) and not known_match(kf, kind, c, " ".join(d for kk, d in f if kk == kind))
                try:
                    small = shrink(bs, still)
                except Exception:
                    small = bs
            f = eval_input(small, parse=parse)
            rp.violation({"kind": "oracle", "failure": kind, "detail": detail, "hex": small.hex(), "text": small.decode("utf-8", "replace"),
                          "parse": parse, "shrunk_failures": [list(x) for x in f][:5], "original_hex": bs.hex() if len(bs) < 3000 else None,
                          "origin": origin[i], "total_inputs_failing_this_way": len(lst),
                          "explanation": "property C05 oracle: " + kind + " — " + detail},
                         "%s_%d" % (kind, reported))
            reported += 1


def replay(path):
    d = json.load(open(path))
    if d.get("oversize"):
        po = common.vh(["loc"], input=json.dumps(d["oversize"]) + "\n", timeout=300)
        ro = json.loads(po.stdout.splitlines()[0])
        print(json.dumps(ro["err"]))
        return 0 if (not ro["err"]["nil"] and ro["err"]["line"] >= 1 and ro["err"]["col"] >= 1) else 1
    if d.get("hex") is not None and d.get("tbl"):
        p, res = run_loc([bytes.fromhex(d["hex"])], tbl=True)
        bad = not res or not res[0].get("tbl_stable", False)
        print(json.dumps({"tbl_stable": not bad}))
        return 1 if bad else 0
    if d.get("hex") is not None:
        bs = bytes.fromhex(d["hex"])
        f = eval_input(bs, parse=bool(d.get("parse")))
        print(json.dumps({"failures": f}, ensure_ascii=False))
        return 1 if f else 0
    if d.get("sites") is not None:
        sites, _ = scan_error_sites()
        bad = [s for s in sites if s["grammar"]]
        print(json.dumps({"zero_location_sites": bad}))
        return 1 if bad else 0
    return 2
