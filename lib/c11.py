"""C11 — cancellation is honoured promptly, reported as such, and leaves no residue."""
import json, os, random, re, shutil
import common, sqlgen, errflow
from common import Report

MANIFEST = dict(
    technique='Coq proof over (1) the error-flow model instantiated with the error-site table regenerated from go/ssa (every path from a context poll to an entry point keeps errors.Is) and (2) the two polling loops TokenizeContext / ParseContext modelled as written with the context as an oracle + counting-context sweep of every poll index on the implementation',
    text="Theorems C11_ctx_reported (any error value made from a ctx.Err() poll, wherever it arrives in tokenizer/parser/gosqlx, still satisfies errors.Is: no site on a poll-to-API path rebuilds the error from its text, no poll result is discarded — instance lemmas on the regenerated site table), C11_cancel_reported / C11_ctx_error_only_when_done (ParseContext loop with a context oracle: if any of the polls the uncancelled run makes reports done, the call returns no tree and the context error, raised at the first such poll; for all inputs, statement parsers and oracles), C11_never_fires_equal and C11_tok_never_fires_equal (a context that never fires gives exactly the context-free result, both loop copies), C11_tok_cancel_reported, C11_tok_cancel_prompt (fewer than 100 further tokens once the context is done). The harness drives a counting context (Err() counts polls, turns done at poll k) through Tokenizer.TokenizeContext, Parser.ParseContextFromModelTokens and gosqlx.ParseWithContext for EVERY k up to the number of polls of the uncancelled run, Canceled and DeadlineExceeded: nil tree, errors.Is, no further polls, cursor advance after the done poll within the largest poll-free run, uncancelled run = context-free call, the same instances reused afterwards give the fresh-instance results; observed chain shapes must be derivable from the poll sites of the table.",
    note=common.BASE_NOTE + "The statement parser's contract inside the loop model (it fails with the context error at the first of its polls that reports done) is established by the site-table theorem plus the every-k sweep, not by a model of the 8000 lines of grammar functions. Real timers (ParseWithTimeout) are exercised only with an already expired deadline. Promptness of the parser is bounded by the largest poll-free token run of the input, which is unbounded for expression-free statement bodies (known finding).",
    design='6/C11')

THEOREMS = ["Props.C11.C11_ctx_reported", "Props.C11.C11_ctx_reported_refuted_at_rewrap_sites", "Props.C11.C11_cancel_reported",
            "Props.C11.C11_ctx_error_only_when_done", "Props.C11.C11_never_fires_equal", "Props.C11.C11_tok_never_fires_equal",
            "Props.C11.C11_tok_cancel_reported", "Props.C11.C11_tok_cancel_prompt", "Props.C11.C11_cursor_cancel_prompt"]
INST = ["Inst_C11.c11_ctx_free_ok", "Inst_C11.c11_no_rewrap_on_poll_paths", "Inst_C11.c11_no_discard_on_poll_paths", "Inst_C11.c11_polls_are_polls"]

# constructs inside which a poll happens (each was a re-wrap-by-text site on the pinned tree)
NESTED = [
    "WITH c AS (SELECT a FROM t WHERE a > 1) SELECT * FROM c",
    "WITH c AS (SELECT 1) INSERT INTO t (a) SELECT a + 1 FROM c",
    "SELECT CASE a WHEN 1 THEN b + 1 ELSE c * 2 END FROM t",
    "SELECT CASE WHEN a > 1 THEN 2 WHEN b THEN 3 ELSE 4 END FROM t",
    "SELECT a FROM t WHERE b BETWEEN c + 1 AND d * 2",
    "SELECT a FROM t WHERE b LIKE 'x' || c OR d NOT IN (1, 2 + 3, f(4))",
    "SELECT a FROM t WHERE b IN (SELECT c FROM u WHERE d = 1) AND e = ANY (SELECT f FROM v)",
    "SELECT (SELECT MAX(a + 1) FROM u), EXISTS (SELECT 1 FROM v WHERE x = 1) FROM t WHERE NOT EXISTS (SELECT 1 FROM w WHERE y > 2)",
    "SELECT a[1 + 2], b[1:2 + 3], c[1][2] FROM t",
    "SELECT * FROM a JOIN b ON a.x = b.x + 1 LEFT JOIN c ON c.y = a.y AND c.z > 0",
    "SELECT a FROM t UNION SELECT b FROM u WHERE c > 1 EXCEPT SELECT d FROM v WHERE e IN (1, 2)",
    "CREATE VIEW v AS SELECT a + 1 FROM t WHERE b > 2",
    "MERGE INTO t USING s ON t.a = s.a + 1 WHEN MATCHED AND s.b > 1 THEN UPDATE SET b = s.b + 1 WHEN NOT MATCHED THEN INSERT (a) VALUES (s.a + 2)",
    "INSERT INTO t (a, b) VALUES (1 + 2, f(3)) ON CONFLICT (a) DO UPDATE SET b = 4 + 5 WHERE t.a > 6 RETURNING a + 1",
    "SELECT MATCH (a) AGAINST ('x' || 'y') FROM t",
    "SELECT 1; SELECT a + 1 FROM t; ; SELECT CASE WHEN a THEN 1 END FROM u",
    "SELECT a FROM t WHERE x IN (SELECT CASE WHEN b BETWEEN 1 AND 2 THEN (SELECT c[1] FROM u) END FROM v JOIN w ON v.i = w.i)",
]

WIDE = {
    "create_table_columns": lambda n: "CREATE TABLE t (" + ",\n".join("c%d INT" % i for i in range(n)) + ")",
    "insert_column_list": lambda n: "INSERT INTO t (" + ",\n".join("c%d" % i for i in range(n)) + ") SELECT * FROM u",
    "select_items": lambda n: "SELECT " + ",\n".join("c%d" % i for i in range(n)) + " FROM t",
    "in_list": lambda n: "SELECT a FROM t WHERE b IN (" + ",\n".join(str(i) for i in range(n)) + ")",
    "values_rows": lambda n: "INSERT INTO t (a) VALUES " + ",\n".join("(%d)" % i for i in range(n)),
    "group_by_list": lambda n: "SELECT a FROM t GROUP BY " + ",\n".join("c%d" % i for i in range(n)),
    "from_tables": lambda n: "SELECT a FROM " + ",\n".join("t%d" % i for i in range(n)),
    "statements": lambda n: ";\n".join("SELECT %d" % i for i in range(n)),
    "drop_tables": lambda n: "DROP TABLE " + ",\n".join("t%d" % i for i in range(n)),
}


def build_inputs(tier, rng):
    nq = tier == "quick"
    inputs = []
    for i, s in enumerate(NESTED):
        inputs.append({"id": "nested%d" % i, "sql": s})
    for i, s in enumerate(list(sqlgen.SPECIAL)[: 12 if nq else 1000]):
        inputs.append({"id": "special%d" % i, "sql": s})
    for i, s in enumerate(sqlgen.corpus_statements(limit=25 if nq else 300)):
        if len(s) < 1500:
            inputs.append({"id": "corpus%d" % i, "sql": s})
    gen = sqlgen.generated_statements(rng, 40 if nq else 500)
    for i, s in enumerate(gen):
        inputs.append({"id": "gen%d" % i, "sql": s})
    # rejected inputs too: the failing run polls as well, and a cancelled failing run must still report the context
    import c13
    for i, s in enumerate(gen[: 15 if nq else 150]):
        for op, c in c13.corruptions(s, rng, 1):
            inputs.append({"id": "cor%d:%s" % (i, op), "sql": c})
    for i, g in enumerate(c13.lexical_garbage(rng, 8 if nq else 60)):
        inputs.append({"id": "lex%d" % i, "sql": g})
    # several statements, empty statements
    for i in range(6 if nq else 40):
        inputs.append({"id": "multi%d" % i, "sql": "; ".join(rng.choice(gen) for _ in range(rng.randint(2, 4))) + rng.choice(["", ";", " ;; "])})
    # token counts around the tokenizer's batch size, with and without trailing bytes
    for n in (99, 100, 101, 199, 200, 201, 250, 300) + (() if nq else (400, 1000, 2500)):
        body = "SELECT " + ",\n".join("c%d" % i for i in range((n - 3) // 2)) + " FROM t"
        inputs.append({"id": "batch%d" % n, "sql": body, "max_k": 12 if nq and n > 120 else 0, "tokonly": n > 320})
        inputs.append({"id": "batch%dnl" % n, "sql": body + "\n", "max_k": 12 if nq and n > 120 else 0, "tokonly": n > 320})
    inputs += [{"id": "edge:empty", "sql": ""}, {"id": "edge:semi", "sql": ";"}, {"id": "edge:ws", "sql": "  \n"}]
    return inputs


def wide_inputs(tier):
    sizes = (150, 300) if tier == "quick" else (400, 800, 1600)
    out = []
    for name, f in WIDE.items():
        for n in sizes:
            out.append({"id": "wide:%s@%d" % (name, n), "sql": f(n), "max_k": 40 if n == sizes[0] else 3})
    return out, sizes


def run_sweep(inputs, timeout=3000):
    inp = "".join(json.dumps(i) + "\n" for i in inputs)
    p = common.vh(["ctxsweep"], input=inp, timeout=timeout)
    outs = [json.loads(l) for l in p.stdout.splitlines() if l.strip()]
    for o in outs:
        o["eps"] = o.get("eps") or []
        for e in o["eps"]:
            e["runs"] = e.get("runs") or []
    return outs, p


def run_oracle(ep, r):
    """property oracle on one (entry point, k, kind) run; list of (kind, detail)"""
    bad = []
    if r.get("panic"):
        return [("panic", r["panic"][:300])]
    if not r["tree_nil"]:
        bad.append(("tree_returned", "a tree came back although poll %d reported done" % r["k"]))
    if r["err_nil"]:
        bad.append(("no_error", "no error although poll %d reported done" % r["k"]))
    elif not r["is"]:
        bad.append(("not_reported", "errors.Is(err, ctx.Err()) is false (%s at poll %d): %s" % (r["kind"], r["k"], (r["obs"].get("text") or "")[:140])))
    if r["is_other"]:
        bad.append(("wrong_ctx_error", "the error matches the other context error"))
    if r["polls_after"] > 1:
        bad.append(("not_prompt", "%d further polls after the poll that reported done" % r["polls_after"]))
    if ep.get("max_gap") is not None and r["work_after"] > max(ep["max_gap"], 100 if ep["name"].startswith("Tokenizer") else 0):
        bad.append(("not_prompt", "work continued after the done poll: advance %d exceeds the largest poll-free run %d" % (r["work_after"], ep["max_gap"])))
    if not r["reuse_same"]:
        bad.append(("residue", "the same instance gives a different result for the same input after the cancelled call"))
    if not r["probe_same"]:
        bad.append(("residue", "the same instance gives a different result for a probe statement than a fresh instance"))
    if not r["state_clean"]:
        bad.append(("residue", "the parser keeps the context / a non-zero depth after the cancelled call"))
    if r.get("pool_dup"):
        bad.append(("residue", "after the cancelled call %s (an object was released twice)" % r["pool_dup"]))
    return bad


def run(tier):
    rp = Report("C11", tier)
    shutil.rmtree(os.path.join(common.REPLAYS, "C11"), ignore_errors=True)
    try:
        with common.Lock():
            static = common.stage_gotables()
            ef = errflow.load()
            an = errflow.analyze(ef)
            errflow.emit(ef, an)
            common.stage_harness()
            ok_inst, ok_props, _, logs = common.coq_stage(
                rp, ["theories/Inst/Inst_C11.vo", "theories/Proofs/ErrFlowP.vo", "theories/Proofs/CtxP.vo"], "theories/Props/C11.v", THEOREMS, inst_names=INST)
    except common.StageError as e:
        return common.stage_fail(rp, e)
    rng = random.Random(common.seed())
    kf = common.known_findings("C11")
    polls = [n for n in an["nodes"] if n["kind"] == "ctx"]
    rp.cov["poll_sites"] = [errflow.describe(n) for n in polls]
    rp.cov["site_table"] = {"nodes": len(an["nodes"]), "can_carry_ctx": len(an["P"]), "ctx_free": len(an["F"]),
                            "rewrap_sites_on_poll_paths": [errflow.describe(an["byid"][i]) for i in an["problems"]["rewrap_on_poll"]],
                            "discards": len(an["discards"]), "discards_on_poll_paths": len(an["problems"]["discard_on_poll"])}

    inputs = build_inputs(tier, rng)
    wit = []
    for k in kf:
        w = k.get("witness")
        if w and w.get("sql"):
            wit.append({"id": "witness:" + k["key"], "sql": w["sql"]})
    wide, sizes = wide_inputs(tier)
    outs, proc = run_sweep(wit + inputs + wide)
    allin = wit + inputs + wide
    if len(outs) < len(allin):
        crashed = allin[len(outs)]
        rp.violation({"kind": "oracle", "oracle": "crash", "sql": crashed["sql"][:3000], "stderr": proc.stderr[-1500:],
                      "explanation": "the harness process died on this input under a counting context"}, "crash_%s" % crashed["id"])
    srcs = {i["id"]: i for i in allin}
    byid = {o["id"]: o for o in outs}
    viol, shapes = {}, {}
    failed_inputs = set()
    nruns, ninputs, maxpolls = 0, 0, 0
    hist = {}
    for o in outs:
        tokonly = srcs[o["id"]].get("tokonly")
        any_runs = False
        for ep in o["eps"]:
            if tokonly and not ep["name"].startswith("Tokenizer"):
                continue
            maxpolls = max(maxpolls, ep["polls"])
            if not ep["free_same"]:
                viol.setdefault(("never_fires", ep["name"]), dict(kind="oracle", oracle="never_fires", entry_point=ep["name"], input_id=o["id"], sql=srcs[o["id"]]["sql"],
                                detail="under a context that never fires the result differs from the context-free call", k=-1, ctx="none"))
            if ep.get("late_cancel_ran") and not ep.get("late_cancel_same"):
                viol.setdefault(("residue_late_cancel", ep["name"]), dict(kind="oracle", oracle="residue_late_cancel", entry_point=ep["name"], input_id=o["id"], sql=srcs[o["id"]]["sql"],
                                detail="the context was cancelled after the call had returned; a later context-free call on the same instance no longer gives the result of a new instance (the parser kept the context)", k=-1, ctx="late"))
            nid = errflow.ep_node(an, ep["name"])
            for r in ep["runs"]:
                nruns += 1
                any_runs = True
                hist[ep["name"]] = hist.get(ep["name"], 0) + 1
                if nid is not None and r["obs"].get("chain"):
                    shapes.setdefault((nid, tuple(errflow.shape_of(r["obs"]))), (o["id"], ep["name"], r["k"], r["kind"]))
                for kind, detail in run_oracle(ep, r):
                    failed_inputs.add(o["id"])
                    if o["id"].startswith("witness:"):
                        continue   # witnesses of recorded findings are judged below
                    viol.setdefault((kind, ep["name"]), dict(kind="oracle", oracle=kind, entry_point=ep["name"], input_id=o["id"], sql=srcs[o["id"]]["sql"],
                                    k=r["k"], ctx=r["kind"], detail=detail, chain=r["obs"].get("chain"), polls=ep["polls"]))
        ninputs += 1 if any_runs else 0

    # ---- fixed / known witnesses
    for k in kf:
        w = k.get("witness")
        o = byid.get("witness:" + k["key"]) if w and w.get("sql") else None
        if o is None:
            continue
        fails = [(ep["name"], r["k"], b) for ep in o["eps"] for r in ep["runs"] for b in run_oracle(ep, r)]
        if k["status"] == "fixed" and fails:
            rp.violation({"kind": "oracle", "oracle": fails[0][2][0], "detail": fails[0][2][1], "entry_point": fails[0][0], "k": fails[0][1], "sql": w["sql"],
                          "explanation": "the defect fixed in %s is back: %s" % (k.get("commit"), k["what"])}, "regressed_" + k["key"])
        if k["status"] == "known" and not fails and k["signature"].get("kind") != "input_shape":
            rp.cov["notes"].append("known finding %s: its witness no longer fails (stale entry)" % k["key"])

    for key, v in viol.items():
        if len(v.get("sql", "")) > 5000:
            v["sql_prefix"], v["sql_len"] = v["sql"][:300], len(v["sql"])
        rp.violation(v, "%s_%s" % (v["oracle"], re.sub(r"\W+", "_", v["entry_point"])))

    # ---- promptness of the parser: the cursor polls every contextPollInterval tokens (model: Ctx.adv), so the
    # largest poll-free run of ANY input is at most that interval; without the constant the run must at least not
    # grow with the input
    interval = int((ef.get("limits") or {}).get("contextPollInterval", 0) or 0)
    rp.cov["context_poll_interval"] = interval
    growth = {}
    kgap = {k["signature"].get("family"): k for k in kf if k["signature"].get("kind") == "input_shape"}
    worst = None
    for o in outs:
        for e in o["eps"]:
            if e["name"] == "Parser.ParseContextFromModelTokens" and (worst is None or e["max_gap"] > worst[0]):
                worst = (e["max_gap"], o["id"])
    rp.cov["largest_poll_free_run"] = {"tokens": worst[0], "input": worst[1]} if worst else None
    for name in WIDE:
        gaps = []
        for n in sizes:
            o = byid.get("wide:%s@%d" % (name, n))
            ep = [e for e in (o["eps"] if o else []) if e["name"] == "Parser.ParseContextFromModelTokens"]
            gaps.append(ep[0]["max_gap"] if ep else None)
        growth[name] = dict(zip(["n=%d" % n for n in sizes], gaps))
        if None in gaps:
            continue
        grows = gaps[-1] > 200 and gaps[-1] >= 1.7 * gaps[0]
        beyond = interval > 0 and max(gaps) > interval
        if grows or beyond:
            k = kgap.get(name)
            if k and k["status"] == "known":
                rp.known(k["key"], "%s [largest poll-free run %s tokens for n=%s]" % (k["what"][:150], gaps, list(sizes)))
            else:
                rp.violation({"kind": "oracle", "oracle": "not_prompt", "family": name, "sizes": list(sizes), "largest_poll_free_run": gaps, "sql": WIDE[name](sizes[0])[:2000],
                              "poll_interval": interval,
                              "detail": ("the defect fixed in %s is back: " % k.get("commit") if k else "") +
                                        "the largest run of tokens the parser consumes without polling the context %s (family %s): a cancellation is not honoured within a bounded amount of work"
                                        % ("grows with the input" if grows else "exceeds the cursor's poll interval %d" % interval, name)},
                             "unbounded_gap_%s" % name)
    if interval == 0:
        # no recognisable interval constant (renamed / computed): the model's theorem C11_cursor_cancel_prompt holds for every
        # interval, so what must be tied is only that SOME bound exists: the poll-free run of the wide families must not grow
        # with the input (judged above) and stay small
        bounded = worst is not None and worst[0] <= 1024 and not any("unbounded_gap" in v for v in rp.violations)
        rp.cov["notes"].append("no poll-interval constant recognised in the parser source; measured bound on the poll-free run: %s tokens" % (worst[0] if worst else None))
        if not bounded:
            rp.violation({"kind": "correspondence", "broken": "no poll interval is recognisable in the parser source and the measured poll-free run is not bounded: the cursor poll schedule of Model/Ctx.adv (C11_cursor_cancel_prompt) is not tied to the code",
                          "largest_poll_free_run": rp.cov["largest_poll_free_run"]}, "poll_interval_missing", no_input=True)
    elif worst and worst[0] > interval and not any("unbounded_gap" in v for v in rp.violations):
        rp.violation({"kind": "oracle", "oracle": "not_prompt", "sql": srcs[worst[1]]["sql"][:3000], "input_id": worst[1], "largest_poll_free_run": worst[0], "poll_interval": interval,
                      "detail": "the parser consumed %d tokens without polling the context; the cursor is modelled (and documented) to poll every %d tokens" % (worst[0], interval)}, "poll_free_run_beyond_interval")
    rp.cov["poll_free_run_by_family"] = growth

    # ---- correspondence 1: observed chain shapes under cancellation derivable at the entry point, and context errors
    pairs = sorted(shapes)
    if pairs:
        bysh = {}
        for i, sh in pairs:
            bysh.setdefault(sh, []).append(i)
        shl = sorted(bysh)
        body = ("From Coq Require Import List NArith Bool.\nFrom GV Require Import Model.ErrFlow Gen.ErrSites.\nImport ListNotations.\nLocal Open Scope N_scope.\n"
                "Definition cases : list (oshape * list N) :=\n  [%s].\n" % ";\n   ".join("(%s, [%s])" % (errflow.coq_shape(sh), "; ".join(str(i) for i in bysh[sh])) for sh in shl) +
                "Definition bad := Eval vm_compute in bad_cases (fun c => shape_case_ok err_table c && shape_is_ctx (fst c)) 0 cases.\nPrint bad.\n")
        ok, out, err = common.coq_cases("c11_shapes", body)
        if ok:
            badi = common.parse_nlist(out)
            rp.obligation("correspondence: %d distinct (entry point, chain shape) pairs observed under cancellation are derivable from the poll sites and satisfy is_ctx (vm_compute)" % len(pairs),
                          not badi, str([shl[j] for j in badi][:2]))
            for j in badi[:3]:
                sh = shl[j]
                iid, epn, k, kd = shapes[(bysh[sh][0], sh)]
                already = iid in failed_inputs
                rp.violation({"kind": "correspondence", "broken": "error chain observed under cancellation is not derivable from the site table as a context error",
                              "entry_point": epn, "shape": list(sh), "sql": srcs[iid]["sql"], "k": k, "ctx": kd}, "shape_%s_%d" % (re.sub(r"\W+", "_", epn), j), no_input=not already)
        else:
            rp.obligation("correspondence: evaluation of observed chain shapes in Coq", False, err[-300:])
            rp.violation({"kind": "correspondence", "broken": "coq evaluation of observed shapes", "log": err[-2000:]}, "shape_eval", no_input=True)

    # ---- correspondence 2: number of polls of TokenizeContext predicted by the loop model
    tokcases = []
    for o in outs:
        src = srcs[o["id"]]["sql"]
        ep = [e for e in o["eps"] if e["name"] == "Tokenizer.TokenizeContext"]
        if not ep or not ep[0]["free_ok"] or o["ntok"] == 0 or "--" in src or "/*" in src or o["ntok"] > 3000:
            continue
        n = o["ntok"] - 1
        trailing = 1 if (src != src.rstrip(" \t\r\n")) else 0
        tokcases.append((n, n + trailing, ep[0]["polls"] - 1, o["id"]))
    uniq = sorted(set(c[:3] for c in tokcases))
    if uniq:
        body = ("From Coq Require Import List Arith Bool NArith.\nFrom GV Require Import Model.ErrFlow Model.Ctx.\nImport ListNotations.\n"
                "Definition cases : list (nat * nat * nat) :=\n  [%s]%%nat.\n" % "; ".join("(%d,%d,%d)" % c for c in uniq) +
                "Definition bad := Eval vm_compute in bad_cases (fun c : nat * nat * nat => Nat.eqb (tok_polls (fst (fst c)) (snd (fst c)) (S (fst (fst c)))) (snd c)) 0%N cases.\nPrint bad.\n")
        ok, out, err = common.coq_cases("c11_tokpolls", body)
        badi = common.parse_nlist(out) if ok else None
        rp.obligation("correspondence: polls made by TokenizeContext = polls of the loop model on %d distinct (token count, trailing bytes) cases (vm_compute)" % len(uniq),
                      bool(ok) and not badi, (err[-200:] if not ok else str([uniq[j] for j in badi][:3])))
        if not ok or badi:
            c = uniq[badi[0]] if ok else None
            iid = [t[3] for t in tokcases if t[:3] == c][0] if c else None
            rp.violation({"kind": "correspondence", "broken": "TokenizeContext polls the context at other token counts than every 100 tokens (model Ctx.tokenize_ctx)",
                          "case": c, "sql": srcs[iid]["sql"][:3000] if iid else None, "log": None if ok else err[-1500:],
                          "explanation": "the loop model (poll when len(tokens) %% 100 == 0) does not predict the number of polls: C11_tok_cancel_prompt no longer speaks about this code"},
                         "tokpolls", no_input=True)

    # ---- ParseWithTimeout / already-cancelled context
    p = common.vh(["ctxtimeout"], input="".join(json.dumps({"id": i["id"], "sql": i["sql"]}) + "\n" for i in inputs[:20]), timeout=300)
    for l in p.stdout.splitlines():
        t = json.loads(l)
        if not (t["tree_nil"] and t["is_deadline"] and t["cancel_tree_nil"] and t["is_canceled"]):
            rp.violation({"kind": "oracle", "oracle": "not_reported", "entry_point": "gosqlx.ParseWithTimeout/ParseWithContext", "sql": srcs[t["id"]]["sql"], "observed": t, "k": 0,
                          "detail": "an already expired deadline / cancelled context is not reported as such"}, "already_done")
            break

    # ---- broken instance lemmas
    if not ok_inst:
        pb = an["problems"]
        reported = False
        for r in pb["rewrap_on_poll"][:8]:
            site = an["byid"][r]
            found = [v for v in viol.values() if v["oracle"] == "not_reported"]
            rp.violation({"kind": "table-gap", "theorem": "Inst_C11.c11_no_rewrap_on_poll_paths", "site": errflow.describe(site), "site_signature": site["sig"],
                          "operands": [errflow.describe(an["byid"][m]) for m in site["dropped"] if m in an["P"]],
                          "explanation": "this site can receive an error made from a ctx.Err() poll and rebuilds it from its text: errors.Is(err, context.Canceled) is false when the poll inside this construct observes the cancellation",
                          "failing_input": found[0]["sql"] if found else None, "k": found[0]["k"] if found else None},
                         "rewrap_%s" % re.sub(r"\W+", "_", site["sig"])[:60], no_input=not found)
            reported = True
        for d in pb["discard_on_poll"][:8]:
            w = d[2]
            found = [v for v in viol.values() if v["oracle"] in ("not_reported", "tree_returned", "no_error", "not_prompt")]
            rp.violation({"kind": "table-gap", "theorem": "Inst_C11.c11_no_discard_on_poll_paths", "site": "%s:%d %s calls %s" % (w["file"], w["line"], w["func"], w["callee"]), "how": w["how"],
                          "explanation": "an error value that can come from a ctx.Err() poll is tested and then replaced / dropped here: a cancellation observed below this call is not propagated",
                          "failing_input": found[0]["sql"] if found else None, "k": found[0]["k"] if found else None},
                         "discard_%s_%d" % (re.sub(r"\W+", "_", w["func"]), w["line"]), no_input=not found)
            reported = True
        if not reported:
            rp.violation({"kind": "proof", "theorem": "Inst_C11", "log": logs["inst"][-3000:]}, "inst_c11", no_input=True)
    if ok_inst and not ok_props:
        rp.violation({"kind": "proof", "theorem": "Props/C11.v", "log": logs["props"][-3000:]}, "props_c11", no_input=True)

    rp.cov["evaluations"] = nruns
    rp.cov["distinct_nontrivial"] = ninputs
    rp.cov["runs_by_entry_point"] = hist
    rp.cov["max_polls_in_one_run"] = maxpolls
    rp.cov["distinct_chain_shapes_under_cancellation"] = len(pairs)
    rp.cov["rule"] = ("inputs: %d statements with a poll inside each nested construct (CTE, CASE, BETWEEN, LIKE, IN, sub-queries, array index, JOIN ON, set operation, view, MERGE, ON CONFLICT, MATCH), "
                      "SPECIAL, corpus, generated statements, single-token corruptions and lexical garbage (rejected inputs poll too), multi-statement inputs with empty statements, token counts around "
                      "multiples of the tokenizer batch with and without trailing bytes, wide families for the poll-free run; for each input and each of TokenizeContext / ParseContextFromModelTokens / "
                      "gosqlx.ParseWithContext: EVERY poll index k of the uncancelled run (first 12 for the long inputs in quick tier), Canceled and DeadlineExceeded; non-trivial = inputs with at least one cancelled run (counted)" % len(NESTED))
    rp.cov["samples"] = [{"id": o["id"], "eps": [{"name": e["name"], "polls": e["polls"], "runs": len(e["runs"])} for e in o["eps"]]} for o in outs[:3]]
    rp.assumptions = ["a context is modelled by what its Err() returns at each poll (monotone: once done, stays done); Done() channels are not used by the library",
                      "the statement parser's contract in the loop model (fails with the context error at the first of its polls that reports done) rests on the site-table theorem and the every-k sweep",
                      "the static call graph, the enumeration of function values and the SSA value flow see every way an error value reaches a return (see C13)",
                      "an ignored or merely tested error result counts as kept when the callee holds every value it returns in a struct field that is read into an error arriving at an entry point (the poll helper and Parser.cancelErr); that the reader reports it on every path is established by the every-k sweep"]
    return rp.finish()


def replay(path):
    d = json.load(open(path))
    print(json.dumps({k: (v if not isinstance(v, str) or len(v) < 400 else v[:400] + "...") for k, v in d.items()}, indent=1))
    sql = d.get("sql") or d.get("failing_input")
    if d.get("family") in WIDE:
        outs, _ = run_sweep([{"id": "w%d" % n, "sql": WIDE[d["family"]](n), "max_k": 1} for n in d["sizes"]])
        gaps = [[e["max_gap"] for e in o["eps"] if e["name"] == "Parser.ParseContextFromModelTokens"][0] for o in outs]
        print("largest poll-free runs:", gaps)
        iv = int(d.get("poll_interval") or 0)
        return 1 if (gaps[-1] > 200 and gaps[-1] >= 1.7 * gaps[0]) or (iv > 0 and max(gaps) > iv) else 0
    if not sql:
        print("no input in this replay file (table-level finding): re-run bin/check C11 quick")
        return 2
    outs, p = run_sweep([{"id": "replay", "sql": sql}], timeout=600)
    if not outs:
        print("harness died:", p.stderr[-500:])
        return 1
    bad = []
    for ep in outs[0]["eps"]:
        if not ep["free_same"]:
            bad.append((ep["name"], -1, ("never_fires", "")))
        if ep.get("late_cancel_ran") and not ep.get("late_cancel_same"):
            bad.append((ep["name"], -1, ("residue_late_cancel", "")))
        for r in ep["runs"]:
            bad += [(ep["name"], r["k"], b) for b in run_oracle(ep, r)]
    want = d.get("oracle")
    hit = [b for b in bad if want in (None, b[2][0])]
    for b in hit[:5]:
        print("still fails:", b)
    return 1 if hit else 0
