"""Input generators for the statement-loop properties (C07, C12): scripts of 1..6 segments separated by
semicolons, each a generated/corpus statement or a token-level corruption of one; stray semicolons; token soup."""
import re
import sqlgen

TOK = re.compile(r"'(?:[^']|'')*'|\"[^\"]*\"|[A-Za-z_][A-Za-z_0-9]*|\d+(?:\.\d+)?|<=|>=|<>|!=|\|\||::|[^\sA-Za-z_0-9]")
START_KW = {"SELECT", "INSERT", "UPDATE", "DELETE", "CREATE", "ALTER", "DROP", "WITH", "MERGE", "REFRESH", "TRUNCATE",
            "GRANT", "REVOKE", "SET", "BEGIN", "COMMIT", "ROLLBACK"}
SOUP = ["SELECT", "FROM", "WHERE", "a", "b", "t", "1", "'x'", "(", ")", ",", "=", "AND", "OR", "NOT", "*", "JOIN", "ON", "BY",
        "GROUP", "ORDER", "INSERT", "INTO", "VALUES", "UPDATE", "SET", "DELETE", ";", "+", ".", "AS", "NULL", "IS", "IN",
        "CASE", "WHEN", "THEN", "END", "UNION", "LIMIT", "WITH", "CREATE", "TABLE", "DROP", "<", ">=", "||", "::", "[", "]"]


def toks(sql):
    return TOK.findall(sql)


def corrupt(rng, sql):
    """(kind, text): one token deleted / duplicated / replaced / truncation; no statement-starting keyword after
    the first token, no semicolon"""
    ts = toks(sql)
    if len(ts) < 3:
        return "short", sql + " )"
    for _ in range(8):
        k = rng.choice(["delete", "duplicate", "replace", "truncate"])
        # the first token is corrupted too (a segment that no longer begins with a statement keyword)
        i = rng.randrange(0, len(ts)) if k in ("delete", "replace") and rng.random() < 0.25 else rng.randrange(1, len(ts))
        if k == "delete":
            out = ts[:i] + ts[i + 1:]
        elif k == "duplicate":
            out = ts[:i] + [ts[i]] + ts[i:]
        elif k == "replace":
            out = ts[:i] + [rng.choice([")", "(", ",", "FROM", "WHERE", "=", "BY", "'s'", "42", "AND", "xyz", "JOIN", "."])] + ts[i + 1:]
        else:
            out = ts[:i]
        if any(t.upper() in START_KW for t in out[1:]) or ";" in out:
            continue
        return k, " ".join(out)
    return "truncate", " ".join(ts[:2])


def base_statements(rng, n):
    """short valid statements without statement keywords after the first token (no sub-queries/CTEs/set ops)"""
    cs = [s for s in sqlgen.corpus_statements() if len(s) < 300]
    gs = sqlgen.generated_statements(rng, n * 3)
    out = []
    for s in gs + cs:
        ts = toks(s)
        if ";" in ts or any(t.upper() in START_KW for t in ts[1:]):
            continue
        out.append(s)
    rng.shuffle(out)
    simple = ["SELECT 1", "SELECT a FROM t", "SELECT a, b FROM t WHERE a = 1", "DELETE FROM t WHERE a = 1", "DROP TABLE t",
              "INSERT INTO t (a) VALUES (1)", "SELECT a FROM t t2", "TRUNCATE TABLE t", "SELECT COUNT(*) FROM t GROUP BY a"]
    return simple + out[:n]


RICH = [
    "MERGE INTO t USING s ON t.id = s.id WHEN MATCHED THEN UPDATE SET a = s.a WHEN NOT MATCHED THEN INSERT (id, a) VALUES (s.id, s.a)",
    "MERGE INTO t USING s ON t.id = s.id WHEN MATCHED THEN DELETE",
    "WITH c AS (SELECT a FROM t) SELECT a FROM c",
    "INSERT INTO t (a) SELECT b FROM u",
    "SELECT a FROM t WHERE a IN (SELECT b FROM u)",
    "SELECT a FROM (SELECT b AS a FROM u) d",
    "SELECT a FROM t UNION SELECT b FROM u",
    "CREATE VIEW v AS SELECT a FROM t",
    "CREATE TABLE t (a INT PRIMARY KEY, b TEXT NOT NULL)",
    "CREATE INDEX i ON t (a)",
    "ALTER TABLE t ADD COLUMN c INT",
    "UPDATE t SET a = (SELECT MAX(b) FROM u) WHERE a = 1",
    "DELETE FROM t WHERE a IN (SELECT b FROM u)",
    "INSERT INTO t (a) VALUES (1) ON CONFLICT (a) DO UPDATE SET a = 2",
    "REFRESH MATERIALIZED VIEW v",
    "CREATE MATERIALIZED VIEW v AS SELECT a FROM t",
    "DROP VIEW v",
    "SELECT a FROM t WHERE EXISTS (WITH c AS (SELECT 1) SELECT 1 FROM c)",
]


def rich_statements(rng, n):
    """valid statements of every kind, inner statement keywords allowed (MERGE, sub-queries, CTEs, INSERT ... SELECT):
    used for well-formed segments only"""
    cs = [s for s in sqlgen.corpus_statements() if len(s) < 400 and ";" not in toks(s)]
    by_kw = {}
    for s in cs:
        t = toks(s)
        if t:
            by_kw.setdefault(t[0].upper(), []).append(s)
    out = list(RICH)
    for kw, lst in sorted(by_kw.items()):
        rng.shuffle(lst)
        out += lst[:max(3, n // 20)]
    return out


def layout(rng, nseg):
    """(prefix, separators): white space in front of the first segment and around the one semicolon between segments"""
    ws = ["", "", "", "\n", "\n\n", "  ", "\t", "\n   ", "\n\n\n  ", " \n"]
    prefix = rng.choice(ws)
    seps = [rng.choice(["", "", " ", "\n"]) + ";" + rng.choice(["\n", "\n", " ", "", "\n\n", "\n  ", "  "]) for _ in range(max(nseg - 1, 0))]
    return prefix, seps


def scripts(rng, n, maxseg=6):
    """list of dict(segs=[(text, kind)], sql=joined text) — kind 'valid' or the corruption operator"""
    base = base_statements(rng, max(50, n))
    rich = rich_statements(rng, n)
    out = []
    for _ in range(n):
        k = rng.randrange(1, maxseg + 1)
        segs = []
        for _ in range(k):
            s = rng.choice(base)
            x = rng.random()
            if x < 0.15:
                segs.append((rng.choice(rich), "valid_rich"))
            elif x < 0.4:
                kind, s2 = corrupt(rng, s)
                segs.append((s2, kind))
            elif x < 0.5:
                # a complete statement followed by stray tokens (no semicolon in between)
                segs.append((s + " " + rng.choice([")", "t t", "xyz 5", ", ,", "= =", "'s' 1", ") ) a"]), "junk_suffix"))
            elif x < 0.56:
                # a malformed statement that contains, after its failure point, words that are statement keywords in some
                # dialect but ordinary names here (REPLACE is a function, SHOW / DESCRIBE / EXPLAIN are names): none of them
                # may be taken for the start of a new statement
                segs.append((rng.choice(["SELECT a b c, REPLACE(d, 'x', 'y') FROM t", "SELECT a FROM WHERE show = 1", "DELETE FROM t WHERE describe = = 2",
                                         "SELECT a b, explain FROM t", "SELECT REPLACE(a, 'x', 'y') z z FROM t", "DELETE FROM WHERE replace(a, 'b', 'c') = 1"]), "kw_like"))
            elif x < 0.62:
                # a malformed segment that does not begin with a statement keyword
                ts = toks(s)
                segs.append((rng.choice(["x", ") a", "a b c", "1 + 2", " ".join(ts[1:]) or "y", ", " + " ".join(ts[1:4])]), "no_keyword"))
            else:
                segs.append((s, "valid"))
        if rng.random() < 0.2:
            segs.append((rng.choice(TRUNC_TAILS), "truncated_tail"))
        out.append(segs)
    return out


# statements cut off at spots where a sub-parser steps over the end of input without looking (only as the LAST segment:
# nothing follows the cut)
TRUNC_TAILS = ["SHOW CREATE", "SELECT f(a, INTERVAL 30", "SELECT (INTERVAL 3", "SELECT CAST(a AS", "SELECT a FROM t WHERE b IN (", "INSERT INTO t VALUES (",
               "SELECT CASE WHEN", "SELECT a FROM t ORDER BY", "SELECT a::", "SELECT a[", "CREATE TABLE t (a INT REFERENCES u (id) ON", "SELECT EXTRACT(YEAR FROM",
               "SELECT a FROM t WHERE a BETWEEN 1 AND", "MERGE INTO t USING s ON t.id = s.id WHEN", "SHOW", "DESCRIBE", "EXPLAIN", "ALTER TABLE t ALTER COLUMN"]


def join(rng, segs):
    """join with separators: plain, doubled, spaced, leading/trailing semicolons"""
    parts = []
    if rng.random() < 0.15:
        parts.append(rng.choice([";", ";;", " ; "]))
    for i, (s, _) in enumerate(segs):
        parts.append(s)
        if i + 1 < len(segs):
            parts.append(rng.choice([";", "; ", ";\n", ";;", " ;\n; "]))
    if rng.random() < 0.5:
        parts.append(rng.choice([";", ";;", "; "]))
    return "".join(parts)


LEXBAD = ["SELECT 'abc", "SELECT a FROM t WHERE b = 'x", "SELECT \"col FROM t", "SELECT 1 /* open", "SELECT `a FROM t", "SELECT 1e FROM t", "SELECT 'a' 'b"]


def soup(rng, n, maxlen=14):
    out = []
    for _ in range(n):
        k = rng.randrange(1, maxlen)
        out.append(" ".join(rng.choice(SOUP) for _ in range(k)))
    return out


def nospace_multi(rng, n):
    """statements following one another without a semicolon"""
    base = base_statements(rng, 40)
    return [" ".join(rng.choice(base) for _ in range(rng.randrange(2, 4))) for _ in range(n)]
