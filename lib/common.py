"""Shared machinery of the /verif checks: staging (translator, harness build, table probes, Gen/*.v
emission, Coq build), evidence, known findings, VIOLATION / KNOWN-FINDING reporting."""
import fcntl, hashlib, json, os, re, shutil, subprocess, sys, time

ROOT = os.path.dirname(os.path.dirname(os.path.abspath(__file__)))
REPO = os.environ.get("VERIF_REPO", "/repo")
BUILD = os.path.join(ROOT, "build")
COQ = os.path.join(ROOT, "coq")
GEN = os.path.join(COQ, "theories", "Gen")
ALT = REPO != "/repo"   # self-test against a scratch copy: keep evidence/replays of /repo runs untouched
EVID = os.path.join(ROOT, "build", "alt-evidence") if ALT else os.path.join(ROOT, "evidence")
REPLAYS = os.path.join(ROOT, "build", "alt-replays") if ALT else os.path.join(ROOT, "replays")

GOENV = dict(os.environ, GOFLAGS="-mod=mod", GOPROXY="off", GOSUMDB="off", GOTOOLCHAIN="local",
             GOCACHE=os.environ.get("VERIF_GOCACHE", os.path.join(BUILD, "gocache")))

BASE_NOTE = ("Trusted: Coq 8.16.1 kernel + vm_compute (no native_compute); no axioms declared (Print Assumptions recorded in evidence); "
             "translator tools/gotables and the reflective probes that regenerate coq/theories/Gen/*.v on every run; "
             "the Go correspondence harness and lib/*.py. ")

TRUSTED_BASE = [
    "Coq 8.16.1 kernel (coqc); vm_compute used in instance lemmas and case evaluation; no native_compute",
    "axioms: none declared; Print Assumptions output of each property theorem is recorded in this file",
    "translator tools/gotables (go/packages + go/ssa static call graph, guard/error-site/global recognisers)",
    "reflective probes of the compiled code (harness 'tables'): Children() and pool clearing behaviour per field",
    "Go correspondence harness (reflection dumper, generators, canonicalisation) and python orchestrator lib/*.py",
]


def log(*a):
    print(*a, file=sys.stderr, flush=True)


def seed():
    try:
        return int(os.environ.get("VERIF_SEED", "1"))
    except ValueError:
        return 1


class LineStr(str):
    """output of a child process: lines end at LF only.  str.splitlines also splits at VT, FF, FS/GS/RS, NEL (U+0085),
    U+2028 and U+2029, which may occur unescaped inside the JSON strings the harness prints (NEL is not escaped by
    encoding/json): a record containing one would be cut in two"""
    def splitlines(self, keepends=False):
        parts = self.split("\n")
        if parts and parts[-1] == "":
            parts.pop()
        return [x + "\n" for x in parts] if keepends else parts


def run(cmd, cwd=None, env=None, timeout=600, input=None, check=False):
    p = subprocess.run(cmd, cwd=cwd, env=env or os.environ, timeout=timeout, input=input,
                       stdout=subprocess.PIPE, stderr=subprocess.PIPE, text=True)
    p.stdout, p.stderr = LineStr(p.stdout), LineStr(p.stderr)
    if check and p.returncode != 0:
        raise RuntimeError("command failed: %s\n%s\n%s" % (cmd, p.stdout[-4000:], p.stderr[-4000:]))
    return p


class Lock:
    """global build lock: the staging steps write shared directories"""
    def __init__(self, name="build"):
        os.makedirs(BUILD, exist_ok=True)
        self.path = os.path.join(BUILD, name + ".lock")
    def __enter__(self):
        self.f = open(self.path, "w")
        fcntl.flock(self.f, fcntl.LOCK_EX)
        return self
    def __exit__(self, *a):
        fcntl.flock(self.f, fcntl.LOCK_UN)
        self.f.close()


def tree_hash():
    """content hash of the Go sources of REPO's working tree (non-test files, go.mod) plus the
    harness / translator sources: keys every cached stage"""
    h = hashlib.sha1()
    def add(path):
        try:
            with open(path, "rb") as f:
                h.update(path.encode()); h.update(b"\0"); h.update(f.read()); h.update(b"\0")
        except OSError:
            pass
    for base in ("pkg", "cmd"):
        for d, dirs, files in sorted(os.walk(os.path.join(REPO, base))):
            dirs.sort()
            for fn in sorted(files):
                if fn.endswith(".go") and not fn.endswith("_test.go"):
                    add(os.path.join(d, fn))
    add(os.path.join(REPO, "go.mod"))
    for base in ("harness", "tools/gotables"):
        for d, dirs, files in sorted(os.walk(os.path.join(ROOT, base))):
            dirs.sort()
            for fn in sorted(files):
                if fn.endswith(".go") or fn in ("go.mod",):
                    add(os.path.join(d, fn))
    return h.hexdigest()[:16]


class StageError(Exception):
    def __init__(self, stage, detail, tree_caused=False):
        super().__init__("%s: %s" % (stage, detail))
        self.stage, self.detail, self.tree_caused = stage, detail, tree_caused


_stage_cache = {}


def stage_dir():
    th = tree_hash()
    d = os.path.join(BUILD, "stage", th)
    os.makedirs(d, exist_ok=True)
    # keep only a handful of stage dirs
    root = os.path.join(BUILD, "stage")
    ds = sorted((os.path.getmtime(os.path.join(root, x)), x) for x in os.listdir(root))
    for _, x in ds[:-6]:
        if x != th:
            shutil.rmtree(os.path.join(root, x), ignore_errors=True)
    return d


def stage_gotables():
    sd = stage_dir()
    out = os.path.join(sd, "static.json")
    reg = os.path.join(sd, "registry_gen.go")
    if os.path.exists(out) and os.path.exists(reg):
        return json.load(open(out))
    binp = os.path.join(BUILD, "gotables")
    src = os.path.join(ROOT, "tools", "gotables")
    p = run(["go", "build", "-o", binp, "."], cwd=src, env=GOENV, timeout=600)
    if p.returncode != 0:
        raise StageError("gotables-build", p.stderr[-3000:])
    p = run([binp, "-repo", REPO, "-out", out + ".tmp", "-registry", reg + ".tmp"], env=GOENV, timeout=600)
    if p.returncode != 0:
        raise StageError("gotables-run", p.stderr[-3000:], tree_caused=True)
    os.replace(reg + ".tmp", reg)
    os.replace(out + ".tmp", out)
    return json.load(open(out))


def stage_harness(race=False, cover=False):
    """build vh against REPO's working tree with -tags verif; returns path of the binary
    (cover: statement counters for every package of the repository, written to $GOCOVERDIR at exit)"""
    sd = stage_dir()
    binp = os.path.join(sd, "vh-race" if race else ("vh-cover" if cover else "vh"))
    if os.path.exists(binp):
        return binp
    stage_gotables()
    hd = os.path.join(sd, "harness-src" + ("-race" if race else "-cover" if cover else ""))
    shutil.rmtree(hd, ignore_errors=True)
    shutil.copytree(os.path.join(ROOT, "harness"), hd)
    shutil.copy(os.path.join(sd, "registry_gen.go"), os.path.join(hd, "registry_gen.go"))
    with open(os.path.join(hd, "go.mod"), "w") as f:
        f.write("module vh\n\ngo 1.21\n\nrequire github.com/ajitpratap0/GoSQLX v0.0.0\n\n"
                "replace github.com/ajitpratap0/GoSQLX => %s\n" % REPO)
    shutil.copy(os.path.join(REPO, "go.sum"), os.path.join(hd, "go.sum"))
    extra = ["-race"] if race else []
    if cover:
        extra = ["-cover", "-covermode=count", "-coverpkg=./...,github.com/ajitpratap0/GoSQLX/pkg/..."]
    cmd = ["go", "build", "-tags", "verif"] + extra + ["-o", binp + ".tmp", "."]
    p = run(cmd, cwd=hd, env=GOENV, timeout=900)
    if p.returncode != 0:
        raise StageError("harness-build", p.stderr[-3000:], tree_caused=True)
    os.replace(binp + ".tmp", binp)
    return binp


def stage_tables():
    sd = stage_dir()
    out = os.path.join(sd, "tables.json")
    if os.path.exists(out):
        return json.load(open(out))
    vh = stage_harness()
    p = run([vh, "tables", os.path.join(sd, "static.json")], timeout=300)
    if p.returncode != 0:
        raise StageError("tables-probe", p.stderr[-3000:], tree_caused=True)
    with open(out + ".tmp", "w") as f:
        f.write(p.stdout)
    os.replace(out + ".tmp", out)
    return json.load(open(out))


def vh(args, input=None, timeout=600, race=False):
    binp = stage_harness(race=race)
    return run([binp] + args, input=input, timeout=timeout)


# ------------------------------------------------------------------------------------------------
# known findings

def known_findings(prop=None):
    ks = []
    import glob
    for path in [os.path.join(ROOT, "known_findings.json")] + sorted(glob.glob(os.path.join(ROOT, "known_findings.d", "*.json"))):
        if os.path.exists(path):
            ks += json.load(open(path))
    return [k for k in ks if prop is None or k["property"] == prop]


# ------------------------------------------------------------------------------------------------
# Coq

def write_if_changed(path, text):
    try:
        if open(path).read() == text:
            return False
    except OSError:
        pass
    os.makedirs(os.path.dirname(path), exist_ok=True)
    with open(path, "w") as f:
        f.write(text)
    return True


def coq_list(items, per_line=8):
    if not items:
        return "[]"
    out, line = [], []
    for i, it in enumerate(items):
        line.append(it)
        if len(line) == per_line:
            out.append("; ".join(line)); line = []
    if line:
        out.append("; ".join(line))
    return "[" + ";\n   ".join(out) + "]"


COQPROJECT_HEADER = "-R theories GV\n-arg -w -arg -notation-overridden,-deprecated-hint-without-locality,-deprecated-instance-without-locality\n"


def ensure_coqproject():
    """_CoqProject lists every .v file under coq/theories (generated tables included; *_full.v excluded): rewritten
    whenever the listing changed, so that files generated after setup are known to the makefile"""
    vs = []
    for d, _, fs in os.walk(os.path.join(COQ, "theories")):
        for f in sorted(fs):
            if f.endswith(".v") and not f.endswith("_full.v"):
                vs.append(os.path.relpath(os.path.join(d, f), COQ))
    vs.sort()
    write_if_changed(os.path.join(COQ, "_CoqProject"), COQPROJECT_HEADER + "\n".join(vs) + "\n")
    return vs


def coq_make(targets, timeout=1500):
    """make the given .vo targets (paths relative to coq/); returns (ok, log)"""
    ensure_coqproject()
    mk, pj = os.path.join(COQ, "Makefile"), os.path.join(COQ, "_CoqProject")
    if not os.path.exists(mk) or os.path.getmtime(pj) > os.path.getmtime(mk):
        p = run(["coq_makefile", "-f", "_CoqProject", "-o", "Makefile"], cwd=COQ, timeout=120)
        if p.returncode != 0:
            return False, p.stdout + p.stderr
    p = run(["timeout", str(timeout), "make", "-j16"] + targets, cwd=COQ, timeout=timeout + 30)
    return p.returncode == 0, p.stdout[-6000:] + p.stderr[-6000:]


def coqc_file(rel, timeout=600):
    """compile one file with coqc directly and capture its output (Print Assumptions etc.)"""
    p = run(["timeout", str(timeout), "coqc", "-R", "theories", "GV", "-w", "-notation-overridden", rel],
            cwd=COQ, timeout=timeout + 30)
    return p.returncode == 0, p.stdout, p.stderr


def parse_assumptions(out):
    """split coqc output of a Props file into {theorem: assumptions text}"""
    res, cur = {}, None
    for line in out.splitlines():
        if line.startswith("Closed under the global context"):
            res["#%d" % len(res)] = "Closed under the global context"
        elif line.startswith("Axioms:"):
            cur = "#%d" % len(res)
            res[cur] = "Axioms:"
        elif cur and line.startswith(" "):
            res[cur] += " " + line.strip()
        else:
            cur = None
    return res


FORBIDDEN = re.compile(r"\b(Admitted|admit|Axiom|Parameter|Conjecture|Admit Obligations|Unset Guard Checking|bypass_check|Unset Positivity Checking|Unset Universe Checking)\b")


def grep_forbidden():
    bad = []
    for d, _, files in os.walk(os.path.join(COQ, "theories")):
        for fn in files:
            if fn.endswith(".v"):
                for i, line in enumerate(open(os.path.join(d, fn)), 1):
                    s = re.sub(r"\(\*.*?\*\)", "", line)
                    if FORBIDDEN.search(s):
                        bad.append("%s:%d: %s" % (os.path.join(d, fn), i, line.strip()))
    return bad


# ------------------------------------------------------------------------------------------------
# reporting

class Report:
    def __init__(self, prop, tier):
        self.prop, self.tier = prop, tier
        self.t0 = time.time()
        self.violations = []
        self.known_hit = []
        self.cov = {"obligations": 0, "discharged": 0, "checker_cmd": "", "trusted_base": list(TRUSTED_BASE),
                    "evaluations": 0, "distinct_nontrivial": 0, "rule": "", "samples": [],
                    "theorems": [], "assumptions": {}, "notes": []}
        self.assumptions = []

    def obligation(self, name, ok, detail=""):
        self.cov["obligations"] += 1
        if ok:
            self.cov["discharged"] += 1
        self.cov["theorems"].append({"name": name, "checked": bool(ok), "detail": detail[:300]})

    def known(self, key, what):
        print("KNOWN-FINDING: property=%s %s — %s" % (self.prop, key, what), flush=True)
        self.known_hit.append(key)

    def violation(self, replay_obj, name, no_input=False):
        d = os.path.join(REPLAYS, self.prop)
        os.makedirs(d, exist_ok=True)
        path = os.path.join(d, "%s.json" % re.sub(r"[^A-Za-z0-9_.-]+", "_", name)[:80])
        with open(path, "w") as f:
            json.dump(replay_obj, f, indent=1, default=str)
        line = "VIOLATION property=%s replay=%s" % (self.prop, path)
        if no_input:
            line += " no-failing-input-found"
        print(line, flush=True)
        self.violations.append(path)

    def finish(self, level="proof"):
        os.makedirs(EVID, exist_ok=True)
        ev = {"property_id": self.prop, "tier": self.tier, "seed": seed(), "level": level,
              "coverage": self.cov, "assumptions": self.assumptions,
              "wall_s": round(time.time() - self.t0, 2), "violations": len(self.violations),
              "known_findings_hit": self.known_hit, "tree_hash": tree_hash(), "repo": REPO}
        with open(os.path.join(EVID, self.prop + ".json"), "w") as f:
            json.dump(ev, f, indent=1, default=str)
        return 1 if self.violations else 0


def coqchk_props(timeout=3000):
    """independent re-check (coqchk) of every compiled property file and everything it depends on; returns
    (ok, axioms reported outside the library's primitive integers/floats/arrays, log tail)"""
    mods = []
    pdir = os.path.join(COQ, "theories", "Props")
    # files compiled on demand (outside _CoqProject: *_full.v) are not rebuilt by make: recompile them against the
    # current theories first, and leave out those that do not compile on this tree (e.g. a full-strength statement
    # whose exception list is not empty) instead of handing coqchk a stale object file
    for f in sorted(os.listdir(pdir)):
        if f.endswith("_full.v"):
            for ext in (".vo", ".vok", ".vos", ".glob"):
                try:
                    os.remove(os.path.join(pdir, f[:-2] + ext))
                except OSError:
                    pass
            coqc_file("theories/Props/" + f)
    for f in sorted(os.listdir(pdir)):
        if f.endswith(".vo"):
            mods.append("GV.Props." + f[:-3])
    p = run(["timeout", str(timeout), "coqchk", "-silent", "-o", "-R", "theories", "GV"] + mods, cwd=COQ, timeout=timeout + 60)
    out = p.stdout + p.stderr
    axioms = []
    m = re.search(r"\* Axioms:(.*?)\* Constants/Inductives relying on type-in-type", out, re.S)
    if m:
        for line in m.group(1).splitlines():
            line = line.strip()
            if line and not re.search(r"Int63|Uint63|PrimFloat|PrimArray|Floats\.|PArray", line):
                axioms.append(line)
    ok = p.returncode == 0 and "type-in-type: <none>" in out and "unsafe (co)fixpoints: <none>" in out and "positivity is assumed: <none>" in out
    return ok, axioms, out[-1500:]


def emit_all_gen():
    """regenerate every Gen/*.v table from the current tree (each emitter rewrites its file only when it changed)"""
    import gen
    gen.emit_all(stage_gotables(), stage_tables())


def coq_cases(name, body, timeout=900):
    """compile a generated cases file (outside the project tree) against the built theories"""
    d = os.path.join(BUILD, "cases")
    os.makedirs(d, exist_ok=True)
    path = os.path.join(d, name + ".v")
    with open(path, "w") as f:
        f.write(body)
    p = run(["timeout", str(timeout), "coqc", "-R", os.path.join(COQ, "theories"), "GV", "-w", "-notation-overridden", path],
            cwd=d, timeout=timeout + 30)
    return p.returncode == 0, p.stdout, p.stderr


def parse_nlist(out):
    """parse the printed value of a `list N` definition: returns list of ints"""
    m = re.search(r"=\s*(\[.*?\])\s*:\s*list N", out, re.S)
    if not m:
        m = re.search(r"=\s*(\[.*?\])\s*$", out, re.S)
    if not m:
        raise RuntimeError("cannot parse Coq output: " + out[-500:])
    return [int(x) for x in re.findall(r"\d+", m.group(1))]


def coq_stage(rp, targets, props, theorems, full=None, inst_names=()):
    """make the instance targets, compile the property file capturing Print Assumptions, record the
    obligations.  Returns (ok_inst, ok_props, full_ok, logs)."""
    ok_inst, log_inst = coq_make(targets)
    ok_props, out_props, err_props = (False, "", "")
    if ok_inst:
        ok_props, out_props, err_props = coqc_file(props)
    full_ok = None
    if full and ok_inst:
        full_ok, out_full, err_full = coqc_file(full)
        if full_ok:
            out_props += out_full
    for n in inst_names:
        rp.obligation(n, ok_inst, "" if ok_inst else log_inst[-300:])
    for n in theorems:
        rp.obligation(n, ok_props, "" if ok_props else (err_props or log_inst)[-300:])
    if full:
        rp.cov["full_strength_theorem_checked"] = bool(full_ok)
    asm = parse_assumptions(out_props)
    names = list(theorems) + (["(full strength)"] if full_ok else [])
    rp.cov["assumptions"] = {(names[i] if i < len(names) else k): v for i, (k, v) in enumerate(asm.items())}
    rp.cov["checker_cmd"] = "make -C coq -j16 %s && coqc -R theories GV %s" % (" ".join(targets), props)
    bad = grep_forbidden()
    rp.obligation("no Admitted/admit/Axiom/Parameter/guard switches in coq/theories", not bad, "; ".join(bad)[:300])
    if bad:
        rp.violation({"kind": "proof", "detail": bad}, "forbidden_constructs", no_input=True)
    return ok_inst, ok_props, full_ok, {"inst": log_inst, "props": err_props}


def stage_fail(rp, e):
    rp.obligation("staging:" + e.stage, False, e.detail)
    rp.violation({"kind": "correspondence", "broken": "stage " + e.stage, "detail": e.detail,
                  "note": "the harness/translator no longer builds or runs against the tree; the tie between model and code cannot be checked"},
                 "stage_" + e.stage, no_input=True)
    return rp.finish()
