"""Query-tree glue for C15 / C16: names of pkg/sql/ast node types and fields -> kinds / slots of
coq/theories/Model/QAst.v, Coq terms of dumped real trees, and the generated Gen/QSlots.v (which slots the
current Children() methods return, read off the C14 table by NAME)."""
import os
import common, gen

KIND = {
    "SelectStatement": "KSelect", "SetOperation": "KSetOp", "InsertStatement": "KInsert",
    "UpdateStatement": "KUpdate", "DeleteStatement": "KDelete", "MergeStatement": "KMerge",
    "WithClause": "KWith", "CommonTableExpr": "KCte", "TableReference": "KTableRef", "JoinClause": "KJoin",
    "OrderByExpression": "KOrderBy", "UpdateExpression": "KUpdateExpr", "MergeWhenClause": "KMergeWhen",
    "MergeAction": "KMergeAction", "SetClause": "KSetClause", "Identifier": "KIdent", "LiteralValue": "KLit",
    "BinaryExpression": "KBinary", "UnaryExpression": "KUnary", "FunctionCall": "KFunc",
    "CaseExpression": "KCase", "WhenClause": "KWhen", "InExpression": "KIn", "BetweenExpression": "KBetween",
    "ExistsExpression": "KExists", "SubqueryExpression": "KSubquery", "CastExpression": "KCast",
    "ListExpression": "KList", "AliasedExpression": "KAliased",
    # statements that carry a query / an expression without being queries
    "CreateViewStatement": "KCreateView", "CreateMaterializedViewStatement": "KCreateMView",
    "CreateIndexStatement": "KCreateIndex", "IndexColumn": "KIndexCol",
    "CreateTableStatement": "KCreateTable", "ColumnDef": "KColumnDef", "ColumnConstraint": "KColConstraint",
    "TableConstraint": "KTabConstraint", "DescribeStatement": "KDescribe",
}
SLOT = {
    ("SelectStatement", "With"): "SWith", ("SelectStatement", "Columns.[*]"): "SColumns",
    ("SelectStatement", "From.[*]"): "SFrom", ("SelectStatement", "Joins.[*]"): "SJoins",
    ("SelectStatement", "Where"): "SWhere", ("SelectStatement", "GroupBy.[*]"): "SGroupBy",
    ("SelectStatement", "Having"): "SHaving", ("SelectStatement", "OrderBy.[*]"): "SOrderBy",
    ("SetOperation", "Left"): "SLeft", ("SetOperation", "Right"): "SRight",
    ("InsertStatement", "With"): "SWith", ("InsertStatement", "Columns.[*]"): "SColumns",
    ("InsertStatement", "Values.[*].[*]"): "SValues", ("InsertStatement", "Query"): "SQuery",
    ("UpdateStatement", "With"): "SWith", ("UpdateStatement", "Assignments.[*]"): "SAssign",
    ("UpdateStatement", "From.[*]"): "SFrom", ("UpdateStatement", "Where"): "SWhere",
    ("DeleteStatement", "With"): "SWith", ("DeleteStatement", "Using.[*]"): "SUsing",
    ("DeleteStatement", "Where"): "SWhere",
    ("MergeStatement", "TargetTable"): "STarget", ("MergeStatement", "SourceTable"): "SSource",
    ("MergeStatement", "OnCondition"): "SCond", ("MergeStatement", "WhenClauses.[*]"): "SWhens",
    ("WithClause", "CTEs.[*]"): "SCtes", ("CommonTableExpr", "Statement"): "SStmt",
    ("TableReference", "Subquery"): "SSubquery",
    ("JoinClause", "Left"): "SLeft", ("JoinClause", "Right"): "SRight", ("JoinClause", "Condition"): "SCond",
    ("OrderByExpression", "Expression"): "SExpr",
    ("UpdateExpression", "Column"): "SColumn", ("UpdateExpression", "Value"): "SValue",
    ("MergeWhenClause", "Condition"): "SCond", ("MergeWhenClause", "Action"): "SAction",
    ("MergeAction", "SetClauses.[*]"): "SSets", ("MergeAction", "Values.[*]"): "SValues",
    ("SetClause", "Value"): "SValue",
    ("BinaryExpression", "Left"): "SLeft", ("BinaryExpression", "Right"): "SRight",
    ("UnaryExpression", "Expr"): "SExpr", ("FunctionCall", "Arguments.[*]"): "SArgs",
    ("CaseExpression", "Value"): "SValue", ("CaseExpression", "WhenClauses.[*]"): "SWhens",
    ("CaseExpression", "ElseClause"): "SElse",
    ("WhenClause", "Condition"): "SCond", ("WhenClause", "Result"): "SResult",
    ("InExpression", "Expr"): "SExpr", ("InExpression", "List.[*]"): "SList", ("InExpression", "Subquery"): "SSubquery",
    ("BetweenExpression", "Expr"): "SExpr", ("BetweenExpression", "Lower"): "SLower",
    ("BetweenExpression", "Upper"): "SUpper",
    ("ExistsExpression", "Subquery"): "SSubquery", ("SubqueryExpression", "Subquery"): "SSubquery",
    ("CastExpression", "Expr"): "SExpr", ("ListExpression", "Values.[*]"): "SList",
    ("AliasedExpression", "Expr"): "SExpr",
    ("CreateViewStatement", "Query"): "SQuery", ("CreateMaterializedViewStatement", "Query"): "SQuery",
    ("CreateIndexStatement", "Columns.[*]"): "SColumns", ("CreateIndexStatement", "Where"): "SWhere",
    ("CreateTableStatement", "Columns.[*]"): "SColumns", ("CreateTableStatement", "Constraints.[*]"): "SConstraints",
    ("ColumnDef", "Constraints.[*]"): "SConstraints",
    ("ColumnConstraint", "Default"): "SDefault", ("ColumnConstraint", "Check"): "SCheck",
    ("TableConstraint", "Check"): "SCheck",
    ("DescribeStatement", "Query"): "SQuery",
}
# attribute -> {type: field}
ATTR = {
    "name": {"Identifier": "Name", "FunctionCall": "Name", "TableReference": "Name", "SelectStatement": "TableName",
             "InsertStatement": "TableName", "UpdateStatement": "TableName", "DeleteStatement": "TableName",
             "CommonTableExpr": "Name", "SetClause": "Column",
             "CreateViewStatement": "Name", "CreateMaterializedViewStatement": "Name", "CreateIndexStatement": "Name",
             "IndexColumn": "Column", "CreateTableStatement": "Name", "ColumnDef": "Name", "TableConstraint": "Name",
             "DescribeStatement": "TableName"},
    "qual": {"Identifier": "Table", "CreateIndexStatement": "Table"},
    "op": {"BinaryExpression": "Operator", "SetOperation": "Operator", "UnaryExpression": "Operator",
           "JoinClause": "Type", "MergeWhenClause": "Type", "MergeAction": "ActionType",
           "ColumnConstraint": "Type", "TableConstraint": "Type"},
    "val": {"LiteralValue": "Value"},
    "typ": {"LiteralValue": "Type", "CastExpression": "Type", "ColumnDef": "Type"},
    "alias": {"TableReference": "Alias", "AliasedExpression": "Alias", "UpdateStatement": "Alias",
              "DeleteStatement": "Alias"},
}
LISTATTR = {"MergeAction": "Columns", "CommonTableExpr": "Columns", "CreateViewStatement": "Columns",
            "CreateMaterializedViewStatement": "Columns", "TableConstraint": "Columns"}


def cstr(s):
    return '"' + s.replace('"', '""') + '"'


def clist(items):
    return "[" + "; ".join(items) + "]"


class Tables:
    """ids of the C14 tables (type name -> id, (type, path) -> field id, emitted pairs)"""
    def __init__(self, ct):
        self.tid, self.fid = ct["tid"], ct["fid"]
        self.emitted = set(ct["emitted"])
        missing = [t for t in KIND if t not in self.tid]
        missing += ["%s.%s" % k for k in SLOT if k not in self.fid]
        if missing:
            raise common.StageError("qslots", "modelled node types / fields no longer exist in pkg/sql/ast: %s" % missing,
                                    tree_caused=True)


def qn_term(n, tb, unknown):
    """Coq term (type qn) of one dumped node"""
    t = n["t"]
    if t == "#shared":
        return "QN KShared noA []"
    s = n.get("s", {})
    if t in KIND:
        kind = KIND[t]
    else:
        if t not in tb.tid:
            unknown.add("type " + t)
        kind = "(KOpaque %d)" % tb.tid.get(t, 999999)
    def a(name):
        f = ATTR[name].get(t)
        return cstr(s.get(f, "")) if f else '""'
    lst = n.get("l", {}).get(LISTATTR.get(t, ""), []) if t in LISTATTR else []
    if any(a(x) != '""' for x in ATTR) or lst:
        attrs = "(mkA %s %s %s %s %s %s %s)" % (a("name"), a("qual"), a("op"), a("val"), a("typ"), a("alias"),
                                                 clist([cstr(x) for x in lst]))
    else:
        attrs = "noA"
    groups = []
    for k in n.get("k", []):
        key = (t, k["p"])
        if key in SLOT:
            sl = SLOT[key]
        else:
            if key not in tb.fid:
                unknown.add("edge %s.%s" % key)
            sl = "(SF %d)" % tb.fid.get(key, 999999)
        term = qn_term(k, tb, unknown)
        if groups and groups[-1][0] == sl:
            groups[-1][1].append(term)
        else:
            groups.append((sl, [term]))
    return "QN %s %s %s" % (kind, attrs, clist(["(%s, %s)" % (sl, clist(ts)) for sl, ts in groups]))


def tree_size(n):
    return 1 + sum(tree_size(k) for k in n.get("k", []))


def tree_types(n, acc):
    acc.add(n["t"])
    for k in n.get("k", []):
        acc.add((n["t"], k["p"]))
        tree_types(k, acc)
    return acc


def emit_qslots(ct):
    """Gen/QSlots.v: em kind slot := (type, field) is in the regenerated Children() table"""
    tb = Tables(ct)
    txt = gen.HDR
    txt += "From GV Require Import Model.Walk Model.QAst Gen.ChildrenTable.\n\n"
    txt += "(* C14 type id of each modelled kind *)\nDefinition kind_ty (k : kind) : N :=\n  match k with\n"
    for t, k in sorted(KIND.items(), key=lambda x: x[1]):
        txt += "  | %s => %d  (* %s *)\n" % (k, tb.tid[t], t)
    txt += "  | KShared => 0\n  | KOpaque ty => ty\n  end.\n\n"
    txt += "(* C14 field id of each modelled slot *)\nDefinition slot_f (k : kind) (s : slot) : option N :=\n  match k, s with\n"
    for (t, p), sl in sorted(SLOT.items(), key=lambda x: (KIND[x[0][0]], x[1])):
        txt += "  | %s, %s => Some %d  (* %s.%s *)\n" % (KIND[t], sl, tb.fid[(t, p)], t, p)
    txt += "  | KShared, _ => None\n  | _, SF f => Some f\n  | _, _ => None\n  end.\n\n"
    txt += ("(* Children() of a node of kind k returns the nodes stored in slot s *)\n"
            "Definition em (k : kind) (s : slot) : bool :=\n"
            "  match slot_f k s with Some f => pmem (kind_ty k, f) emitted | None => false end.\n")
    changed = common.write_if_changed(os.path.join(common.GEN, "QSlots.v"), txt)
    if not os.path.exists(os.path.join(common.GEN, "QRoots.v")):
        emit_qroots(None)           # placeholder until lib/c16.py probes the scanner (bin/setup builds every file)
    return tb, changed


# one statement of each statement kind of the reference grammar, carrying a time-delay call the scan must report
# when it starts a traversal from that statement: (kind, Go type of the top-level statement, SQL)
ROOT_PROBES = [
    ("KSelect", "SelectStatement", "SELECT SLEEP(5) FROM t1"),
    ("KSetOp", "SetOperation", "SELECT SLEEP(5) FROM t1 UNION ALL SELECT a FROM t2"),
    ("KInsert", "InsertStatement", "INSERT INTO t1 (a) VALUES (SLEEP(5))"),
    ("KUpdate", "UpdateStatement", "UPDATE t1 SET a = SLEEP(5)"),
    ("KDelete", "DeleteStatement", "DELETE FROM t1 WHERE SLEEP(5) > 0"),
    ("KMerge", "MergeStatement", "MERGE INTO t1 USING t2 ON SLEEP(5) > 0 WHEN MATCHED THEN DELETE"),
    ("KCreateView", "CreateViewStatement", "CREATE VIEW zv AS SELECT SLEEP(5) FROM t1"),
    ("KCreateMView", "CreateMaterializedViewStatement", "CREATE MATERIALIZED VIEW zmv AS SELECT SLEEP(5) FROM t1"),
    ("KCreateIndex", "CreateIndexStatement", "CREATE INDEX zi ON t1 (a) WHERE SLEEP(5) > 0"),
    ("KCreateTable", "CreateTableStatement", "CREATE TABLE zt (a INT DEFAULT (SLEEP(5)))"),
    ("KDescribe", "DescribeStatement", "EXPLAIN SELECT SLEEP(5) FROM t1"),
]


def emit_qroots(roots):
    """Gen/QRoots.v: scan_root k := Scanner.Scan starts a traversal from a top-level statement of kind k.
    roots: {kind: bool} as probed on the implementation (lib/c16.py probe_roots); None = not probed yet."""
    txt = gen.HDR
    txt += "From GV Require Import Model.QAst.\n\n"
    txt += ("(* Scanner.Scan (pkg/sql/security/scanner.go): for _, stmt := range tree.Statements { s.scanNode(stmt, result) }.\n"
            "   Probed on the compiled code with one statement of each statement kind of the reference grammar\n"
            "   (lib/qast.py ROOT_PROBES): is a time-delay call inside it reported?  Kinds outside the grammar: as the\n"
            "   loop is written (no condition), checked by the correspondence on dumped trees only.%s *)\n"
            % ("" if roots is not None else "\n   PLACEHOLDER: not probed yet (written by bin/setup; lib/c16.py regenerates it)"))
    txt += "Definition scan_root (k : kind) : bool :=\n  match k with\n"
    for k, ty, sql in ROOT_PROBES:
        v = True if roots is None else roots.get(k, True)
        txt += "  | %s => %s  (* %s: %s *)\n" % (k, "true" if v else "false", ty, sql)
    txt += "  | _ => true\n  end.\n"
    return common.write_if_changed(os.path.join(common.GEN, "QRoots.v"), txt)


def coq_cases_parallel(jobs, timeout=900):
    """compile several generated case files concurrently (coqc -noglob); jobs: [(name, body)] -> [(ok, out, err)]"""
    import threading
    d = os.path.join(common.BUILD, "cases")
    os.makedirs(d, exist_ok=True)
    out = [None] * len(jobs)
    def work(i, name, body):
        path = os.path.join(d, name + ".v")
        with open(path, "w") as f:
            f.write(body)
        p = common.run(["timeout", str(timeout), "coqc", "-noglob", "-R", os.path.join(common.COQ, "theories"), "GV",
                        "-w", "-notation-overridden", path], cwd=d, timeout=timeout + 30)
        out[i] = (p.returncode == 0, p.stdout, p.stderr)
    ths = [threading.Thread(target=work, args=(i, n, b)) for i, (n, b) in enumerate(jobs)]
    for t in ths:
        t.start()
    for t in ths:
        t.join()
    return out
