"""C03 — the parsed tree is the tree the SQL grammar prescribes."""
import re
import json, os, random, concurrent.futures
import common
import c03gen as G
import c03s as S
from common import Report, log

MANIFEST = dict(
    technique='Coq proofs that function-by-function Gallina models of the expression parser and of the statement parser map every rendering of every reference expression / reference statement (all parenthesisation choices) to the prescribed tree + model-vs-code correspondence for parseExpression and parseStatement on rendered, corrupted and unsupported token lists + prescribed-tree oracle (generator knows the tree) on the whole statement surface',
    text='Spec/RefGrammar.v defines the reference expressions (OR < AND < NOT < comparison/IS NULL/IN/BETWEEN/LIKE < || < + - < * / % < :: < primary; function calls, CASE, CAST, tuples), their token renderings for every choice of redundant parentheses, and Model/Expr.v the prescribed tree ast_of; Spec/RefStmt.v the reference statements (SELECT with DISTINCT [ON], aliases, FROM lists, all joins with ON/USING, WHERE, GROUP BY with ROLLUP/CUBE/GROUPING SETS, HAVING, ORDER BY with direction and NULLS, LIMIT, OFFSET, FETCH, the locking clause FOR UPDATE | NO KEY UPDATE | SHARE | KEY SHARE [OF ...] [NOWAIT | SKIP LOCKED]; set operations; WITH [RECURSIVE] with column lists and [NOT] MATERIALIZED; INSERT with VALUES rows or a query, ON CONFLICT and RETURNING; UPDATE; DELETE; MERGE with every documented WHEN kind x action pair), their renderings and ast_of_stmt. Model/ExprParse.v mirrors expressions.go and Model/StmtParse.v mirrors parseStatement / select.go (incl. parseForClause) / cte.go / grouping.go / the cores of dml.go (incl. parseMergeStatement) function by function (cursor, depth counter, quirks, defect switches). Theorem C03_parse_render_expr_ext: for EVERY reference expression, every parenthesisation, every admissible follow token list, every depth limit and every nesting within it the model parser returns exactly (ast_of e, rest) - precedence, left associativity, parenthesis override, everything written appears, nothing else appears, never rejected, in one statement, by induction with one lemma per production. Theorems C03_parse_render_select_partial and C03_parse_render_stmt_partial: the same equation for parseStatement on every reference SELECT / every reference statement, every parenthesisation of every expression in it, by one lemma per clause composed along the token list (partial: the clauses outside Spec/RefStmt.v are listed in Props/C03.v). Refuted-witness theorems for the defect switches (two repaired in /repo, one - an alias without AS after a bare column - pinned by the project tests and kept as known finding). The models are tied to the code on every run: the real parseExpression / parseStatement (hooks) and the models are run on the same token lists (rendered, corrupted, unsupported) and must agree on accept/reject, consumed tokens and whole tree; Spec renderings and prescribed trees are cross-checked against the generator and the real tokenizer. Independently, the real parser output for generated statements of the whole documented surface (queries, DML, MERGE, DDL) is compared field by field with the tree the generator prescribes.',
    note=common.BASE_NOTE + "Lexing is C04's theorem: C03 checks per run that the real tokenizer+converter produce the token list the renderer states. MERGE, GROUPING SETS and the FOR clause are in the reference grammar of Spec/RefStmt.v, in the model correspondence (targeted reference families: the WHEN kind x action table and its ordered pairs, set shapes, 36 lock x OF x wait combinations) and in the statement theorem; clauses outside the reference grammar (derived tables, LATERAL, sub-query expressions, window functions, DDL) are covered by the prescribed-tree oracle and, where modelled (OVER ( window specification ) with both frame forms is), the correspondence only; known findings: implicit-alias-bare-column, setop-trailing-order-by, derived-table-set-operation; ASCII-only case folding in the model; models.TokenType numbers of statement keywords are written in Spec/RefStmt.v (drift shows as a correspondence disagreement).",
    design='6/C03')

DF_NONE = "(DFlags false false)"
COQ_HEAD_STMT = ("From Coq Require Import List String NArith ZArith.\n"
                 "From GV Require Import Spec.RefGrammar Spec.RefStmt Model.Expr Model.ExprParse Model.StmtParse.\n"
                 "Import ListNotations.\nLocal Open Scope string_scope.\n")
COQ_HEAD = ("From Coq Require Import List String NArith ZArith.\n"
            "From GV Require Import Spec.RefGrammar Model.Expr Model.ExprParse.\n"
            "Import ListNotations.\nLocal Open Scope string_scope.\n")


# ------------------------------------------------------------------------------------------------
# running the implementation

OPNAMES = {"+": "plus", "-": "minus", "*": "mul", "/": "div", "%": "mod", "||": "concat", "=": "eq", "<>": "neq", "!=": "bangeq",
           "<": "lt", ">": "gt", "<=": "le", ">=": "ge", "::": "castop"}


def safe_id(cid):
    parts = cid.replace(":", "/").split("/")
    return "_".join(OPNAMES.get(p, p.replace(" ", "-")) for p in parts)


def vh_lines(sub, objs, timeout=1200):
    inp = "".join(json.dumps(o) + "\n" for o in objs)
    p = common.vh([sub], input=inp, timeout=timeout)
    outs = [json.loads(l) for l in p.stdout.splitlines() if l.strip()]
    if p.returncode != 0 or len(outs) != len(objs):
        raise common.StageError("harness-" + sub, (p.stderr or "")[-2000:] + " got %d of %d" % (len(outs), len(objs)), tree_caused=True)
    return outs


def coq_eval(name, decls, value, timeout=900, head=None):
    """evaluate `value : list N` by vm_compute; returns list of ints or raises"""
    body = (head or COQ_HEAD) + decls + "\nDefinition results := Eval vm_compute in (%s).\nPrint results.\n" % value
    ok, out, err = common.coq_cases(name, body, timeout=timeout)
    if not ok:
        raise RuntimeError("coq case file %s failed: %s" % (name, err[-1500:]))
    return common.parse_nlist(out)


def coq_eval_shards(name, items, mk_case, fn, shard=400, decl_type=None, head=None):
    """items -> Coq case terms; evaluate `map fn cases` in shards (parallel)"""
    shards = [items[i:i + shard] for i in range(0, len(items), shard)]
    def one(ix):
        terms = [mk_case(x) for x in shards[ix]]
        decls = "Definition cases%s := [\n  %s].\n" % ("" if decl_type is None else " : " + decl_type, ";\n  ".join(terms))
        return coq_eval("%s_%d" % (name, ix), decls, "map (%s) cases" % fn, head=head)
    res = []
    with concurrent.futures.ThreadPoolExecutor(max_workers=12) as ex:
        for r in ex.map(one, range(len(shards))):
            res += r
    return res


# ------------------------------------------------------------------------------------------------
# expression cases

def expr_cases(rng, tier):
    cases = []
    pcs = G.pair_cases()
    if tier == "quick":
        # every (outer, slot, inner) triple once, the parenthesisation variant rotating; plus a random third of the rest
        keep = []
        for i in range(0, len(pcs), 3):
            trio = pcs[i:i + 3]
            j = (i // 3) % 3
            keep.append(trio[j])
            for k2, c in enumerate(trio):
                if k2 != j and rng.random() < 0.15:
                    keep.append(c)
        pcs_run = keep
    else:
        pcs_run = pcs
    for cid, e, rho in pcs_run:
        cases.append(dict(id=cid, e=e, rho=rho, kind="pair"))
    n_rand = 500 if tier == "quick" else 6000
    for i in range(n_rand):
        budget = rng.choice([2, 3, 4, 6, 8, 12, 20, 30, 45, 60])
        e = G.rand_expr(rng, budget)
        rho = G.rand_rho(rng, e, rng.choice([0.0, 0.1, 0.3]))
        if G.pdepth(0, e, rho) + 1 > 95:
            continue
        cases.append(dict(id="rand:%d" % i, e=e, rho=rho, kind="random"))
    # unary minus / plus (outside Spec/RefGrammar.v's mexpr: oracle and model-vs-code tie only)
    for cid, e, rho in G.neg_cases():
        cases.append(dict(id=cid, e=e, rho=rho, kind="neg"))
    for i in range(60 if tier == "quick" else 600):
        e = G.rand_expr(rng, rng.choice([2, 4, 8, 16]))
        e = G.with_signs(rng, e)
        cases.append(dict(id="randneg:%d" % i, e=e, rho=G.rand_rho(rng, e, rng.choice([0.0, 0.2])), kind="neg"))
    # deep nesting near the limit (depth counter)
    for n in (10, 50, 97, 98):
        e = ("ident", False, "a")
        cases.append(dict(id="deep-parens:%d" % n, e=e, rho={(): n}, kind="deep"))
    e = ("ident", False, "a")
    for _ in range(40):
        e = ("not", e)
    cases.append(dict(id="deep-not:40", e=e, rho={}, kind="deep"))
    # niladic datetime value functions (outside mexpr: oracle and tie only), alone and as operands
    for i, nm in enumerate(G.NILADIC):
        cases.append(dict(id="niladic:%d" % i, e=("niladic", nm), rho={}, kind="neg"))
        cases.append(dict(id="niladic-op:%d" % i, e=("bin", "<", ("ident", False, "a"), ("bin", "+", ("niladic", nm), ("num", "1"))), rho={(1, 0): 1}, kind="neg"))
    e = ("ident", False, "a")
    for _ in range(60):
        e = ("neg", "-", e)
    cases.append(dict(id="deep-neg:60", e=e, rho={}, kind="neg"))
    return cases, len(pcs)


def follow_texts():
    # admissible follow tokens after a whole expression (text); EOF is always appended by the tokenizer
    return ["", ")", ",", "FROM t", "AS x", "THEN 1", "alias1", ";", "ASC", "WHEN", "END", "]", "GROUP BY a", "UNION"]


def run_expressions(rp, tier, rng, kf):
    cases, n_pairs_total = expr_cases(rng, tier)
    pres = G.Prescriber()
    objs = []
    follows = follow_texts()
    for c in cases:
        toks = G.Renderer(c["rho"]).render(0, c["e"])
        c["toks"] = toks
        c["follow"] = follows[rng.randrange(len(follows))] if c["kind"] != "pair" else ""
        c["sql"] = (G.text_of(toks) + " " + c["follow"]).strip()
        c["want"] = pres.ast_of(c["e"])
        objs.append({"id": c["id"], "sql": c["sql"]})
    outs = vh_lines("c03expr", objs)
    viol, tokbad, accepted = [], [], 0
    pairs_ok = set()
    for c, o in zip(cases, outs):
        c["out"] = o
        n = len(c["toks"])
        real = [(t["ty"], t["lit"]) for t in o.get("tokens", [])]
        if real[:n] != [(t[0], t[1]) for t in c["toks"]] or not real or real[-1] != ("TyEOF", ""):
            tokbad.append(c)
            continue
        why = None
        if o.get("panic"):
            why = "panic: " + o["panic"][:200]
        elif not o["accepted"]:
            why = "rejected (%s)" % o.get("code")
        elif o["pos"] != n:
            why = "parser stopped after %d of %d tokens of the expression" % (o["pos"], n)
        else:
            why = G.tree_diff(c["want"], o.get("tree"))
        if o["accepted"]:
            accepted += 1
        if why:
            c["why"] = why
            viol.append(c)
        elif c["kind"] == "pair":
            pairs_ok.add(c["id"].rsplit("/", 1)[0])
    rp.cov["expr_cases"] = len(cases)
    rp.cov["expr_operator_pairs_total"] = n_pairs_total // 3
    rp.cov["expr_operator_pair_trees_held"] = len(pairs_ok)
    rp.cov["expr_fraction_rejected"] = round(1 - accepted / max(1, len(cases)), 4)
    rp.cov["expr_size_max"] = max(G.size(c["e"]) for c in cases)
    return cases, viol, tokbad


def shrink_expr(e, fails):
    """greedy: replace e by a child, or a child by an atom, while `fails` still holds"""
    changed = True
    while changed:
        changed = False
        for _, _, c in G.children(e):
            if G.is_core(c) and fails(c):
                e = c; changed = True
                break
    return e


def expr_fails(e, rho=None):
    toks = G.Renderer(rho or {}).render(0, e)
    o = vh_lines("c03expr", [{"id": "s", "sql": G.text_of(toks)}])[0]
    if not o["accepted"] or o["pos"] != len(toks):
        return True
    return G.tree_diff(G.Prescriber().ast_of(e), o.get("tree")) is not None


def correspondence_cases(rng, tier, cases):
    """token lists for tie (a): rendered reference expressions (with follow), corrupted ones, unsupported soup"""
    texts = []
    sample = [c for c in cases if c["kind"] != "pair"]
    pairs = [c for c in cases if c["kind"] == "pair"]
    rng.shuffle(pairs)
    n_pair = 250 if tier == "quick" else 3000
    n_rand = 200 if tier == "quick" else 2500
    chosen = pairs[:n_pair] + sample[:n_rand]
    for c in chosen:
        texts.append(("ref:" + c["id"], c["sql"], 0))
    n_cor = 400 if tier == "quick" else 5000
    src = [c for c in cases if G.size(c["e"]) <= 25]
    for i in range(n_cor):
        c = src[rng.randrange(len(src))]
        t = [x[2] for x in c["toks"]]
        for _ in range(rng.choice([1, 1, 1, 2, 3])):
            t = G.corrupt(rng, t)
        texts.append(("corrupt:%d" % i, " ".join(t), 0))
    for i in range(100 if tier == "quick" else 1000):
        n = rng.randrange(1, 9)
        texts.append(("soup:%d" % i, " ".join(rng.choice(G.JUNK) for _ in range(n)), 0))
    # depth counter: entry depth near the limit
    for d in (95, 98, 99, 100, 101):
        texts.append(("depth:%d" % d, "( ( a + 1 ) ) * NOT b", d))
        texts.append(("depthf:%d" % d, "f ( CASE WHEN a THEN ( b ) END )", d))
        texts.append(("depthn:%d" % d, "a * - + - b", d))
    for i, t in enumerate(["CURRENT_DATE", "current_time + 1", '"CURRENT_DATE"', "CURRENT_DATE . x", "CURRENT_TIMESTAMP ( )", "LOCALTIME [ 1 ]", "t . LOCALTIMESTAMP", "CURRENT_USER"]):
        texts.append(("niladic:%d" % i, t, 0))
    # keywords whose canonical (upper-case) spelling the parser stores (repo a8df5c2), written in lower / mixed case
    for i, t in enumerate(["a and b", "a Or b oR c AND d", "a like 'x'", "a NOT Like b", "a iLike b and c ilike d", "a not ILIKE b or c", "a regexp b", "( a and b ) or not c"]):
        texts.append(("kwcase:%d" % i, t, 0))
    return texts


def run_correspondence(rp, tier, rng, cases):
    texts = correspondence_cases(rng, tier, cases)
    outs = vh_lines("c03expr", [{"id": i, "sql": s, "depth": d} for i, s, d in texts])
    items = []
    skipped_tok = 0
    for (cid, sql, d), o in zip(texts, outs):
        if o.get("tok_err") or not o.get("tokens") or o["tokens"][-1]["ty"] != "TyEOF" or o["tokens"][-1]["lit"] != "":
            skipped_tok += 1
            continue
        if o.get("panic"):
            items.append((cid, sql, d, o, "PANIC"))
            continue
        items.append((cid, sql, d, o, None))
    def mk(it):
        cid, sql, d, o, _ = it
        toks = "[" + "; ".join(G.coq_tok(t["ty"], t["lit"], t["n"]) for t in o["tokens"]) + "]"
        if o["accepted"]:
            ntok = len(o["tokens"])
            exp = "Some (%s, %d)" % (G.coq_sx(o["tree"]), min(o["pos"], ntok))
        else:
            exp = "None"
        return "(%s, %d, %s)" % (toks, d, exp)
    res = coq_eval_shards("c03_corr", items, mk, "case_result " + DF_NONE, shard=300,
                          decl_type="list (list token * nat * option (sx * nat))")
    bad = [(it, r) for it, r in zip(items, res) if r == 1 or it[4]]
    unmodelled = sum(1 for r in res if r == 2)
    agree_acc = sum(1 for it, r in zip(items, res) if r == 0 and it[3]["accepted"])
    agree_rej = sum(1 for it, r in zip(items, res) if r == 0 and not it[3]["accepted"])
    depth_bad = [it for it in items if it[3].get("depth", it[2]) != it[2]]
    rp.cov["corr_cases"] = len(items)
    rp.cov["corr_agree_accept"] = agree_acc
    rp.cov["corr_agree_reject"] = agree_rej
    rp.cov["corr_unmodelled_branch"] = unmodelled
    rp.cov["corr_skipped_tokenizer_error"] = skipped_tok
    return items, bad, depth_bad


def run_generator_crosscheck(rp, tier, rng, cases):
    """Spec/RefGrammar.render, pdepth, ref_expr and Model/Expr.ast_of agree with the Python generator"""
    sample = [c for c in cases if G.is_core(c["e"])]
    rng.shuffle(sample)
    sample = sample[:300 if tier == "quick" else 3000]
    def mk_r(c):
        return "(%s, %s, %s, %d)" % (G.coq_mexpr(c["e"]), G.coq_rho(c["rho"]), G.coq_toks(c["toks"]), G.pdepth(0, c["e"], c["rho"]))
    r1 = coq_eval_shards("c03_render", sample, mk_r, "fun c => if render_case_ok c then 0%N else 1%N", shard=300)
    def mk_s(c):
        return "(%s, %s)" % (G.coq_mexpr(c["e"]), G.coq_sx(c["want"]))
    r2 = coq_eval_shards("c03_spec", sample, mk_s, "fun c => if spec_case_ok c then 0%N else 1%N", shard=300)
    bad = [c for c, a, b in zip(sample, r1, r2) if a or b]
    rp.cov["generator_crosscheck_cases"] = len(sample)
    return bad


# ------------------------------------------------------------------------------------------------
# statements: prescribed-tree oracle on the whole documented surface (tie b only)

def run_statements(rp, tier, rng):
    gen = G.StmtGen(rng)
    pres = G.StmtPrescriber()
    n = 1500 if tier == "quick" else 20000
    cases = []
    for i in range(n):
        s = gen.statement()
        rd = G.StmtRenderer(rng, rng.choice([0.0, 0.0, 0.1, 0.25]))
        try:
            words = rd.S(s)
        except RecursionError:
            continue
        if rng.random() < 0.15 and s["kind"] in ("select", "setop", "insert", "update", "delete"):
            words = G.lower_clause_keywords(words)       # keywords are case-insensitive
        sql = " ".join(words)
        cases.append(dict(id="stmt:%d" % i, s=s, sql=sql, want=pres.ast(s), feats=G.features(s)))
    outs = vh_lines("c03stmt", [{"id": c["id"], "sql": c["sql"]} for c in cases])
    viol, rejected = [], 0
    feats_ok, combos = {}, set()
    for c, o in zip(cases, outs):
        c["out"] = o
        why = None
        if o.get("panic"): why = "panic: " + o["panic"][:200]
        elif not o["accepted"]:
            why = "rejected (%s)" % o.get("code"); rejected += 1
        elif len(o.get("trees") or []) != 1: why = "%d statements in the tree" % len(o.get("trees") or [])
        else: why = G.tree_diff(c["want"], o["trees"][0])
        if why:
            c["why"] = why; viol.append(c)
        else:
            for f in c["feats"]: feats_ok[f] = feats_ok.get(f, 0) + 1
            combos.add(tuple(sorted(f for f in c["feats"] if ":" not in f)))
    # --- operators outside the reference expression grammar (JSON operators and the cast operator share one level and
    #     associate to the left): the unparenthesised chain must give the tree of its left-parenthesised spelling
    #     (parentheses leave no node), and statements of the surface whose clauses meet a keyword of an enclosing
    #     statement must be accepted
    JOPS = ["->", "->>", "#>", "#>>", "@>", "<@", "?", "?|", "?&", "#-"]
    pairs = []
    for a in JOPS:
        for b in JOPS:
            pairs.append(("SELECT d %s 'a' %s 'b' FROM t" % (a, b), "SELECT (d %s 'a') %s 'b' FROM t" % (a, b)))
        pairs.append(("SELECT d %s 'a' :: int FROM t" % a, "SELECT (d %s 'a') :: int FROM t" % a))
        pairs.append(("SELECT d :: jsonb %s 'a' FROM t" % a, "SELECT (d :: jsonb) %s 'a' FROM t" % a))
        pairs.append(("SELECT d %s 'a' %s 'b' %s 'c' FROM t" % (a, a, a), "SELECT ((d %s 'a') %s 'b') %s 'c' FROM t" % (a, a, a)))
    pouts = vh_lines("c03stmt", [{"id": "assoc:%d:%d" % (i, j), "sql": q} for i, pr in enumerate(pairs) for j, q in enumerate(pr)])
    n_assoc = 0
    for i, pr in enumerate(pairs):
        o1, o2 = pouts[2 * i], pouts[2 * i + 1]
        if o1.get("panic") or o2.get("panic") or not o1["accepted"] or not o2["accepted"]:
            if o1["accepted"] != o2["accepted"] and not (o1.get("panic") or o2.get("panic")):
                viol.append(dict(id="assoc:%d" % i, sql=pr[0], why="accepted=%s but its left-parenthesised spelling %r accepted=%s" % (o1["accepted"], pr[1], o2["accepted"]), out=o1, want=None, feats=[], s=None))
            continue
        n_assoc += 1
        d = G.tree_diff(o2["trees"][0], o1["trees"][0]) if len(o1.get("trees") or []) == 1 and len(o2.get("trees") or []) == 1 else "statement counts differ"
        if d:
            viol.append(dict(id="assoc:%d" % i, sql=pr[0], why="operators of one level associate to the left: the tree differs from the tree of %r: %s" % (pr[1], d), out=o1, want=o2["trees"][0], feats=[], s=None))
    rp.cov["assoc_pairs_compared"] = n_assoc
    MUST = ["CREATE VIEW v AS SELECT a FROM t GROUP BY a WITH CHECK OPTION", "CREATE VIEW v AS SELECT a FROM t GROUP BY a WITH LOCAL CHECK OPTION",
            "CREATE VIEW v AS SELECT a FROM t GROUP BY a, b WITH CASCADED CHECK OPTION", "CREATE MATERIALIZED VIEW mv AS SELECT a, COUNT(*) FROM t GROUP BY a WITH NO DATA",
            "CREATE MATERIALIZED VIEW mv AS SELECT a FROM t GROUP BY a WITH DATA", "CREATE VIEW v AS SELECT a FROM t WHERE a = 1 WITH CHECK OPTION",
            "CREATE VIEW v AS SELECT a FROM t ORDER BY a WITH CHECK OPTION", "CREATE VIEW v AS SELECT a FROM t GROUP BY a HAVING COUNT(*) > 1 WITH CHECK OPTION",
            "CREATE MATERIALIZED VIEW mv AS SELECT a FROM t LIMIT 3 WITH NO DATA", "CREATE MATERIALIZED VIEW mv AS SELECT a FROM t UNION SELECT b FROM u WITH NO DATA"]
    mouts = vh_lines("c03stmt", [{"id": "must:%d" % i, "sql": q} for i, q in enumerate(MUST)])
    mbase = vh_lines("c03stmt", [{"id": "mustb:%d" % i, "sql": re.sub(r" WITH (NO DATA|DATA|(LOCAL |CASCADED )?CHECK OPTION)$", "", q)} for i, q in enumerate(MUST)])
    for i, (q, o, b) in enumerate(zip(MUST, mouts, mbase)):
        # the statement without its trailing WITH ... option is accepted: then the one with the option must be too
        if b["accepted"] and not o["accepted"]:
            viol.append(dict(id="must:%d" % i, sql=q, why="rejected (%s) although the same statement without its trailing WITH option is accepted: a clause of the query took the WITH of the enclosing statement" % o.get("code"), out=o, want=None, feats=[], s=None))
    rp.cov["stmt_cases"] = len(cases)
    rp.cov["stmt_fraction_rejected"] = round(rejected / max(1, len(cases)), 4)
    rp.cov["stmt_features_held"] = dict(sorted(feats_ok.items()))
    rp.cov["stmt_clause_combinations_held"] = len(combos)
    return cases, viol


# ------------------------------------------------------------------------------------------------
# statements in Coq: Spec/RefStmt.v vs the generator (tie c), Model/StmtParse.v vs parseStatement (tie a)

def run_statements_coq(rp, tier, rng):
    quick = tier == "quick"
    gen = S.CoreStmtGen(rng)
    pres = G.StmtPrescriber()
    ref = []
    for i in range(320 if quick else 5000):
        s = gen.statement()
        rd = S.LoggingRenderer(rng, rng.choice([0.0, 0.1, 0.25]))
        try:
            words = rd.S(s)
        except RecursionError:
            continue
        conv = S.convert(s, rd.log)
        if conv is None:
            continue
        ref.append(dict(id="sref:%d" % i, s=s, words=words, sql=" ".join(words), term=conv[0], srho=conv[1], want=pres.ast(s), feats=G.features(s), fam="random"))
    # targeted reference statements: MERGE (kind x action table, clause pairs, aliases), GROUPING SETS shapes, the FOR clause combinations
    unconverted = []
    for fam, mk in S.FAMILIES:
        for i, s in enumerate(mk(rng, tier)):
            rd = S.LoggingRenderer(rng, rng.choice([0.0, 0.0, 0.1, 0.25]))
            words = rd.S(s)
            conv = S.convert(s, rd.log)
            if conv is None:
                unconverted.append(dict(id="sref:%s:%d" % (fam, i), sql=" ".join(words)))
                continue
            ref.append(dict(id="sref:%s:%d" % (fam, i), s=s, words=words, sql=" ".join(words), term=conv[0], srho=conv[1], want=pres.ast(s),
                            feats=G.features(s), fam=fam))
    wide_gen = G.StmtGen(rng)
    wide = []
    for i in range(200 if quick else 3000):
        st = wide_gen.statement()
        try:
            words = G.StmtRenderer(rng, 0.1).S(st)
        except RecursionError:
            continue
        wide.append(dict(id="swide:%d" % i, words=words, sql=" ".join(words)))
    other = []
    src = ref + wide
    for i in range(420 if quick else 7000):
        c = src[rng.randrange(len(src))]
        w = list(c["words"])
        if len(w) > 60:
            continue
        for _ in range(rng.choice([1, 1, 2, 3])):
            w = G.corrupt(rng, w) if rng.random() < 0.5 else S.corrupt_stmt(rng, w)
        other.append(dict(id="scorrupt:%d" % i, sql=" ".join(w)))
    for i in range(60 if quick else 1000):
        other.append(dict(id="ssoup:%d" % i, sql=" ".join(rng.choice(S.STMT_JUNK) for _ in range(rng.randrange(1, 10)))))
    for i, sql in enumerate(S.FIXED_TEXTS):
        other.append(dict(id="sfixed:%d" % i, sql=sql))
    allc = ref + wide + other
    outs = vh_lines("c03stmtp", [{"id": c["id"], "sql": c["sql"]} for c in allc])
    for c, o in zip(allc, outs):
        c["out"] = o
    usable = lambda o: not o.get("tok_err") and o.get("tokens") and o["tokens"][-1]["ty"] == "TyEOF" and o["tokens"][-1]["lit"] == ""
    coq_toks = lambda o: "[" + "; ".join(G.coq_tok(t["ty"], t["lit"], t["n"]) for t in o["tokens"]) + "]"
    # tie (c): Spec/RefStmt.v render_stmt / ast_of_stmt = generator
    refu = [c for c in ref if usable(c["out"])]
    r1 = coq_eval_shards("c03_srender", refu, lambda c: "(%s, %s, %s)" % (c["term"], c["srho"], coq_toks(c["out"])[:-len('; Tk TyEOF ""]')] + "]"),
                         "fun c => if stmt_render_case_ok c then 0%N else 1%N", shard=150, head=COQ_HEAD_STMT)
    r2 = coq_eval_shards("c03_sspec", refu, lambda c: "(%s, %s)" % (c["term"], G.coq_sx(c["want"])),
                         "fun c => if stmt_spec_case_ok c then 0%N else 1%N", shard=150, head=COQ_HEAD_STMT)
    gen_bad = [c for c, a, b in zip(refu, r1, r2) if a or b]
    # tie (a): Model/StmtParse.v = parseStatement
    items = [c for c in allc if usable(c["out"])]
    def mk(c):
        o = c["out"]
        if o.get("panic"):
            return "(%s, None)" % coq_toks(o)
        exp = "Some (%s, %d)" % (G.coq_sx(o["tree"]), min(o["pos"], len(o["tokens"]))) if o["accepted"] else "None"
        return "(%s, %s)" % (coq_toks(o), exp)
    res = coq_eval_shards("c03_scorr", items, mk, "stmt_case_result tree_flags", shard=70,
                          decl_type="list (list token * option (sx * nat))", head=COQ_HEAD_STMT)
    bad = [(c, r) for c, r in zip(items, res) if r == 1 or c["out"].get("panic")]
    ref_ids = {c["id"] for c in ref}
    ref_unmodelled = [c for c, r in zip(items, res) if r == 2 and c["id"] in ref_ids]
    ref_rejected = [c for c in refu if not c["out"]["accepted"]]
    rp.cov["stmt_coq_reference_statements"] = len(refu)
    rp.cov["stmt_coq_reference_features"] = dict(sorted(_count(f for c in refu for f in c["feats"]).items()))
    rp.cov["stmt_coq_reference_families"] = dict(sorted(_count(c["fam"] for c in refu).items()))
    fam = lambda f: [c["s"] for c in refu if c["fam"] == f]
    rp.cov["stmt_coq_merge_clause_pairs"] = len({tuple((w["type"], w["action"]["type"]) for w in s["whens"]) for s in fam("merge") if len(s["whens"]) == 2})
    rp.cov["stmt_coq_merge_alias_forms"] = len({(bool(s["talias"]), s["tas"] and bool(s["talias"]), bool(s["salias"]), s["sas"] and bool(s["salias"]), s["into"]) for s in fam("merge")})
    rp.cov["stmt_coq_grouping_sets_shapes"] = len({tuple("bare" if isinstance(st, tuple) else len(st) for st in g[1])
                                                   for s in fam("grouping_sets") for g in s["group_by"] if g[0] == "sets"})
    rp.cov["stmt_coq_for_combinations"] = len({(f["lock"], len(f["tables"]), f["wait"]) for s in fam("for") for f in [s.get("for_")] if f})
    rp.cov["stmt_corr_cases"] = len(items)
    rp.cov["stmt_corr_agree_accept"] = sum(1 for c, r in zip(items, res) if r == 0 and c["out"]["accepted"])
    rp.cov["stmt_corr_agree_reject"] = sum(1 for c, r in zip(items, res) if r == 0 and not c["out"]["accepted"])
    rp.cov["stmt_corr_unmodelled_branch"] = sum(1 for r in res if r == 2)
    return dict(ref=refu, gen_bad=gen_bad, bad=bad, ref_unmodelled=ref_unmodelled, ref_rejected=ref_rejected, n=len(items), unconverted=unconverted)


def _count(it):
    d = {}
    for x in it:
        d[x] = d.get(x, 0) + 1
    return d


# ------------------------------------------------------------------------------------------------
# known findings: witnesses are replayed on every run

def witness_fails(w):
    """(fails, why) of a known-finding witness on the implementation"""
    if w["kind"] == "expr":
        o = vh_lines("c03expr", [{"id": "w", "sql": w["sql"]}])[0]
        if not o["accepted"]: return True, "rejected (%s)" % o.get("code")
        if o["pos"] != len(o["tokens"]) - 1: return True, "parser stopped after %d of %d tokens" % (o["pos"], len(o["tokens"]) - 1)
        d = G.tree_diff(w["prescribed"], o.get("tree")) if w.get("prescribed") else None
        return (d is not None), d
    o = vh_lines("c03stmt", [{"id": "w", "sql": w["sql"]}])[0]
    if not o["accepted"]: return True, "rejected (%s)" % o.get("code")
    if len(o.get("trees") or []) != 1: return True, "%d statements" % len(o.get("trees") or [])
    d = G.tree_diff(w["prescribed"], o["trees"][0]) if w.get("prescribed") else None
    return (d is not None), d


def run_known(rp, kf):
    for k in kf:
        fails, why = witness_fails(k["witness"])
        if k["status"] == "fixed":
            rp.obligation("fixed finding stays fixed: " + k["key"], not fails, why or "")
            if fails:
                rp.violation(dict(k["witness"], why=why, note="defect recorded as fixed in %s is back" % k.get("commit")), "fixed_" + k["key"])
        else:
            var_fail = [v for v in k.get("variants", []) if witness_fails({"kind": "stmt", "sql": v})[0]]
            if fails:
                rp.known(k["key"], k["what"])
            else:
                rp.cov["notes"].append("stale known finding (witness holds now): " + k["key"])
            rp.cov.setdefault("known_witnesses", {})[k["key"]] = {"witness_fails": fails, "why": why, "variants_failing": len(var_fail)}


# ------------------------------------------------------------------------------------------------

THEOREMS = ["Props.C03.C03_parse_render_expr_ext", "Props.C03.C03_parse_render_expr_partial", "Props.C03.C03_refuted_cmp_rhs_primary",
            "Props.C03.C03_refuted_like_primary", "Props.C03.C03_parse_render_select_partial", "Props.C03.C03_parse_render_stmt_partial",
            "Props.C03.C03_select_refuted_bare_alias"]


def run(tier):
    rp = Report("C03", tier)
    rng = random.Random(common.seed())
    kf = common.known_findings("C03")
    import time as _t
    _start = _t.time()
    try:
        with common.Lock():
            common.stage_harness()
            ok_inst, ok_props, _, logs = common.coq_stage(rp, ["theories/Proofs/ExprParseP.vo", "theories/Proofs/ExprParseExtP.vo", "theories/Proofs/StmtParseP.vo"], "theories/Props/C03.v", THEOREMS)
            if not ok_inst:
                # the model itself must still build for the correspondence
                ok_make, log_make = common.coq_make(["theories/Model/ExprParse.vo", "theories/Model/StmtParse.vo"])
                if not ok_make:
                    raise common.StageError("coq-model", log_make[-2000:])
    except common.StageError as e:
        return common.stage_fail(rp, e)
    if not (ok_inst and ok_props):
        rp.violation({"kind": "proof", "theorem": "Proofs/ExprParseP.v / Props/C03.v", "log": (logs["inst"] + logs["props"])[-3000:]},
                     "props_c03", no_input=True)
    rp.assumptions = ["lexing (text -> tokens) is C04's theorem; per run the real tokenizer+converter output is compared with the renderer's token list",
                      "the theorems cover the reference grammars of Spec/RefGrammar.v and Spec/RefStmt.v (see Props/C03.v for the omitted clauses); the rest of the documented surface is covered by correspondence and the prescribed-tree oracle only",
                      "model case folding is ASCII-only (Go uses Unicode simple folding for EqualFold/ToUpper on keyword-like literals)"]
    import time
    phase, t0 = {}, _start
    def lap(name):
        nonlocal t0
        phase[name] = round(time.time() - t0, 1); t0 = time.time()
    lap("coq_stage")
    try:
        cases, viol, tokbad = run_expressions(rp, tier, rng, kf); lap("expr_oracle")
        items, corr_bad, depth_bad = run_correspondence(rp, tier, rng, cases); lap("expr_tie")
        gen_bad = run_generator_crosscheck(rp, tier, rng, cases); lap("expr_crosscheck")
        scases, sviol = run_statements(rp, tier, rng); lap("stmt_oracle")
        sc = run_statements_coq(rp, tier, rng); lap("stmt_coq")
        run_known(rp, kf); lap("known")
        rp.cov["phase_seconds"] = phase
    except common.StageError as e:
        return common.stage_fail(rp, e)
    rp.obligation("oracle(b): real parseExpression = prescribed tree on all generated reference expressions", not viol, "%d failures" % len(viol))
    rp.obligation("tie(a): model parser = real parser on rendered/corrupted/unsupported token lists", not corr_bad, "%d disagreements" % len(corr_bad))
    rp.obligation("renderer tokens = real tokenizer+converter output", not tokbad, "%d" % len(tokbad))
    rp.obligation("generator = Spec.render/pdepth/ref_expr and Model.ast_of", not gen_bad, "%d" % len(gen_bad))
    rp.obligation("depth counter restored after parseExpression", not depth_bad, "%d" % len(depth_bad))
    for c in viol[:5]:
        rp.violation({"kind": "expr", "sql": c["sql"], "model_expr": c["e"], "prescribed": c["want"], "observed": c["out"].get("tree"),
                      "accepted": c["out"]["accepted"], "why": c["why"]}, "expr_" + safe_id(c["id"]))
    rp.obligation("oracle(b): real parser = prescribed tree on generated statements of the documented surface", not sviol, "%d failures" % len(sviol))
    for c in sviol[:8]:
        rp.violation({"kind": "stmt", "sql": c["sql"], "prescribed": c["want"], "observed": (c["out"].get("trees") or [None])[0],
                      "accepted": c["out"]["accepted"], "code": c["out"].get("code"), "why": c["why"]}, safe_id(c["id"]))
    # statement level in Coq
    rp.obligation("tie(a): model parseStatement (StmtParse.v) = real parseStatement on rendered reference statements, wider-surface statements, corrupted token lists",
                  not sc["bad"], "%d disagreements of %d" % (len(sc["bad"]), sc["n"]))
    rp.obligation("generator = Spec.RefStmt.render_stmt / ast_of_stmt on reference statements", not sc["gen_bad"], "%d" % len(sc["gen_bad"]))
    rp.obligation("reference statements of Spec/RefStmt.v are inside the model (no unmodelled branch) and accepted by the real parser",
                  not sc["ref_unmodelled"] and not sc["ref_rejected"], "%d unmodelled, %d rejected" % (len(sc["ref_unmodelled"]), len(sc["ref_rejected"])))
    rp.obligation("targeted reference statements (MERGE, GROUPING SETS, FOR) are terms of Spec/RefStmt.v", not sc["unconverted"], "%d not convertible" % len(sc["unconverted"]))
    for c in sc["unconverted"][:2]:
        rp.violation({"kind": "correspondence", "broken": "targeted reference statement has no Spec/RefStmt.v term (lib/c03s.py)", "sql": c["sql"]},
                     "sgen_" + safe_id(c["id"]), no_input=True)
    stmt_oracle_ids = {c["sql"] for c in sviol}
    for c, r in sc["bad"][:5]:
        o = c["out"]
        why = None
        if "want" in c:        # a reference statement: the property oracle decides whether the implementation fails on it
            why = ("panic: " + o["panic"][:200]) if o.get("panic") else ("rejected (%s)" % o.get("code")) if not o["accepted"] else G.tree_diff(c["want"], o.get("tree"))
        if why:
            rp.violation({"kind": "stmt", "sql": c["sql"], "prescribed": c["want"], "observed": o.get("tree"), "accepted": o["accepted"],
                          "code": o.get("code"), "why": why, "also": "Model/StmtParse.v disagrees with parseStatement on this statement"},
                         "scorr_" + safe_id(c["id"]))
        else:
            rp.violation({"kind": "correspondence", "broken": "StmtParse.v vs parseStatement", "sql": c["sql"],
                          "impl": {k: o.get(k) for k in ("accepted", "code", "pos", "tree", "panic")}}, "scorr_" + safe_id(c["id"]), no_input=True)
    for c in sc["gen_bad"][:3]:
        rp.violation({"kind": "correspondence", "broken": "python generator vs Spec/RefStmt.v", "sql": c["sql"], "term": c["term"][:2000]},
                     "sgen_" + safe_id(c["id"]), no_input=True)
    for c in (sc["ref_rejected"] + sc["ref_unmodelled"])[:3]:
        o = c["out"]
        if not o["accepted"]:
            rp.violation({"kind": "stmt", "sql": c["sql"], "prescribed": c["want"], "observed": None, "accepted": False, "code": o.get("code"),
                          "why": "reference statement rejected (%s)" % o.get("code")}, "sref_" + safe_id(c["id"]))
        else:
            rp.violation({"kind": "correspondence", "broken": "reference statement reaches an unmodelled branch of StmtParse.v", "sql": c["sql"]},
                         "sref_" + safe_id(c["id"]), no_input=True)
    for it, r in corr_bad[:5]:
        rp.violation({"kind": "correspondence", "broken": "ExprParse.v vs parseExpression", "sql": it[1], "depth": it[2],
                      "impl": {k: it[3].get(k) for k in ("accepted", "code", "pos", "tree", "panic")}}, "corr_" + it[0], no_input=True)
    for c in tokbad[:3]:
        rp.violation({"kind": "correspondence", "broken": "render tokens vs tokenizer", "sql": c["sql"],
                      "real": c["out"].get("tokens"), "want": [(t[0], t[1]) for t in c["toks"]]}, "tok_" + c["id"], no_input=True)
    for c in gen_bad[:3]:
        rp.violation({"kind": "correspondence", "broken": "python generator vs Spec/RefGrammar.v", "expr": c["e"], "rho": str(c["rho"])},
                     "gen_" + c["id"], no_input=True)
    rp.cov["evaluations"] = len(cases) + len(items) + sc["n"]
    rp.cov["distinct_nontrivial"] = len({c["sql"] for c in cases if G.size(c["e"]) >= 3})
    rp.cov["rule"] = "pair cases: every (outer operator, slot, inner operator) x parenthesisation variant; random reference expressions <= 60 nodes; corrupted and soup token lists for the model-vs-code tie"
    rp.cov["samples"] = [c["sql"] for c in cases[:3]] + [c["sql"] for c in cases if c["kind"] == "random"][:3]
    return rp.finish()


def replay(path):
    r = json.load(open(path))
    if r.get("kind") == "expr":
        o = vh_lines("c03expr", [{"id": "r", "sql": r["sql"]}])[0]
        ok = o["accepted"] and G.tree_diff(r["prescribed"], o.get("tree")) is None
        print("replay: %s -> %s" % (r["sql"], "holds" if ok else "STILL FAILS"))
        return 0 if ok else 1
    if r.get("kind") == "stmt":
        o = vh_lines("c03stmt", [{"id": "r", "sql": r["sql"]}])[0]
        ok = o["accepted"] and len(o.get("trees") or []) == 1 and G.tree_diff(r["prescribed"], o["trees"][0]) is None
        print("replay: %s -> %s" % (r["sql"][:200], "holds" if ok else "STILL FAILS"))
        return 0 if ok else 1
    print("replay: no implementation input in this file (%s)" % r.get("kind"))
    return 1
