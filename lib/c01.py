"""C01 — no input can crash, panic or hang any entry point."""
import json, os, random, re
import common, sqlgen, loopgen, totalrun
from common import Report

MANIFEST = dict(
    technique="Coq totality theorems for the modelled cores (tokenizer on every byte string; the four statement loops on every token list; the token cursor on every token sequence incl. EOF-less ones) tied by the C04/C07/C12 correspondences and a cursor correspondence + exhaustive-by-entry-point exploration with per-call attribution of panics, fatal errors and hangs",
    text=("Proved: the tokenizer model returns a value or an error for every byte string (valid UTF-8 or not) with fuel |bs|+1; the Parse/ParseWithPositions, ParseContext and recovery loops terminate within |tokens|+1 iterations on every token list for "
          "every statement parser that consumes on success; for EVERY token sequence (empty, without EOF, EOF in the middle) the parser cursor reads end-of-input after at most |tokens|-pos+1 advances, so every loop keyed on the current token terminates; "
          "the cursor of the pinned tree (last token stays current for ever) is refuted by a spinning witness, which is the hang found and repaired. The cursor model is compared with the real advance() on generated type sequences each run; the lexer and loop models are tied by the C04/C07/C12 correspondences. "
          "Every public entry point the property names (tokenizing, all parse variants incl. every dialect and strict mode, validators, formatters, recovery, extraction, scanning, linting, and the low-level Parser methods on token sequences no tokenizer produces) is run on generated, corrupted, prefix-truncated, byte-soup and invalid-UTF-8 inputs in worker processes under a memory limit; a panic, a fatal runtime error or a stall is attributed to the call that was running." + ' Very large in-limit inputs (7 shapes) and concurrent callers on thousands of distinct malformed inputs run in child processes so that fatal runtime errors (stack exhaustion, concurrent map access) are observed.'),
    note=common.BASE_NOTE + "Partial: the ~8 kloc of grammar functions, serialisers, scanner, extractors and linter rules are not modelled at statement granularity; for them panic-freedom and termination are exploration-level (evidence reports the split). Deep-nesting stack exhaustion is property C02's theorem.",
    design="6/C01")


def shape(f):
    """narrow signature of a failure: kind, entry point, token variant and the top repository frame of the stack"""
    m = re.findall(r"GoSQLX/(pkg/[\w/]+)\.\(?\*?(\w+)\)?\.?(\w*)", f.get("detail", ""))
    top = ""
    for pkg, a, b in m:
        top = "%s.%s" % (a, b) if b else a
        break
    return (f["kind"], f["entry"].split("(")[0], f.get("variant") or "", top)


def inputs(rng, tier):
    n = 800 if tier == "quick" else 6000
    base = sqlgen.SPECIAL + sqlgen.generated_statements(rng, n) + [s for s in sqlgen.corpus_statements() if len(s) < 800][: n]
    ins, kinds = [], {}
    def add(kind, b):
        ins.append(b if isinstance(b, bytes) else b.encode("utf-8", "surrogatepass"))
        kinds[kind] = kinds.get(kind, 0) + 1
    for k in common.known_findings("C01"):
        w = k.get("witness")
        if isinstance(w, dict) and w.get("sql"):
            add("witness", w["sql"])
    for s in base:
        add("valid", s)
    for s in base[: n]:
        ts = loopgen.toks(s)
        add("prefix", " ".join(ts[: rng.randrange(1, len(ts) + 1)]))     # EOF in the middle of a construct
        add("prefix", " ".join(ts[: rng.randrange(1, len(ts) + 1)]))
        add("corrupt", loopgen.corrupt(rng, s)[1])
    for s in loopgen.soup(rng, n // 2, maxlen=20):
        add("soup", s)
    for _ in range(n // 2):
        add("bytes", bytes(rng.randrange(256) for _ in range(rng.randrange(1, 60))))
    for s in base[: n // 4]:
        b = bytearray(s.encode())
        for _ in range(rng.randrange(1, 4)):
            b[rng.randrange(len(b))] = rng.choice([0xff, 0xc3, 0xe2, 0x00, 0x80, 0x27, 0x22, 0x60, 0x24])
        add("invalid_utf8", bytes(b))
    for s in ["", ";", " ", "\n", "SELECT", "SELECT 1 FROM", "INTERVAL 3", "SELECT INTERVAL 3", "SELECT INTERVAL 3;", "SELECT '\xc3", "\x00", "SELECT * FROM t WHERE a IN (",
              "SELECT a FROM t ORDER BY", "INSERT INTO t VALUES (", "CREATE TABLE t (a INT UNIQUE", "SELECT MATCH (a) AGAINST ('x' IN", "UPDATE t SET a = 1 RETURNING *",
              "SELECT a FROM t WHERE b LIKE", "WITH c AS (", "SELECT CASE WHEN", "SELECT a::", "SELECT a[", "MERGE INTO t USING", "SELECT $", "SELECT $$x", "SELECT @", "SELECT 1e", "SELECT 'a' ||"]:
        add("edge", s)
    if tier != "quick":
        for s in sqlgen.deep_statements("quick") + sqlgen.wide_statements("quick"):
            add("large", s)
    return ins, kinds


def run(tier):
    rp = Report("C01", tier)
    rng = random.Random(common.seed())
    theorems = ["Props.C01.C01_tokenize_total", "Props.C01.C01_parse_loop_total", "Props.C01.C01_parse_context_loop_total",
                "Props.C01.C01_recovery_loop_total", "Props.C01.C01_cursor_reaches_eof", "Props.C01.C01_token_keyed_loops_terminate",
                "Props.C01.C01_stale_cursor_refuted"]
    try:
        with common.Lock():
            common.stage_harness()
            common.emit_all_gen()
            ok_inst, ok_props, _, logs = common.coq_stage(rp, ["theories/Proofs/LexerP.vo", "theories/Proofs/LoopsP.vo", "theories/Proofs/CursorP.vo"],
                                                         "theories/Props/C01.v", theorems)
    except common.StageError as e:
        return common.stage_fail(rp, e)
    if not ok_inst or not ok_props:
        rp.violation({"kind": "proof", "theorem": "Props/C01.v", "log": (logs["inst"] + logs["props"])[-3000:]}, "props_c01", no_input=True)

    # tie: cursor model vs the real advance()
    cases = []
    for _ in range(200 if tier == "quick" else 2000):
        n = rng.randrange(0, 9)
        types = [rng.choice([0, 1, 1, 14, 30, 50, 61, 62, 200]) for _ in range(n)]
        cases.append({"types": types, "n": n + 4})
    p = common.vh(["cursor"], input="".join(json.dumps(c) + "\n" for c in cases), timeout=300)
    outs = [json.loads(l) for l in p.stdout.splitlines() if l.strip()]
    if len(outs) != len(cases):
        rp.obligation("correspondence: cursor", False, p.stderr[-300:])
        rp.violation({"kind": "correspondence", "detail": p.stderr[-1500:], "broken": "cursor hook / harness"}, "cursor_harness", no_input=True)
    else:
        eof = outs[0]["eof"]
        terms = ["(cursor_trace %d [%s] 0 %d, [%s])" % (eof, "; ".join(map(str, c["types"])), c["n"], "; ".join("(%d, %d)" % tuple(x) for x in o["trace"]))
                 for c, o in zip(cases, outs)]
        body = ("From Coq Require Import List Arith.\nFrom GV Require Import Model.Cursor.\nImport ListNotations.\n"
                "Definition eqp (a b : list (nat * nat)) : bool := if list_eq_dec (fun x y : nat * nat => ltac:(decide equality; apply Nat.eq_dec)) a b then true else false.\n"
                "Definition cases : list (list (nat * nat) * list (nat * nat)) := [\n" + ";\n".join(terms) + "].\n"
                "Fixpoint bad_from (i : nat) (l : list (list (nat * nat) * list (nat * nat))) : list nat := match l with [] => [] | c :: r => if eqp (fst c) (snd c) then bad_from (S i) r else i :: bad_from (S i) r end.\n"
                "Definition bad := Eval vm_compute in bad_from 0 cases.\nPrint bad.\n")
        # with a stale first token the model's [stale] parameter is irrelevant unless the slice is empty: compare only non-empty slices' current token
        okc, outc, errc = common.coq_cases("c01_cursor", body)
        bad = []
        if okc:
            m = re.search(r"bad\s*=\s*(\[.*?\])", outc, re.S)
            bad = [int(x) for x in re.findall(r"\d+", m.group(1))] if m else [-1]
            bad = [i for i in bad if i < 0 or cases[i]["types"]]      # an empty slice leaves whatever token was current before
        rp.obligation("correspondence: Coq cursor (advance past the end reads EOF) = real Parser.advance on %d token-type sequences" % len(cases), okc and not bad, (errc or "")[-300:])
        rp.cov["traces_validated_against_model"] = len(cases)
        if not okc:
            rp.violation({"kind": "correspondence", "detail": (errc or outc)[-1500:]}, "cursor_cases_coq", no_input=True)
        for i in bad[:2]:
            rp.violation({"kind": "correspondence", "types": cases[i]["types"], "n": cases[i]["n"], "observed": outs[i]["trace"],
                          "theorem": "Props.C01.C01_cursor_reaches_eof / C01_token_keyed_loops_terminate are about Model/Cursor.v, which no longer reproduces Parser.advance",
                          "explanation": "past the end of the token slice the real cursor does not read as the model says (a stale current token makes token-keyed loops spin on EOF-less slices)"},
                         "cursor_model_mismatch_%d" % i, no_input=True)

    # exploration: every entry point on every input
    ins, kinds = inputs(rng, tier)
    findings, calls = totalrun.run_all(ins, workers=12, stall_s=20 if tier == "quick" else 60, mem_gb=6)
    known = {}
    for k in common.known_findings("C01"):
        if k["status"] == "known":
            sg = k["signature"]
            known[(sg.get("failure"), sg.get("entry"), sg.get("variant", ""), sg.get("function", ""))] = k
    groups = {}
    for f in findings:
        groups.setdefault(shape(f), []).append(f)
    n_new = 0
    for sh, fs in groups.items():
        if sh in known:
            rp.known("%s:%s:%s:%s" % sh, known[sh].get("what", ""))
            continue
        n_new += 1
        fs.sort(key=lambda f: len(ins[f["id"]]) if 0 <= f["id"] < len(ins) else 1 << 30)
        f = fs[0]
        raw = ins[f["id"]] if 0 <= f["id"] < len(ins) else b""
        rp.violation({"kind": "oracle", "failure": f["kind"], "entry": f["entry"], "variant": f.get("variant"), "input_b64": __import__("base64").b64encode(raw).decode(),
                      "input_text": raw.decode("utf-8", "replace")[:400], "detail": f["detail"][:1500], "count_in_run": len(fs),
                      "explanation": "this call does not return to its caller with a value or an error (panic / fatal runtime error / no progress)"},
                     "total_%s_%s_%s" % (f["kind"], re.sub(r"\W+", "_", f["entry"])[:30], re.sub(r"\W+", "_", sh[3])[:30]))
    # very large nested / chained inputs inside the documented limits (10 MiB, 1M tokens): only through a few entry points
    # (a fatal stack overflow or out-of-memory kills the worker and is attributed to the call)
    reps = 300000 if tier == "quick" else 900000
    big = [b"SELECT * FROM t WHERE " + b"NOT " * reps + b"a",
           b"SELECT " + b"(" * reps + b"a" + b")" * reps,
           b"SELECT " + b"f(" * (reps // 2) + b"a" + b")" * (reps // 2),
           b"SELECT a FROM t WHERE " + b" OR\n".join([b"a = 1"] * (reps // 4)),
           b"SELECT " + b" + ".join([b"a"] * (reps // 4)) + b" FROM t",
           b"SELECT * FROM " + b"(SELECT * FROM " * (reps // 8) + b"t" + b")" * (reps // 8),
           b"SELECT " + b"CASE WHEN a THEN " * (reps // 8) + b"1" + b" END" * (reps // 8)]
    bfind, bcalls = [], 0
    for only in ("gosqlx.Validate", "gosqlx.ParseWithRecovery", "tree:", "gosqlx.Format"):
        f2, c2 = totalrun.run_all(big, only=only, workers=len(big), stall_s=180, mem_gb=10)
        bfind += f2; bcalls += c2
    for f in bfind:
        sh = shape(f)
        raw = big[f["id"]]
        n_new += 1
        rp.violation({"kind": "oracle", "failure": f["kind"], "entry": f["entry"], "variant": f.get("variant"),
                      "input_text": raw[:60].decode() + "... (%d bytes, generated: see lib/c01.py 'big' index %d)" % (len(raw), f["id"]), "big_index": f["id"], "reps": reps,
                      "detail": f["detail"][:1500], "explanation": "a large but in-limit input makes this call die or stall (stack exhaustion / out of memory / no progress)"},
                     "total_big_%s_%d_%s" % (f["kind"], f["id"], re.sub(r"\W+", "_", f["entry"])[:20]))
    rp.cov["large_input_calls"] = bcalls
    # concurrent callers on many distinct malformed inputs (process-wide caches reach their eviction paths): a Go runtime
    # fatal error (concurrent map access, unlock of unlocked mutex) kills the process and cannot be recovered, so it is
    # observed on a child process; plain build, all cores
    import c10
    nc = os.cpu_count() or 4
    conc_runs = []
    for rnd in range(2 if tier == "quick" else 8):
        rc, res, races, err = c10.run_mix(max(nc, 4), 1500, common.seed() + rnd, c10.wide_inputs(), ops=["parse", "recovery", "suggest", "parse_ctx", "lint", "format"], race=False)
        conc_runs.append(rc)
        m = re.search(r"(?m)^(fatal error: .*|panic: .*)$", err or "")
        if rc != 0 and (m or res is None):
            n_new += 1
            rp.violation({"kind": "oracle", "failure": "process killed", "mode": "mix", "n": max(nc, 4), "ops_per_g": 1500, "seed": common.seed() + rnd,
                          "ops": ["parse", "recovery", "suggest", "parse_ctx", "lint", "format"], "inputs_generator": "c10.wide_inputs(2400)",
                          "first_line": m.group(1) if m else "exit %d" % rc, "frames": (races or [{}])[-1], "detail": (err or "")[:1500],
                          "explanation": "concurrent callers parsing distinct malformed statements kill the process: %s" % (m.group(1) if m else "exit %d" % rc)},
                         "total_concurrent_fatal")
            break
    rp.cov["concurrent_runs"] = len(conc_runs)
    rp.obligation("oracle: %d processes of %d goroutines x 1500 calls on 2400 distinct malformed inputs finished normally" % (len(conc_runs), max(nc, 4)), all(r == 0 for r in conc_runs))
    rp.cov["large_input_bytes"] = [len(b) for b in big]
    rp.obligation("oracle: %d calls (%d inputs x every entry point) returned a value or an error" % (calls, len(ins)), n_new == 0)
    if tier != "quick":
        # independent re-check of the whole development (every Props file and its dependencies) with coqchk
        with common.Lock():
            common.emit_all_gen()
            common.coq_make(["-k"], timeout=3000)
            okc, axioms, tail = common.coqchk_props()
        rp.obligation("coqchk -o over all compiled Props files: accepted, no axioms beyond the library's primitive integers", okc and not axioms, (str(axioms) + tail)[-300:])
        rp.cov["coqchk_axioms"] = axioms
        if not okc or axioms:
            rp.violation({"kind": "proof", "theorem": "coqchk over coq/theories/Props", "axioms": axioms, "log": tail}, "coqchk", no_input=True)
    rp.cov["evaluations"] = calls
    rp.cov["inputs"] = len(ins)
    rp.cov["distinct_nontrivial"] = len(set(ins))
    rp.cov["input_kinds"] = kinds
    rp.cov["modelled_vs_explored"] = {"modelled (theorems)": ["tokenizer (Lexer.v)", "statement loops and recovery (Loops.v)", "token cursor (Cursor.v)", "position conversion (Loc.v/Cost.v)", "tree walk (Walk.v)", "pools (Pool.v)"],
                                      "exploration only": ["grammar functions of expressions/select/dml/ddl/window/grouping/mysql", "serialisers and formatters", "scanner", "extractors", "linter rules", "token conversion"]}
    rp.cov["rule"] = ("inputs: generated and corpus statements, token-level prefixes (EOF in the middle of a construct), single-token corruptions, token soup, byte soup, statements with invalid UTF-8 / NUL / stray quote bytes, edge fragments; "
                      "each input goes through every public entry point (8 dialects, strict mode, formatters, tree consumers, scanner, linter) and, for the low-level Parser methods, through 8 token-sequence variants (as is, no EOF, empty, nil, type-less, EOF in the middle, EOF only, EOF twice); "
                      "distinct = distinct input bytes; non-trivial = every input (each reaches all entry points)")
    rp.cov["samples"] = [{"kind": "input", "text": i.decode("utf-8", "replace")[:120]} for i in ins[:3]] + [{"cursor_case": cases[0], "observed": outs[0] if outs else None}]
    rp.assumptions = ["a stall of 20 s (quick) / 60 s (thorough) of a worker on one call is a hang", "worker processes run under a 6 GiB address-space limit; exceeding it is a fatal error of the call"]
    return rp.finish()


def replay(path):
    import base64
    d = json.load(open(path))
    if d.get("big_index") is not None:
        reps = d["reps"]
        big = {0: b"SELECT * FROM t WHERE " + b"NOT " * reps + b"a", 1: b"SELECT " + b"(" * reps + b"a" + b")" * reps,
               2: b"SELECT " + b"f(" * (reps // 2) + b"a" + b")" * (reps // 2), 3: b"SELECT a FROM t WHERE " + b" OR\n".join([b"a = 1"] * (reps // 4)),
               4: b"SELECT " + b" + ".join([b"a"] * (reps // 4)) + b" FROM t", 5: b"SELECT * FROM " + b"(SELECT * FROM " * (reps // 8) + b"t" + b")" * (reps // 8),
               6: b"SELECT " + b"CASE WHEN a THEN " * (reps // 8) + b"1" + b" END" * (reps // 8)}[d["big_index"]]
        fs, calls = totalrun.run_all([big], only=d.get("entry", "").split("(")[0] or None, workers=1, stall_s=240, mem_gb=10)
        print(json.dumps(fs)[:800], "calls", calls)
        return 1 if fs else 0
    if d.get("mode") == "mix":
        import c10
        rc, res, races, err = c10.run_mix(d["n"], d["ops_per_g"], d["seed"], c10.wide_inputs(), ops=d["ops"], race=False)
        m = re.search(r"(?m)^(fatal error: .*|panic: .*)$", err or "")
        print("exit", rc, m.group(1) if m else "")
        return 1 if rc != 0 else 0
    if d.get("input_b64") is not None:
        raw = base64.b64decode(d["input_b64"])
        fs, calls = totalrun.run_all([raw], only=d.get("entry", "").split("(")[0] or None, workers=1, stall_s=30)
        print(json.dumps(fs)[:1500], "calls", calls)
        return 1 if fs else 0
    return 2
