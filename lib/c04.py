"""C04 — the token stream is a faithful, layout-independent reading of the text."""
import hashlib, json, os, random, re, shutil
import c04stmts, common, gen04, lexcoq, lexgen, sqlgen
from common import Report, log

MANIFEST = dict(
    technique='Coq proof over a byte-level Gallina mirror of the tokenizer (Model/Lexer.v) + lexical tables regenerated from the source each run + byte-for-byte differential correspondence of the Go tokenizer against the OCaml extraction of the model (sample re-evaluated in Coq by vm_compute) + implementation-side reference lexer and layout-independence oracles',
    text='The tokenizer (whitespace/comment skipping, dispatch, identifiers and keywords with compound look-ahead, numbers, the four quoted readers with doubled quotes and escapes, triple quotes, dollar quoting, placeholders, every operator ladder, both limits, every error site with its location) is mirrored branch by branch in Gallina over bytes with explicit Panic/OutOfFuel outcomes. Proved for every byte string: tokenizing never panics and never runs out of fuel (progress lemma per dispatch branch); a successful run ends with exactly one end marker, contains no other, has ordered non-empty disjoint token spans and at most MaxTokens tokens; input above the size limit is rejected with E1006 at 1:1 and at or below it the limit plays no role; comments are captured in source order, each with exactly the bytes it spans. Proved against the reference lexical grammar Spec/LexSpec.v (lexeme classes with render/tok_of, separator language, decidable adjacency rule follow_ok, well-formedness wf) for EVERY lexeme class - operators and punctuation (43), bare @ and $, numbers (integer/decimal/exponent), words (identifiers incl. Unicode, keywords, the two-word keyword look-ahead), $n and @name parameters, single-quoted strings (doubled quotes, every escape, typographic quotes), double-quoted identifiers, back-ticked identifiers, dollar-quoted strings (with/without tag), triple-quoted strings - and every separator (white space, line comments, block comments): the separator lemma (sep_skip), one munch lemma per class (C04_munch), and by induction over the lexeme list lex_faithful: tokenize(interleave ls seps) is exactly the prescribed reading - raw tokens with byte spans, one end marker at the end of the text, comment records with exact text (C04_lex_faithful_raw); after two-word keyword tokens are split and keyword spellings upper-cased the kind/value/quote sequence is map tok_norm ls followed by one EOF and the comment texts are those of the separators (C04_lex_faithful). Corollaries: layout independence (two separator assignments give the same reading), keyword-case independence, and the token limit as an equivalence (E1007 iff more raw tokens than the limit, so exactly-at-limit is accepted). Quoted identifiers are kept distinct from keywords. Outside the grammar (hence decided only by totality/shape theorems, the byte-for-byte correspondence and the implementation-side oracles): invalid UTF-8 inside words or literals, a bare $ directly followed by a word, malformed input. The keyword maps, rune classes, token type numbers, limits and error codes are regenerated from the tree on every run and the proofs use them only through facts decided by complete evaluation; the model is compared with the real tokenizer on every operator pair x separator class, generated lexeme streams, byte soup, invalid UTF-8 and the repository corpus (kind, value, quote, spans, comments, error code and location).',
    note=common.BASE_NOTE + "C04: the theorems are about Model/Lexer.v; its tie to tokenizer.go is the differential correspondence (extracted OCaml, ExtrOcamlBasic only, cross-checked in Coq on a sample) plus the regenerated tables. strings.ToUpper is modelled only as far as a lookup in the ASCII-keyed keyword maps can observe it (table of non-ASCII runes with ASCII upper-case image is regenerated). Compound keywords are judged after splitting (raw GROUP BY is one token): the splitting/upper-casing function normalize of Spec/LexSpec.v is the one the reference-lexer oracle applies to the implementation output (lexgen.norm_raw); its agreement with the parser token converter is an oracle (converted kinds/values equal under re-layout), not a theorem. lex_faithful needs the text to fit MaxInputSize/MaxTokens (hypothesis fits).",
    design="6/C04")

COQ_TARGETS = ["theories/Proofs/LexerP.vo", "theories/Proofs/LexSpecP.vo", "theories/Proofs/LexNormP.vo", "theories/Spec/LexRefEval.vo"]
PROPS = "theories/Props/C04.v"
THEOREMS = ["C04_tokenize_total", "C04_exactly_one_eof", "C04_tokenize_shape", "C04_size_limit", "C04_size_limit_exact",
            "C04_token_limit_bound", "C04_comments_captured", "C04_sep_skip", "C04_munch", "C04_lex_faithful_raw",
            "C04_lex_faithful", "C04_raw_reading", "C04_layout_independent", "C04_keyword_case_independent",
            "C04_token_limit_iff", "C04_quoted_distinct"]
# lexeme classes inside wf of Spec/LexSpec.v (constructors of [lexeme]); every one has its munch lemma in
# Proofs/LexMunchP.v / LexWordP.v and is covered by lex_faithful
STAGED_CLASSES = {
    "LOp": "operators and punctuation: the 43 entries of all_ops (punct1 + optable), follow = next byte not in the entry's extension set",
    "LAt": "bare @ (not before > @ or an identifier start)",
    "LDollarSign": "bare $ (not before a digit, $ or an identifier start)",
    "LNum": "numbers: digits [. digits] [(e|E) [+|-] digits]",
    "LWord": "words: identifiers incl. Unicode, keywords (table lookup of the upper-cased spelling), two-word keyword look-ahead across plain white space",
    "LParamNum": "$n parameters",
    "LParamAt": "@name parameters",
    "LSStr": "single-quoted strings: doubled quotes, the seven backslash escapes, typographic single quotes as delimiters and inside",
    "LQId": "double-quoted identifiers incl. typographic double quotes, doubled quotes",
    "LBId": "back-ticked identifiers, doubled back-ticks",
    "LDollar": "dollar-quoted strings $tag$...$tag$ and $$...$$",
    "LTriple": "triple-quoted strings",
    "separators": "TWs (space, tab, CR, LF), TLine (-- to LF or end of text), TBlock (/* ... */)"}
NOT_PROVED = ["outside the reference grammar, hence outside lex_faithful (decided by tokenize_total/tokenize_shape, the correspondence and the oracles only): invalid UTF-8 inside words or quoted literals, a bare $ directly followed by a word, malformed input",
              "the agreement of Spec normalize (split two-word keyword tokens, upper-case keyword spellings) with the parser's token converter is checked by the re-layout oracle on converted tokens, not proved",
              "the tie model <-> tokenizer.go is differential (byte-for-byte on generated inputs), not a proof"]


def ensure_coqproject():
    """the C04 files must be known to the Coq makefile (bin/setup writes _CoqProject from the directory listing; do the
    same here if it predates them, so that dependencies on the regenerated tables are tracked)"""
    pj = os.path.join(common.COQ, "_CoqProject")
    need = ["theories/Gen/LexTables.v", "theories/Model/Lexer.v", "theories/Inst/Inst_C04.v", "theories/Spec/LexSpec.v",
            "theories/Proofs/LexerP.v", "theories/Proofs/LexSpecP.v", "theories/Proofs/LexUtf8P.v", "theories/Proofs/LexSepP.v",
            "theories/Proofs/LexMunchP.v", "theories/Proofs/LexWordP.v", "theories/Proofs/LexFaithP.v",
            "theories/Proofs/LexNormP.v", "theories/Spec/LexRefEval.v", "theories/Props/C04.v"]
    try:
        have = open(pj).read().split()
    except OSError:
        have = []
    if all(n in have for n in need):
        return
    vs = []
    for d, _, fs in os.walk(os.path.join(common.COQ, "theories")):
        for f in sorted(fs):
            if f.endswith(".v") and not f.endswith("_full.v"):
                vs.append(os.path.relpath(os.path.join(d, f), common.COQ))
    vs.sort()
    common.write_if_changed(pj, "-R theories GV\n-arg -w -arg -notation-overridden,-deprecated-hint-without-locality,-deprecated-instance-without-locality\n" + "\n".join(vs) + "\n")


def hx(b):
    return b.hex()


def enc(s):
    return s.encode("utf-8", errors="surrogatepass") if isinstance(s, str) else bytes(s)


# ------------------------------------------------------------------------------------------------
# model build (extraction -> OCaml) in the stage directory

def stage_model():
    srcs = [os.path.join(common.COQ, "theories", "Model", "Lexer.v"), os.path.join(common.GEN, "LexTables.v"),
            os.path.join(common.COQ, "extraction", "LexExtract.v"), os.path.join(common.ROOT, "ocaml", "lexdriver.ml")]
    h = hashlib.sha1()
    for s in srcs:
        h.update(open(s, "rb").read())
    d = os.path.join(common.stage_dir(), "lexml-" + h.hexdigest()[:12])
    binp = os.path.join(d, "lexmodel")
    if os.path.exists(binp):
        return binp
    shutil.rmtree(d, ignore_errors=True)
    os.makedirs(d)
    p = common.run(["timeout", "300", "coqc", "-R", os.path.join(common.COQ, "theories"), "GV", srcs[2]], cwd=d, timeout=330)
    if p.returncode != 0:
        raise common.StageError("lexer-extraction", (p.stdout + p.stderr)[-3000:])
    shutil.copy(srcs[3], os.path.join(d, "lexdriver.ml"))
    p = common.run(["ocamlfind", "ocamlopt", "-w", "-a", "lexmodel.mli", "lexmodel.ml", "lexdriver.ml", "-o", "lexmodel.tmp"], cwd=d, timeout=300)
    if p.returncode != 0:
        raise common.StageError("lexer-ocaml", (p.stdout + p.stderr)[-3000:])
    os.replace(os.path.join(d, "lexmodel.tmp"), binp)
    return binp


def run_model(binp, inputs, limits=None):
    args = [binp] + ([str(limits[0]), str(limits[1])] if limits else [])
    p = common.run(args, input="".join(hx(b) + "\n" for b in inputs), timeout=3000)
    if p.returncode != 0:
        raise common.StageError("lexer-model-run", p.stderr[-2000:])
    return [[int(x) for x in l.split()] for l in p.stdout.splitlines()]


def run_impl(inputs, parse=False):
    p = common.vh(["lex"] + (["dump"] if parse == "dump" else [] if parse else ["noparse"]), input="".join(hx(b) + "\n" for b in inputs), timeout=3000)
    outs = [json.loads(l) for l in p.stdout.splitlines() if l.strip()]
    if p.returncode != 0 or len(outs) != len(inputs):
        raise common.StageError("lex-harness-run", "rc=%d got %d of %d: %s" % (p.returncode, len(outs), len(inputs), p.stderr[-1500:]), tree_caused=True)
    return outs


# ------------------------------------------------------------------------------------------------
# decoding of the canonical list

def decode_canon(c):
    """-> dict(kind='ok', toks=[(type, value bytes, quote, (sl,sc,el,ec))], coms=[(text bytes, style, inline, span)]) | dict(kind='err', code, line, col)"""
    if not c:
        return {"kind": "none"}
    if c[0] == 1:
        return {"kind": "err", "code": c[1], "line": c[2], "col": c[3]}
    if c[0] != 0:
        return {"kind": "panic" if c[0] == 2 else "fuel"}
    i, n = 2, c[1]
    toks = []
    for _ in range(n):
        ty, q, sl, sc, el, ec, ln = c[i:i + 7]
        toks.append((ty, bytes(c[i + 7:i + 7 + ln]), q, (sl, sc, el, ec)))
        i += 7 + ln
    m = c[i]; i += 1
    coms = []
    for _ in range(m):
        st, inl, sl, sc, el, ec, ln = c[i:i + 7]
        coms.append((bytes(c[i + 7:i + 7 + ln]), st, inl, (sl, sc, el, ec)))
        i += 7 + ln
    return {"kind": "ok", "toks": toks, "coms": coms}


# ------------------------------------------------------------------------------------------------
# implementation-side oracles (phrased in terms of the property text only)

def oracle(text_bytes, out, tb):
    """returns a list of (oracle name, explanation) that fail on this input for the implementation's result"""
    fails = []
    if out.get("panic"):
        return [("panic", "tokenizer panicked: " + out["panic"][:200])]
    d = decode_canon(out["c"])
    if not out.get("ctx_same", True):
        fails.append(("ctx_differs", "TokenizeContext(Background) reads the text differently from Tokenize"))
    if not out.get("pooled_same", True):
        fails.append(("pooled_differs", "a pooled, previously used tokenizer reads the text differently from a fresh one"))
    if d["kind"] == "err" and d["code"] == tb.codes["TokenizerPanic"]:
        fails.append(("recovered_panic", "tokenizer reported a recovered panic (E1008)"))
    try:
        text = text_bytes.decode("utf-8")
    except UnicodeDecodeError:
        text = None
    ref = lexgen.ref_stream(text, tb) if text is not None else None
    if d["kind"] == "ok":
        toks = d["toks"]
        eofs = [i for i, t in enumerate(toks) if t[0] == tb.tt["EOF"]]
        if eofs != [len(toks) - 1]:
            fails.append(("one_eof", "the token stream must end with exactly one end-of-input marker and contain no other (EOF at %s of %d tokens)" % (eofs, len(toks))))
        if ref is not None:
            try:
                raw = [(t[0], t[1].decode("utf-8"), t[2]) for t in toks]
                got = lexgen.norm_raw(raw, tb)
            except UnicodeDecodeError:
                got = None
            if got != ref[0]:
                fails.append(("ref_stream", "kinds/values differ from the reference lexical grammar: got %s want %s" % (str(got)[:400], str(ref[0])[:400])))
            gotc = [c[0] for c in d["coms"]]
            if gotc != [enc(c) for c in ref[1]]:
                fails.append(("comments", "captured comments differ from the comments of the text: got %s want %s" % (gotc[:5], ref[1][:5])))
        # quoted identifiers are never keywords after conversion
        if out.get("conv") is not None and not out.get("conv_err"):
            k = 0
            for t in toks:
                width = 1
                try:
                    v = t[1].decode("utf-8")
                except UnicodeDecodeError:
                    v = ""
                if t[2] == 0 and " " in v and lexgen.go_upper(v) in tb.compound:
                    hit = out["conv"][k:k + 3]
                    width = len(v.split(" ")) if len(hit) >= len(v.split(" ")) and all(
                        bytes.fromhex(h.split(":")[1]).decode() == w for h, w in zip(hit, lexgen.go_upper(v).split(" "))) else 1
                if t[2] != 0 and k < len(out["conv"]):
                    cty = int(out["conv"][k].split(":")[0])
                    if cty in tb.kwtypes and cty != t[0]:
                        fails.append(("quoted_distinct", "quoted identifier %r (quote %d) becomes keyword type %d after token conversion" % (t[1], t[2], cty)))
                k += width
    elif d["kind"] == "err" and ref is not None:
        fails.append(("rejected", "text inside the reference lexical grammar is rejected with code %d at %d:%d" % (d["code"], d["line"], d["col"])))
    return fails


# ---- tree dumps (harness/dump.go: canonical s-expressions over exported fields) ---------------------------------

_RE_NAME = re.compile(r'[A-Za-z0-9_]*')
_RE_FIELD = re.compile(r'([A-Za-z0-9_]+)=')
_RE_STR = re.compile(r'"(?:[^"\\]|\\.)*"')
_RE_ATOM = re.compile(r'[^ \)\]\}]+')


def parse_dump(s):
    """dump text -> ("node", type, [(field, value)]) | ("list", [values]) | ("str", go-quoted text) | ("atom", text)"""
    pos = [0]

    def val():
        c = s[pos[0]]
        if c == '(':
            m = _RE_NAME.match(s, pos[0] + 1)
            name, pos[0] = m.group(0), m.end()
            fields = []
            while True:
                while s[pos[0]] == ' ':
                    pos[0] += 1
                if s[pos[0]] == ')':
                    pos[0] += 1
                    return ("node", name, fields)
                m = _RE_FIELD.match(s, pos[0])
                pos[0] = m.end()
                fields.append((m.group(1), val()))
        if c == '[':
            pos[0] += 1
            items = []
            while True:
                while s[pos[0]] == ' ':
                    pos[0] += 1
                if s[pos[0]] == ']':
                    pos[0] += 1
                    return ("list", items)
                items.append(val())
        if c == '{':   # maps: kept as one opaque atom (compared as text)
            depth, i = 0, pos[0]
            while True:
                if s[i] == '"':
                    i = _RE_STR.match(s, i).end()
                    continue
                depth += (s[i] == '{') - (s[i] == '}')
                i += 1
                if depth == 0:
                    break
            r, pos[0] = s[pos[0]:i], i
            return ("atom", r)
        if c == '"':
            m = _RE_STR.match(s, pos[0])
            pos[0] = m.end()
            return ("str", m.group(0))
        m = _RE_ATOM.match(s, pos[0])
        pos[0] = m.end()
        return ("atom", m.group(0))
    return val()


def tree_diffs(a, b, out, owner=None, field=None):
    """differences of two parsed dumps: (node type, field, value in a, value in b, scalar fields of the owning node in a)"""
    def scal(n):
        return {k: v[1] for k, v in n[2] if v[0] in ("str", "atom")} if n is not None else {}
    if a[0] != b[0] or (a[0] == "node" and a[1] != b[1]) or (a[0] == "list" and len(a[1]) != len(b[1])):
        out.append((owner[1] if owner else "", field or "", "<%s>" % (a[1] if a[0] == "node" else a[0]), "<%s>" % (b[1] if b[0] == "node" else b[0]), scal(owner)))
    elif a[0] == "node":
        fa, fb = dict(a[2]), dict(b[2])
        for k in list(fa) + [k for k in fb if k not in fa]:
            if k not in fa or k not in fb:
                out.append((a[1], k, "<set>" if k in fa else "<unset>", "<set>" if k in fb else "<unset>", scal(a)))
            else:
                tree_diffs(fa[k], fb[k], out, a, k)
    elif a[0] == "list":
        for x, y in zip(a[1], b[1]):
            tree_diffs(x, y, out, owner, field)
    elif a[1] != b[1]:
        out.append((owner[1] if owner else "", field or "", a[1], b[1], scal(owner)))
    return out


# (node type, field): the string is a NAME the statement's author chose (a table, column, alias, function, type, index
# method ...), not a keyword: its written spelling belongs to the tree.  A word of the tokenizer's keyword table that a
# statement uses in one of these positions (FROM target, IF(a, b, c), x::interval, USING hash) is a name there and is not
# re-cased by the layout oracle (see names_of).  Every other string field of the tree must be independent of the letter
# case of the keywords.
NAME_FIELDS = {
    ("Identifier", "Name"), ("Identifier", "Table"), ("Ident", "Name"), ("ObjectName", "Name"), ("FunctionCall", "Name"),
    ("TableReference", "Name"), ("TableReference", "Alias"), ("AliasedExpression", "Alias"), ("CommonTableExpr", "Name"),
    ("CommonTableExpr", "Columns"), ("WindowSpec", "Name"), ("ForClause", "Tables"), ("CastExpression", "Type"),
    ("ColumnDef", "Name"), ("ColumnDef", "Type"), ("SelectStatement", "TableName"), ("InsertStatement", "TableName"),
    ("UpdateStatement", "TableName"), ("UpdateStatement", "Alias"), ("DeleteStatement", "TableName"), ("DeleteStatement", "Alias"),
    ("ReplaceStatement", "TableName"), ("DescribeStatement", "TableName"), ("OnConflict", "Constraint"),
    ("CreateTableStatement", "Name"), ("CreateTableStatement", "Inherits"), ("TableConstraint", "Name"), ("TableConstraint", "Columns"),
    ("ReferenceDefinition", "Table"), ("ReferenceDefinition", "Columns"), ("PartitionBy", "Columns"), ("PartitionDefinition", "Name"),
    ("PartitionDefinition", "Tablespace"), ("TableOption", "Value"), ("AlterTableStatement", "Table"), ("AlterTableAction", "ColumnName"),
    ("AlterStatement", "Name"), ("CreateIndexStatement", "Name"), ("CreateIndexStatement", "Table"), ("CreateIndexStatement", "Using"),
    ("IndexColumn", "Column"), ("IndexColumn", "Collate"), ("MergeStatement", "TargetAlias"), ("MergeStatement", "SourceAlias"),
    ("MergeAction", "Columns"), ("SetClause", "Column"), ("CreateViewStatement", "Name"), ("CreateViewStatement", "Columns"),
    ("CreateMaterializedViewStatement", "Name"), ("CreateMaterializedViewStatement", "Columns"),
    ("CreateMaterializedViewStatement", "Tablespace"), ("RefreshMaterializedViewStatement", "Name"), ("DropStatement", "Names"),
    ("TruncateStatement", "Tables"), ("ShowStatement", "ObjectName"), ("ShowStatement", "From"), ("RoleOption", "Name"),
    ("AlterRoleOperation", "NewName"), ("AlterRoleOperation", "MemberName"), ("AlterRoleOperation", "ConfigName"),
    ("AlterRoleOperation", "InDatabase"), ("AlterPolicyOperation", "NewName"), ("AlterPolicyOperation", "To"),
    ("AlterConnectorOwner", "Name")}
_RE_WORD = re.compile(r'[A-Za-z_][A-Za-z0-9_]*')


def names_of(dumps):
    """upper-cased words that occur inside the name fields of these trees"""
    acc = set()

    def walk(v, owner, field):
        if v[0] == "node":
            for k, x in v[2]:
                walk(x, v[1], k)
        elif v[0] == "list":
            for x in v[1]:
                walk(x, owner, field)
        elif v[0] == "str" and (owner, field) in NAME_FIELDS:
            for w in _RE_WORD.findall(v[1]):
                acc.add(lexgen.go_upper(w))
    for d in dumps or []:
        try:
            walk(parse_dump(d), None, None)
        except (IndexError, AttributeError):
            pass
    return acc


def is_bool_spelling(df):
    """the one tree field known to keep a keyword's written spelling: Value of a LiteralValue of Type "bool" (TRUE / FALSE)"""
    ty, field, va, vb, sib = df
    return (ty == "LiteralValue" and field == "Value" and sib.get("Type") == '"bool"' and va.upper() == vb.upper()
            and va.upper() in ('"TRUE"', '"FALSE"'))


def layout_verdict(oa, ob, tb):
    """oa: result for a text the tokenizer accepts, ob: result for the same lexemes under another layout / keyword case.
    None = same reading and same parse; else (oracle name, explanation)"""
    db = decode_canon(ob.get("c") or [])
    if db["kind"] != "ok":
        return ("layout_independent", "re-laid-out text is rejected by the tokenizer (%s)" % (db,))
    if norm_conv(oa, tb) != norm_conv(ob, tb):
        return ("layout_independent", "kinds/values after token conversion differ: %s vs %s" % (str(norm_conv(oa, tb))[:300], str(norm_conv(ob, tb))[:300]))
    if oa.get("parse_ok") != ob.get("parse_ok"):
        return ("layout_independent", "one layout parses, the other is rejected (%s / %s)" % (oa.get("perr"), ob.get("perr")))
    if oa.get("trees") != ob.get("trees"):
        xa, xb = oa.get("dumps") or [], ob.get("dumps") or []
        diffs = []
        if xa and len(xa) == len(xb):
            try:
                for da, d2 in zip(xa, xb):
                    if da != d2:
                        tree_diffs(parse_dump(da), parse_dump(d2), diffs)
            except (IndexError, AttributeError):
                diffs = []
        if diffs and all(is_bool_spelling(d) for d in diffs):
            return ("parse_bool_literal_spelling", "the trees differ only in the written letter case of TRUE / FALSE kept in LiteralValue.Value (Type bool)")
        where = "; ".join("%s.%s: %s / %s" % d[:4] for d in diffs[:4])
        return ("layout_independent", "the parse differs (%s; trees %s / %s)" % (where or "no field-level difference computed", oa.get("trees"), ob.get("trees")))
    return None


def norm_conv(out, tb):
    """converted stream normalised for comparison across layouts: keyword literals upper-cased, compound leftovers split"""
    if out.get("conv") is None:
        return None
    res = []
    for h in out["conv"]:
        ty, lit = h.split(":")
        ty = int(ty)
        try:
            v = bytes.fromhex(lit).decode("utf-8")
        except UnicodeDecodeError:
            v = lit
        u = lexgen.go_upper(v)
        if " " in v and u in tb.compound:
            for w in u.split(" "):
                res.append((tb.kw.get(w, 0), w))
        elif (u in tb.kw or (u in getattr(tb, "conv_kw", ()) and ty != tb.tt["Identifier"])) and ty not in tb.literal_types:
            # keyword tokens compare by their upper-cased spelling (the converter keeps the written spelling of the
            # identifiers it re-types as keywords; the parse decides whether that matters)
            res.append((ty, u))
        else:
            res.append((ty, v))
    return res


# ------------------------------------------------------------------------------------------------
# inputs

SPECIAL = [
    "", " ", "\n", "--", "-- c", "/**/", "/* c */", "/*", "/*/", "/* x *", "- -", "---", "--\n-", "a--b\nc", "a/**/b", "a/*x*/b", "1/*x*/2",
    "SELECT 1 -- t", "-- c\n\nSELECT 1", "a -- x\n/* y */ -- z\nb", "a$b", "$", "$$", "$$$$", "$a$$a$", "$a$x$a$", "$a$x$b$", "$a", "$a b", "$1a", "$12 $",
    "$t$a$t", "$é$x$é$", "$$a\nb$$", "$_1$ $ $_1$", "@", "@a", "@@", "@>", "@left join", "@1", "@é", ":a", "::", ":::", "?", "?|", "?&", "??",
    "0", "1.", "1.5", "1.5.2", "1e", "1e+", "1e5", "1E-5", "1.5e+10", "1.e5", "1..2", "1a", "1_0", "00", "1e5e5", "1.5.", "9e", ".5", "1 .5", "1. 5",
    "'a'", "''", "'''", "''''", "'''a'''", "''''''", "'a''b'", "'a\\'b'", "'\\n\\r\\t\\\\\\\"\\`'", "'\\x'", "'\\", "'a", "'a\nb'", "'\\\n'",
    "‘a’", "«a»", "‘a'", "'a’b’’c'", "‘‘‘a’’’", "'«'", "“a”", "“a\"", "\"a“”b\"",
    "\"a\"", "\"\"", "\"a\"\"b\"", "\"a", "\"a\nb\"", "\"a\\\"", "\"\"\"", "\"\"\"a\"\"\"", "\"sel'ect\"", "\"’\"",
    "`a`", "``", "`a``b`", "`a", "`a\nb`", "`insert`", "` `",
    "GROUP BY", "group by", "GROUP  BY", "GROUP\n BY", "GROUP /*c*/ BY", "GROUP -- c\nBY", "GROUP BYE", "GROUP", "GROUP ", "GROUP 1", "GROUP\tBY x",
    "LEFT OUTER JOIN", "left outer join", "FULL JOIN", "full join", "Cross Join", "grouping sets", "GROUPING SETS", "NATURAL JOIN", "ORDER BY ORDER BY",
    "inner\r\njoin", "LEFT JOIN JOIN", "OUTER OUTER JOIN", "order é", "order _by", "ORDER BY1",
    "ſelect", "ınner join", "SELECT", "sElEcT", "selecT1", "ſ", "groupıng sets",
    "名前", "café", "x́", "é1", "_", "__a", "a.b", "a . b", "a.1", "1.a",
    "(", "()", "[]", "a[1]", ",;", "+-*/%", "<=>", "<>=", "<@>", "->>>", "#>>>", "#--", "#-", "!~*", "!~~*", "!==", "||||", "|||", "&&&", "~**", "=>>", "<<", ">>", "==",
    "a\x00b", "\x00", "\x7f", "^", "{", "}", "\\", "a\\b", "\xa0", "é", "€", "😀", "a😀",
    "SELECT * FROM t WHERE a = 'x' AND b <@ c -- done", "select a, b from t1 join t2 on t1.a = t2.a where x <> 1",
]

BYTE_SPECIAL = [b"\xff", b"\x80", b"a\xffb", b"\xc3", b"\xc3(", b"\xe2\x80", b"\xe2\x80\x98a\xe2\x80\x99", b"\xed\xa0\x80", b"\xf4\x90\x80\x80", b"\xc0\xaf",
                b"'\xff'", b"\"\xff\"", b"`\xff`", b"--\xff\n", b"/*\xff*/", b"$\xff$", b"$a\xff$", b"$$\xff$$", b"a\xcc\x81", b"\xef\xbf\xbd", b"'\xef\xbf\xbd'",
                b"\xe2\x80\x9ca\xe2\x80\x9d", b"\xc2\xaba\xc2\xbb", b"@\xc3\xa9", b"\xf0\x9f\x98\x80", b"'\xf0\x9f\x98\x80'", b"1\xff", b"1.\xff", b"1e\xff",
                b"\xe2\x80\x98\xe2\x80\x98\xe2\x80\x98", b"'''\xff'''", b"'\\\xff'", b"\xc5\xbfelect", b"\xc4\xb1nner join"]


def op_pair_inputs(rng, tb):
    """every operator, and every adjacent operator pair x separator class (exhaustive)"""
    ops = [o for o, _ in lexgen.OPS] + ["$", "$1", "@p", "a", "1", "'s'", "\"q\"", "`b`", "$$x$$"]
    out = []
    for a in ops:
        out.append(a)
        for b in ops:
            for cls in lexgen.SEP_CLASSES:
                out.append(a + lexgen.gen_sep(rng, cls) + b)
    return out


def soup(rng, n):
    alpha = b" \t\r\n'\"`$@-/*<>=!~#?|&:.,;()[]\\_aeE019xSELCTgroupby\xc3\xa9\xe2\x80\x98\x99\x9c\xff\x80\xc2\xab\xbb\x00"
    out = []
    for _ in range(n):
        k = rng.randint(1, 24)
        if rng.random() < 0.5:
            out.append(bytes(rng.choice(alpha) for _ in range(k)))
        else:
            out.append(bytes(rng.randrange(256) for _ in range(k)))
    return out


def mutate_bytes(rng, b):
    b = bytearray(b)
    if not b:
        return bytes(b)
    m = rng.randint(0, 3)
    i = rng.randrange(len(b))
    if m == 0:
        del b[i]
    elif m == 1:
        b[i] = rng.randrange(256)
    elif m == 2:
        b.insert(i, rng.choice(b"'\"`$-/*\\\n\xff\xe2"))
    else:
        b = b[:i]
    return bytes(b)


class TB(lexgen.Tables):
    def __init__(self, t):
        super().__init__(t)
        self.codes = t["codes"]
        self.literal_types = {self.tt[k] for k in ("Identifier", "DoubleQuotedString", "SingleQuotedString", "String", "Number", "Placeholder",
                                                   "TripleSingleQuotedString", "TripleDoubleQuotedString", "DollarQuotedString")}


# ------------------------------------------------------------------------------------------------

def witness_check(w, tb):
    """replays a known/fixed witness on the implementation; returns list of failure strings (empty = passes)"""
    fails = []
    o = run_impl([enc(w["sql"])], parse=True)[0]
    d = decode_canon(o["c"])
    for ch in w.get("checks", []):
        if ch == "oracles":
            fails += ["%s: %s" % f for f in oracle(enc(w["sql"]), o, tb)]
        elif ch == "error_code":
            if not (d["kind"] == "err" and d["code"] == w["code"]):
                fails.append("expected error code %s, got %s" % (w["code"], d))
        elif ch == "first_token_start":
            if not (d["kind"] == "ok" and list(d["toks"][0][3][:2]) == w["start"]):
                fails.append("first token should start at %s: %s" % (w["start"], d.get("toks", d)))
        elif ch == "comment_end":
            if not (d["kind"] == "ok" and d["coms"] and list(d["coms"][0][3][2:]) == w["end"]):
                fails.append("first comment should end at %s: %s" % (w["end"], d.get("coms", d)))
        elif ch == "same_as":
            o1, o2 = run_impl([enc(w["sql"]), enc(w["other"])], parse="dump")
            f = layout_verdict(o1, o2, tb)
            if f and (f[0] != "parse_bool_literal_spelling" or w.get("strict_case")):
                fails.append("%r and %r differ only in layout / keyword case but are read or parsed differently: %s" % (w["sql"], w["other"], f[1]))
        elif ch == "ntokens_at_limit":
            pass
    return fails


def run(tier):
    rp = Report("C04", tier)
    rng = random.Random(common.seed())
    quick = tier == "quick"
    try:
        with common.Lock():
            tabs = gen04.stage_lextables()
            gen04.emit_lextables(tabs)
            ensure_coqproject()
            ok_inst, ok_props, _, logs = common.coq_stage(rp, COQ_TARGETS, PROPS, ["Props.C04." + t for t in THEOREMS])
            binp = stage_model() if ok_inst or os.path.exists(os.path.join(common.COQ, "theories", "Model", "Lexer.vo")) else None
    except common.StageError as e:
        return common.stage_fail(rp, e)
    tb = TB(tabs)
    if not ok_inst:
        rp.violation({"kind": "proof", "theorem": "Proofs/LexerP.v, LexSpecP.v, LexUtf8P.v, LexSepP.v, LexMunchP.v, LexWordP.v, LexFaithP.v or LexNormP.v (over the regenerated Gen/LexTables.v)", "log": logs["inst"][-3000:],
                      "explanation": "the lexer proofs no longer check against the tables regenerated from this tree"}, "proofs_c04", no_input=True)
    elif not ok_props:
        rp.violation({"kind": "proof", "theorem": "Props/C04.v", "log": logs["props"][-3000:]}, "props_c04", no_input=True)

    # keywords of the tokenizer's table that the token converter hands to the parser as plain identifiers (COUNT, SUM, ...):
    # for the parse they are identifiers (function names), so the layout oracle does not re-case them
    try:
        kws = sorted(tb.kw)
        ko = run_impl([enc(k) for k in kws], parse=False)
        tb.ident_like = {k for k, o in zip(kws, ko) if o.get("conv") and int(o["conv"][0].split(":")[0]) == tb.tt["Identifier"]}
    except common.StageError as e:
        return common.stage_fail(rp, e)
    rp.cov["keywords_converted_to_identifiers"] = sorted(tb.ident_like)
    # the other direction: words the tokenizer reads as plain identifiers but the token converter re-types as keywords by
    # their spelling (RETURNING, LATERAL, ...): keywords for the parse, so the layout oracle re-cases them too
    try:
        src = open(os.path.join(common.REPO, "pkg", "sql", "parser", "token_conversion.go"), encoding="utf-8", errors="replace").read()
        cands = sorted(w for w in set(re.findall(r'"([A-Z][A-Z_]{1,30})"', src)) if w not in tb.kw)
        ko = run_impl([enc(w) for w in cands], parse=False)
        tb.conv_kw = {w for w, o in zip(cands, ko) if o.get("conv") and len(o["conv"]) == 2 and int(o["conv"][0].split(":")[0]) != tb.tt["Identifier"]}
    except (common.StageError, OSError, KeyError, ValueError):
        tb.conv_kw = set()
    rp.cov["identifiers_converted_to_keywords"] = sorted(tb.conv_kw)

    kf = common.known_findings("C04")
    known = [k for k in kf if k["status"] == "known"]

    def classify(name, text_bytes, fail, extra=None):
        """known finding (narrow signature) or violation"""
        for k in known:
            sg = k["signature"]
            if sg.get("oracle") == fail[0] and (not sg.get("contains") or enc(sg["contains"]).lower() in text_bytes.lower()):
                if k["key"] not in rp.known_hit:
                    rp.known(k["key"], k["what"])
                return
        obj = {"kind": "oracle", "oracle": fail[0], "input_hex": hx(text_bytes), "input": text_bytes.decode("utf-8", "replace"),
               "explanation": fail[1]}
        obj.update(extra or {})
        if len(rp.violations) < 12:
            rp.violation(obj, "%s_%s_%d" % (name, fail[0], len(rp.violations)))

    # ---- witnesses of recorded findings first
    for k in kf:
        w = k.get("witness")
        if not w:
            continue
        try:
            fails = witness_check(w, tb)
        except common.StageError as e:
            return common.stage_fail(rp, e)
        if k["status"] == "fixed" and fails:
            rp.violation({"kind": "regression", "key": k["key"], "commit": k.get("commit"), "input": w["sql"], "input_hex": hx(enc(w["sql"])),
                          "checks": w.get("checks"), "witness": w, "explanation": "a repaired defect is back: " + "; ".join(fails)[:600]}, "regression_" + k["key"])
        elif k["status"] == "known":
            if fails:
                rp.known(k["key"], k["what"])
            else:
                rp.cov["notes"].append("stale known finding (witness passes now): " + k["key"])

    # ---- inputs
    dist = {}
    inputs, origin = [], []

    def add(cls, items):
        for it in items:
            inputs.append(enc(it)); origin.append(cls)
        dist[cls] = dist.get(cls, 0) + len(items)
    add("special", SPECIAL)
    add("special_bytes", BYTE_SPECIAL)
    pairs = op_pair_inputs(rng, tb)
    add("operator_pairs_x_separators", pairs)
    nstream = 3000 if quick else 60000
    streams = [lexgen.gen_stream(rng, tb) for _ in range(nstream)]
    stream_off = len(inputs)
    add("lexeme_streams", [s[0] for s in streams])
    corpus = sqlgen.corpus_statements()
    add("corpus", corpus)
    add("corpus_prefixes", [s[:rng.randint(1, max(1, len(s)))] for s in corpus[:(300 if quick else len(corpus))]])
    add("generated_sql", sqlgen.generated_statements(rng, 300 if quick else 5000))
    sp = soup(rng, 2500 if quick else 60000)
    add("byte_soup", sp)
    base = [enc(s[0]) for s in streams[:(1500 if quick else 30000)]]
    add("mutated_streams", [mutate_bytes(rng, rng.choice(base)) for _ in range(1500 if quick else 40000)])
    sepclass = {}
    for s in streams:
        for sep in s[2]:
            c = ("none" if sep == "" else "comment+ws" if ("--" in sep or "/*" in sep) and sep.strip() != sep else
                 "comment" if ("--" in sep or "/*" in sep) else "ws")
            sepclass[c] = sepclass.get(c, 0) + 1

    # ---- implementation and model on the same bytes
    try:
        outs = run_impl(inputs, parse=False)
        model = run_model(binp, inputs) if binp else None
    except common.StageError as e:
        return common.stage_fail(rp, e)
    rp.cov["evaluations"] = len(inputs)
    mism = []
    codes_hit, kinds_hit, accepted = {}, set(), 0
    for i, (b, o) in enumerate(zip(inputs, outs)):
        d = decode_canon(o.get("c") or [])
        if d["kind"] == "ok":
            accepted += 1
            for t in d["toks"]:
                kinds_hit.add(t[0])
        elif d["kind"] == "err":
            codes_hit[d["code"]] = codes_hit.get(d["code"], 0) + 1
        if model is not None and (o.get("panic") or o.get("c") != model[i]):
            mism.append(i)
    # oracles on every input
    nfail = 0
    for i, (b, o) in enumerate(zip(inputs, outs)):
        for f in oracle(b, o, tb):
            if f[0] == "rejected" and origin[i] in ("byte_soup", "mutated_streams", "corpus_prefixes", "special", "special_bytes"):
                continue   # the reference lexer is only authoritative on grammar-generated text
            nfail += 1
            classify(origin[i], b, f)
    # correspondence mismatches: the oracle decided above whether the implementation violates the property on that input;
    # a disagreement that no oracle explains is still reported, naming the correspondence
    for i in mism[:5]:
        b, o = inputs[i], outs[i]
        fs = oracle(b, o, tb)
        rp.violation({"kind": "correspondence", "broken": "Go tokenizer vs Model/Lexer.v (extracted)", "input_hex": hx(b),
                      "input": b.decode("utf-8", "replace"), "impl_canon": o.get("c"), "model_canon": model[i], "origin": origin[i],
                      "impl": str(decode_canon(o.get("c") or []))[:1500], "model": str(decode_canon(model[i]))[:1500],
                      "oracle_failures": fs,
                      "explanation": "the implementation's token stream / comments / error differs from what the proved model computes on these bytes"},
                     "corr_%d" % i, no_input=not fs)
    rp.obligation("correspondence: Go tokenizer = extracted Model/Lexer.v on %d inputs" % len(inputs), model is not None and not mism,
                  "%d mismatches" % len(mism))

    # ---- size limit on the implementation: one byte above MaxInputSize is rejected exactly as the model (with small limits) says,
    # exactly MaxInputSize bytes are not rejected for size
    try:
        mi = tabs["max_input"]
        big = run_impl([b" " * (mi + 1), b"\n" * mi], parse=False)
        small = run_model(binp, [b"      "], limits=(5, 10))[0] if binp else None
        ok_over = big[0].get("c") == small if small is not None else decode_canon(big[0].get("c") or []).get("code") == tb.codes["InputTooLarge"]
        d_at = decode_canon(big[1].get("c") or [])
        ok_at = d_at.get("kind") == "ok" and len(d_at["toks"]) == 1
        rp.obligation("size limit boundary on the implementation (MaxInputSize+1 rejected as modelled, MaxInputSize accepted)", ok_over and ok_at,
                      "over: %s model: %s at: %s" % (big[0].get("c"), small, str(d_at)[:100]))
        if not (ok_over and ok_at):
            rp.violation({"kind": "oracle", "oracle": "size_limit", "bytes": mi + (0 if ok_over else 1), "impl_over": big[0].get("c"), "model_over": small,
                          "impl_at_limit": str(d_at)[:300],
                          "explanation": "input one byte above MaxInputSize must be rejected with E1006 at the modelled location; input of exactly MaxInputSize bytes must not be rejected for size"},
                         "size_limit_boundary")
    except common.StageError as e:
        return common.stage_fail(rp, e)

    # ---- extraction cross-check: a stratified sample re-evaluated inside Coq by vm_compute
    if binp and ok_inst:
        idxs = list(range(len(SPECIAL) + len(BYTE_SPECIAL)))
        rest = [i for i in range(len(idxs), len(inputs)) if len(inputs[i]) <= 120]
        idxs = (idxs + rng.sample(rest, min(len(rest), 150 if quick else 700)))[:900]
        body = ["From Coq Require Import List NArith.", "From GV Require Import Model.Lexer.", "Import ListNotations.", "Local Open Scope N_scope.",
                "Definition cases : list (list N * list N) := ["]
        body.append(";\n".join("  (%s, %s)" % (gen04.nlist(inputs[i]), gen04.nlist(model[i])) for i in idxs))
        body.append("].\nDefinition bad := Eval vm_compute in bad_cases 0 cases.\nPrint bad.")
        okc, outc, errc = common.coq_cases("c04_cases", "\n".join(body))
        badl = common.parse_nlist(outc) if okc else None
        rp.obligation("extraction cross-check: Coq vm_compute = OCaml extraction on %d sampled inputs" % len(idxs), okc and badl == [],
                      (errc or str(badl))[-300:])
        if not okc or badl:
            rp.violation({"kind": "tool", "detail": (errc or outc)[-2000:], "bad": badl,
                          "explanation": "the extracted OCaml model and the Coq model disagree (extraction or driver fault)"}, "extraction_crosscheck", no_input=True)

    # ---- reference-grammar cross-check: generated lexeme streams as terms of Spec/LexSpec.v; Coq decides wf and computes the
    # reading lex_faithful prescribes (tokens with spans, one EOF, comments); it must equal the Go tokenizer's output.
    # Ties the formal grammar to the generator's grammar and measures how much of the generated space is inside wf.
    if ok_inst:
        nref = 500 if quick else 6000
        per = 500
        codes = {0: 0, 1: 0, 2: 0, 3: 0}
        unconv, ref_bad, okr_all, ref_err = 0, [], True, ""
        picked = [k for k in range(len(streams)) if len(streams[k][0]) <= 400][:nref]
        for sh in range(0, len(picked), per):
            terms, idx = [], []
            for k in picked[sh:sh + per]:
                text, lx, sp_ = streams[k]
                want = outs[stream_off + k].get("c")
                t = lexcoq.case_term(lx, sp_, inputs[stream_off + k], want) if want else None
                if t is None:
                    unconv += 1
                    continue
                terms.append(t); idx.append(k)
            if not terms:
                continue
            okr, outr, errr = common.coq_cases("c04_ref_%d" % (sh // per), "\n".join(lexcoq.HEADER) + "\n" + ";\n".join(terms) + "\n" + lexcoq.FOOTER)
            if not okr:
                okr_all, ref_err = False, (errr or outr)[-1500:]
                break
            res = common.parse_nlist(outr)
            for k, c in zip(idx, res):
                codes[c] = codes.get(c, 0) + 1
                if c in (2, 3):
                    ref_bad.append((k, c))
        rp.cov["reference_grammar_crosscheck"] = {"streams": len(picked), "well_formed_and_equal": codes[0], "not_well_formed": codes[1],
                                                  "well_formed_but_different": codes[2], "conversion_fault": codes[3] + unconv}
        rp.obligation("reference grammar cross-check: on %d generated streams that Coq decides well-formed, the reading prescribed by Spec/LexSpec.v "
                      "(expect_all, evaluated by vm_compute) = the Go tokenizer's canonical output; %d streams outside wf" % (codes[0], codes[1]),
                      okr_all and not ref_bad and codes[0] >= len(picked) // 2, ref_err or str(ref_bad[:5]))
        for k, c in ref_bad[:3]:
            b, o = inputs[stream_off + k], outs[stream_off + k]
            fs = oracle(b, o, tb)
            rp.violation({"kind": "correspondence", "broken": "reading prescribed by Spec/LexSpec.v (lex_faithful) vs Go tokenizer" if c == 2 else "stream -> Spec term conversion (lib/lexcoq.py)",
                          "input_hex": hx(b), "input": b.decode("utf-8", "replace"), "lexemes": streams[k][1], "separators": streams[k][2],
                          "impl_canon": o.get("c"), "oracle_failures": fs,
                          "explanation": "a lexeme stream that the formal grammar accepts as well-formed is not read by the implementation as lex_faithful prescribes"},
                         "ref_%d" % k, no_input=not fs)
        if not okr_all or codes[0] < len(picked) // 2:
            rp.violation({"kind": "tool", "detail": ref_err, "codes": codes,
                          "explanation": "the reference-grammar cross-check could not be evaluated or covers less than half of the generated streams"},
                         "ref_crosscheck", no_input=True)

    # ---- layout independence oracle: same lexemes, other separators / keyword case => same kinds+values, same parse
    lay_in = [s for s in corpus if len(s) < 1500][: (250 if quick else 3000)] + sqlgen.generated_statements(rng, 150 if quick else 2000) \
        + [s[0] for s in streams[:(400 if quick else 6000)]]
    # statements using the converter-typed keywords (each several times: the re-casing is random)
    conv_stmts = ["INSERT INTO t (a) VALUES (1) RETURNING a", "UPDATE t SET a = 1 WHERE b = 2 RETURNING a, b", "DELETE FROM t WHERE a = 1 RETURNING *",
                  "SELECT a FROM t, LATERAL (SELECT 1) AS l", "SELECT a FROM t WHERE a = ANY (SELECT b FROM u)", "SELECT a FROM t WHERE a > ALL (SELECT b FROM u)"]
    lay_in += conv_stmts * (4 if quick else 12)
    # one statement per parser construct that stores / compares / skips a keyword, and keyword-table words used as names
    lay_in += c04stmts.KEYWORD_STATEMENTS * (3 if quick else 10)
    # words of the keyword table that a statement uses as NAMES (its tree has them in a name field: FROM target, IF(...),
    # x::interval, USING hash) are names there, not keywords: they keep their spelling; every other keyword is re-cased
    try:
        lo_a = run_impl([enc(x) for x in lay_in], parse="dump")
    except common.StageError as e:
        return common.stage_fail(rp, e)
    pairs_l, lo_orig, kept_names = [], [], {}
    for s, o1 in zip(lay_in, lo_a):
        used = names_of(o1.get("dumps")) & (set(tb.kw) | set(tb.conv_kw))
        for w in used:
            kept_names[w] = kept_names.get(w, 0) + 1
        try:
            r = lexgen.relayout(rng, s, tb, conv=(s in conv_stmts), skip=used)
        except Exception:
            r = None
        if r is not None and r != s:
            pairs_l.append((s, r)); lo_orig.append(o1)
    try:
        lo_b = run_impl([enc(p2[1]) for p2 in pairs_l], parse="dump")
    except common.StageError as e:
        return common.stage_fail(rp, e)
    rp.cov["keyword_table_words_used_as_names_not_recased"] = kept_names
    nlay, ncase = 0, 0
    for j, (a, b2) in enumerate(pairs_l):
        oa, ob = lo_orig[j], lo_b[j]
        da, db = decode_canon(oa.get("c") or []), decode_canon(ob.get("c") or [])
        if da["kind"] != "ok":
            continue
        nlay += 1
        f = layout_verdict(oa, ob, tb)
        if f and f[0] == "parse_bool_literal_spelling":
            ncase += 1
        if f:
            classify("layout", enc(b2), f, {"original": a, "relayout": b2})
    rp.cov["layout_pairs_tree_differs_in_boolean_literal_spelling_only"] = ncase
    rp.cov["layout_pairs"] = nlay

    rp.cov["distinct_nontrivial"] = len({b for b, o in zip(inputs, outs) if decode_canon(o.get("c") or []).get("kind") == "ok" and len(decode_canon(o["c"])["toks"]) > 2})
    rp.cov["rule"] = ("every input is tokenized by the Go tokenizer (Tokenize, TokenizeContext, pooled instance) and by the extracted Coq model; "
                      "canonical lists (type, quote, start/end line:col, value bytes per token; style, inline, span, text per comment; or error code+location) must be equal; "
                      "non-trivial = accepted with more than 2 tokens; distinct = distinct input bytes")
    rp.cov["input_distribution"] = dist
    rp.cov["separator_classes_in_streams"] = sepclass
    rp.cov["operator_pairs"] = len(lexgen.OPS) ** 2
    rp.cov["accepted"] = accepted
    rp.cov["error_codes_hit"] = codes_hit
    rp.cov["token_kinds_seen"] = len(kinds_hit)
    rp.cov["oracle_failures"] = nfail
    rp.cov["correspondence_mismatches"] = len(mism)
    rp.cov["samples"] = [{"input": inputs[i].decode("utf-8", "replace"), "canon": outs[i].get("c")[:40]} for i in (3, len(SPECIAL) + len(BYTE_SPECIAL) + 7)]
    rp.cov["staged_classes"] = {"inside wf, munch lemma proved, covered by lex_faithful": STAGED_CLASSES,
                                "no munch lemma (correspondence and oracles only)": []}
    rp.cov["not_proved"] = NOT_PROVED
    rp.assumptions = ["the theorems are about Model/Lexer.v; the tie to tokenizer.go is the differential correspondence on the inputs listed, not a proof",
                      "strings.ToUpper is modelled as far as an ASCII-keyed map lookup observes it",
                      "Go unicode tables: rune classes are regenerated from the tokenizer's own predicates through the verif hook"]
    return rp.finish()


def replay(path):
    d = json.load(open(path))
    print(json.dumps({k: (v if not isinstance(v, str) or len(v) < 400 else v[:400] + "...") for k, v in d.items()}, indent=1))
    tabs = gen04.stage_lextables()
    tb = TB(tabs)
    if d.get("kind") == "regression":
        fails = witness_check(d["witness"], tb)
        print("\n".join(fails))
        return 1 if fails else 0
    if d.get("oracle") == "size_limit":
        mi = tabs["max_input"]
        big = run_impl([b" " * (mi + 1), b"\n" * mi])
        bad = decode_canon(big[0]["c"]).get("code") != tb.codes["InputTooLarge"] or big[0]["c"][2:] != [1, 1] or decode_canon(big[1]["c"]).get("kind") != "ok"
        print(big[0]["c"], str(decode_canon(big[1]["c"]))[:200])
        return 1 if bad else 0
    if "input_hex" not in d:
        return 2
    b = bytes.fromhex(d["input_hex"])
    if d.get("kind") == "oracle" and d.get("oracle") == "layout_independent":
        fails = witness_check({"sql": d["original"], "other": d["relayout"], "checks": ["same_as"]}, tb)
        print("\n".join(fails))
        return 1 if fails else 0
    o = run_impl([b], parse=True)[0]
    print(json.dumps(o)[:2000])
    if d.get("kind") == "correspondence":
        return 1 if o.get("c") != d.get("model_canon") else 0
    fs = oracle(b, o, tb)
    print(fs)
    return 1 if any(f[0] == d.get("oracle") for f in fs) else 0
