"""C09 ownership clause: table facts, ownership histories on the implementation, model correspondence."""
import json, os, random
import common, gen09, sqlgen

THEOREMS = ["Props.C09.C09_get_is_fresh_except", "Props.C09.C09_no_double_ownership", "Props.C09.C09_held_results_stable",
            "Props.C09.C09_release_does_not_touch_other_trees", "Props.C09.C09_alias_free_results_stable"]
INST = ["Inst_C09.cleared_ok", "Inst_C09.keeps_none", "Inst_C09.no_double_put_in_probe", "Inst_C09.release_writes_only_what_it_puts",
        "Inst_C09.budget_is_constant", "Inst_C09.shared_slots_not_released", "Inst_C09.results_alias_nothing"]


def known_sig(kind):
    return [k for k in common.known_findings("C09") if k.get("status") == "known" and k.get("signature", {}).get("kind") == kind]


def table_facts(rp, ot, static):
    """the decidable table hypotheses, each with a concrete description of the failing probe; returns number of failures reported"""
    bad = 0
    for key, r in ot["keeps"]:
        bad += 1
        rp.violation({"kind": "own-table", "fact": "keeps", "theorem": "Inst_C09.keeps_none", "type": r["type"], "path": r["path"], "route": r["route"],
                      "replay": "build a %s with a %s stored at %s, release it through %s, obtain it from its pool: the slot still refers to the child" % (r["type"], r["sentinel"], r["path"], r["route"]),
                      "explanation": "the next holder of the pooled object holds a reference into whatever the child becomes: two holders for one object"},
                     "own_keeps_%s_%d" % (r["type"], r["slot"]))
    for key, r in ot["double"]:
        bad += 1
        rp.violation({"kind": "own-table", "fact": "double", "theorem": "Inst_C09.no_double_put_in_probe", "type": r["type"], "path": r.get("path", ""), "route": r["route"],
                      "self_put": r["self_put"], "child_put": r.get("child_put", 0),
                      "replay": "release a %s (child at %s) through %s and drain the pools: one object comes out more than once" % (r["type"], r.get("path", "-"), r["route"]),
                      "explanation": "a pool that holds one object twice hands it to two holders"},
                     "own_double_%s_%s" % (r["type"], r.get("slot", "self")))
    for key, r in ot["written"]:
        bad += 1
        rp.violation({"kind": "own-table", "fact": "written", "theorem": "Inst_C09.release_writes_only_what_it_puts", "type": r["type"], "path": r["path"], "route": r["route"],
                      "replay": "release a %s with a %s at %s through %s: the child is modified although it is not put into a pool" % (r["type"], r["sentinel"], r["path"], r["route"])},
                     "own_written_%s_%d" % (r["type"], r["slot"]))
    b = ot["budget"]
    if b["processed"] != b["const"]:
        bad += 1
        rp.violation({"kind": "own-table", "fact": "budget", "theorem": "Inst_C09.budget_is_constant", "observed": b,
                      "replay": "PutExpression on a FunctionCall with %d arguments processes %d objects, MaxWorkQueueSize is %d" % (b["children"], b["processed"], b["const"])},
                     "own_budget", no_input=True)
    dset = set(ot["descend"])
    for gi, (slots, g) in enumerate(ot["groups"]):
        hit = [k for k in slots if k in dset]
        if len(hit) > 1:
            bad += 1
            names = ["%s.%s" % (r["type"], r["path"]) for r in g["slots"] if (r["tid"], r["slot"]) in dset]
            rp.violation({"kind": "own-share", "theorem": "Inst_C09.shared_slots_not_released", "slots": names, "sql": g["sql"],
                          "replay": "parse %r and release the tree: one object is stored in %s and the release goes on into more than one of these slots" % (g["sql"], ", ".join(names)),
                          "explanation": "an object reached twice by one release is put into its pool twice: the pool then hands it to two holders"},
                         "own_shared_%d" % gi)
    kal = {(k["signature"].get("result"), k["signature"].get("buffer")): k for k in known_sig("alias")}
    for i, r in ot["alias"]:
        if r["aliased"]:
            if (r["result"], r["buffer"]) in kal:
                rp.known("Alias:%s/%s" % (r["result"], r["buffer"]), kal[(r["result"], r["buffer"])].get("what", ""))
                continue
            bad += 1
            rp.violation({"kind": "alias", "theorem": "Inst_C09.results_alias_nothing", "result": r["result"], "buffer": r["buffer"], "detail": r.get("detail", ""),
                          "explanation": "a value handed to the caller shares memory with something the library (or the caller, for the input bytes) writes later"},
                         "alias_%d" % i)
        elif r["probes"] == 0:
            bad += 1
            rp.violation({"kind": "alias-probe", "result": r["result"], "buffer": r["buffer"], "explanation": "the aliasing probe could not exercise this result kind"},
                         "alias_unprobed_%d" % i, no_input=True)
    # every sync.Pool of pkg/sql/ast must be observable through the hook
    declared = sorted(g["name"] for g in static.get("globals", []) if g.get("pkg") == "pkg/sql/ast" and g.get("class") == "pool" and g["name"] != "builderPool")
    missing = [n for n in declared if n not in ot["pools"]]
    if missing:
        bad += 1
        rp.violation({"kind": "own-hook", "pools_not_observable": missing,
                      "explanation": "pkg/sql/ast declares node pools that the verification hook VerifPools does not list: what the release paths put there cannot be observed"},
                     "own_hook_pools", no_input=True)
    return bad


def own_inputs(seed, tier):
    rng = random.Random(seed + 909)
    stmts = sqlgen.generated_statements(rng, 300) + sqlgen.corpus_statements(200)
    special = list(gen09.SHARE_SQL) + [s for s in sqlgen.deep_statements("quick")[:6]] + [gen09.wide_sql(1100), gen09.wide_sql(1030)]
    special = [s for s in special if len(s) < 200000]
    return stmts, special


def run_histories(seed, n, tier, concurrent=True):
    stmts, special = own_inputs(seed, tier)
    inp = "".join(json.dumps({"sql": s}) + "\n" for s in stmts) + "".join(json.dumps({"sql": s, "special": True}) + "\n" for s in special)
    p = common.vh(["own", str(seed), str(n)] + (["concurrent"] if concurrent else []), input=inp, timeout=3000)
    if p.returncode != 0 or not p.stdout.strip():
        return None, p.stderr[-2000:]
    return json.loads(p.stdout), ""


def coq_op(o):
    k = o["op"]
    if k == "alloc":
        return "Alloc %d%%nat %d" % (o["t"], o.get("ty", 0))
    if k == "get":
        return "Get %d%%nat %d" % (o["t"], o["i"])
    if k == "write":
        kids = "; ".join("(%d, %d)" % (s, c) for s, c in (o.get("kids") or []))
        return "Write %d%%nat %d (mkNode %d 0 [%s])" % (o["t"], o["i"], o.get("ty", 0), kids)
    if k == "release":
        return "Release %d%%nat %d" % (o["t"], o["i"])
    if k == "dropall":
        return "DropAll"
    if k == "observe":
        return "Observe %d%%nat %d" % (o["t"], o["i"])
    raise ValueError(k)


def coq_case(h, relaxed=False):
    ops = "[" + ";\n    ".join(coq_op(o) for o in h["ops"]) + "]"
    pool = "[" + "; ".join(str(i) for i in (h.get("pool") or [])) + "]"
    held = "[" + "; ".join("(%d%%nat, %d, [%s])" % (x["t"], x["r"], "; ".join(str(i) for i in x["reach"])) for x in (h.get("held") or [])) + "]"
    return "(%s,\n   %s, %s, %s)" % (ops, pool, "true" if (h.get("lossy") or relaxed) else "false", held)


HDR = ("From Coq Require Import List NArith Bool.\nFrom GV Require Import Model.Own Gen.OwnTable Inst.Inst_C09.\nImport ListNotations.\nLocal Open Scope N_scope.\n"
       "Definition cases : list own_case := [\n%s\n].\n")


def model_check(hists, shard_objs=6000):
    """run the histories through the Coq model; returns (list of bad history indices, diagnostics, shards, error)"""
    bad, diag, shards, cur, cur_n = [], {}, [], [], 0
    for idx, h in enumerate(hists):
        cur.append(idx)
        cur_n += h["nobj"] + len(h["ops"])
        if cur_n > shard_objs:
            shards.append(cur); cur, cur_n = [], 0
    if cur:
        shards.append(cur)
    def one(arg):
        si, sh = arg
        body = HDR % ";\n".join(coq_case(hists[i]) for i in sh)
        body += ("Definition bad := Eval vm_compute in bad_cases cur_pooled cur_container cur_descend cur_keeps cur_budget 0 cases.\nPrint bad.\n")
        return sh, common.coq_cases("c09_own_%d" % si, body, timeout=900)
    from concurrent.futures import ThreadPoolExecutor
    with ThreadPoolExecutor(max_workers=8) as ex:
        results = list(ex.map(one, enumerate(shards)))
    for sh, (ok, out, err) in results:
        if not ok:
            return bad, diag, len(shards), (err or out)[-1500:]
        for k in common.parse_nlist(out):
            bad.append(sh[k])
    bad.sort()
    # histories in which a release hit the work-queue cut-off: which objects are left unpooled depends on the
    # order of the work queue, which is not part of the property; such a history only has to agree with the
    # model run without a budget (observed pool within the model's, held trees identical)
    rescued = []
    cut_bad = [i for i in bad if hists[i].get("cutoff")]
    if cut_bad:
        body = HDR % ";\n".join(coq_case(hists[i], relaxed=True) for i in cut_bad)
        body += ("Definition bad := Eval vm_compute in bad_cases cur_pooled cur_container cur_descend cur_keeps (N.to_nat 1000000) 0 cases.\nPrint bad.\n")
        ok, out, err = common.coq_cases("c09_own_relaxed", body, timeout=900)
        if ok:
            still = {cut_bad[k] for k in common.parse_nlist(out)}
            rescued = [i for i in cut_bad if i not in still]
            bad = [i for i in bad if i not in rescued]
    diag["rescued"] = rescued
    for i in bad[:5]:
        body = HDR % coq_case(hists[i])
        body += ("Definition fb := Eval vm_compute in map (first_bad_op cur_pooled cur_container cur_descend cur_keeps cur_budget) cases.\nPrint fb.\n"
                 "Definition pl := Eval vm_compute in map (fun c => pool (Own.run cur_pooled cur_container cur_descend cur_keeps cur_budget own_depth init (fst (fst (fst c))))) cases.\nPrint pl.\n")
        ok, out, err = common.coq_cases("c09_own_diag", body, timeout=600)
        diag[i] = (out if ok else err)[-800:]
    return bad, diag, len(shards), ""
