"""C20 — processing cost grows near-linearly with input size."""
import json, math, os, random, re
import common, costmeasure as cm
from common import Report

MANIFEST = dict(
    technique="Coq proofs about the work of source-position conversion (resume-point form = rescanning form for every query list; linear total for one tokenizer run; quadratic lower bound of the rescanning form) + deterministic statement-execution counting of the real code (Go coverage counters) on growing input families for every entry point",
    text=("Work is measured in executed statements of the repository's own packages (Go coverage counters in count mode): deterministic, so growth is measured exactly rather than timed. "
          "For every entry point (tokenize, parse, serialise, both formatters, tree scan, text scan, extraction) and every input family (one long line, many lines, line/block comments, operator chains, wide lists, many statements, long literals and names, joins, CASE arms, UNION chains) "
          "the check measures three sizes on a geometric ladder and requires the growth exponent of the increments to stay below 1.5 (linear 1.0, n log n about 1.1, quadratic 2.0), attributing a violation to the function whose statements grow fastest. "
          "Model/Cost.v models the position conversion every token goes through — the stage that made tokenizing quadratic on the pinned tree — in its rescanning and its resume-point form with their loop-body counts; proved: both forms return the same line/column for every query list in any order, "
          "one tokenizer run (increasing offsets) costs at most 1 + lines + 2*bytes loop iterations whatever the number of tokens, and the rescanning form costs exactly k + d*k*(k-1)/2 on k queries spaced d apart (quadratic); also restated from the other models: the token loop needs at most |bs|+1 iterations, the statement loops at most |tokens|+1, the extractors visit each node once. "
          "The model is tied to the code on every run: the answers of the real position conversion (toSQLPosition today; found by its role - the method of the tokenizer that turns an offset into a models.Location over the line-start table, which is what the verification hook calls - not by its name) for forward, backward and scrambled query lists are compared with the model's, and the measured loop-body executions inside that function and the helpers it calls must respect the proved bound." + ' Recovery work is proved linear (C20_recovery_work_linear: every token touched at most three times with the resume rule of the code; the restart rule is refuted as quadratic). Families include malformed inputs (dangling chains, broken statements, keyword soup), long UNION chains and nested constructs as exponential families (work and allocation per added level).'),
    note=common.BASE_NOTE + "Statement counts are the work measure (not CPU time); stages other than position conversion are covered by measurement on the family catalogue, not by a theorem; sizes explored are stated in the evidence.",
    design="6/C20")

FAMILIES = ["long_line", "many_lines", "line_comments", "block_comments", "plus_chain", "and_chain", "concat_chain", "in_list", "values_rows",
            "many_statements", "long_string", "long_identifier", "qualified_names", "join_chain", "case_whens", "func_args", "whitespace",
            "string_literals", "quoted_idents", "backtick_idents", "numbers", "placeholders", "dollar_quoted", "dollar_tags_unclosed", "casts",
            "json_ops", "subscripts", "semicolons", "dots", "or_like", "order_by_list", "crlf_lines", "unicode_idents",
            # malformed inputs (error paths and recovery must be near-linear too)
            "union_dangling", "broken_statements", "stmts_last_broken", "keyword_soup",
            "union_long", "long_qualified_name"]
ENTRIES = ["tokenize", "tokenize_ctx", "parse", "parse_ctx", "validate", "recovery", "sql", "format", "formatter", "scan", "scansql", "extract", "lint"]
CPU_RATIO_LIMIT = 9.0     # CPU time for a 4x larger input (min of repeats), judged only when the smallest run takes >= 20 ms
EXP_LIMIT = 1.5
ALLOC_RATIO_LIMIT = 7.0


def exponent(w):
    d1, d2 = w[1] - w[0], w[2] - w[1]
    if d1 <= 0 or d2 <= 0:
        return 0.0
    return math.log2(d2 / d1)


def hot(rs):
    """function whose statement executions grow most between the two largest sizes"""
    g = {}
    for b, c in rs[2]["blocks"].items():
        g[b] = c - rs[1]["blocks"].get(b, 0)
    byf = {}
    for (f, line), v in g.items():
        fn = f + ":" + cm.func_at(f, line)
        byf[fn] = byf.get(fn, 0) + v
    top = sorted(byf.items(), key=lambda x: -x[1])[:3]
    return top


def position_conversion(static):
    """the tokenizer's source-position conversion, found by its ROLE by the translator (tools/gotables/poscost.go: the
    methods of *Tokenizer that take an offset / position, return a models.Location and read the line-start table - which
    is also what the hook behind `vh locq` calls - plus everything of the package they reach through static calls and
    closures): ([root names], {file: [(first line, last line)] of these functions}, {file: [(brace line, closing line)] of
    their loop bodies}, notes).  No function name is written down here: a renamed or split conversion is still found"""
    pc = (static or {}).get("position_conversion") or {}
    franges, loops = {}, {}
    for f in pc.get("funcs") or []:
        franges.setdefault(f["file"], []).append((f["start"], f["end"]))
        for a, b in f.get("loops") or []:
            if (a, b) not in loops.setdefault(f["file"], []):
                loops[f["file"]].append((a, b))
    return list(pc.get("roots") or []), franges, loops, list(pc.get("notes") or []), pc


def run(tier):
    rp = Report("C20", tier)
    rng = random.Random(common.seed())
    theorems = ["Props.C20.C20_resume_point_is_rescan", "Props.C20.C20_position_work_linear", "Props.C20.C20_rescan_quadratic_refuted",
                "Props.C20.C20_tokenizer_iterations_linear", "Props.C20.C20_statement_loop_iterations_linear", "Props.C20.C20_collect_visits_linear",
                "Props.C20.C20_recovery_work_linear", "Props.C20.C20_recovery_restart_quadratic_refuted"]
    try:
        with common.Lock():
            common.stage_harness()
            common.stage_harness(cover=True)
            common.emit_all_gen()
            static = common.stage_gotables()
            ok_inst, ok_props, _, logs = common.coq_stage(rp, ["theories/Proofs/CostP.vo", "theories/Proofs/LexerP.vo", "theories/Proofs/LoopsP.vo", "theories/Proofs/ExtractP.vo"], "theories/Props/C20.v", theorems)
    except common.StageError as e:
        return common.stage_fail(rp, e)
    if not ok_inst or not ok_props:
        rp.violation({"kind": "proof", "theorem": "Props/C20.v", "log": (logs["inst"] + logs["props"])[-3000:]}, "props_c20", no_input=True)

    known = {k["signature"].get("function"): k for k in common.known_findings("C20") if k["status"] == "known"}
    ladders = [(1000, 2000, 4000)] if tier == "quick" else [(500, 1000, 2000), (8000, 16000, 32000)]
    jobs = [(e, f, k) for lad in ladders for e in ENTRIES for f in FAMILIES for k in lad]
    if tier != "quick":
        # text-level scanning and tokenizing of very many lexemes: a larger ladder (library-call work shows late)
        big = (16000, 32000, 64000)
        ladders = ladders + [big]
        jobs += [(e, f, k) for e in ("scansql", "tokenize", "tokenize_ctx", "lint") for f in FAMILIES for k in big]
    res = cm.measure_many(jobs, workers=16, timeout=240 if tier == "quick" else 900)
    by = {(r["entry"], r["family"], r["k"]): r for r in res}
    rows, flagged, maxbytes, nontrivial = [], {}, 0, set()
    for lad in ladders:
        for e in ENTRIES:
            for f in FAMILIES:
                if any((e, f, k) not in by for k in lad):
                    continue
                rs = [by[(e, f, k)] for k in lad]
                bad = [r for r in rs if "total" not in r]
                if bad:
                    r = bad[0]
                    what = "timeout" if r.get("timeout") else "crash"
                    flagged.setdefault((e, f, what), {"entry": e, "family": f, "ks": lad, "what": what, "detail": r.get("crash", "")[:500]})
                    continue
                w = [r["total"] for r in rs]
                ex = exponent(w)
                maxbytes = max(maxbytes, rs[2]["info"]["bytes"])
                nontrivial.add((e, f, lad))
                rows.append({"entry": e, "family": f, "ks": lad, "bytes": [r["info"]["bytes"] for r in rs], "work": w, "exponent": round(ex, 3), "status": rs[2]["info"]["status"]})
                # bytes allocated (copying work the statement counters do not see, e.g. repeated string concatenation):
                # growth by more than 7x for a 4x larger input is super-linear (linear with a capacity step stays below 6)
                al = [r["info"].get("alloc_bytes", 0) for r in rs]
                if al[0] > 0 and al[2] / al[0] > ALLOC_RATIO_LIMIT and al[2] > (1 << 22):
                    fl = flagged.setdefault(("alloc", e, f), {"entry": e, "family": f, "ks": lad, "alloc_bytes": al, "ratio": round(al[2] / al[0], 2),
                                                             "what": "allocated bytes grow super-linearly (copying work)", "measure": "alloc"})
                rows[-1]["alloc_bytes"] = al
                cpu = [r["info"].get("cpu_us", 0) for r in rs]
                rows[-1]["cpu_us"] = cpu
                if cpu[0] >= 20000 and cpu[2] / cpu[0] > CPU_RATIO_LIMIT and sum(1 for kk in flagged if kk[0] == "cpu") < 8:
                    # (at most 8 confirmed CPU findings are reported: each confirmation costs sequential measurements)
                    # timing is noisy, and noise (other processes, the collector) only ever ADDS time: confirm with repeated
                    # measurements taken ONE AT A TIME (the first pass runs 16 child processes side by side) and keep the
                    # minimum per size; a second round only when the first still exceeds the limit.  Work that really grows
                    # quadratically takes 16x for a 4x input in every repetition.
                    for _round in range(2):
                        again = cm.measure_many([(e, f, k) for k in lad for _ in range(3)], workers=1, timeout=900)
                        for j, k in enumerate(lad):
                            cpu[j] = min([cpu[j]] + [r["info"]["cpu_us"] for r in again if r.get("k") == k and "info" in r])
                        if not (cpu[0] >= 20000 and cpu[2] / cpu[0] > CPU_RATIO_LIMIT):
                            break
                    if cpu[0] >= 20000 and cpu[2] / cpu[0] > CPU_RATIO_LIMIT:
                        flagged.setdefault(("cpu", e, f), {"entry": e, "family": f, "ks": lad, "cpu_us": cpu, "ratio": round(cpu[2] / cpu[0], 2),
                                                           "what": "CPU time grows super-linearly (work inside library calls such as string search, copying or regular-expression matching is not visible to the statement counters)", "measure": "cpu"})
                if ex > EXP_LIMIT:
                    top = hot(rs)
                    fl = flagged.setdefault((top[0][0],), {"entry": e, "family": f, "ks": lad, "work": w, "exponent": round(ex, 3), "hot_functions": top,
                                                          "what": "super-linear growth", "also": []})
                    fl["also"].append("%s/%s" % (e, f))
    # exponential families: UNION chains and nested constructs (depth is bounded by the nesting limit, so these inputs are
    # short; the work per added level must not keep multiplying)
    uk = (6, 10, 14) if tier == "quick" else (6, 10, 14, 18)
    EXPF = ["union_chain", "nested_minus", "nested_not_paren", "nested_case", "nested_func", "nested_subquery"]
    ures = cm.measure_many([(e, f, k) for f in EXPF for e in ENTRIES for k in uk], timeout=240)
    uby = {(r["entry"], r["family"], r["k"]): r for r in ures}
    for f in EXPF:
        for e in ENTRIES:
            rs = [uby.get((e, f, k), {}) for k in uk]
            if any("total" not in r for r in rs):
                flagged.setdefault((e, f, "timeout"), {"entry": e, "family": f, "ks": uk, "what": "timeout or crash"})
                continue
            w = [r["total"] for r in rs]
            nontrivial.add((e, f, uk))
            steps = [w[i + 1] - w[i] for i in range(len(w) - 1)]
            ratio = steps[-1] / max(steps[0], 1)
            al = [r["info"].get("alloc_bytes", 0) for r in rs]
            asteps = [al[i + 1] - al[i] for i in range(len(al) - 1)]
            aratio = asteps[-1] / max(asteps[0], 1) if asteps[0] > 0 else 0
            rows.append({"entry": e, "family": f, "ks": uk, "work": w, "step_ratio": round(ratio, 2), "alloc_bytes": al, "alloc_step_ratio": round(aratio, 2)})
            if ratio > 3.0:
                top = hot([rs[0], rs[-2], rs[-1]])
                flagged.setdefault((top[0][0],), {"entry": e, "family": f, "ks": uk, "work": w, "step_ratio": round(ratio, 2), "hot_functions": top,
                                                   "what": "work per added element keeps growing (exponential)", "also": []})
            elif aratio > 4.0 and al[-1] > (1 << 20):
                flagged.setdefault(("alloc", e, f), {"entry": e, "family": f, "ks": uk, "alloc_bytes": al, "ratio": round(aratio, 2),
                                                     "what": "bytes allocated per added level keep multiplying (exponential copying)", "measure": "alloc"})
    n_viol = 0
    known_alloc = [k for k in common.known_findings("C20") if k["status"] == "known" and k["signature"].get("kind") == "alloc"]
    seen_known = set()
    for key, fl in flagged.items():
        fn = key[0] if len(key) == 1 else None
        short = fn.split(":")[-1] if fn else None
        if short and short in known:
            rp.known("Cost:" + short, known[short].get("what", ""))
            continue
        if key[0] in ("alloc", "cpu"):
            ka = [k for k in known_alloc if key[1] in k["signature"]["entries"] and key[2] in k["signature"]["families"]]
            if ka:
                if ka[0]["key"] not in seen_known:
                    seen_known.add(ka[0]["key"])
                    rp.known(ka[0]["key"], ka[0].get("what", ""))
                continue
        n_viol += 1
        rp.violation(dict(fl, kind="oracle", replay="bin/check C20 --replay <this file>",
                          explanation="statement executions of the repository code grow faster than near-linearly with the input size for this entry point and input family"),
                     "growth_%s" % re.sub(r"\W+", "_", fn or "_".join(map(str, key))))
    rp.obligation("oracle: growth exponent <= %.1f for %d entry x family ladders (max input %d bytes)" % (EXP_LIMIT, len(rows), maxbytes), n_viol == 0)

    # tie 1: the proved bound on the measured loop-body executions inside the position conversion (the function(s) that
    # play that role, helpers and closures included)
    roots, franges, loops, pnotes, pc = position_conversion(static)
    rname = ", ".join(roots) or "position conversion"
    bound_bad = []
    checked, entered = 0, 0
    if roots:
        for (e, f, k), r in by.items():
            if e != "tokenize" or "blocks" not in r:
                continue
            iters = sum(c for (file, line), c in r["blocks"].items()
                        if any(a < line <= b for a, b in loops.get(file, ())))
            if any(c > 0 and any(a <= line <= b for a, b in franges.get(file, ())) for (file, line), c in r["blocks"].items()):
                entered += 1
            nbytes = r["info"]["bytes"]
            checked += 1
            # lines <= bytes + 1; the theorem's bound with the exact line count needs the input: recompute the family cheaply
            bound = 1 + (nbytes + 1) + 2 * nbytes
            if iters > bound * 3:      # statements per loop body <= 3
                bound_bad.append({"family": f, "k": k, "loop_statements": iters, "bound": bound, "functions": [x["name"] for x in pc.get("funcs") or []]})
    rp.cov["position_conversion"] = {"roots": roots, "found_by": pc.get("via"), "hook": pc.get("hook"),
                                     "functions": [{"name": x["name"], "file": x["file"], "lines": [x["start"], x["end"]], "loop_bodies": x["loops"]} for x in pc.get("funcs") or []],
                                     "tokenizer_runs": checked, "runs_that_executed_it": entered, "notes": pnotes}
    rp.obligation("tie: measured loop-body executions of the position conversion (%s, found by role) within the proved bound (C20_position_work_linear) on %d tokenizer runs"
                  % (rname, checked), bool(roots) and not bound_bad and checked > 0 and entered == checked,
                  "position conversion not found: " + "; ".join(pnotes) if not roots else ("executed in %d of %d tokenizer runs" % (entered, checked) if entered != checked else ""))
    if not roots:
        rp.violation({"kind": "correspondence", "theorem": "Props.C20.C20_position_work_linear",
                      "detail": "no method of *Tokenizer converts an offset into a models.Location over the line-start table any more (and the hook behind `vh locq` calls none): "
                                "the position-conversion model has nothing to be tied to", "translator_notes": pnotes},
                     "position_conversion_missing", no_input=True)
    elif checked > 0 and entered != checked:
        rp.violation({"kind": "correspondence", "theorem": "Props.C20.C20_position_work_linear", "functions": roots,
                      "detail": "the function(s) playing the position-conversion role (and answering the hook) ran in only %d of %d tokenizer measurements: "
                                "tokenizing no longer goes through the conversion the model is tied to" % (entered, checked)},
                     "position_conversion_not_exercised", no_input=True)
    for b in bound_bad[:2]:
        rp.violation(dict(b, kind="correspondence", entry="tokenize", theorem="Props.C20.C20_position_work_linear",
                          explanation="the position conversion (%s) executes more loop iterations than the resume-point model allows: the code no longer has the modelled (linear) form" % rname),
                     "position_conversion_bound_%s" % b["family"])

    # tie 2: answers of the real conversion vs the Coq model, forward / backward / scrambled query orders
    cases = []
    alpha = "ab \t\n\n'x-/*,"
    ncase = 150 if tier == "quick" else 1500
    for i in range(ncase):
        n = rng.randrange(0, 70)
        s = "".join(rng.choice(alpha) for _ in range(n))
        mode = i % 3
        qs = list(range(0, n + 3)) if mode == 0 else list(range(n + 2, -1, -1)) if mode == 1 else [rng.randrange(0, n + 4) for _ in range(30)]
        cases.append({"sql": s, "queries": qs})
    p = common.vh(["locq"], input="".join(json.dumps(c) + "\n" for c in cases), timeout=600)
    outs = [json.loads(l) for l in p.stdout.splitlines() if l.strip()]
    if len(outs) != len(cases):
        rp.violation({"kind": "harness", "detail": p.stderr[-1500:]}, "locq_harness", no_input=True)
    else:
        terms = []
        for c, o in zip(cases, outs):
            terms.append("loc_case_ok [%s] [%s] %d [%s] [%s]" % ("; ".join(map(str, o["starts"])), "; ".join(map(str, o["tabs"] or [])), o["len"],
                                                                    "; ".join(map(str, c["queries"])), "; ".join("(%d, %d)" % tuple(a) for a in o["answers"] or [])))
        body = ("From Coq Require Import List Arith.\nFrom GV Require Import Model.Cost.\nImport ListNotations.\n"
                "Definition results : list bool := [\n" + ";\n".join(terms) + "].\n"
                "Fixpoint bad_from (i : nat) (l : list bool) : list nat := match l with [] => [] | b :: r => if b then bad_from (S i) r else i :: bad_from (S i) r end.\n"
                "Definition bad := Eval vm_compute in bad_from 0 results.\nPrint bad.\n")
        okc, outc, errc = common.coq_cases("c20_loc", body)
        badidx = []
        if okc:
            m = re.search(r"bad\s*=\s*(\[.*?\])", outc, re.S)
            badidx = [int(x) for x in re.findall(r"\d+", m.group(1))] if m else [-1]
        rp.cov["traces_validated_against_model"] = len(cases)
        rp.obligation("correspondence: answers of the real position conversion (" + rname + ", asked through the hook) = Coq resume-point model = Coq rescanning model on %d inputs x forward/backward/scrambled query orders" % len(cases),
                      okc and not badidx, (errc or "")[-300:])
        if not okc:
            rp.violation({"kind": "correspondence", "detail": (errc or outc)[-1500:]}, "loc_cases_coq", no_input=True)
        for i in badidx[:2]:
            if i >= 0:
                rp.violation({"kind": "correspondence", "sql": cases[i]["sql"], "queries": cases[i]["queries"], "answers": outs[i]["answers"],
                              "theorem": "Props.C20.C20_resume_point_is_rescan is about Model/Cost.v, which no longer reproduces the position conversion (" + rname + ")",
                              "explanation": "the line/column the real position conversion reports for these offsets differs from the model (stale resume point or changed conversion)"},
                             "loc_model_mismatch_%d" % i, no_input=True)
    rp.cov["evaluations"] = len(res) + len(ures) + len(cases)
    rp.cov["distinct_nontrivial"] = len(nontrivial)
    rp.cov["max_input_bytes"] = maxbytes
    rp.cov["ladders"] = [list(l) for l in ladders]
    worst = sorted([r for r in rows if "exponent" in r], key=lambda r: -r["exponent"])[:6]
    rp.cov["largest_exponents"] = worst
    rp.cov["rule"] = ("every entry point x input family is run at three sizes k, 2k, 4k (element counts; bytes recorded) in a child process built with statement counters; "
                      "non-trivial = all three runs completed; distinct = distinct (entry, family, ladder); work = executed statements of pkg/...; exponent = log2 of the ratio of successive increments")
    rp.cov["samples"] = rows[:3] + rows[-2:]
    rp.assumptions = ["executed statements of the repository's packages are the measure of work (library and runtime work, e.g. allocation, is not counted)",
                      "the family catalogue stands for 'whatever its shape'; sizes beyond the explored ladder are extrapolated by the growth exponent"]
    return rp.finish()


def replay(path):
    d = json.load(open(path))
    if d.get("entry") and d.get("family") and d.get("ks"):
        res = cm.measure_many([(d["entry"], d["family"], k) for k in d["ks"][:3]], timeout=600)
        if any("total" not in r for r in res):
            print("timeout/crash"); return 1
        w = [r["total"] for r in res]
        if d["family"] == "union_chain" or d["family"].startswith("nested_"):
            ratio = (w[-1] - w[-2]) / max(w[1] - w[0], 1)
            al = [r["info"].get("alloc_bytes", 0) for r in res]
            aratio = (al[-1] - al[-2]) / max(al[1] - al[0], 1)
            print("work", w, "step ratio", ratio, "alloc", al, "alloc step ratio", aratio)
            return 1 if (ratio > 3 or (d.get("measure") == "alloc" and aratio > 4)) else 0
        ex = exponent(w)
        al = [r["info"].get("alloc_bytes", 0) for r in res]
        print("work", w, "exponent", round(ex, 3), "alloc", al)
        if d.get("measure") == "alloc":
            return 1 if al[0] > 0 and al[2] / al[0] > ALLOC_RATIO_LIMIT else 0
        if d.get("measure") == "cpu":
            cpu = [r["info"].get("cpu_us", 0) for r in res]
            print("cpu_us", cpu)
            return 1 if cpu[0] > 0 and cpu[2] / cpu[0] > CPU_RATIO_LIMIT else 0
        return 1 if ex > EXP_LIMIT else 0
    return 2
