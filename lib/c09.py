"""C09 — returned values belong to the caller; pooled nodes come back clean."""
import json, os, random
import common, gen, gen09, own09, sqlgen
from common import Report

MANIFEST = dict(
    technique='Coq proofs over (1) a generic pool model (all put/get/GC histories) with the per-field release table and (2) a heap/ownership model of the release paths (all interleavings of tree building, release, pool get/put by other users and garbage collection, any number of trees) with release-descent, sharing and aliasing tables; all tables are regenerated from the compiled code by reflective/behavioural probes on every run; real-pool histories run through the Coq model must agree on pool content and on the objects of every held tree',
    text='Cleanliness: theorem get_is_fresh_except - after any history of releases of arbitrary dirty objects through any release path, Gets and collections, every object a pool hands out is fresh on every field. Ownership: theorems no_double_ownership (the pools never hold an object twice, no caller-held tree reaches a pooled object, no object is reachable from the trees of two holders), held_results_stable (a tree its holder has not released reads the same and stays out of the pools whatever other holders, releases and the collector do later) and release_does_not_touch_other_trees, for every well-formed history of Model/Own.v instantiated with the release tables of the current code: which types ReleaseAST / Put<X>Statement / PutExpression put into pools, which child slots they go on into (nested statements under sub-query expressions, FROM/JOIN items, GROUP BY, HAVING, windows are dropped, not pooled), the work-queue budget (objects beyond it are dropped), that a Put leaves no child reference behind, that a release writes only what it puts, and that the slots in which the parser shares one object between two places (the derived-table SelectStatement of FROM and JoinClause.Left) are not slots a release goes on into. Well-formedness of a history (builders write only objects they obtained, no release puts an object that is already pooled) is measured on the implementation: pointer-level ownership histories (parse/hold/release/pool users/other goroutines/GC, shared sub-trees, nodes wider than the cut-off, nested sub-queries) are checked directly and replayed in the model. Slices and strings handed out (tokens, comments, extraction lists, scan findings, ParseMultiple/ParseWithRecovery results): alias table from a behavioural probe, all rows alias-free, with the generic lemma alias_free_stable.',
    note=common.BASE_NOTE + 'sync.Pool modelled as nondeterministic choice among pooled objects or a new one (the history chooses); operations of different holders interleave at the granularity of one pool operation or one field write; ownership tables are probe-derived (one sentinel per slot) and validated by the history correspondence.',
    design='6/C09')



def run(tier):
    rp = Report("C09", tier)
    rng = random.Random(common.seed())
    try:
        with common.Lock():
            tables = common.stage_tables()
            static = common.stage_gotables()
            pt, _ = gen.emit_pools(tables)
            ot, _ = gen09.emit_all()
            ok_inst, ok_props, full_ok, logs = common.coq_stage(
                rp, ["theories/Inst/Inst_C09.vo", "theories/Proofs/PoolP.vo", "theories/Proofs/OwnP.vo"], "theories/Props/C09.v",
                own09.THEOREMS, full="theories/Props/C09_full.v" if not pt["known"] else None,
                inst_names=own09.INST)
    except common.StageError as e:
        return common.stage_fail(rp, e)
    own_bad = own09.table_facts(rp, ot, static)
    sd = common.stage_dir()
    kf = {(k["signature"]["via"], k["signature"]["pool"], k["signature"]["field"]): k for k in common.known_findings("C09")
          if k.get("signature", {}).get("kind") == "pool_field" and k["status"] == "known"}
    # table: dirty rows
    for key, r in pt["dirty"]:
        sig = (r["via"], r["pool"], r["field"])
        if sig in kf:
            rp.known("Pool:%s.%s via %s" % (r["pool"], r["field"], r["via"]), kf[sig].get("what", ""))
        else:
            rp.violation({"kind": "table-gap", "theorem": "Inst_C09.cleared_ok", "pool": r["pool"], "field": r["field"], "via": r["via"],
                          "status": r["status"],
                          "replay": "fill every field of a %s, release it through %s, obtain it again: field %s is %s" % (r["pool"], r["via"], r["field"], r["status"]),
                          "explanation": "a node obtained from the pool is distinguishable from a fresh one"},
                         "pool_%s_%s_%s" % (r["pool"], r["field"], r["via"]))
    if not ok_inst and not own_bad and not [1 for key, r in pt["dirty"] if (r["via"], r["pool"], r["field"]) not in kf]:
        rp.violation({"kind": "proof", "theorem": "Inst_C09", "log": logs["inst"][-3000:]}, "inst_c09", no_input=True)
    if ok_inst and not ok_props:
        rp.violation({"kind": "proof", "theorem": "Props/C09.v", "log": logs["props"][-3000:]}, "props_c09", no_input=True)

    # history exploration on the real pools (cleanliness) and ownership histories (hold/release)
    nh = 400 if tier == "quick" else 20000
    p = common.vh(["poolhist", os.path.join(sd, "static.json"), str(common.seed()), str(nh)], timeout=1800)
    ph = json.loads(p.stdout) if p.returncode == 0 and p.stdout.strip() else None
    if ph is None:
        rp.violation({"kind": "harness", "detail": p.stderr[-2000:]}, "poolhist_harness", no_input=True)
        ph = {"histories": 0, "ops": 0, "gets": 0, "gets_reused": 0, "dirty": [], "samples": []}
    seen = set()
    for d in ph.get("dirty") or []:
        tf = d.split(" ")[0]
        pool, field = tf.split(".", 1)
        if any(k[1] == pool and k[2] == field for k in kf):
            continue
        if tf in seen:
            continue
        seen.add(tf)
        rp.violation({"kind": "oracle", "history": d, "explanation": "an object returned by a pool Get is not fresh"}, "poolhist_%s" % tf)
    # whole-tree releases of wide / deep shapes (work-queue limits of the release paths), then drain the pools
    big = sqlgen.wide_statements(tier) + sqlgen.deep_statements(tier) + sqlgen.SPECIAL + sqlgen.generated_statements(rng, 100)
    p = common.vh(["poolbig"], input="".join(json.dumps({"sql": s}) + "\n" for s in big), timeout=1800)
    pb = json.loads(p.stdout) if p.returncode == 0 and p.stdout.strip() else None
    if pb is None:
        rp.violation({"kind": "harness", "detail": p.stderr[-2000:]}, "poolbig_harness", no_input=True)
        pb = {"trees": 0, "nodes_released": 0, "gets": 0, "gets_reused": 0, "dirty": [], "samples": []}
    seenb = set()
    for d in pb.get("dirty") or []:
        tf = d.split(" ")[0]
        if tf in seenb:
            continue
        seenb.add(tf)
        rp.violation({"kind": "oracle", "history": d, "explanation": "after releasing a whole parsed tree, a pool handed out a node that is not fresh (release is not uniform: depends on tree size/shape)"}, "poolbig_%s" % tf)
    rp.cov["tree_release"] = {k: pb[k] for k in ("trees", "nodes_released", "gets", "gets_reused")}
    stmts = sqlgen.generated_statements(rng, 300) + [
        "SELECT a -- c1\nFROM t /* c2 */ WHERE b = 1", "-- only comment\nSELECT 1 /* x */", "/* a */ SELECT /* b */ 1 -- c",
        "SELECT a[1], b[2:3], ARRAY[1,2,3], (1,2) FROM t", "SELECT CASE WHEN a THEN b ELSE c END, f(x) FILTER (WHERE y) FROM t"]
    stmts += sqlgen.corpus_statements(150)
    nhh = 300 if tier == "quick" else 10000
    p = common.vh(["hold", str(common.seed()), str(nhh)], input="".join(json.dumps({"sql": s}) + "\n" for s in stmts), timeout=1800)
    hh = json.loads(p.stdout) if p.returncode == 0 and p.stdout.strip() else None
    if hh is None:
        rp.violation({"kind": "harness", "detail": p.stderr[-2000:]}, "hold_harness", no_input=True)
        hh = {"histories": 0, "ops": 0, "checks": 0, "changed": [], "samples": []}
    for i, c in enumerate((hh.get("changed") or [])[:5]):
        rp.violation({"kind": "oracle", "history": c, "seed": common.seed(),
                      "explanation": "a value held by the caller (tree / tokens / comments) changed because of later library activity"},
                     "hold_changed_%d" % i)
    # ownership histories on the real pools (pointer level), replayed in the Coq model
    nown = 40 if tier == "quick" else 1200
    oh, oerr = own09.run_histories(common.seed(), nown, tier)
    if oh is None:
        rp.violation({"kind": "harness", "detail": oerr}, "own_harness", no_input=True)
        oh = {"histories": 0, "steps": 0, "checks": 0, "releases": 0, "objects_put": 0, "gets_reused": 0, "releases_beyond_cutoff": 0,
              "trees_with_shared_objects": 0, "violations": [], "hist": [], "samples": []}
    for i, v in enumerate((oh.get("violations") or [])[:5]):
        rp.violation({"kind": "own-history", "seed": common.seed(), "n": nown, "tier": tier, "violation": v,
                      "explanation": "pointer-level ownership check on the implementation: a held value changed, or an object has two holders"},
                     "own_history_%d" % i)
    hists = oh.get("hist") or []
    for h in hists:
        h["ops"] = h.get("ops") or []     # a history without operations is printed as null by the harness
    mbad, mdiag, mshards, merr = ([], {}, 0, "")
    if ok_inst and hists:
        mbad, mdiag, mshards, merr = own09.model_check(hists)
        if merr:
            rp.violation({"kind": "model-eval", "detail": merr}, "own_model_eval", no_input=True)
        for i in mbad[:5]:
            rp.violation({"kind": "own-correspondence", "seed": common.seed(), "n": nown, "tier": tier, "history": hists[i]["trace"],
                          "model": mdiag.get(i, ""), "pool_observed": hists[i].get("pool"), "held_observed": hists[i].get("held"),
                          "explanation": "the ownership model instantiated with the release tables of this tree disagrees with the implementation on this history "
                                         "(pool content, objects of a held tree, or an operation the model calls ill-formed: a Get of an object that is not pooled, a double Put)"},
                         "own_model_%d" % i, no_input=not oh.get("violations"))
    import hashlib
    def nontrivial(h):
        ops = h["ops"]
        if any(o["op"] == "get" for o in ops):
            return True                      # an object went through a pool into another tree
        live = set()
        for o in ops:
            if o["op"] in ("alloc", "get"):
                live.add(o["t"])
            elif o["op"] == "release":
                live.discard(o["t"])
                if live:
                    return True              # a release while another tree is held
        return False
    distinct_hist = {hashlib.sha1(json.dumps(h["ops"]).encode()).hexdigest() for h in hists if nontrivial(h)}
    own_rows = [r for r in ot["rows"] if r["route"] != "none"]
    rp.cov["evaluations"] = (len(pt["all"]) + len(own_rows) + len(ot["alias"]) + ph["histories"] + hh["histories"] + oh["histories"] + len(hists))
    rp.cov["distinct_nontrivial"] = len(set(pt["all"])) + len({(r["tid"], r["slot"]) for r in own_rows if r["planted"]}) + len(distinct_hist)
    rp.cov["rule"] = ("cases = pool-probe rows (type x field x release path) + release-descent probe rows (type x child slot) + aliasing probe rows + "
                      "random put/get histories + hold histories + ownership histories on the real pools + the same ownership histories evaluated in the Coq model. "
                      "distinct non-trivial = distinct pool-probe rows + distinct planted release-descent rows + distinct ownership histories (by operation sequence) in which "
                      "an object passes through a pool into another tree or a tree is released while another one is held")
    rp.cov["pool_table_rows"] = len(pt["all"])
    rp.cov["own_table"] = {"release_rows": len(own_rows), "pooled_types": len(ot["pooled"]), "descended_slots": len(ot["descend"]), "kept_slots": len(ot["keeps"]),
                           "shared_slots": [r["type"] + "." + r["path"] for _, r in ot["shared"]], "share_scan": ot["share_stats"], "budget": ot["budget"],
                           "alias_rows": len(ot["alias"]), "alias_probes": sum(r["probes"] for _, r in ot["alias"])}
    rp.cov["pool_history"] = {k: ph[k] for k in ("histories", "ops", "gets", "gets_reused")}
    rp.cov["hold_history"] = {"histories": hh["histories"], "ops": hh["ops"], "snapshot_comparisons": hh["checks"]}
    rp.cov["own_history"] = {"histories": oh["histories"], "steps": oh["steps"], "snapshot_comparisons": oh["checks"], "releases": oh["releases"],
                             "objects_put": oh["objects_put"], "objects_reused_through_pools": oh["gets_reused"],
                             "releases_beyond_cutoff": oh["releases_beyond_cutoff"], "trees_with_shared_objects": oh["trees_with_shared_objects"],
                             "model_cases": len(hists), "model_shards": mshards, "model_disagreements": len(mbad), "cutoff_order_differs_from_model": len(mdiag.get("rescued") or []),
                             "distinct_nontrivial_histories": len(distinct_hist), "lossy_histories": sum(1 for h in hists if h.get("lossy"))}
    rp.cov["samples"] = (ph.get("samples") or [])[:1] + (hh.get("samples") or [])[:1] + (oh.get("samples") or [])[:2] + [{"table_row": tables["pools"][0]}, {"own_row": own_rows[0] if own_rows else None}]
    rp.assumptions = ["sync.Pool returns only objects previously Put into the same pool or built by New (modelled as nondeterministic choice: the history chooses)",
                      "the release paths are field-wise uniform in the released object's content (validated by random histories)",
                      "tree builders (the parser, pool users) write only objects they obtained in the same build and no release puts an already pooled object (well-formedness of a history; "
                      "measured on every implementation history at pointer level and by the model run of the same history)",
                      "operations of different holders interleave at the granularity of one pool operation or one object write (Go memory-model races are C10's subject)"]
    return rp.finish()


def replay(path):
    d = json.load(open(path))
    print(json.dumps(d, indent=1))
    tables = common.stage_tables()
    if d.get("kind") == "table-gap":
        for r in tables["pools"]:
            if r["pool"] == d["pool"] and r["field"] == d["field"] and r["via"] == d["via"]:
                print("now:", r)
                return 0 if r["status"] in ("zero", "len0_clean") else 1
    if d.get("kind") in ("own-table", "own-share", "alias", "own-hook", "alias-probe"):
        # re-run the probes on the current tree and re-evaluate the table facts
        rp = Report("C09", "replay")
        n = own09.table_facts(rp, gen09.own_table(gen09.stage_own()), common.stage_gotables())
        return 1 if n else 0
    if d.get("kind") in ("own-history", "own-correspondence"):
        oh, err = own09.run_histories(d["seed"], d["n"], d.get("tier", "quick"))
        if oh is None:
            print(err)
            return 2
        for v in oh.get("violations") or []:
            print("still fails:", v)
        if oh.get("violations"):
            return 1
        if d["kind"] == "own-correspondence":
            gen09.emit_all()
            common.coq_make(["theories/Inst/Inst_C09.vo", "theories/Proofs/OwnP.vo"])
            bad, diag, _, merr = own09.model_check(oh.get("hist") or [])
            print("model disagreements:", bad, merr)
            return 1 if bad or merr else 0
        return 0
    return 2
