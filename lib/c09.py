"""C09 — returned values belong to the caller; pooled nodes come back clean."""
import json, os, random
import common, gen, sqlgen
from common import Report


def run(tier):
    rp = Report("C09", tier)
    rng = random.Random(common.seed())
    try:
        with common.Lock():
            tables = common.stage_tables()
            pt, _ = gen.emit_pools(tables)
            ok_inst, ok_props, full_ok, logs = common.coq_stage(
                rp, ["theories/Inst/Inst_C09.vo", "theories/Proofs/PoolP.vo"], "theories/Props/C09.v",
                ["Props.C09.C09_get_is_fresh_except"], full="theories/Props/C09_full.v" if not pt["known"] else None,
                inst_names=["Inst_C09.cleared_ok"])
    except common.StageError as e:
        return common.stage_fail(rp, e)
    sd = common.stage_dir()
    kf = {(k["signature"]["via"], k["signature"]["pool"], k["signature"]["field"]): k for k in common.known_findings("C09")
          if k.get("signature", {}).get("kind") == "pool_field" and k["status"] == "known"}
    # table: dirty rows
    for key, r in pt["dirty"]:
        sig = (r["via"], r["pool"], r["field"])
        if sig in kf:
            rp.known("Pool:%s.%s via %s" % (r["pool"], r["field"], r["via"]), kf[sig].get("what", ""))
        else:
            rp.violation({"kind": "table-gap", "theorem": "Inst_C09.cleared_ok", "pool": r["pool"], "field": r["field"], "via": r["via"],
                          "status": r["status"],
                          "replay": "fill every field of a %s, release it through %s, obtain it again: field %s is %s" % (r["pool"], r["via"], r["field"], r["status"]),
                          "explanation": "a node obtained from the pool is distinguishable from a fresh one"},
                         "pool_%s_%s_%s" % (r["pool"], r["field"], r["via"]))
    if not ok_inst and not [1 for key, r in pt["dirty"] if (r["via"], r["pool"], r["field"]) not in kf]:
        rp.violation({"kind": "proof", "theorem": "Inst_C09", "log": logs["inst"][-3000:]}, "inst_c09", no_input=True)
    if ok_inst and not ok_props:
        rp.violation({"kind": "proof", "theorem": "Props/C09.v", "log": logs["props"][-3000:]}, "props_c09", no_input=True)

    # history exploration on the real pools (cleanliness) and ownership histories (hold/release)
    nh = 400 if tier == "quick" else 20000
    p = common.vh(["poolhist", os.path.join(sd, "static.json"), str(common.seed()), str(nh)], timeout=1800)
    ph = json.loads(p.stdout) if p.returncode == 0 and p.stdout.strip() else None
    if ph is None:
        rp.violation({"kind": "harness", "detail": p.stderr[-2000:]}, "poolhist_harness", no_input=True)
        ph = {"histories": 0, "ops": 0, "gets": 0, "gets_reused": 0, "dirty": [], "samples": []}
    seen = set()
    for d in ph.get("dirty") or []:
        tf = d.split(" ")[0]
        pool, field = tf.split(".", 1)
        if any(k[1] == pool and k[2] == field for k in kf):
            continue
        if tf in seen:
            continue
        seen.add(tf)
        rp.violation({"kind": "oracle", "history": d, "explanation": "an object returned by a pool Get is not fresh"}, "poolhist_%s" % tf)
    # whole-tree releases of wide / deep shapes (work-queue limits of the release paths), then drain the pools
    big = sqlgen.wide_statements(tier) + sqlgen.deep_statements(tier) + sqlgen.SPECIAL + sqlgen.generated_statements(rng, 100)
    p = common.vh(["poolbig"], input="".join(json.dumps({"sql": s}) + "\n" for s in big), timeout=1800)
    pb = json.loads(p.stdout) if p.returncode == 0 and p.stdout.strip() else None
    if pb is None:
        rp.violation({"kind": "harness", "detail": p.stderr[-2000:]}, "poolbig_harness", no_input=True)
        pb = {"trees": 0, "nodes_released": 0, "gets": 0, "gets_reused": 0, "dirty": [], "samples": []}
    seenb = set()
    for d in pb.get("dirty") or []:
        tf = d.split(" ")[0]
        if tf in seenb:
            continue
        seenb.add(tf)
        rp.violation({"kind": "oracle", "history": d, "explanation": "after releasing a whole parsed tree, a pool handed out a node that is not fresh (release is not uniform: depends on tree size/shape)"}, "poolbig_%s" % tf)
    rp.cov["tree_release"] = {k: pb[k] for k in ("trees", "nodes_released", "gets", "gets_reused")}
    stmts = sqlgen.generated_statements(rng, 300) + [
        "SELECT a -- c1\nFROM t /* c2 */ WHERE b = 1", "-- only comment\nSELECT 1 /* x */", "/* a */ SELECT /* b */ 1 -- c",
        "SELECT a[1], b[2:3], ARRAY[1,2,3], (1,2) FROM t", "SELECT CASE WHEN a THEN b ELSE c END, f(x) FILTER (WHERE y) FROM t"]
    stmts += sqlgen.corpus_statements(150)
    nhh = 300 if tier == "quick" else 10000
    p = common.vh(["hold", str(common.seed()), str(nhh)], input="".join(json.dumps({"sql": s}) + "\n" for s in stmts), timeout=1800)
    hh = json.loads(p.stdout) if p.returncode == 0 and p.stdout.strip() else None
    if hh is None:
        rp.violation({"kind": "harness", "detail": p.stderr[-2000:]}, "hold_harness", no_input=True)
        hh = {"histories": 0, "ops": 0, "checks": 0, "changed": [], "samples": []}
    for i, c in enumerate((hh.get("changed") or [])[:5]):
        rp.violation({"kind": "oracle", "history": c, "seed": common.seed(),
                      "explanation": "a value held by the caller (tree / tokens / comments) changed because of later library activity"},
                     "hold_changed_%d" % i)
    rp.cov["evaluations"] = ph["histories"] + hh["histories"] + len(pt["all"])
    rp.cov["distinct_nontrivial"] = ph["gets_reused"] + hh["checks"]
    rp.cov["rule"] = ("(1) probe table: every pooled type x every field x every release path, complete; (2) random put/get histories on the real pools "
                      "(non-trivial = a Get that returned a previously released object, counted); (3) parse/hold/release/pool-churn/tokenizer-reuse/other-goroutine "
                      "histories with a deep snapshot comparison of every held value after every step (counted: snapshot comparisons)")
    rp.cov["pool_table_rows"] = len(pt["all"])
    rp.cov["pool_history"] = {k: ph[k] for k in ("histories", "ops", "gets", "gets_reused")}
    rp.cov["hold_history"] = {k: hh[k] for k in ("histories", "ops", "checks")}
    rp.cov["samples"] = (ph.get("samples") or [])[:2] + (hh.get("samples") or [])[:2] + [{"table_row": tables["pools"][0]}]
    rp.cov["notes"].append("ownership clause (held values never change; releasing one tree never changes another) is covered by the hold histories and the aliasing probes, not by a theorem: "
                           "the Coq theorem covers the cleanliness clause for all histories")
    rp.assumptions = ["sync.Pool returns only objects previously Put into the same pool or built by New (modelled as nondeterministic choice)",
                      "the release paths are field-wise uniform in the released object's content (validated by random histories)"]
    return rp.finish()


def replay(path):
    d = json.load(open(path))
    print(json.dumps(d, indent=1))
    tables = common.stage_tables()
    if d.get("kind") == "table-gap":
        for r in tables["pools"]:
            if r["pool"] == d["pool"] and r["field"] == d["field"] and r["via"] == d["via"]:
                print("now:", r)
                return 0 if r["status"] in ("zero", "len0_clean") else 1
    return 2
