"""Reference-grammar statement generator for C15 / C16.

Statements are nested tuples mirroring coq/theories/Model/QRef.v (mstmt, mexpr, ...).  For each statement the
generator KNOWS what it placed where: `items(s)` lists the table / column / function names written (the
specification side, computed from the structure alone), `render(s, lay)` writes SQL text in a chosen layout
(keyword case, whitespace, redundant parentheses, optional AS), `coq_stmt(s)` is the Coq term.

Besides queries and DML the grammar has the statements that CARRY a query or an expression without being queries
(CREATE [OR REPLACE] VIEW, CREATE MATERIALIZED VIEW, CREATE [UNIQUE] INDEX ... WHERE, CREATE TABLE with DEFAULT /
CHECK, EXPLAIN / DESCRIBE query): the names they define or designate as plain strings (view / index / table name, view column list, index
keys and indexed table, column definitions, constraint key lists) are NOT items; the names inside the carried query /
expressions are.  `flat_chain` builds the long flat operator chains (a OR b OR c ...: left-deep trees, one level per
operand, no nesting in the text).

Name pools are pairwise disjoint (tables, CTE names, columns, functions, aliases, string contents, DDL names), so any
leak of one class into another result is visible."""
import random, sys

sys.setrecursionlimit(max(sys.getrecursionlimit(), 30000))     # flat chains: one level of recursion per operand

TABLES = ["t1", "t2", "t3", "orders", "users", "s1.t4", "s2.t5", "db.s3.t6", "Items"]
CTES = ["cte1", "cte2", "cte3"]
COLS = ["a", "b", "c", "id", "name", "amount", "k1", "Price"]
FUNCS = ["f", "g", "UPPER", "lower", "COUNT", "MAX", "COALESCE", "length"]
ALIASES = ["zal1", "zal2", "zal3", "zal4", "zal5", "zal6", "zal7", "zal8"]
STRINGS = ["users", "select", "from_str", "t1", "zz top", "it''s", "x%"]
TYPES = ["INTEGER", "VARCHAR(10)", "TEXT"]
NILADIC = ["CURRENT_DATE", "CURRENT_TIMESTAMP", "CURRENT_TIME"]   # emitted only while the parser builds a bare FunctionCall for them
CMP = ["=", "<>", "<", ">", "<=", ">="]
# names that DDL statements define / designate (never items)
VIEWS = ["zv1", "zs.zv2", "Zmv3"]
INDEXES = ["zi1", "zs.zi2"]
NEWTABLES = ["zt1", "zs.zt2"]
ZKEYS = ["zk1", "zk2", "zk3", "Zk4"]
VIEWCOLS = ["zc1", "zc2", "zc3"]
COLTYPES = ["INT", "VARCHAR(10)", "TEXT", "DECIMAL(10,2)"]
PLAIN_CONS = ["NOT NULL", "UNIQUE", "PRIMARY KEY", "NULL"]
VIEW_OPTS = [("", False, ""), ("OR REPLACE", False, ""), ("TEMPORARY", False, ""), ("", True, ""), ("OR REPLACE", False, "WITH CHECK OPTION"),
             ("", False, "WITH CASCADED CHECK OPTION"), ("TEMP", True, "WITH LOCAL CHECK OPTION")]
MVIEW_OPTS = [(False, ""), (True, ""), (False, "WITH DATA"), (False, "WITH NO DATA")]
JOINS = [("JOIN", "INNER"), ("INNER JOIN", "INNER"), ("LEFT JOIN", "LEFT"), ("LEFT OUTER JOIN", "LEFT"),
         ("RIGHT JOIN", "RIGHT"), ("FULL JOIN", "FULL"), ("CROSS JOIN", "CROSS")]


class Gen:
    def __init__(self, rng, payload=None, niladic=False):
        self.rng = rng
        self.alias_n = 0
        self.niladic = niladic      # set from a probe of the parser (lib/c15.py): MNiladic of Model/QRef.v

    def pick(self, l):
        return self.rng.choice(l)

    def alias(self):
        self.alias_n += 1
        return ALIASES[self.alias_n % len(ALIASES)]

    # ---- expressions ----
    def atom(self, sq, depth):
        r = self.rng.random()
        if self.niladic and r < 0.04:
            return ("niladic", self.pick(NILADIC))
        if r < 0.45:
            q = self.pick(["", "", "", "zal1", "t1", "users"])
            return ("col", q, self.pick(COLS))
        if r < 0.6:
            return self.lit()
        if r < 0.8 and depth > 0:
            n = self.rng.randint(1, 2)
            return ("func", self.pick(FUNCS), [self.atom(sq if self.rng.random() < 0.3 else 0, depth - 1) for _ in range(n)])
        if r < 0.86 and depth > 0:
            return ("cast", self.atom(sq, depth - 1), self.pick(TYPES))
        if r < 0.91 and depth > 0:
            ws = [(self.cond(0, 0), self.atom(0, depth - 1)) for _ in range(self.rng.randint(1, 2))]
            return ("case", None, ws, self.atom(0, depth - 1) if self.rng.random() < 0.6 else None)
        if sq > 0 and r < 0.97:
            return ("sub", self.select(sq - 1, scalar=True))
        return ("col", "", self.pick(COLS))

    def lit(self):
        r = self.rng.random()
        if r < 0.4:
            v = str(self.rng.randint(0, 99))
            return ("lit", v, "int", v)
        if r < 0.8:
            s = self.pick(STRINGS)
            return ("lit", s.replace("''", "'"), "string", "'" + s + "'")
        if r < 0.9:
            return ("lit", "", "null", "NULL")
        return ("lit", "TRUE", "bool", "TRUE")

    def cond(self, sq, depth):
        r = self.rng.random()
        if depth > 0 and r < 0.3:
            return ("bin", self.pick(["AND", "OR"]), self.cond(sq, depth - 1), self.cond(sq, depth - 1))
        if depth > 0 and r < 0.36:
            return ("un", "NOT", self.cond(sq, depth - 1))
        if r < 0.7:
            return ("bin", self.pick(CMP), self.atom(sq, depth), self.atom(sq, depth))
        if r < 0.78:
            return ("in", self.atom(0, 0), [self.lit() for _ in range(self.rng.randint(1, 3))])
        if r < 0.85:
            return ("between", self.atom(0, 0), self.lit(), self.atom(0, 0))
        if sq > 0 and r < 0.92:
            return ("insub", self.atom(0, 0), self.select(sq - 1, scalar=True))
        if sq > 0:
            return ("exists", self.select(sq - 1))
        return ("bin", "=", self.atom(0, 0), self.lit())

    # ---- table references ----
    def tref(self, sq, ctes=()):
        r = self.rng.random()
        al = self.alias() if self.rng.random() < 0.5 else ""
        if sq > 0 and r < 0.25:
            return ("tsub", self.select(sq - 1), self.alias())
        if ctes and r < 0.55:
            return ("tname", self.pick(list(ctes)), al)
        return ("tname", self.pick(TABLES), al)

    def ctes(self, sq, top=True):
        if not top or sq <= 0 or self.rng.random() > 0.35:
            return []
        names = self.rng.sample(CTES, self.rng.randint(1, 2))
        return [(n, ["zc1", "zc2"][:self.rng.randint(0, 1)], self.query(sq - 1, top=self.rng.random() < 0.5)) for n in names]

    # ---- statements ----
    def select(self, sq, scalar=False, top=False):
        ct = self.ctes(sq, top)
        cnames = [c[0] for c in ct]
        n_items = 1 if scalar else self.rng.randint(1, 3)
        items = []
        for _ in range(n_items):
            r = self.rng.random()
            if r < 0.12 and not scalar:
                items.append((("star", self.pick(["", "", "t1"])), ""))
            else:
                items.append((self.atom(sq, 2), self.alias() if self.rng.random() < 0.3 and not scalar else ""))
        frm, joins = [], []
        has_from = self.rng.random() < 0.93
        if has_from:
            frm = [self.tref(sq, cnames) for _ in range(self.rng.choice([1, 1, 1, 2, 3]))]
            for _ in range(self.rng.choice([0, 0, 0, 1, 2, 3])):
                kw, jt = self.pick(JOINS)
                t = self.tref(sq, cnames)
                if jt == "CROSS":
                    c = None
                elif self.rng.random() < 0.2:
                    c = ("col", "", self.pick(COLS))      # USING (k)
                    kw = kw + "#using"
                else:
                    c = self.cond(sq, 1)
                joins.append((kw, jt, t, c))
        if not has_from:
            return ("select", ct, items, [], [], None, [], None, [])
        wh = self.cond(sq, 2) if self.rng.random() < 0.6 else None
        gb = [self.atom(0, 1) for _ in range(self.rng.choice([0, 0, 1, 2]))]
        hv = self.cond(0, 1) if gb and self.rng.random() < 0.5 else None
        ob = [self.atom(0, 1) for _ in range(self.rng.choice([0, 0, 1, 2]))] if not scalar else []
        return ("select", ct, items, frm, joins, wh, gb, hv, ob)

    def query(self, sq, top=True):
        s = self.select(sq, top=top)
        n = self.rng.choice([0, 0, 0, 1, 2])
        if n:
            s = ("select", [], s[2], s[3], s[4], s[5], s[6], s[7], [])
        for _ in range(n):
            r = self.select(sq)
            r = ("select", [], r[2], r[3], r[4], r[5], r[6], r[7], [])
            op = self.pick(["UNION", "UNION", "EXCEPT", "INTERSECT"])
            s = ("setop", op, op == "UNION" and self.rng.random() < 0.5, s, r)
        return s

    # ---- statements that carry a query / an expression ----
    def viewcols(self):
        return VIEWCOLS[:self.rng.choice([0, 0, 1, 2, 3])]

    def create_view(self, sq):
        return ("createview", self.pick(VIEW_OPTS), self.pick(VIEWS), self.viewcols(), self.query(sq, top=False))

    def create_matview(self, sq):
        return ("creatematview", self.pick(MVIEW_OPTS), self.pick(VIEWS), self.viewcols(), self.query(sq, top=False))

    def create_index(self, sq):
        keys = [(k, self.pick(["", "", "ASC", "DESC"])) for k in self.rng.sample(ZKEYS, self.rng.randint(1, 3))]
        wh = self.cond(sq, 2) if self.rng.random() < 0.8 else None
        return ("createindex", (self.rng.random() < 0.3, self.rng.random() < 0.3, self.pick(["", "", "btree", "hash"])),
                self.pick(INDEXES), self.pick(TABLES), keys, wh)

    def create_table(self, sq):
        cols = []
        for k in self.rng.sample(ZKEYS, self.rng.randint(1, 3)):
            cons = []
            for _ in range(self.rng.choice([0, 1, 1, 2, 3])):
                r = self.rng.random()
                if r < 0.35:
                    cons.append(("plain", self.pick(PLAIN_CONS)))
                elif r < 0.7:
                    cons.append(("default", self.atom(sq, 2)))
                else:
                    cons.append(("check", self.cond(sq, 1)))
            cols.append((k, self.pick(COLTYPES), cons))
        tcs = []
        for _ in range(self.rng.choice([0, 0, 1, 2])):
            if self.rng.random() < 0.4:
                tcs.append(("plain", self.pick(["UNIQUE", "PRIMARY KEY"]), self.rng.sample(ZKEYS, self.rng.randint(1, 2))))
            else:
                tcs.append(("check", self.cond(sq, 1)))
        return ("createtable", (self.rng.random() < 0.2, self.rng.random() < 0.3), self.pick(NEWTABLES), cols, tcs)

    def statement(self, sq):
        r = self.rng.random()
        if r < 0.4:
            return self.query(sq)
        r = (r - 0.4) / 0.6
        if r >= 0.62:
            r = (r - 0.62) / 0.38
            if r < 0.32:
                return self.create_view(sq)
            if r < 0.5:
                return self.create_matview(sq)
            if r < 0.68:
                return self.create_index(sq)
            if r < 0.86:
                return self.create_table(sq)
            return ("explain", self.pick(["EXPLAIN", "EXPLAIN", "DESCRIBE"]), self.query(sq, top=False))
        r = r / 0.62
        if r < 0.5:
            return self.query(sq)
        if r < 0.6:
            cols = self.rng.sample(COLS, self.rng.randint(1, 3))
            return ("insertv", self.ctes(sq), self.pick(TABLES), [("col", "", c) for c in cols],
                    [self.pick([self.lit(), ("func", self.pick(FUNCS), [self.lit()])]) for _ in cols])
        if r < 0.7:
            cols = self.rng.sample(COLS, self.rng.randint(1, 2))
            return ("insertq", self.ctes(sq), self.pick(TABLES), [("col", "", c) for c in cols], self.query(sq, top=False))
        if r < 0.8:
            asg = [(("col", "", c), self.atom(sq, 1)) for c in self.rng.sample(COLS, self.rng.randint(1, 3))]
            frm = [self.tref(sq) for _ in range(self.rng.choice([0, 0, 1, 2]))]
            return ("update", self.ctes(sq), self.pick(TABLES), asg, frm, self.cond(sq, 2) if self.rng.random() < 0.8 else None)
        if r < 0.9:
            us = [self.tref(sq) for _ in range(self.rng.choice([0, 0, 1, 2]))]
            return ("delete", self.ctes(sq), self.pick(TABLES), us, self.cond(sq, 2) if self.rng.random() < 0.8 else None)
        whens = []
        for _ in range(self.rng.randint(1, 3)):
            k = self.rng.random()
            c = self.cond(0, 1) if self.rng.random() < 0.4 else None
            if k < 0.4:
                whens.append(("wupdate", c, [(col, self.atom(0, 1)) for col in self.rng.sample(COLS, self.rng.randint(1, 2))]))
            elif k < 0.8:
                cols = self.rng.sample(COLS, self.rng.randint(1, 3))
                whens.append(("winsert", c, cols, [self.atom(0, 1) for _ in cols]))
            else:
                whens.append(("wdelete", c))
        src = ("tsub", self.select(max(sq - 1, 0)), self.alias()) if (sq > 0 and self.rng.random() < 0.3) else ("tname", self.pick(TABLES), "")
        return ("merge", ("tname", self.pick(TABLES), ""), src, self.cond(0, 1), whens)


# ------------------------------------------------------------------------------------------------
# specification: the names written in table / column / function positions

def items_expr(e, acc):
    k = e[0]
    if k == "col":
        acc.append(("C", e[1], e[2]))
    elif k in ("star", "lit"):
        pass
    elif k == "niladic":
        acc.append(("F", e[1]))
    elif k == "bin":
        items_expr(e[2], acc); items_expr(e[3], acc)
    elif k == "un":
        items_expr(e[2], acc)
    elif k == "func":
        acc.append(("F", e[1]))
        for a in e[2]:
            items_expr(a, acc)
    elif k == "case":
        if e[1] is not None:
            items_expr(e[1], acc)
        for c, r in e[2]:
            items_expr(c, acc); items_expr(r, acc)
        if e[3] is not None:
            items_expr(e[3], acc)
    elif k == "in":
        items_expr(e[1], acc)
        for x in e[2]:
            items_expr(x, acc)
    elif k == "insub":
        items_expr(e[1], acc); items_stmt(e[2], acc)
    elif k == "between":
        items_expr(e[1], acc); items_expr(e[2], acc); items_expr(e[3], acc)
    elif k in ("exists", "sub"):
        items_stmt(e[1], acc)
    elif k == "cast":
        items_expr(e[1], acc)
    else:
        raise ValueError(k)


def items_tref(t, acc):
    if t[0] == "tname":
        acc.append(("T", t[1]))
    else:
        items_stmt(t[1], acc)


def items_ctes(ct, acc):
    for _, _, s in ct:
        items_stmt(s, acc)


def items_stmt(s, acc):
    k = s[0]
    if k == "select":
        _, ct, its, frm, joins, wh, gb, hv, ob = s
        items_ctes(ct, acc)
        for e, _ in its:
            items_expr(e, acc)
        for t in frm:
            items_tref(t, acc)
        for _, _, t, c in joins:
            items_tref(t, acc)
            if c is not None:
                items_expr(c, acc)
        for e in ([wh] if wh is not None else []) + gb + ([hv] if hv is not None else []) + ob:
            items_expr(e, acc)
    elif k == "setop":
        items_stmt(s[3], acc); items_stmt(s[4], acc)
    elif k == "insertv":
        items_ctes(s[1], acc); acc.append(("T", s[2]))
        for e in s[3] + s[4]:
            items_expr(e, acc)
    elif k == "insertq":
        items_ctes(s[1], acc); acc.append(("T", s[2]))
        for e in s[3]:
            items_expr(e, acc)
        items_stmt(s[4], acc)
    elif k == "update":
        items_ctes(s[1], acc); acc.append(("T", s[2]))
        for c, v in s[3]:
            items_expr(c, acc); items_expr(v, acc)
        for t in s[4]:
            items_tref(t, acc)
        if s[5] is not None:
            items_expr(s[5], acc)
    elif k == "delete":
        items_ctes(s[1], acc); acc.append(("T", s[2]))
        for t in s[3]:
            items_tref(t, acc)
        if s[4] is not None:
            items_expr(s[4], acc)
    elif k == "merge":
        items_tref(s[1], acc); items_tref(s[2], acc); items_expr(s[3], acc)
        for w in s[4]:
            if w[1] is not None:
                items_expr(w[1], acc)
            if w[0] == "wupdate":
                for col, v in w[2]:
                    acc.append(("C", "", col)); items_expr(v, acc)
            elif w[0] == "winsert":
                for col in w[2]:
                    acc.append(("C", "", col))
                for v in w[3]:
                    items_expr(v, acc)
    elif k == "explain":
        items_stmt(s[2], acc)
    elif k in ("createview", "creatematview"):
        items_stmt(s[4], acc)               # the view name is defined, its column list names the view's columns
    elif k == "createindex":
        if s[5] is not None:                # index name, indexed table and keys designate (plain strings): not positions
            items_expr(s[5], acc)
    elif k == "createtable":
        for _, _, cons in s[3]:             # the table and its columns are defined
            for c in cons:
                if c[0] in ("default", "check"):
                    items_expr(c[1], acc)
        for c in s[4]:
            if c[0] == "check":
                items_expr(c[1], acc)
    else:
        raise ValueError(k)
    return acc


def written(s):
    it = items_stmt(s, [])
    return dict(tables=sorted({x[1] for x in it if x[0] == "T"}),
                columns=sorted({x[2] for x in it if x[0] == "C"}),
                qcolumns=sorted({(x[1], x[2]) for x in it if x[0] == "C"}),
                functions=sorted({x[1] for x in it if x[0] == "F"}))


# ------------------------------------------------------------------------------------------------
# rendering

class Layout:
    def __init__(self, rng=None, kwcase="upper", ws=" ", parens=0.0, as_kw=True):
        self.rng, self.kwcase, self.ws, self.parens, self.as_kw = rng, kwcase, ws, parens, as_kw

    def kw(self, w):
        if self.kwcase == "lower":
            return w.lower()
        if self.kwcase == "mixed":
            return "".join(c.upper() if i % 2 else c.lower() for i, c in enumerate(w))
        return w

    def par(self, s):
        """redundant parentheses around an expression"""
        if self.parens and self.rng.random() < self.parens:
            return "(" + s + ")"
        return s

    def join(self, parts):
        parts = [p for p in parts if p]
        if self.ws == " ":
            return " ".join(parts)
        return "".join(p + self.rng.choice([" ", "\n", "\t", "  ", " \n  "]) for p in parts).strip()


PLAIN = Layout()
LOGIC = ("AND", "OR")
CHAIN_OPS = ("+", "-", "*", "||")       # left-associative: a + b + c is (a + b) + c


def rx(e, L, boolctx=False):
    k = e[0]
    if k == "col":
        return (e[1] + "." if e[1] else "") + e[2]
    if k == "star":
        return (e[1] + "." if e[1] else "") + "*"
    if k == "lit":
        return L.kw(e[3]) if e[2] in ("null", "bool") else e[3]
    if k == "niladic":
        return e[1]
    if k == "bin":
        op = e[1]
        # a LEFT operand built with the same operator is written without parentheses (a OR b OR c, x + y + z): the
        # parser reads such a chain in a loop, left-deep, so the tree is the same and nothing nests in the text
        if op.upper() in LOGIC:
            def side(x, left):
                s = rx(x, L, True)
                if x[0] == "bin" and x[1].upper() in LOGIC:
                    return s if (left and x[1].upper() == op.upper()) else "(" + s + ")"
                return L.par(s)
            return L.join([side(e[2], True), L.kw(op), side(e[3], False)])
        def opd(x, left):
            s = rx(x, L)
            if left and x[0] == "bin" and x[1] == op and op in CHAIN_OPS:
                return s
            if x[0] in ("bin", "un", "in", "insub", "between", "exists"):
                return "(" + s + ")"
            return L.par(s) if x[0] in ("col", "lit", "func", "cast", "niladic") else s
        return L.join([opd(e[2], True), op, opd(e[3], False)])
    if k == "un":
        return L.join([L.kw("NOT"), "(" + rx(e[2], L, True) + ")"])
    if k == "func":
        return e[1] + "(" + ", ".join(rx(a, L) for a in e[2]) + ")"
    if k == "case":
        parts = [L.kw("CASE")]
        if e[1] is not None:
            parts.append(rx(e[1], L))
        for c, r in e[2]:
            parts += [L.kw("WHEN"), rx(c, L, True), L.kw("THEN"), rx(r, L)]
        if e[3] is not None:
            parts += [L.kw("ELSE"), rx(e[3], L)]
        parts.append(L.kw("END"))
        return L.join(parts)
    if k == "in":
        return L.join([rx(e[1], L), L.kw("IN"), "(" + ", ".join(rx(x, L) for x in e[2]) + ")"])
    if k == "insub":
        return L.join([rx(e[1], L), L.kw("IN"), "(" + rstmt(e[2], L) + ")"])
    if k == "between":
        return L.join([rx(e[1], L), L.kw("BETWEEN"), rx(e[2], L), L.kw("AND"), rx(e[3], L)])
    if k == "exists":
        return L.join([L.kw("EXISTS"), "(" + rstmt(e[1], L) + ")"])
    if k == "sub":
        return "(" + rstmt(e[1], L) + ")"
    if k == "cast":
        return L.kw("CAST") + "(" + L.join([rx(e[1], L), L.kw("AS"), e[2]]) + ")"
    raise ValueError(k)


def rtref(t, L):
    if t[0] == "tname":
        base = t[1]
    else:
        base = "(" + rstmt(t[1], L) + ")"
    if t[2]:
        return L.join([base, L.kw("AS") if (L.as_kw or t[0] == "tsub") else "", t[2]])
    return base


def rctes(ct, L):
    if not ct:
        return ""
    parts = []
    for n, cols, s in ct:
        parts.append(L.join([n + (" (" + ", ".join(cols) + ")" if cols else ""), L.kw("AS"), "(" + rstmt(s, L) + ")"]))
    return L.join([L.kw("WITH"), ", ".join(parts)])


def rstmt(s, L=PLAIN):
    k = s[0]
    if k == "select":
        _, ct, its, frm, joins, wh, gb, hv, ob = s
        parts = [rctes(ct, L), L.kw("SELECT")]
        parts.append(", ".join(L.join([rx(e, L), (L.kw("AS") if L.as_kw else ""), al]) if al else rx(e, L) for e, al in its))
        if frm:
            parts += [L.kw("FROM"), ", ".join(rtref(t, L) for t in frm)]
        for kw, jt, t, c in joins:
            using = kw.endswith("#using")
            kw = kw.replace("#using", "")
            parts += [L.kw(kw), rtref(t, L)]
            if c is not None:
                parts += [L.kw("USING"), "(" + rx(c, L) + ")"] if using else [L.kw("ON"), rx(c, L, True)]
        if wh is not None:
            parts += [L.kw("WHERE"), rx(wh, L, True)]
        if gb:
            parts += [L.kw("GROUP BY") if L.ws == " " else L.kw("GROUP") + " " + L.kw("BY"), ", ".join(rx(e, L) for e in gb)]
        if hv is not None:
            parts += [L.kw("HAVING"), rx(hv, L, True)]
        if ob:
            parts += [L.kw("ORDER BY") if L.ws == " " else L.kw("ORDER") + " " + L.kw("BY"), ", ".join(rx(e, L) for e in ob)]
        return L.join(parts)
    if k == "setop":
        return L.join([rstmt(s[3], L), L.kw(s[1] + (" ALL" if s[2] else "")), rstmt(s[4], L)])
    if k == "insertv":
        return L.join([rctes(s[1], L), L.kw("INSERT INTO"), s[2], "(" + ", ".join(rx(c, L) for c in s[3]) + ")",
                       L.kw("VALUES"), "(" + ", ".join(rx(v, L) for v in s[4]) + ")"])
    if k == "insertq":
        return L.join([rctes(s[1], L), L.kw("INSERT INTO"), s[2], "(" + ", ".join(rx(c, L) for c in s[3]) + ")", rstmt(s[4], L)])
    if k == "update":
        parts = [rctes(s[1], L), L.kw("UPDATE"), s[2], L.kw("SET"), ", ".join(L.join([rx(c, L), "=", rx(v, L)]) for c, v in s[3])]
        if s[5] is not None:
            parts += [L.kw("WHERE"), rx(s[5], L, True)]
        return L.join(parts)
    if k == "delete":
        parts = [rctes(s[1], L), L.kw("DELETE FROM"), s[2]]
        if s[4] is not None:
            parts += [L.kw("WHERE"), rx(s[4], L, True)]
        return L.join(parts)
    if k == "merge":
        src = s[2]
        parts = [L.kw("MERGE INTO"), s[1][1], L.kw("USING"), (src[1] if src[0] == "tname" else "zsrc"), L.kw("ON"), rx(s[3], L, True)]
        for w in s[4]:
            if w[0] == "winsert":
                parts += [L.kw("WHEN NOT MATCHED")]
            else:
                parts += [L.kw("WHEN MATCHED")]
            if w[1] is not None:
                parts += [L.kw("AND"), rx(w[1], L, True)]
            parts.append(L.kw("THEN"))
            if w[0] == "wupdate":
                parts += [L.kw("UPDATE SET"), ", ".join(L.join([col, "=", rx(v, L)]) for col, v in w[2])]
            elif w[0] == "winsert":
                parts += [L.kw("INSERT"), "(" + ", ".join(w[2]) + ")", L.kw("VALUES"), "(" + ", ".join(rx(v, L) for v in w[3]) + ")"]
            else:
                parts.append(L.kw("DELETE"))
        return L.join(parts)
    if k == "explain":
        return L.join([L.kw(s[1]), rstmt(s[2], L)])
    if k == "createview":
        pre, ifne, post = s[1]
        return L.join([L.kw("CREATE"), L.kw(pre), L.kw("VIEW"), L.kw("IF NOT EXISTS") if ifne else "",
                       s[2] + (" (" + ", ".join(s[3]) + ")" if s[3] else ""), L.kw("AS"), rstmt(s[4], L), L.kw(post)])
    if k == "creatematview":
        ifne, post = s[1]
        return L.join([L.kw("CREATE MATERIALIZED VIEW"), L.kw("IF NOT EXISTS") if ifne else "",
                       s[2] + (" (" + ", ".join(s[3]) + ")" if s[3] else ""), L.kw("AS"), rstmt(s[4], L), L.kw(post)])
    if k == "createindex":
        unique, ifne, using = s[1]
        parts = [L.kw("CREATE"), L.kw("UNIQUE") if unique else "", L.kw("INDEX"), L.kw("IF NOT EXISTS") if ifne else "",
                 s[2], L.kw("ON"), s[3], (L.kw("USING") + " " + using) if using else "",
                 "(" + ", ".join(c + (" " + L.kw(d) if d else "") for c, d in s[4]) + ")"]
        if s[5] is not None:
            parts += [L.kw("WHERE"), rx(s[5], L, True)]
        return L.join(parts)
    if k == "createtable":
        temp, ifne = s[1]
        defs = []
        for n, ty, cons in s[3]:
            ps = [n, ty]
            for c in cons:
                if c[0] == "plain":
                    ps.append(L.kw(c[1]))
                elif c[0] == "default":
                    ps += [L.kw("DEFAULT"), "(" + rx(c[1], L) + ")"]
                else:
                    ps += [L.kw("CHECK"), "(" + rx(c[1], L, True) + ")"]
            defs.append(L.join(ps))
        for c in s[4]:
            if c[0] == "plain":
                defs.append(L.join([L.kw(c[1]), "(" + ", ".join(c[2]) + ")"]))
            else:
                defs.append(L.join([L.kw("CHECK"), "(" + rx(c[1], L, True) + ")"]))
        return L.join([L.kw("CREATE"), L.kw("TEMPORARY") if temp else "", L.kw("TABLE"), L.kw("IF NOT EXISTS") if ifne else "",
                       s[2], "(" + ", ".join(defs) + ")"])
    raise ValueError(k)


def harness_input(s, L=PLAIN):
    """SQL text, plus the graft instruction for table lists the parser's grammar cannot produce"""
    d = {"sql": rstmt(s, L)}
    if s[0] == "update" and s[4]:
        d.update(graft="update_from", sql2="SELECT 1 FROM " + ", ".join(rtref(t, L) for t in s[4]))
    elif s[0] == "delete" and s[3]:
        d.update(graft="delete_using", sql2="SELECT 1 FROM " + ", ".join(rtref(t, L) for t in s[3]))
    elif s[0] == "merge" and s[2][0] == "tsub":
        d.update(graft="merge_source", sql2="SELECT 1 FROM " + rtref(s[2], L))
    return d


# ------------------------------------------------------------------------------------------------
# Coq terms (type mstmt of Model/QRef.v)

def cs(s):
    return '"' + s.replace('"', '""') + '"'


def cname(n):
    return "(mkName %s eq_refl)" % cs(n)


def ctn(n):
    return "(mkT %s eq_refl)" % cs(n)


def chain(nil, cons, xs):
    out = nil
    for x in reversed(xs):
        out = "(%s %s %s)" % (cons, x, out)
    return out


def copt(e):
    return "ONone" if e is None else "(OSome %s)" % cexpr(e)


def cexprs(l):
    return chain("ENil", "ECons", [cexpr(e) for e in l])


def cexpr(e):
    k = e[0]
    if k == "col":
        return "(MCol %s %s)" % (cs(e[1]), cname(e[2]))
    if k == "star":
        return "(MStar %s)" % cs(e[1])
    if k == "lit":
        return "(MLit %s %s)" % (cs(e[1]), cs(e[2]))
    if k == "niladic":
        return "(MNiladic %s)" % cname(e[1])
    if k == "bin":
        return "(MBin %s %s %s)" % (cs(e[1]), cexpr(e[2]), cexpr(e[3]))
    if k == "un":
        return "(MUn %s %s)" % (cs(e[1]), cexpr(e[2]))
    if k == "func":
        return "(MFunc %s %s)" % (cname(e[1]), cexprs(e[2]))
    if k == "case":
        ws = chain("WNil", "WCons", ["%s %s" % (cexpr(c), cexpr(r)) for c, r in e[2]])
        return "(MCase %s %s %s)" % (copt(e[1]), ws, copt(e[3]))
    if k == "in":
        return "(MIn %s %s)" % (cexpr(e[1]), cexprs(e[2]))
    if k == "insub":
        return "(MInSub %s %s)" % (cexpr(e[1]), coq_stmt(e[2]))
    if k == "between":
        return "(MBetween %s %s %s)" % (cexpr(e[1]), cexpr(e[2]), cexpr(e[3]))
    if k == "exists":
        return "(MExists %s)" % coq_stmt(e[1])
    if k == "sub":
        return "(MSub %s)" % coq_stmt(e[1])
    if k == "cast":
        return "(MCast %s %s)" % (cexpr(e[1]), cs(e[2]))
    raise ValueError(k)


def ctref(t):
    if t[0] == "tname":
        return "(TName %s %s)" % (ctn(t[1]), cs(t[2]))
    return "(TSub %s %s)" % (coq_stmt(t[1]), cs(t[2]))


def ctrefs(l):
    return chain("TNil", "TCons", [ctref(t) for t in l])


def cctes(ct):
    return chain("CNil", "CCons", ["%s [%s] %s" % (cname(n), "; ".join(cs(c) for c in cols), coq_stmt(s)) for n, cols, s in ct])


def coq_stmt(s):
    k = s[0]
    if k == "select":
        _, ct, its, frm, joins, wh, gb, hv, ob = s
        return "(MSelect %s %s %s %s %s %s %s %s)" % (
            cctes(ct), chain("INil", "ICons", ["%s %s" % (cexpr(e), cs(al)) for e, al in its]), ctrefs(frm),
            chain("JNil", "JCons", ["%s %s %s" % (cs(jt), ctref(t), copt(c)) for _, jt, t, c in joins]),
            copt(wh), cexprs(gb), copt(hv), cexprs(ob))
    if k == "setop":
        return "(MSetOp %s %s %s)" % (cs(s[1]), coq_stmt(s[3]), coq_stmt(s[4]))
    if k == "insertv":
        return "(MInsertV %s %s %s %s)" % (cctes(s[1]), ctn(s[2]), cexprs(s[3]), cexprs(s[4]))
    if k == "insertq":
        return "(MInsertQ %s %s %s %s)" % (cctes(s[1]), ctn(s[2]), cexprs(s[3]), coq_stmt(s[4]))
    if k == "update":
        asg = chain("ANil", "ACons", ["%s %s" % (cexpr(c), cexpr(v)) for c, v in s[3]])
        return "(MUpdate %s %s %s %s %s)" % (cctes(s[1]), ctn(s[2]), asg, ctrefs(s[4]), copt(s[5]))
    if k == "delete":
        return "(MDelete %s %s %s %s)" % (cctes(s[1]), ctn(s[2]), ctrefs(s[3]), copt(s[4]))
    if k == "merge":
        ws = "MWNil"
        for w in reversed(s[4]):
            if w[0] == "wupdate":
                sets = chain("SNil", "SCons", ["%s %s" % (cname(col), cexpr(v)) for col, v in w[2]])
                ws = "(MWUpdate %s %s %s)" % (copt(w[1]), sets, ws)
            elif w[0] == "winsert":
                ws = "(MWInsert %s [%s] %s %s)" % (copt(w[1]), "; ".join(cname(c) for c in w[2]), cexprs(w[3]), ws)
            else:
                ws = "(MWDelete %s %s)" % (copt(w[1]), ws)
        return "(MMerge %s %s %s %s)" % (ctref(s[1]), ctref(s[2]), cexpr(s[3]), ws)
    if k in ("createview", "creatematview"):
        return "(%s %s [%s] %s)" % ("MCreateView" if k == "createview" else "MCreateMView", ctn(s[2]),
                                    "; ".join(cs(c) for c in s[3]), coq_stmt(s[4]))
    if k == "explain":
        return "(MExplain %s)" % coq_stmt(s[2])
    if k == "createindex":
        return "(MCreateIndex %s %s [%s] %s)" % (ctn(s[2]), ctn(s[3]), "; ".join(cname(c) for c, _ in s[4]), copt(s[5]))
    if k == "createtable":
        defs = "DNil"
        for n, ty, cons in reversed(s[3]):
            cc = "XNil"
            for c in reversed(cons):
                if c[0] == "plain":
                    cc = "(XPlain %s %s)" % (cs(c[1]), cc)
                elif c[0] == "default":
                    cc = "(XDefault %s %s)" % (cexpr(c[1]), cc)
                else:
                    cc = "(XCheck %s %s)" % (cexpr(c[1]), cc)
            defs = "(DCons %s %s %s %s)" % (cname(n), cs(ty), cc, defs)
        tcs = "YNil"
        for c in reversed(s[4]):
            if c[0] == "plain":
                tcs = "(YPlain %s [%s] %s)" % (cs(c[1]), "; ".join(cs(x) for x in c[2]), tcs)
            else:
                tcs = "(YCheck %s %s)" % (cexpr(c[1]), tcs)
        return "(MCreateTable %s %s %s)" % (ctn(s[2]), defs, tcs)
    raise ValueError(k)


# ------------------------------------------------------------------------------------------------
# deep / wide shapes for the cost bound

def union_chain(k):
    s = ("select", [], [(("col", "", "a"), "")], [("tname", "t1", "")], [], None, [], None, [])
    for i in range(k):
        r = ("select", [], [(("col", "", "b"), "")], [("tname", TABLES[i % 5], "")], [], None, [], None, [])
        s = ("setop", "UNION", False, s, r)
    return s


def cte_nest(k):
    s = ("select", [], [(("col", "", "a"), "")], [("tname", "t1", "")], [], None, [], None, [])
    for i in range(k):
        s = ("select", [("cte1", [], s)], [(("col", "", "a"), "")], [("tname", "cte1", "")], [], None, [], None, [])
    return s


def derived_join_nest(k):
    s = ("select", [], [(("col", "", "a"), "")], [("tname", "t1", "")], [], None, [], None, [])
    for i in range(k):
        s = ("select", [], [(("col", "", "a"), "")], [("tsub", s, "zal%d" % (i % 8 + 1))],
             [("JOIN", "INNER", ("tname", TABLES[i % 5], ""), ("bin", "=", ("col", "", "a"), ("col", "", "b")))], None, [], None, [])
    return s


# ------------------------------------------------------------------------------------------------
# flat operator chains: nothing nests in the text, the tree has one level per operand (the parser reads the chain in
# a loop and builds it left-deep; no nesting limit applies); what is written in the FIRST operands sits deepest

def _sel(items, frm, wh=None, gb=(), hv=None):
    return ("select", [], [(e, "") for e in items], list(frm), [], wh, list(gb), hv, [])


def left_chain(op, operands):
    e = operands[0]
    for x in operands[1:]:
        e = ("bin", op, e, x)
    return e


def flat_chain(kind, k, head=None):
    """a statement whose tree is k levels deep without any nesting in its text.  head: the first operands (default:
    operands with names of their own: a function call, distinct columns, a schema-qualified table)"""
    c = lambda n: ("col", "", n)
    n = lambda v: ("lit", str(v), "int", str(v))
    if kind in ("or", "and"):
        hd = head or [("bin", "=", ("func", "UPPER" if kind == "and" else "lower", [c("name")]), ("lit", "x", "string", "'x'")),
                      ("bin", "=", c("k1"), n(1))]
        tail = [("bin", "=", c("c%d" % (i % 40)), n(i)) for i in range(k)]
        return _sel([c("a")], [("tname", "t1", "")], wh=left_chain(kind.upper(), hd + tail))
    if kind in ("plus", "concat"):
        op = "+" if kind == "plus" else "||"
        hd = head or [("func", "f" if kind == "plus" else "g", [c("id")]), c("amount")]
        return _sel([left_chain(op, hd + [c("c%d" % (i % 40)) for i in range(k)])], [("tname", "t1", "")])
    if kind == "union_all":
        hd = head or [_sel([c("k1")], [("tname", "s1.t4", "")]), _sel([c("Price")], [("tname", "s2.t5", "")])]
        s = hd[0]
        for r in hd[1:] + [_sel([c("c%d" % (i % 40))], [("tname", TABLES[i % 5], "")]) for i in range(k)]:
            s = ("setop", "UNION", True, s, r)
        return s
    raise ValueError(kind)


CHAIN_KINDS = ["or", "and", "plus", "concat", "union_all"]


def layouts(rng):
    return [PLAIN,
            Layout(rng, "lower", " ", 0.0, False),
            Layout(rng, "mixed", "x", 0.5, True),
            Layout(rng, "upper", "x", 1.0, True)]
