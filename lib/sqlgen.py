"""SQL inputs for the checks: the repository's own corpus, /verif/corpus, and generated statements."""
import glob, os, random, re
from common import REPO, ROOT


def split_statements(text):
    """split on semicolons that are outside quotes and comments (good enough for corpus files)"""
    out, cur, i, n = [], [], 0, len(text)
    while i < n:
        c = text[i]
        if c in "'\"`":
            j = i + 1
            while j < n:
                if text[j] == c:
                    if j + 1 < n and text[j + 1] == c:
                        j += 2; continue
                    break
                if text[j] == "\\" and c == "'":
                    j += 1
                j += 1
            cur.append(text[i:j + 1]); i = j + 1
        elif text.startswith("--", i):
            j = text.find("\n", i)
            j = n if j < 0 else j
            cur.append(text[i:j]); i = j
        elif text.startswith("/*", i):
            j = text.find("*/", i + 2)
            j = n if j < 0 else j + 2
            cur.append(text[i:j]); i = j
        elif c == ";":
            s = "".join(cur).strip()
            if s:
                out.append(s)
            cur = []; i += 1
        else:
            cur.append(c); i += 1
    s = "".join(cur).strip()
    if s:
        out.append(s)
    return out


def corpus_files():
    fs = sorted(glob.glob(os.path.join(REPO, "testdata", "**", "*.sql"), recursive=True))
    fs += sorted(glob.glob(os.path.join(ROOT, "corpus", "sql", "*.sql")))
    return fs


def corpus_statements(limit=None):
    seen, out = set(), []
    for f in corpus_files():
        try:
            txt = open(f, encoding="utf-8", errors="replace").read()
        except OSError:
            continue
        for s in split_statements(txt):
            if s not in seen and len(s) < 20000:
                seen.add(s); out.append(s)
    return out[:limit] if limit else out


# ------------------------------------------------------------------------------------------------
# model-grammar statement generator.  Expressions are tuples; render() is precedence aware and can add
# redundant parentheses.  Every statement records the names it places (tables, columns, functions).

TABLES = ["users", "orders", "t1", "t2", "items", "accounts", "emp", "dept", "sales", "log_entries"]
SCHEMAS = ["public", "app", "s1"]
COLS = ["id", "name", "a", "b", "c", "amount", "created_at", "status", "dept_id", "price", "qty", "email"]
FUNCS = ["COUNT", "SUM", "AVG", "MIN", "MAX", "UPPER", "LOWER", "COALESCE", "LENGTH", "ABS", "ROUND", "CONCAT", "NULLIF"]
WINFUNCS = ["ROW_NUMBER", "RANK", "DENSE_RANK", "SUM", "AVG", "LAG", "LEAD", "COUNT"]
TYPES = ["INT", "INTEGER", "VARCHAR(50)", "TEXT", "DECIMAL(10,2)", "BOOLEAN", "DATE", "TIMESTAMP", "BIGINT"]
CMP = ["=", "<>", "<", ">", "<=", ">=", "!="]
PREC = {"OR": 1, "AND": 2, "NOT": 3, "=": 4, "<>": 4, "!=": 4, "<": 4, ">": 4, "<=": 4, ">=": 4,
        "||": 5, "+": 6, "-": 6, "*": 7, "/": 7, "%": 7}


class Names:
    def __init__(self):
        self.tables, self.qtables, self.columns, self.qcolumns, self.functions = set(), set(), set(), set(), set()
        self.aliases, self.ctes = set(), set()


class Gen:
    def __init__(self, rng, safe=True, maxdepth=3):
        self.rng, self.safe, self.maxdepth = rng, safe, maxdepth
        self.names = Names()
        self.alias_n = 0

    # -------------------------------------------------------------- expressions
    def lit(self):
        r = self.rng
        k = r.randrange(6)
        if k == 0: return ("lit", "int", str(r.choice([0, 1, 2, 7, 10, 42, 100, 2024])))
        if k == 1: return ("lit", "float", r.choice(["1.5", "0.25", "3.14", "100.0"]))
        if k == 2: return ("lit", "str", r.choice(["'x'", "'hello'", "'it''s'", "'2024-01-01'", "'a b'", "''", "'active'"]))
        if k == 3: return ("lit", "null", "NULL")
        if k == 4: return ("lit", "bool", r.choice(["TRUE", "FALSE"]))
        return ("lit", "int", str(r.randrange(1000)))

    def col(self, tabs=None):
        r = self.rng
        c = r.choice(COLS)
        if tabs and r.random() < 0.4:
            t = r.choice(tabs)
            self.names.columns.add(c); self.names.qcolumns.add((t, c))
            return ("col", t, c)
        self.names.columns.add(c); self.names.qcolumns.add(("", c))
        return ("col", "", c)

    def expr(self, d=0, tabs=None, boolean=False, allow_sub=True):
        r = self.rng
        if d >= self.maxdepth:
            return self.col(tabs) if r.random() < 0.6 else self.lit()
        if boolean:
            k = r.choice(["cmp", "cmp", "cmp", "and", "or", "not", "isnull", "in", "between", "like", "exists", "insub", "paren"])
        else:
            k = r.choice(["col", "col", "lit", "arith", "arith", "func", "case", "cast", "subq", "concat", "paren"])
        if k in ("exists", "insub", "subq") and (not allow_sub or d >= self.maxdepth - 1):
            k = "cmp" if boolean else "col"
        if k == "col": return self.col(tabs)
        if k == "lit": return self.lit()
        if k == "paren": return ("paren", self.expr(d + 1, tabs, boolean, allow_sub))
        if k == "arith":
            return ("bin", r.choice(["+", "-", "*", "/", "%"]), self.expr(d + 1, tabs), self.expr(d + 1, tabs))
        if k == "concat":
            return ("bin", "||", self.expr(d + 1, tabs), self.expr(d + 1, tabs))
        if k == "cmp":
            return ("bin", r.choice(CMP), self.expr(d + 1, tabs), self.expr(d + 1, tabs))
        if k == "and": return ("bin", "AND", self.expr(d + 1, tabs, True, allow_sub), self.expr(d + 1, tabs, True, allow_sub))
        if k == "or": return ("bin", "OR", self.expr(d + 1, tabs, True, allow_sub), self.expr(d + 1, tabs, True, allow_sub))
        if k == "not": return ("not", self.expr(d + 1, tabs, True, allow_sub))
        if k == "isnull": return ("isnull", self.expr(d + 2, tabs), r.random() < 0.5)
        if k == "in":
            return ("in", self.expr(d + 2, tabs), [self.lit() for _ in range(r.randrange(1, 4))], r.random() < 0.3)
        if k == "insub":
            return ("insub", self.expr(d + 2, tabs), self.select(d + 2, simple=True), r.random() < 0.3)
        if k == "between":
            return ("between", self.expr(d + 2, tabs), self.lit(), self.lit(), r.random() < 0.3)
        if k == "like":
            return ("like", self.col(tabs), ("lit", "str", r.choice(["'a%'", "'%x%'", "'_b'"])), r.random() < 0.3, r.choice(["LIKE", "LIKE", "ILIKE"]))
        if k == "exists": return ("exists", self.select(d + 2, simple=True))
        if k == "subq": return ("subq", self.select(d + 2, simple=True, scalar=True))
        if k == "func":
            f = r.choice(FUNCS)
            self.names.functions.add(f)
            if f == "COUNT" and r.random() < 0.4:
                return ("func", f, [("star",)], False)
            n = 2 if f in ("COALESCE", "CONCAT", "NULLIF", "ROUND") else 1
            return ("func", f, [self.expr(d + 1, tabs) for _ in range(n)], f in ("COUNT", "SUM") and r.random() < 0.2)
        if k == "case":
            whens = [(self.expr(d + 1, tabs, True, False), self.expr(d + 1, tabs)) for _ in range(r.randrange(1, 3))]
            els = self.expr(d + 1, tabs) if r.random() < 0.6 else None
            return ("case", None, whens, els)
        if k == "cast":
            return ("cast", self.expr(d + 1, tabs), r.choice(["INT", "VARCHAR(20)", "DECIMAL(10,2)", "TEXT", "DATE"]))
        return self.col(tabs)

    def prec(self, e):
        k = e[0]
        if k == "bin": return PREC[e[1]]
        if k == "not": return 3
        if k in ("isnull", "in", "insub", "between", "like"): return 4
        return 9

    def render(self, e, redundant=0.0):
        r = self.rng
        s = self._r(e, redundant)
        return s

    def _wrap(self, e, minprec, redundant):
        s = self._r(e, redundant)
        if self.prec(e) < minprec or (redundant and self.rng.random() < redundant and e[0] != "star"):
            return "(" + s + ")"
        return s

    def _r(self, e, rd):
        k = e[0]
        if k == "col": return (e[1] + "." if e[1] else "") + e[2]
        if k == "lit": return e[2]
        if k == "star": return "*"
        if k == "paren": return "(" + self._r(e[1], rd) + ")"
        if k == "bin":
            op, p = e[1], PREC[e[1]]
            l = self._wrap(e[2], p, rd)
            # right operand: left associativity => needs strictly higher precedence
            rp = p + 1
            if self.safe and p == 4:
                rp = 9  # the pinned parser reads the right operand of a comparison at primary level
            rr = self._wrap(e[3], rp, rd)
            return "%s %s %s" % (l, op, rr)
        if k == "not": return "NOT " + self._wrap(e[1], 3 if not self.safe else 4, rd)
        if k == "isnull": return self._wrap(e[1], 5, rd) + (" IS NOT NULL" if e[2] else " IS NULL")
        if k == "in":
            return "%s %sIN (%s)" % (self._wrap(e[1], 5, rd), "NOT " if e[3] else "", ", ".join(self._r(x, rd) for x in e[2]))
        if k == "insub":
            return "%s %sIN (%s)" % (self._wrap(e[1], 5, rd), "NOT " if e[3] else "", e[2])
        if k == "between":
            return "%s %sBETWEEN %s AND %s" % (self._wrap(e[1], 5, rd), "NOT " if e[4] else "", self._r(e[2], rd), self._r(e[3], rd))
        if k == "like":
            return "%s %s%s %s" % (self._r(e[1], rd), "NOT " if e[3] else "", e[4], self._r(e[2], rd))
        if k == "exists": return "EXISTS (%s)" % e[1]
        if k == "subq": return "(%s)" % e[1]
        if k == "func":
            return "%s(%s%s)" % (e[1], "DISTINCT " if e[3] else "", ", ".join(self._r(a, rd) for a in e[2]))
        if k == "case":
            s = "CASE"
            for c, v in e[2]:
                s += " WHEN %s THEN %s" % (self._r(c, rd), self._r(v, rd))
            if e[3] is not None:
                s += " ELSE " + self._r(e[3], rd)
            return s + " END"
        if k == "cast": return "CAST(%s AS %s)" % (self._r(e[1], rd), e[2])
        raise ValueError(k)

    # -------------------------------------------------------------- statements
    def table(self, qualified_ok=True):
        r = self.rng
        t = r.choice(TABLES)
        if qualified_ok and r.random() < 0.15:
            s = r.choice(SCHEMAS)
            self.names.tables.add(s + "." + t); self.names.qtables.add((s, t))
            return s + "." + t
        self.names.tables.add(t); self.names.qtables.add(("", t))
        return t

    def alias(self):
        self.alias_n += 1
        a = "x%d" % self.alias_n
        self.names.aliases.add(a)
        return a

    def select(self, d=0, simple=False, scalar=False, rd=0.0):
        r = self.rng
        parts = ["SELECT"]
        if not simple and r.random() < 0.15:
            parts.append("DISTINCT")
        # FROM first (so that columns can be qualified)
        froms, quals = [], []
        nfrom = 1 if simple or r.random() < 0.8 else 2
        for _ in range(nfrom):
            if not simple and d < self.maxdepth - 1 and r.random() < 0.12:
                a = self.alias()
                froms.append("(%s) AS %s" % (self.select(d + 1, simple=True), a)); quals.append(a)
            else:
                t = self.table()
                if r.random() < 0.4:
                    a = self.alias()
                    froms.append(t + (" AS " if r.random() < 0.5 else " ") + a); quals.append(a)
                else:
                    froms.append(t)
                    if "." not in t: quals.append(t)
        joins = []
        if not simple and r.random() < 0.4:
            for _ in range(r.randrange(1, 3)):
                jt = r.choice(["JOIN", "INNER JOIN", "LEFT JOIN", "RIGHT JOIN", "FULL JOIN", "LEFT OUTER JOIN", "CROSS JOIN"])
                t = self.table()
                a = self.alias() if r.random() < 0.5 else None
                ref = t + (" " + a if a else "")
                q2 = a or (t if "." not in t else None)
                if q2: quals.append(q2)
                if jt == "CROSS JOIN":
                    joins.append("%s %s" % (jt, ref))
                elif r.random() < 0.2:
                    c = r.choice(COLS); self.names.columns.add(c); self.names.qcolumns.add(("", c))
                    joins.append("%s %s USING (%s)" % (jt, ref, c))
                else:
                    joins.append("%s %s ON %s" % (jt, ref, self._r(self.expr(self.maxdepth - 1, quals, True, False), rd)))
        tabs = quals or None
        ncols = 1 if scalar else r.randrange(1, 4)
        cols = []
        for i in range(ncols):
            if not scalar and r.random() < 0.1:
                cols.append("*"); continue
            e = self.expr(d + 1, tabs, allow_sub=not simple)
            s = self._r(e, rd)
            if not scalar and not simple and r.random() < 0.1:
                wf = r.choice(WINFUNCS); self.names.functions.add(wf)
                arg = "" if wf in ("ROW_NUMBER", "RANK", "DENSE_RANK") else self._r(self.col(tabs), rd)
                over = []
                if r.random() < 0.6: over.append("PARTITION BY " + self._r(self.col(tabs), rd))
                if r.random() < 0.8 or not over: over.append("ORDER BY " + self._r(self.col(tabs), rd) + r.choice(["", " DESC", " ASC"]))
                if r.random() < 0.3 and "ORDER BY" in " ".join(over):
                    over.append(r.choice(["ROWS BETWEEN UNBOUNDED PRECEDING AND CURRENT ROW", "ROWS BETWEEN 1 PRECEDING AND 1 FOLLOWING",
                                          "RANGE BETWEEN UNBOUNDED PRECEDING AND UNBOUNDED FOLLOWING", "ROWS 2 PRECEDING"]))
                s = "%s(%s) OVER (%s)" % (wf, arg, " ".join(over))
            if not scalar and r.random() < 0.3:
                s += " AS " + self.alias()
            cols.append(s)
        parts.append(", ".join(cols))
        parts.append("FROM " + ", ".join(froms))
        parts += joins
        if r.random() < 0.6:
            parts.append("WHERE " + self._r(self.expr(d + 1, tabs, True, allow_sub=not simple), rd))
        if not scalar and r.random() < 0.25:
            gk = r.random()
            gcols = ", ".join(self._r(self.col(tabs), rd) for _ in range(r.randrange(1, 3)))
            if gk < 0.8 or simple: parts.append("GROUP BY " + gcols)
            elif gk < 0.87: parts.append("GROUP BY ROLLUP(%s)" % gcols)
            elif gk < 0.94: parts.append("GROUP BY CUBE(%s)" % gcols)
            else: parts.append("GROUP BY GROUPING SETS ((%s), ())" % gcols)
            if r.random() < 0.4:
                f = r.choice(["COUNT", "SUM", "MAX"]); self.names.functions.add(f)
                parts.append("HAVING %s(%s) > %s" % (f, "*" if f == "COUNT" else self._r(self.col(tabs), rd), r.randrange(10)))
        if not scalar and r.random() < 0.3:
            obs = []
            for _ in range(r.randrange(1, 3)):
                obs.append(self._r(self.col(tabs), rd) + r.choice(["", " ASC", " DESC"]) + r.choice(["", "", " NULLS FIRST", " NULLS LAST"]))
            parts.append("ORDER BY " + ", ".join(obs))
        if not scalar and r.random() < 0.25:
            parts.append("LIMIT %d" % r.randrange(1, 100))
            if r.random() < 0.4:
                parts.append("OFFSET %d" % r.randrange(0, 50))
        return " ".join(parts)

    def query(self, d=0, rd=0.0):
        r = self.rng
        s = self.select(d, rd=rd)
        if r.random() < 0.12:
            s = s + " " + r.choice(["UNION", "UNION ALL", "EXCEPT", "INTERSECT"]) + " " + self.select(d, simple=True)
        if r.random() < 0.12:
            n = r.randrange(1, 3)
            ctes = []
            for i in range(n):
                c = "cte%d" % (i + 1); self.names.ctes.add(c)
                ctes.append("%s AS (%s)" % (c, self.select(d + 1, simple=True)))
            s = "WITH " + ("RECURSIVE " if r.random() < 0.1 else "") + ", ".join(ctes) + " " + s
        return s

    def insert(self):
        r = self.rng
        t = self.table()
        n = r.randrange(1, 4)
        cols = r.sample(COLS, n)
        s = "INSERT INTO %s (%s) " % (t, ", ".join(cols))
        for c in cols:
            self.names.columns.add(c); self.names.qcolumns.add(("", c))
        if r.random() < 0.7:
            rows = ["(" + ", ".join(self._r(self.lit(), 0) for _ in cols) + ")" for _ in range(r.randrange(1, 3))]
            s += "VALUES " + ", ".join(rows)
        else:
            s += self.select(1, simple=True)
        if r.random() < 0.15:
            c = cols[0]
            s += " ON CONFLICT (%s) DO " % c + ("NOTHING" if r.random() < 0.5 else "UPDATE SET %s = %s" % (cols[-1], self._r(self.lit(), 0)))
        if r.random() < 0.15:
            s += " RETURNING " + cols[0]
        return s

    def update(self):
        r = self.rng
        t = self.table()
        sets = []
        for c in r.sample(COLS, r.randrange(1, 3)):
            self.names.columns.add(c); self.names.qcolumns.add(("", c))
            e = self.expr(self.maxdepth - 1)
            # the pinned parser reads an assignment value at primary level
            sets.append("%s = %s" % (c, self._wrap(e, 9 if self.safe else 0, 0)))
        s = "UPDATE %s SET %s" % (t, ", ".join(sets))
        if r.random() < 0.8:
            s += " WHERE " + self._r(self.expr(1, None, True), 0)
        if r.random() < 0.1:
            s += " RETURNING " + self._r(self.col(), 0)
        return s

    def delete(self):
        r = self.rng
        s = "DELETE FROM " + self.table()
        if r.random() < 0.85:
            s += " WHERE " + self._r(self.expr(1, None, True), 0)
        return s

    def merge(self):
        r = self.rng
        t, s2 = self.table(False), self.table(False)
        a, b = self.alias(), self.alias()
        c1, c2 = r.sample(COLS, 2)
        for c in (c1, c2):
            self.names.columns.add(c)
        self.names.qcolumns.add((a, c1)); self.names.qcolumns.add((b, c1)); self.names.qcolumns.add((b, c2)); self.names.qcolumns.add(("", c2)); self.names.qcolumns.add(("", c1))
        s = "MERGE INTO %s %s USING %s %s ON %s.%s = %s.%s" % (t, a, s2, b, a, c1, b, c1)
        s += " WHEN MATCHED THEN UPDATE SET %s = %s.%s" % (c2, b, c2)
        if r.random() < 0.7:
            s += " WHEN NOT MATCHED THEN INSERT (%s, %s) VALUES (%s.%s, %s.%s)" % (c1, c2, b, c1, b, c2)
        return s

    def ddl(self):
        r = self.rng
        k = r.randrange(7)
        t = self.table(False)
        if k == 0:
            cols = []
            for c in r.sample(COLS, r.randrange(1, 5)):
                cd = "%s %s" % (c, r.choice(TYPES))
                cd += r.choice(["", "", " NOT NULL", " PRIMARY KEY", " UNIQUE", " DEFAULT 0"])
                cols.append(cd)
            return "CREATE TABLE %s (%s)" % (t, ", ".join(cols))
        if k == 1: return "CREATE %sINDEX idx_%s ON %s (%s)" % ("UNIQUE " if r.random() < 0.3 else "", r.randrange(100), t, r.choice(COLS))
        if k == 2: return "CREATE VIEW v_%d AS %s" % (r.randrange(100), self.select(1, simple=True))
        if k == 3: return "DROP TABLE %s%s" % ("IF EXISTS " if r.random() < 0.5 else "", t)
        if k == 4: return "TRUNCATE TABLE " + t
        if k == 5: return "ALTER TABLE %s ADD COLUMN %s %s" % (t, r.choice(COLS), r.choice(TYPES))
        return "ALTER TABLE %s DROP COLUMN %s" % (t, r.choice(COLS))

    def statement(self):
        r = self.rng
        k = r.random()
        if k < 0.55: return "query", self.query()
        if k < 0.67: return "insert", self.insert()
        if k < 0.77: return "update", self.update()
        if k < 0.85: return "delete", self.delete()
        if k < 0.89: return "merge", self.merge()
        return "ddl", self.ddl()


def generated(rng, n, safe=True, maxdepth=3):
    """list of (kind, sql, Names)"""
    out = []
    for _ in range(n):
        g = Gen(rng, safe=safe, maxdepth=rng.choice([2, 3, 3, 4]) if maxdepth is None else maxdepth)
        kind, sql = g.statement()
        out.append((kind, sql, g.names))
    return out


def generated_statements(rng, n, safe=True):
    return [s for _, s, _ in generated(rng, n, safe=safe, maxdepth=None)]


def deep_statements(tier="quick"):
    """shapes with unusually tall or wide trees (the parser builds operator chains iteratively, so tree
    height is not bounded by the nesting limit)"""
    ns = [150, 400, 1200] if tier == "quick" else [150, 400, 1200, 5000, 20000]
    out = []
    for n in ns:
        out.append("SELECT * FROM t WHERE a IN (SELECT k FROM first_t) OR " + " OR ".join("c%d = %d" % (i, i) for i in range(n)))
        out.append("SELECT * FROM t WHERE x0 = 0 AND " + " AND ".join("c%d > %d" % (i, i) for i in range(n)))
        out.append("SELECT " + " + ".join("c%d" % i for i in range(n)) + " FROM t")
        out.append("SELECT " + " || ".join("'s%d'" % i for i in range(n)) + " FROM t")
        out.append("SELECT " + ", ".join("c%d" % i for i in range(n)) + " FROM t")
        out.append("SELECT a FROM t UNION ALL " + " UNION ALL ".join("SELECT c%d FROM t%d" % (i, i) for i in range(min(n, 12))))
    for d in [10, 40, 80]:
        s = "SELECT 1 FROM inner_t"
        for i in range(d):
            s = "SELECT 1 FROM t%d WHERE NOT EXISTS (%s)" % (i, s)
        out.append(s)
        s = "SELECT x FROM base_t"
        for i in range(d):
            s = "SELECT x FROM (%s) AS d%d" % (s, i)
        out.append(s)
        out.append("SELECT " + "(" * d + "a" + ")" * d + " FROM t")
        out.append("SELECT " + "f(" * d + "a" + ")" * d + " FROM t")
        s = "a"
        for i in range(d):
            s = "CASE WHEN %s THEN 1 ELSE 0 END" % s
        out.append("SELECT " + s + " FROM t")
    return out


SPECIAL = [
    "ALTER TABLE accounts ALTER COLUMN balance TYPE NUMERIC DEFAULT f(10) CHECK (balance <= (SELECT max_balance FROM limits))",
    "ALTER TABLE t ADD COLUMN c INT DEFAULT g(1) CHECK (c > (SELECT MIN(d) FROM u))",
    "WITH x AS (DELETE FROM t WHERE a = 1 RETURNING a, b) SELECT a FROM x WHERE b IN (SELECT c FROM u)",
    "WITH ins AS (INSERT INTO t (a) VALUES (1) RETURNING a), upd AS (UPDATE u SET b = f(c) WHERE d = 2 RETURNING b) SELECT * FROM ins, upd",
    "SELECT STRING_AGG(name, ',' ORDER BY k1, k2 DESC, (SELECT MAX(p) FROM priorities)) FROM t",
    "SELECT PERCENTILE_CONT(0.5) WITHIN GROUP (ORDER BY a, b) FROM t",
    "SELECT COUNT(*) FILTER (WHERE a > 1), SUM(b) OVER (PARTITION BY c, d ORDER BY e, f ROWS BETWEEN 2 PRECEDING AND 3 FOLLOWING) FROM t WINDOW w AS (PARTITION BY a ORDER BY b)",
    "SELECT a[1], b[2:3], c[1][2], ARRAY[1, 2, (SELECT 3)], (1, 2, 3), ROW(1, 2) FROM t",
    "SELECT * FROM t WHERE (a, b) IN ((1, 2), (3, 4)) AND c = ANY (SELECT d FROM u) AND e > ALL (SELECT f FROM v)",
    "SELECT EXTRACT(YEAR FROM d), POSITION('a' IN s), SUBSTRING(s FROM 1 FOR 2), CAST(a AS INT), a::text, INTERVAL '1 day' FROM t",
    "SELECT * FROM a JOIN b ON a.x = b.x LEFT JOIN (SELECT * FROM c WHERE c.y IN (SELECT y FROM d)) AS cc ON cc.x = a.x, LATERAL (SELECT 1) AS l",
    "INSERT INTO t (a, b) VALUES (1, (SELECT 2)), (3, 4) ON CONFLICT (a) DO UPDATE SET b = EXCLUDED.b, a = 1 WHERE t.a > 0 RETURNING a, b",
    "INSERT INTO t (a) SELECT x FROM u WHERE x IN (SELECT y FROM v) ON DUPLICATE KEY UPDATE a = 1, b = 2",
    "UPDATE t SET a = 1, b = (SELECT MAX(c) FROM u) FROM v WHERE t.id = v.id AND EXISTS (SELECT 1 FROM w) RETURNING a",
    "DELETE FROM t USING u WHERE t.id = u.id AND t.x IN (SELECT x FROM v) RETURNING t.id",
    "MERGE INTO tgt t USING (SELECT * FROM src WHERE a IN (SELECT a FROM z)) s ON t.id = s.id WHEN MATCHED AND s.x > 1 THEN UPDATE SET a = s.a, b = s.b WHEN NOT MATCHED THEN INSERT (id, a) VALUES (s.id, s.a) WHEN MATCHED THEN DELETE",
    "WITH RECURSIVE r (n) AS (SELECT 1 UNION ALL SELECT n + 1 FROM r WHERE n < 5), s AS MATERIALIZED (SELECT * FROM r) SELECT * FROM s ORDER BY n DESC NULLS LAST LIMIT 3 OFFSET 1",
    "SELECT a FROM t GROUP BY ROLLUP(a, b), CUBE(c, d), GROUPING SETS ((a, b), (c), ()) HAVING COUNT(*) > 1 AND MAX(e) < 5",
    "SELECT DISTINCT ON (a, b) a, b, c FROM t ORDER BY a, b FETCH FIRST 5 ROWS ONLY",
    "SELECT * FROM t FOR UPDATE OF t SKIP LOCKED",
    "CREATE TABLE t (id INT PRIMARY KEY, a VARCHAR(10) NOT NULL DEFAULT 'x' CHECK (a <> ''), b INT REFERENCES u (id) ON DELETE CASCADE, CONSTRAINT c1 UNIQUE (a, b), FOREIGN KEY (b) REFERENCES v (id), CHECK (id > 0 AND b IN (1, 2))) ",
    "CREATE TABLE p (id INT, d DATE) PARTITION BY RANGE (d)",
    "CREATE MATERIALIZED VIEW mv AS SELECT a, COUNT(*) FROM t WHERE b IN (SELECT b FROM u) GROUP BY a",
    "CREATE VIEW v (x, y) AS SELECT a, b FROM t UNION SELECT c, d FROM u",
    "CREATE UNIQUE INDEX CONCURRENTLY IF NOT EXISTS i ON t USING btree (a DESC, b) WHERE a > 0",
    "ALTER TABLE t ADD COLUMN c INT NOT NULL DEFAULT 0",
    "ALTER TABLE t DROP COLUMN IF EXISTS c CASCADE",
    "ALTER TABLE t RENAME COLUMN a TO b",
    "ALTER TABLE t RENAME TO u",
    "ALTER TABLE t ADD CONSTRAINT fk FOREIGN KEY (a) REFERENCES u (id)",
    "ALTER TABLE t DROP CONSTRAINT fk",
    "ALTER TABLE t ALTER COLUMN a SET DEFAULT 5",
    "TRUNCATE TABLE a, b RESTART IDENTITY CASCADE",
    "DROP TABLE IF EXISTS a, b CASCADE",
    "REFRESH MATERIALIZED VIEW CONCURRENTLY mv",
    "SELECT a FROM t WHERE b BETWEEN (SELECT MIN(x) FROM u) AND (SELECT MAX(x) FROM u) AND c LIKE 'a%' ESCAPE '\\' AND d IS NOT NULL AND NOT (e = 1)",
    "SELECT CASE a WHEN 1 THEN (SELECT x FROM u) WHEN 2 THEN 'b' ELSE (SELECT y FROM v) END FROM t",
    "SELECT t.*, u.a AS ua FROM s1.t AS t CROSS JOIN u NATURAL JOIN w FULL OUTER JOIN z USING (id, k)",
    "SELECT a -> 'k', b ->> 'k', c #> '{a,b}', d @> '{}', e ? 'k' FROM t",
    "SELECT MATCH (title, body) AGAINST ('x' IN BOOLEAN MODE) FROM articles LIMIT 10, 20",
    "REPLACE INTO t (a, b) VALUES (1, 2)",
    "SHOW TABLES",
    "DESCRIBE t",
]


def wide_statements(tier="quick"):
    """very wide parents (lists far beyond the pools' work-queue limit of 1000)"""
    out = []
    for n in ([1100, 2500] if tier == "quick" else [1100, 2500, 20000]):
        out.append("SELECT * FROM t WHERE x IN (" + ", ".join("a%d + %d" % (i, i) for i in range(n)) + ")")
        out.append("SELECT f(" + ", ".join("a%d * 2" % i for i in range(n)) + ") FROM t")
        out.append("SELECT " + ", ".join("a%d + b%d" % (i, i) for i in range(n)) + " FROM t")
        out.append("SELECT ARRAY[" + ", ".join("a%d - 1" % i for i in range(n)) + "], (" + ", ".join("c%d || 'x'" % i for i in range(n)) + ") FROM t")
        out.append("INSERT INTO t (a, b) VALUES " + ", ".join("(%d + 1, 'v%d')" % (i, i) for i in range(n)))
        out.append("SELECT CASE " + " ".join("WHEN a = %d THEN b + %d" % (i, i) for i in range(n)) + " END FROM t")
    return out
