(* C14 — Tree traversal reaches every node of every tree.
   Only statements, closed by [exact], with Print Assumptions.  The model is Model/Walk.v instantiated
   with the Children() table regenerated from the current source (Gen/ChildrenTable.v). *)
From Coq Require Import List NArith Bool.
From GV Require Import Model.Walk Proofs.WalkP Gen.ChildrenTable Inst.Inst_C14.
Import ListNotations.

(* completeness, for every tree over the regenerated type/field table: every node that is part of the
   tree — reachable through the tree's own fields, none of them a listed exception — is visited. *)
Theorem C14_walk_complete_except :
  forall t n, wf fields t -> reach known t n -> In n (walk emitted t).
Proof. exact (walk_complete_except fields emitted known cover_ok). Qed.

(* nothing that is not part of the tree is visited *)
Theorem C14_walk_sound :
  forall t n, In n (walk emitted t) -> subtree n t.
Proof. exact (walk_sound emitted). Qed.

(* Inspect with a pruning callback skips exactly the sub-trees below nodes on which it returned false *)
Theorem C14_inspect_prune :
  forall keep t n, In n (inspect emitted keep t) <-> reach_kept emitted keep t n.
Proof. exact (inspect_prune emitted). Qed.

(* each node is listed at most once per path: a traversal is linear in the tree *)
Theorem C14_walk_linear : forall t, (length (walk emitted t) <= size t)%nat.
Proof. exact (walk_length_le emitted). Qed.

Print Assumptions C14_walk_complete_except.
Print Assumptions C14_walk_sound.
Print Assumptions C14_inspect_prune.
Print Assumptions C14_walk_linear.
