(* C05 — Reported source positions point at the right characters.
   Only statements, closed by [exact], with Print Assumptions.  The model is Model/Loc.v: the line table built
   by Tokenize, toSQLPosition (tab = 4 columns, one column per byte), getLocation, the position mapping of the
   token converter and Parser.currentLocation.  [bs] is any input (any bytes), offsets are byte offsets. *)
From Coq Require Import List Arith NArith Bool.
From GV Require Import Model.Loc Proofs.LocP Model.Cost Proofs.LocCostP.
From GV Require Gen.LexTables Model.Lexer Model.Loc Proofs.LexErrLocP.
Import ListNotations.
Local Open Scope nat_scope.

(* what toSQLPosition reports for offset i, for EVERY input and offset: the line is 1 + the number of LF before
   the offset; the column is 1 + the width of the bytes between the start of that line and the offset.
   [is_line_start bs i s]: s <= i, s = 0 or bs[s-1] = LF, no LF in bs[s..i). *)
Theorem C05_loc_spec : forall bs i s, is_line_start bs i s ->
  to_loc bs i = (1 + count_lf (firstn i bs), 1 + width (slice bs s i)).
Proof. exact to_loc_spec. Qed.

Theorem C05_loc_one_based : forall bs i, 1 <= fst (to_loc bs i) /\ 1 <= snd (to_loc bs i).
Proof. exact loc_one_based. Qed.

(* never decreasing along the input (no bound on j) ... *)
Theorem C05_loc_monotone : forall bs i j, i <= j -> lex_le (to_loc bs i) (to_loc bs j).
Proof. exact loc_monotone. Qed.

(* ... strictly increasing up to the end of input: two different offsets never share a (line, column) *)
Theorem C05_loc_strict : forall bs i j, i < j -> j <= length bs -> lex_lt (to_loc bs i) (to_loc bs j).
Proof. exact loc_strict. Qed.

Theorem C05_loc_injective : forall bs i j, i <= length bs -> j <= length bs -> to_loc bs i = to_loc bs j -> i = j.
Proof. exact loc_injective. Qed.

Theorem C05_loc_injective_on_line : forall bs i j, i <= length bs -> j <= length bs ->
  fst (to_loc bs i) = fst (to_loc bs j) -> snd (to_loc bs i) = snd (to_loc bs j) -> i = j.
Proof. exact loc_injective_on_line. Qed.

(* always inside the input: the line exists, the column is at most one past the width of that line *)
Theorem C05_loc_inside : forall bs i s, is_line_start bs i s ->
  fst (to_loc bs i) <= 1 + count_lf bs /\ snd (to_loc bs i) <= 1 + width (line_bytes bs s).
Proof. exact loc_inside. Qed.

(* exact column when no tab precedes the offset on its line: 1 + byte distance from the line start
   (= 1 + number of characters on an ASCII line) *)
Theorem C05_loc_exact_ascii : forall bs i s, i <= length bs -> is_line_start bs i s ->
  count_tab (slice bs s i) = 0 -> to_loc bs i = (1 + count_lf (firstn i bs), 1 + (i - s)).
Proof. exact loc_exact_tabfree. Qed.

(* and exactly what tabs and non-ASCII characters do: each tab adds 3 extra columns, each UTF-8 continuation
   byte adds one column beyond the character count *)
Theorem C05_loc_exact_chars : forall bs i s, i <= length bs -> is_line_start bs i s ->
  snd (to_loc bs i) = 1 + count_chars (slice bs s i) + count_cont (slice bs s i) + 3 * count_tab (slice bs s i).
Proof. exact loc_exact_chars. Qed.

(* an offset past the end of input is reported as the end of input *)
Theorem C05_loc_clamped : forall bs i, length bs <= i -> to_loc bs i = to_loc bs (length bs).
Proof. exact loc_clamped. Qed.

(* the code since d9a9811 answers successive queries from a resume point (Model/Cost.v [incr_run], proved equal to the
   rescanning form for every query list in Proofs/CostP.v): started from the empty resume point Tokenize installs, it
   answers [to_loc] for every list of queried offsets in any order — all theorems of this file are about that code *)
Theorem C05_resume_point_form_is_to_loc : forall bs qs,
  fst (Cost.incr_run (line_starts bs) (wd_of bs) (length bs) Cost.lstate0 qs) = map (to_loc bs) qs.
Proof. exact incr_run_is_to_loc. Qed.

(* getLocation (exported Position.Location) agrees with toSQLPosition wherever no tab precedes on the line *)
Theorem C05_get_location_agrees : forall bs i s, i <= length bs -> is_line_start bs i s ->
  count_tab (slice bs s i) = 0 -> get_location bs i = to_loc bs i.
Proof. exact get_location_eq_to_loc. Qed.

(* any stream of elements (tokens, comments) whose byte spans are ordered — start <= end <= next start <= |bs| —
   is reported with spans that never decrease and never overlap: end of one never after the start of the next *)
Theorem C05_spans_ordered_loc : forall bs sp, spans_chain (length bs) 0 sp -> locs_chain (1, 1) (reported bs sp).
Proof. exact spans_ordered_loc. Qed.

Theorem C05_spans_one_based_strict : forall bs sp, spans_chain (length bs) 0 sp ->
  forall s e, In (s, e) sp ->
    1 <= fst (to_loc bs s) /\ 1 <= snd (to_loc bs s) /\ 1 <= fst (to_loc bs e) /\ 1 <= snd (to_loc bs e) /\
    fst (to_loc bs e) <= 1 + count_lf bs /\
    (s < e -> lex_lt (to_loc bs s) (to_loc bs e)).
Proof. exact spans_one_based_strict. Qed.

(* parser side.  With a position mapping, an error raised while the cursor is on the j-th parser token obtained
   from tokenizer token oi carries the Start of that token's (sub-)span ... *)
Theorem C05_error_at_offending_token : forall own ts oi t j, nth_error ts oi = Some t -> j < nparts t ->
  current_location (Some (conv_positions own 0 ts)) (flat_index ts oi + j) = fst (span_of own t j).
Proof. exact error_at_offending_token. Qed.

(* ... which for an ordinary token and for the first keyword of a split compound is the token's own Start *)
Theorem C05_error_at_plain_token : forall own ts oi t, nth_error ts oi = Some t ->
  current_location (Some (conv_positions own 0 ts)) (flat_index ts oi) = st_start t.
Proof. exact error_at_plain_token. Qed.

(* no token under the cursor (a production stepped over the end of input): the position of the last token, i.e. the end of
   input — inside the input, never the zero Location *)
Theorem C05_error_beyond_tokens : forall own ts cursor, flat_index ts (length ts) <= cursor ->
  current_location (Some (conv_positions own 0 ts)) cursor = last_start (conv_positions own 0 ts).
Proof. exact error_beyond_tokens. Qed.

(* split compound keywords (GROUP BY, LEFT JOIN, ...): for a two-word keyword read by the tokenizer from offsets
   [so, eo) with words of w1 and w2 bytes, the two parser tokens carry exactly the reported positions of their
   own words *)
Theorem C05_split_spans_exact : forall bs so eo w1 w2,
  so + w1 <= eo - w2 -> w2 <= eo -> plain_bytes bs so (so + w1) -> plain_bytes bs (eo - w2) eo ->
  fits (to_loc bs so) (to_loc bs eo) [w1; w2] = true /\
  part_span true (to_loc bs so) (to_loc bs eo) [w1; w2] 0 = (to_loc bs so, to_loc bs (so + w1)) /\
  part_span true (to_loc bs so) (to_loc bs eo) [w1; w2] 1 = (to_loc bs (eo - w2), to_loc bs eo).
Proof. exact split_spans_exact. Qed.

(* and in general the sub-spans of one split token are ordered (end of one never after the start of the next)
   and lie inside the token's span *)
Theorem C05_split_positions_ordered : forall s e ws i j, fits s e ws = true -> length ws <= 3 -> i < j -> j < length ws ->
  lex_le (snd (part_span true s e ws i)) (fst (part_span true s e ws j)).
Proof. exact split_positions_ordered. Qed.

Theorem C05_split_positions_inside : forall s e ws i, fits s e ws = true -> lex_le s e ->
  let sp := part_span true s e ws i in lex_le s (fst sp) /\ lex_le (fst sp) (snd sp) /\ lex_le (snd sp) e.
Proof. exact split_positions_inside. Qed.

(* the behaviour before the repair (switch [own] off: every part carries the whole token's span) violates
   "end of one element never after the start of the next" *)
Theorem C05_split_positions_shared_refuted :
  exists s e ws i j, i < j /\ j < length ws /\ lex_le s e /\
    ~ lex_le (snd (part_span false s e ws i)) (fst (part_span false s e ws j)).
Proof. exact split_positions_shared_refuted. Qed.

(* ---- the tokenizer's own errors (model Model/Lexer.v, proofs Proofs/LexErrLocP.v) ----
   every error Tokenize returns is either the size-limit rejection at 1:1 or carries toSQLPosition of a byte offset
   that is at most the length of the input (the end of the input is a legitimate error position) ... *)
Theorem C05_tokenizer_error_offset :
  forall max_in max_tok bs c l k, Lexer.tokenize_with max_in max_tok bs = Lexer.Err c l k ->
  (c = LexTables.E_InputTooLarge /\ l = 1%N /\ k = 1%N) \/
  exists i, (i <= N.of_nat (length bs))%N /\ (l, k) = Lexer.to_loc bs i.
Proof. exact LexErrLocP.tokenize_err_offset. Qed.

(* ... hence the reported location lies inside the input: line and column are 1-based, the line is at most the number
   of lines of the input, and the column is at most the width of that line + 1 (s = byte offset at which line l
   starts: s = 0 or the byte before s is LF, and l = 1 + number of LF before s) *)
Theorem C05_tokenizer_error_location_inside :
  forall max_in max_tok bs c l k, Lexer.tokenize_with max_in max_tok bs = Lexer.Err c l k ->
  (1 <= l)%N /\ (1 <= k)%N /\ (N.to_nat l <= 1 + Loc.count_lf bs)%nat /\
  exists s, ((s <= length bs)%nat /\ (s = 0%nat \/ nth_error bs (s - 1) = Some Loc.LF) /\
             N.to_nat l = (1 + Loc.count_lf (firstn s bs))%nat) /\
            (N.to_nat k <= 1 + Loc.width (Loc.line_bytes bs s))%nat.
Proof. exact LexErrLocP.tokenize_err_location_inside. Qed.

Print Assumptions C05_loc_spec.
Print Assumptions C05_loc_one_based.
Print Assumptions C05_loc_monotone.
Print Assumptions C05_loc_strict.
Print Assumptions C05_loc_injective.
Print Assumptions C05_loc_injective_on_line.
Print Assumptions C05_loc_inside.
Print Assumptions C05_loc_exact_ascii.
Print Assumptions C05_loc_exact_chars.
Print Assumptions C05_loc_clamped.
Print Assumptions C05_resume_point_form_is_to_loc.
Print Assumptions C05_get_location_agrees.
Print Assumptions C05_spans_ordered_loc.
Print Assumptions C05_spans_one_based_strict.
Print Assumptions C05_error_at_offending_token.
Print Assumptions C05_error_at_plain_token.
Print Assumptions C05_error_beyond_tokens.
Print Assumptions C05_split_spans_exact.
Print Assumptions C05_split_positions_ordered.
Print Assumptions C05_split_positions_inside.
Print Assumptions C05_split_positions_shared_refuted.
Print Assumptions C05_tokenizer_error_offset.
Print Assumptions C05_tokenizer_error_location_inside.

(* ---- non-vacuity: the hypotheses are met by concrete, non-trivial states ---- *)
(* "-- c\n\nSELECT 1" : the token after a comment and a blank line is on line 3, column 1 *)
Definition ex1 : list N := [45; 45; 32; 99; 10; 10; 83; 69; 76; 69; 67; 84; 32; 49]%N.
Example ex1_line_start : is_line_start ex1 6 6.
Proof.
  split; [apply Nat.le_refl|]. split; [right; reflexivity|]. intros k [H1 H2]. exfalso. exact (Nat.lt_irrefl _ (Nat.le_lt_trans _ _ _ H1 H2)).
Qed.
Example ex1_select : to_loc ex1 6 = (3, 1) /\ to_loc ex1 12 = (3, 7) /\ to_loc ex1 14 = (3, 9) /\ to_loc ex1 99 = (3, 9).
Proof. repeat split; vm_compute; reflexivity. Qed.
Example ex1_spans : spans_chain (length ex1) 0 [(0, 4); (6, 12); (13, 14); (14, 14)].
Proof. vm_compute. repeat split; repeat constructor. Qed.
Example ex1_reported : reported ex1 [(0, 4); (6, 12); (13, 14); (14, 14)] = [((1, 1), (1, 5)); ((3, 1), (3, 7)); ((3, 8), (3, 9)); ((3, 9), (3, 9))].
Proof. vm_compute. reflexivity. Qed.
(* a tab and a two-byte character before the offset: "\té x" -> x at byte 4 is column 1 + 4 + 2 + 1 *)
Example ex_tab_utf8 : to_loc [9; 195; 169; 32; 120]%N 4 = (1, 8).
Proof. vm_compute. reflexivity. Qed.
(* "GROUP\n  BY" (bytes 0..10) split into GROUP at 1:1-1:6 and BY at 2:3-2:5 *)
Definition ex2 : list N := [71; 82; 79; 85; 80; 10; 32; 32; 66; 89]%N.
Example ex2_split : map (part_span true (to_loc ex2 0) (to_loc ex2 10) [5; 2]) [0; 1] = [((1, 1), (1, 6)); ((2, 3), (2, 5))].
Proof. vm_compute. reflexivity. Qed.
Example ex2_positions :
  let ts := [{| st_start := (1, 1); st_end := (1, 7); st_parts := [6] |};
             {| st_start := (2, 1); st_end := (3, 5); st_parts := [5; 2] |};
             {| st_start := (3, 6); st_end := (3, 6); st_parts := [] |}] in
  conv_positions true 0 ts = [(0, ((1, 1), (1, 7))); (1, ((2, 1), (2, 6))); (1, ((3, 3), (3, 5))); (2, ((3, 6), (3, 6)))]
  /\ current_location (Some (conv_positions true 0 ts)) 2 = (3, 3)
  /\ current_location (Some (conv_positions true 0 ts)) 4 = (3, 6).
Proof. vm_compute. repeat split; reflexivity. Qed.
