(* C11 — cancellation is honoured promptly, reported as such, and leaves no residue.
   Two models:
   (1) Model/ErrFlow.v over the site table regenerated from SSA (Gen/ErrSites.v): which error values can arrive
       where; decides "reported as such" for EVERY path from a poll to an entry point.
   (2) Model/Ctx.v: the two polling loops (TokenizeContext, ParseContext) as written, with the context as an
       oracle; decides "whenever a poll reports done the call ends with the context error and no tree, at the
       first such poll", "a context that never fires gives the context-free result", and the tokenizer's bound
       on further work.
   The link between them: (2) takes as the statement parser's contract that parseStatement fails with a context
   error at the first of its polls that reports done; (1) + the instance lemmas establish that no value made from
   a poll is re-wrapped by text or discarded between a poll and the loop, and the counting-context sweep
   (lib/c11.py) observes the contract at every poll index of every input.  The no-residue clause is decided on
   the implementation (reuse probes on the same instances); the parser's state reset is C08's subject. *)
From Coq Require Import List NArith Bool Arith.
From GV Require Import Model.ErrFlow Proofs.ErrFlowP Gen.ErrSites Inst.Inst_C11 Model.Loops Model.Ctx Proofs.CtxP.
Import ListNotations.

(* reported as such, every path: an error value made from a context poll — wherever in the three packages it
   arrives, through however many wrappers — still satisfies errors.Is(err, ctx.Err()).  Full strength as soon as
   err_known_ctx (known_findings.d/C11.json) is empty. *)
Theorem C11_ctx_reported :
  forall i e, derives err_table i e -> uses_no err_known_ctx e = true -> has_ctx_leaf e = true -> is_ctx e = true.
Proof. exact (ctx_reported_except err_table err_known_ctx err_ctx_free c11_ctx_free_ok c11_no_rewrap_on_poll_paths). Qed.

(* refutation side (what the pinned tree did before the repair, and what any re-wrap-by-text site on a poll path
   does): the context error is hidden from errors.Is *)
Theorem C11_ctx_reported_refuted_at_rewrap_sites :
  forall T n m e, In n T -> n_kind n = KRewrapv -> In m (n_dropped n) -> derives T m e -> has_ctx_leaf e = true ->
    exists e', derives T (n_id n) e' /\ has_ctx_leaf e' = true /\ is_ctx e' = false.
Proof. exact rewrap_hides_ctx. Qed.

(* ParseContext: if any poll of the run reports done (k ranges over all polls the uncancelled run makes), the
   call returns no tree and the context error, raised at the first poll that reported done *)
Theorem C11_cancel_reported :
  forall tree ntok is_eof is_semi ps np done strict fuel pos acc c k,
    c <= k < polls tree ntok is_eof is_semi ps np strict fuel pos c -> done k = true ->
    exists j, parse_c tree ntok is_eof is_semi ps np done strict fuel pos acc c = CCtx j /\ done j = true /\ j <= k /\
              forall i, c <= i < j -> done i = false.
Proof. exact cancel_reported. Qed.

Theorem C11_ctx_error_only_when_done :
  forall tree ntok is_eof is_semi ps np done strict fuel pos acc c j,
    parse_c tree ntok is_eof is_semi ps np done strict fuel pos acc c = CCtx j -> done j = true /\ c <= j.
Proof. exact ctx_error_only_when_done. Qed.

(* a context that never fires yields exactly the context-free result (and with Loops.parse_ctx_agrees, that of
   Parser.Parse) *)
Theorem C11_never_fires_equal :
  forall tree ntok is_eof is_semi ps np done strict,
    (forall k, done k = false) ->
    forall fuel pos acc c,
      parse_c tree ntok is_eof is_semi ps np done strict fuel pos acc c =
      lift tree (parse tree ntok is_eof is_semi ps strict fuel pos acc).
Proof.
  intros. rewrite never_fires_equal by assumption. now rewrite LoopsP.parse_ctx_agrees.
Qed.

(* TokenizeContext: never fires = Tokenize; a poll that reports done ends the call with the context error; once
   the context is done at most one batch (100) of further tokens is produced *)
Theorem C11_tok_never_fires_equal :
  forall tok len maxtok batch step done,
    (forall n, done n = false) ->
    forall fuel pos acc, tokenize_ctx tok len maxtok batch step done fuel pos acc = tokenize tok len maxtok step fuel pos acc.
Proof. exact tok_never_fires_equal. Qed.

Theorem C11_tok_cancel_reported :
  forall tok len maxtok batch, 0 < batch -> forall step done fuel pos acc n,
    In n (tpolls tok len maxtok batch step fuel pos acc) -> done n = true ->
    exists m, tokenize_ctx tok len maxtok batch step done fuel pos acc = TCtx m /\ done m = true /\ m <= n.
Proof. exact tok_cancel_reported. Qed.

Theorem C11_tok_cancel_prompt :
  forall tok len maxtok batch, 0 < batch -> forall step done,
    (forall a b, a <= b -> done a = true -> done b = true) ->
    forall t, done t = true ->
    forall fuel pos, produced tok (tokenize_ctx tok len maxtok batch step done fuel pos []) < t + batch.
Proof. exact tok_cancel_prompt. Qed.

(* the parser's token cursor (Parser.advance under a context) polls every [interval] = 64 positions: once the
   context is done (from cursor position t on) the cursor reads real tokens only below max(t, start) + interval,
   then reads as end of input for good - whatever the statement looks like (expression-free bodies included) *)
Theorem C11_cursor_cancel_prompt :
  forall interval, 0 < interval -> forall done,
    (forall a b, a <= b -> done a = true -> done b = true) ->
    forall t, done t = true ->
    forall n s, snd (advn interval done n s) = false -> fst (advn interval done n s) < Nat.max t (fst s) + interval.
Proof. exact cursor_cancel_prompt. Qed.

(* non-vacuity: a two-statement input whose first statement polls twice; done from poll 3 on *)
Example ex_cancel :
  let ps := fun p => if p =? 0 then SOk 7 2 else SOk 8 5 in
  parse_c nat 6 (fun p => p =? 5) (fun p => p =? 2) ps (fun _ => 2) (fun k => 3 <=? k) false 10 0 [] 1 = CCtx 3 /\
  polls nat 6 (fun p => p =? 5) (fun p => p =? 2) ps (fun _ => 2) false 10 0 1 = 7 /\
  parse_c nat 6 (fun p => p =? 5) (fun p => p =? 2) ps (fun _ => 2) (fun _ => false) false 10 0 [] 1 = COk [7; 8].
Proof. repeat split; vm_compute; reflexivity. Qed.
Example ex_cursor : advn 64 (fun p => 100 <=? p) 127 (0, false) = (127, false) /\ advn 64 (fun p => 100 <=? p) 128 (0, false) = (128, true).
Proof. split; vm_compute; reflexivity. Qed.
Example ex_tok_polls : tok_polls 250 250 1000 = 3 /\ tok_polls 200 201 1000 = 3 /\ tok_polls 200 200 1000 = 2.
Proof. repeat split; vm_compute; reflexivity. Qed.

Print Assumptions C11_ctx_reported.
Print Assumptions C11_ctx_reported_refuted_at_rewrap_sites.
Print Assumptions C11_cancel_reported.
Print Assumptions C11_ctx_error_only_when_done.
Print Assumptions C11_never_fires_equal.
Print Assumptions C11_tok_never_fires_equal.
Print Assumptions C11_tok_cancel_reported.
Print Assumptions C11_tok_cancel_prompt.
Print Assumptions C11_cursor_cancel_prompt.
