(* C02 — nesting clause: stack use is bounded independently of input length.
   Model: Model/CallGraph.v instantiated with the call graph and guard set regenerated from SSA. *)
From Coq Require Import List NArith Bool Arith.
From GV Require Import Model.Walk Model.CallGraph Proofs.CallGraphP Gen.CallGraphTable Inst.Inst_C02.
Import ListNotations.

(* every call stack of the parser that can arise when the depth counter starts at 0 — a path in the static
   call graph on which a guard frame has callees only while the counter is within the limit — has at most
   (MaxRecursionDepth + 2) * (max rank + 1) frames, whatever the input *)
Theorem C02_parser_stack_bounded :
  forall s,
    is_path parser_edges parser_known s ->
    realizable parser_guards max_recursion_depth 0 s ->
    length s <= (max_recursion_depth + 2) * (max_rank parser_ranks + 1).
Proof. exact (fun s => stack_depth_bounded parser_edges parser_guards parser_known parser_ranks parser_rank_ok s max_recursion_depth). Qed.

(* the tokenizer has no depth guard: its call graph (minus listed exceptions) must be acyclic, so a stack is a
   simple path *)
Theorem C02_tokenizer_stack_bounded :
  forall s,
    is_path tokenizer_edges tokenizer_known s ->
    realizable tokenizer_guards 0 0 s ->
    length s <= 2 * (max_rank tokenizer_ranks + 1).
Proof. exact (fun s => stack_depth_bounded tokenizer_edges tokenizer_guards tokenizer_known tokenizer_ranks tokenizer_rank_ok s 0). Qed.

Print Assumptions C02_parser_stack_bounded.
Print Assumptions C02_tokenizer_stack_bounded.
