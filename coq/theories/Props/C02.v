(* C02 — nesting clause: stack use is bounded independently of input length.
   Model: Model/CallGraph.v instantiated with the call graph and guard set regenerated from SSA. *)
From Coq Require Import List NArith Bool Arith.
From GV Require Import Model.Walk Model.CallGraph Proofs.CallGraphP Gen.CallGraphTable Inst.Inst_C02.
From GV Require Import Gen.LexTables Model.Lexer Proofs.LexerP Inst.Inst_C04 Spec.LexSpec Proofs.LexFaithP.
Import ListNotations.

(* every call stack of the parser that can arise when the depth counter starts at 0 — a path in the static
   call graph on which a guard frame has callees only while the counter is within the limit — has at most
   (MaxRecursionDepth + 2) * (max rank + 1) frames, whatever the input *)
Theorem C02_parser_stack_bounded :
  forall s,
    is_path parser_edges parser_known s ->
    realizable parser_guards max_recursion_depth 0 s ->
    length s <= (max_recursion_depth + 2) * (max_rank parser_ranks + 1).
Proof. exact (fun s => stack_depth_bounded parser_edges parser_guards parser_known parser_ranks parser_rank_ok s max_recursion_depth). Qed.

(* the tokenizer has no depth guard: its call graph (minus listed exceptions) must be acyclic, so a stack is a
   simple path *)
Theorem C02_tokenizer_stack_bounded :
  forall s,
    is_path tokenizer_edges tokenizer_known s ->
    realizable tokenizer_guards 0 0 s ->
    length s <= 2 * (max_rank tokenizer_ranks + 1).
Proof. exact (fun s => stack_depth_bounded tokenizer_edges tokenizer_guards tokenizer_known tokenizer_ranks tokenizer_rank_ok s 0). Qed.

(* ---- size and token limits (tokenizer model Model/Lexer.v, tied byte-for-byte by the C04 correspondence), for
   every value of the two limits ---- *)
(* input longer than the size limit is rejected with the dedicated error E1006 ... *)
Theorem C02_size_limit :
  forall max_in max_tok bs, (max_in < N.of_nat (length bs))%N -> tokenize_with max_in max_tok bs = Err E_InputTooLarge 1 1.
Proof. exact size_limit_reject. Qed.

(* ... and input at or below the limit (exactly at it in particular) is not affected by the size limit at all *)
Theorem C02_size_limit_exact :
  forall m1 m2 max_tok bs, (N.of_nat (length bs) <= m1)%N -> (N.of_nat (length bs) <= m2)%N ->
  tokenize_with m1 max_tok bs = tokenize_with m2 max_tok bs.
Proof. exact size_limit_exact. Qed.

(* no successful run returns more than max_tok tokens plus the end marker (the converse, E1007 exactly when the
   limit is exceeded, is decided on the implementation by the boundary exploration of lib/c02.py) *)
Theorem C02_token_limit_bound_partial :
  forall max_in max_tok bs toks cms, tokenize_with max_in max_tok bs = Val (toks, cms) ->
  (N.of_nat (length toks) <= max_tok + 1)%N.
Proof. exact token_limit_bound. Qed.

(* the token limit as an equivalence, for every text of the reference lexical grammar (Spec/LexSpec.v, every lexeme
   class and separator): the dedicated error E1007 exactly when the text has more tokens than the limit, so a text
   with exactly max_tok tokens is not rejected for that reason *)
Theorem C02_token_limit_iff :
  forall max_in max_tok ls seps, wf ls seps -> (N.of_nat (length (interleave ls seps)) <= max_in)%N ->
  ((exists l c, tokenize_with max_in max_tok (interleave ls seps) = Err E_TokenLimitReached l c) <->
   (max_tok < N.of_nat (length (raw_tokens ls seps)))%N).
Proof. exact token_limit_iff. Qed.

Print Assumptions C02_parser_stack_bounded.
Print Assumptions C02_tokenizer_stack_bounded.
Print Assumptions C02_size_limit.
Print Assumptions C02_size_limit_exact.
Print Assumptions C02_token_limit_bound_partial.
Print Assumptions C02_token_limit_iff.
