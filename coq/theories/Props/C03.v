(* C03 — the parsed tree is the tree the SQL grammar prescribes.

   FULL statement (what the property asks): for EVERY statement of the documented surface, every parenthesisation that
   preserves the model tree, the tree returned by the parser is the prescribed one and the statement is not rejected.
   PROVED below, about the Gallina models of parseExpression (Model/ExprParse.v) and parseStatement (Model/StmtParse.v),
   which are tied to the code on every run by the model-vs-code correspondence:
     - C03_parse_render_expr_ext      every reference expression of Spec/RefGrammar.v (the whole of [mexpr]);
     - C03_parse_render_expr_partial  the earlier statement for the sub-surface [proved] (kept for C06);
     - C03_parse_render_select_partial, C03_parse_render_stmt_partial   every reference SELECT / statement of Spec/RefStmt.v;
     - C03_refuted_*                  the statements are false with a defect switch on (witnesses).
   `_partial` = the reference grammars do not contain the whole documented surface; the omitted constructs are listed at
   each theorem and in design/C03.md; they are covered by the prescribed-tree oracle (and, where modelled, by the
   correspondence) only. *)
From Coq Require Import List String Arith.
From GV Require Import Spec.RefGrammar Spec.RefStmt Model.Expr Model.ExprParse Model.StmtParse Proofs.ExprParseP Proofs.ExprParseExtP Proofs.StmtParseP.
Import ListNotations.

(* The expression-level statement for the WHOLE reference expression grammar [mexpr] of Spec/RefGrammar.v (no
   sub-surface predicate): function calls (plain / DISTINCT), CASE (both forms), tuples and type names with
   arguments included.  Still outside [mexpr] (hence outside this theorem; covered by the model-vs-code
   correspondence where modelled and by the prescribed-tree oracle): FILTER / OVER / WITHIN GROUP / ORDER BY inside a
   call, EXISTS, scalar / IN / ANY / ALL sub-queries, ARRAY, subscripts and slices, INTERVAL, JSON operators, REGEXP /
   RLIKE, unary minus / plus, `*` and `t.*`. *)
Theorem C03_parse_render_expr_ext :
  forall md e (r : rho) stop d fuel,
    ref_expr e = true -> follow_ok stop ->
    d + 1 + pdepth 0 r e <= md ->
    List.length (render 0 r e ++ stop) < fuel ->
    parse_expression md no_defects fuel d (render 0 r e ++ stop) = Val (ast_of e, stop).
Proof. exact parse_render_expr_ext. Qed.
Print Assumptions C03_parse_render_expr_ext.

Theorem C03_parse_render_expr_partial :
  forall md e (r : rho) stop d fuel,
    proved e = true -> ref_expr e = true -> follow_ok stop ->
    d + 1 + pdepth 0 r e <= md ->
    List.length (render 0 r e ++ stop) < fuel ->
    parse_expression md no_defects fuel d (render 0 r e ++ stop) = Val (ast_of e, stop).
Proof. exact parse_render_expr_partial. Qed.
Print Assumptions C03_parse_render_expr_partial.

Theorem C03_refuted_cmp_rhs_primary :
  exists e r stop, proved e = true /\ ref_expr e = true /\ follow_ok stop /\
    parse_expression 100 (DFlags true false) 100 0 (render 0 r e ++ stop) <> Val (ast_of e, stop).
Proof. exact parse_render_expr_refuted_cmp_rhs_primary. Qed.
Print Assumptions C03_refuted_cmp_rhs_primary.

Theorem C03_refuted_like_primary :
  exists e r stop, proved e = true /\ ref_expr e = true /\ follow_ok stop /\
    parse_expression 100 (DFlags false true) 100 0 (render 0 r e ++ stop) <> Val (ast_of e, stop).
Proof. exact parse_render_expr_refuted_like_primary. Qed.
Print Assumptions C03_refuted_like_primary.

(* hypotheses are satisfiable by a concrete non-trivial state *)
Example C03_nonvacuous :
  proved ex_mixed = true /\ ref_expr ex_mixed = true /\ follow_ok [Tk TyEOF ""%string]
  /\ 0 + 1 + pdepth 0 no_parens ex_mixed <= max_recursion_depth
  /\ parse_expr_top no_defects 0 (render 0 no_parens ex_mixed ++ [Tk TyEOF ""%string]) = Val (ast_of ex_mixed, [Tk TyEOF ""%string]).
Proof.
  split; [reflexivity|]. split; [reflexivity|]. split; [apply follow_eof|]. split; [apply ex_mixed_depth|apply ex_mixed_parse].
Qed.

(* ------------------------------------------------------------------------------------------------ *)
(* Statement level.  FULL statement: for every statement of the documented surface the tree returned by
   parseStatement is the prescribed one.  PROVED: the reference statements of Spec/RefStmt.v (see the list of
   clauses there and in design/C03.md); the clauses not in that reference grammar are covered by the prescribed-tree
   oracle (and, where modelled, by the model-vs-code correspondence) only. *)

(* one SELECT statement: DISTINCT [ON (...)], select list with aliases, `*` and `t.*`, FROM list with qualified names and aliases,
   joins of every kind with ON / USING, WHERE, GROUP BY with plain expressions, ROLLUP (...), CUBE (...) and GROUPING SETS
   ( set, ... ) (a set = a possibly empty parenthesised expression list, or a column reference without parentheses), HAVING, ORDER BY
   with direction and NULLS FIRST | LAST, LIMIT, OFFSET, FETCH {FIRST | NEXT} n [PERCENT] [ROW | ROWS] {ONLY | WITH TIES}, the locking
   clause FOR {UPDATE | NO KEY UPDATE | SHARE | KEY SHARE} [OF table, ...] [NOWAIT | SKIP LOCKED];
   every parenthesisation choice [sr] of every expression; for the tree as it is ([tree_flags], switch
   [d_no_alias_after_column] on) under the side condition that no alias without AS follows a bare column reference, for
   the repaired configuration without it.
   The follow token is not spelled OF / NOWAIT / SKIP (the locking clause is read by the text of its words).
   Omitted clauses: SELECT ALL, derived tables, LATERAL, MySQL WITH ROLLUP, sub-query expressions, window functions
   (FILTER / OVER / WITHIN GROUP); a grouping set without parentheses that is not a column reference (PostgreSQL extension;
   the parser takes the parenthesis of `( a + b ) * c` for the parenthesis of a set - Example [gs_bare_expression_rejected]
   of Proofs/StmtParseP.v). *)
Theorem C03_parse_render_select_partial :
  forall md sf fuel (sr : srho) s stop d,
    select_ok s = true -> (d_no_alias_after_column sf = false \/ select_bare_alias_free s = true) ->
    query_follow stop ->
    d + 2 + select_depth sr s <= md ->
    List.length (render_select sr s ++ stop) <= fuel ->
    parse_statement md sf (parse_expression md no_defects fuel) d (render_select sr s ++ stop)
    = Val (GSelectS (ast_of_select s), stop).
Proof. exact parse_render_select. Qed.
Print Assumptions C03_parse_render_select_partial.

(* every reference statement of Spec/RefStmt.v: [WITH [RECURSIVE] ctes] followed by a query expression (SELECTs combined
   by UNION | EXCEPT | INTERSECT [ALL], left-nested), INSERT (column list, VALUES rows | query, ON CONFLICT [(columns) | ON
   CONSTRAINT name] DO NOTHING | DO UPDATE SET ... [WHERE ...], RETURNING), UPDATE (SET,
   WHERE, RETURNING) or DELETE (WHERE, RETURNING); CTEs with column lists, [NOT] MATERIALIZED and query bodies; MERGE [INTO]
   target [[AS] alias] USING source [[AS] alias] ON condition followed by any number (>= 1) of WHEN clauses, each kind x action
   pair of the documented table (MATCHED -> UPDATE SET [t.]c = e, ... | DELETE; NOT MATCHED -> INSERT [(columns)] VALUES (e, ...) |
   INSERT [(columns)] DEFAULT VALUES; NOT MATCHED BY SOURCE -> UPDATE SET ... | DELETE), each with or without AND condition.  One
   equation: accepted, nothing beyond the statement consumed, the whole tree equal to the prescribed one (WITH on the
   left-most SELECT of a set operation, JOIN attached to the last FROM item, ...).
   Omitted (besides the SELECT clauses listed above): ORDER BY / LIMIT on operands of set operations (known finding
   `setop-trailing-order-by`; likewise the locking clause), CTE bodies other than queries, nested WITH, ON DUPLICATE KEY,
   UPDATE ... FROM, DELETE ... USING, a derived table as MERGE source (the parser reads a table name there), DDL, the MySQL dialect. *)
Theorem C03_parse_render_stmt_partial :
  forall md sf fuel (sr : srho) s stop d,
    stmt_ok s = true -> (d_no_alias_after_column sf = false \/ stmt_bare_alias_free s = true) ->
    stmt_follow stop ->
    d + stmt_depth sr s <= md ->
    List.length (render_stmt sr s ++ stop) <= fuel ->
    parse_statement md sf (parse_expression md no_defects fuel) d (render_stmt sr s ++ stop) = Val (ast_of_stmt s, stop).
Proof. exact parse_render_stmt. Qed.
Print Assumptions C03_parse_render_stmt_partial.

Theorem C03_select_refuted_bare_alias :
  exists s stop, select_ok s = true /\ query_follow stop /\
    parse_statement 100 tree_flags (parse_expression 100 no_defects 100) 0 (render_select (fun _ _ => no_parens) s ++ stop)
    <> Val (GSelectS (ast_of_select s), stop).
Proof. exact parse_render_select_refuted_bare_alias. Qed.
Print Assumptions C03_select_refuted_bare_alias.

Example C03_select_nonvacuous :
  select_ok ex_select = true /\ select_bare_alias_free ex_select = true /\ query_follow [Tk TyEOF ""%string]
  /\ parse_statement_top tree_flags (render_select (fun _ _ => no_parens) ex_select ++ [Tk TyEOF ""%string])
     = Val (GSelectS (ast_of_select ex_select), [Tk TyEOF ""%string]).
Proof.
  split; [reflexivity|]. split; [reflexivity|]. split; [eexists _, _; split; reflexivity|apply ex_select_parse].
Qed.

Example C03_select_lock_nonvacuous :
  select_ok ex_select_lock = true /\ select_bare_alias_free ex_select_lock = true
  /\ parse_statement_top tree_flags (render_select (fun _ _ => no_parens) ex_select_lock ++ [Tk TyEOF ""%string])
     = Val (GSelectS (ast_of_select ex_select_lock), [Tk TyEOF ""%string]).
Proof. split; [reflexivity|]. split; [reflexivity|apply ex_select_lock_parse]. Qed.

Example C03_stmt_merge_nonvacuous :
  stmt_ok ex_stmt_merge = true
  /\ parse_statement_top tree_flags (render_stmt (fun _ _ => no_parens) ex_stmt_merge ++ [Tk TyEOF ""%string])
     = Val (ast_of_stmt ex_stmt_merge, [Tk TyEOF ""%string]).
Proof. split; [reflexivity|apply ex_stmt_merge_parse]. Qed.

Example C03_stmt_nonvacuous :
  stmt_ok ex_stmt_with = true /\ stmt_ok ex_stmt_insert = true /\ stmt_follow [Tk TyEOF ""%string]
  /\ parse_statement_top tree_flags (render_stmt (fun _ _ => no_parens) ex_stmt_with ++ [Tk TyEOF ""%string])
     = Val (ast_of_stmt ex_stmt_with, [Tk TyEOF ""%string])
  /\ parse_statement_top tree_flags (render_stmt (fun _ _ => no_parens) ex_stmt_insert ++ [Tk TyEOF ""%string])
     = Val (ast_of_stmt ex_stmt_insert, [Tk TyEOF ""%string]).
Proof.
  split; [reflexivity|]. split; [reflexivity|]. split; [apply stmt_follow_eof|]. split; [apply ex_stmt_with_parse|apply ex_stmt_insert_parse].
Qed.
