(* C15 — Extracted tables, columns and functions are exactly those referenced.
   Only statements, closed by [exact], with Print Assumptions.  Model: Model/Extract.v (pkg/gosqlx/extract.go as
   written) over query trees (Model/QAst.v), traversed with the Children() table regenerated from the current
   source ([em], Gen/QSlots.v); specification: Model/QRef.v ([mstmt]: what a statement generator wrote,
   [ast_stmt]: the prescribed tree, [tables_written] ...: the names placed in table / column / function
   positions, at any sub-query / CTE / set-operation depth). *)
From Coq Require Import List String NArith Bool Arith.
From GV Require Import Model.Walk Model.QAst Model.Extract Model.QRef Proofs.QAstP Proofs.ExtractP
  Gen.ChildrenTable Gen.QSlots Inst.Inst_C15.
Import ListNotations.
Local Open Scope string_scope.
Local Open Scope list_scope.

Theorem C15_tables_exact : forall s : mstmt, set_eq (extract_tables em [ast_stmt s]) (tables_written s).
Proof. exact (tables_exact em em_covers_ok). Qed.

Theorem C15_columns_exact : forall s : mstmt, set_eq (extract_columns em [ast_stmt s]) (columns_written s).
Proof. exact (columns_exact em em_covers_ok). Qed.

Theorem C15_functions_exact : forall s : mstmt, set_eq (extract_functions em [ast_stmt s]) (functions_written s).
Proof. exact (functions_exact em em_covers_ok). Qed.

(* qualified variants: nothing that was not written; everything written is there under its
   QualifiedName.String() key, split by addTable / kept by addColumn *)
Theorem C15_tables_qualified_exact : forall s : mstmt,
  (forall q, In q (extract_tables_qualified em [ast_stmt s]) -> In q (map add_table (tables_written s))) /\
  (forall n, In n (tables_written s) ->
             exists q, In q (extract_tables_qualified em [ast_stmt s]) /\ qname_string q = qname_string (add_table n)).
Proof. exact (tables_qualified_exact em em_covers_ok). Qed.

Theorem C15_columns_qualified_exact : forall s : mstmt,
  (forall q, In q (extract_columns_qualified em [ast_stmt s]) -> In q (map add_column (qcolumns_written s))) /\
  (forall c, In c (qcolumns_written s) ->
             exists q, In q (extract_columns_qualified em [ast_stmt s]) /\ qname_string q = qname_string (add_column c)).
Proof. exact (columns_qualified_exact em em_covers_ok). Qed.

(* aliases, synthetic "(x_with_n_joins)" names, string contents, keywords: whatever is reported was written in
   a table / column / function position *)
Theorem C15_no_alias_no_synthetic : forall s : mstmt,
  (forall x, In x (extract_tables em [ast_stmt s]) -> In x (tables_written s)) /\
  (forall x, In x (extract_columns em [ast_stmt s]) -> In x (columns_written s)) /\
  (forall x, In x (extract_functions em [ast_stmt s]) -> In x (functions_written s)).
Proof. exact (no_alias_no_synthetic em em_covers_ok). Qed.

(* duplicate-free, for EVERY tree (not only prescribed ones) *)
Theorem C15_dedup : forall stmts : list qn,
  NoDup (extract_tables em stmts) /\ NoDup (extract_columns em stmts) /\ NoDup (extract_functions em stmts) /\
  NoDup (map qname_string (extract_tables_qualified em stmts)) /\
  NoDup (map qname_string (extract_columns_qualified em stmts)).
Proof. exact (extract_nodup em). Qed.

(* one visit per node, for EVERY tree *)
Theorem C15_collect_visits_linear : forall stmts : list qn, visits em stmts <= list_sum (map qsize stmts).
Proof. exact (collect_visits_linear em). Qed.

(* the traversal reaches every node below emitted slots and nothing else (the C14 statement, on query trees) *)
Theorem C15_traversal_complete : forall t n, qreach em t n <-> In n (qwalk em t).
Proof. intros t n. split; [apply qwalk_complete|apply qwalk_sound]. Qed.

(* the pinned form (explicit recursion AND recursion through Children()) doubled its work per nested set
   operation: k UNIONs cost at least 2^k visits.  Historical: repaired in /repo (see known_findings.d/C15.json). *)
Theorem C15_collect_visits_exponential_refuted : forall k, 2 ^ k <= visits_pinned em (union_chain k).
Proof. exact (collect_visits_exponential_refuted em eq_refl). Qed.

(* Historical: EXPLAIN q / DESCRIBE q was parsed to DescribeStatement{TableName: "SELECT"} — the query parsed and thrown
   away ([explain_pinned]): nothing written in q was extracted.  Repaired in /repo c61589e (DescribeStatement.Query);
   [MExplain] is prescribed with the query since and covered by the exactness theorems above. *)
Theorem C15_explain_query_dropped_refuted :
  exists q t c f,
    In t (tables_written (MExplain q)) /\ In c (columns_written (MExplain q)) /\ In f (functions_written (MExplain q)) /\
    extract_tables em [explain_pinned] = [] /\ extract_columns em [explain_pinned] = [] /\
    extract_functions em [explain_pinned] = [].
Proof. exact (explain_names_dropped em). Qed.

Print Assumptions C15_tables_exact.
Print Assumptions C15_columns_exact.
Print Assumptions C15_functions_exact.
Print Assumptions C15_tables_qualified_exact.
Print Assumptions C15_columns_qualified_exact.
Print Assumptions C15_no_alias_no_synthetic.
Print Assumptions C15_dedup.
Print Assumptions C15_collect_visits_linear.
Print Assumptions C15_traversal_complete.
Print Assumptions C15_collect_visits_exponential_refuted.
Print Assumptions C15_explain_query_dropped_refuted.

(* ---- non-vacuity: a statement with aliases, a derived table, three joins (two synthetic left names), a CTE
   referenced in FROM, duplicate names, string contents that look like names ---- *)
Definition nm (s : string) (H : name_ok s = true) := mkName s H.
Definition ex_stmt : mstmt :=
  MSelect (CCons (mkName "cte1" eq_refl) ["zc1"] (MSelect CNil (ICons (MCol "" (mkName "a" eq_refl)) "" INil)
                                                        (TCons (TName (mkT "base" eq_refl) "") TNil) JNil ONone ENil ONone ENil) CNil)
    (ICons (MFunc (mkName "UPPER" eq_refl) (ECons (MCol "zal1" (mkName "name" eq_refl)) ENil)) "zal9"
       (ICons (MLit "users" "string") "" INil))
    (TCons (TSub (MSelect CNil (ICons (MStar "") "" INil) (TCons (TName (mkT "s1.t4" eq_refl) "") TNil) JNil
                    (OSome (MBin "=" (MLit "1" "int") (MLit "1" "int"))) ENil ONone ENil) "zal1") TNil)
    (JCons "INNER" (TName (mkT "t2" eq_refl) "zal2") (OSome (MBin "=" (MCol "zal1" (mkName "id" eq_refl)) (MCol "zal2" (mkName "id" eq_refl))))
       (JCons "LEFT" (TName (mkT "cte1" eq_refl) "") (OSome (MFunc (mkName "f" eq_refl) ENil))
          (JCons "CROSS" (TName (mkT "t2" eq_refl) "") ONone JNil)))
    ONone ENil ONone ENil.

Example ex_tables : same_strs (extract_tables em [ast_stmt ex_stmt]) ["base"; "s1.t4"; "cte1"; "t2"] = true.
Proof. vm_compute. reflexivity. Qed.
Example ex_synthetic_in_tree :
  In "(_with_2_joins)" (map q_name (qwalk em (ast_stmt ex_stmt))) /\ In "zal2" (map (fun t => a_alias (q_attrs t)) (qwalk em (ast_stmt ex_stmt))).
Proof. vm_compute. tauto. Qed.
Example ex_columns : same_strs (extract_columns em [ast_stmt ex_stmt]) ["a"; "name"; "id"] = true.
Proof. vm_compute. reflexivity. Qed.
Example ex_functions : same_strs (extract_functions em [ast_stmt ex_stmt]) ["UPPER"; "f"] = true.
Proof. vm_compute. reflexivity. Qed.
Example ex_qualified : same_strs (map qname_string (extract_tables_qualified em [ast_stmt ex_stmt])) ["base"; "s1.t4"; "cte1"; "t2"] = true
  /\ In (mkQ "s1" "" "t4") (extract_tables_qualified em [ast_stmt ex_stmt]).
Proof. vm_compute. tauto. Qed.
(* FROM t1, t2 JOIN t3 ... JOIN t4: the join list attaches to the LAST item of the comma list *)
Definition ex_commas : mstmt :=
  MSelect CNil (ICons (MStar "") "" INil)
    (TCons (TName (mkT "t1" eq_refl) "") (TCons (TName (mkT "t2" eq_refl) "zal1") TNil))
    (JCons "INNER" (TName (mkT "t3" eq_refl) "") ONone (JCons "CROSS" (TName (mkT "t4" eq_refl) "") ONone JNil))
    ONone ENil ONone ENil.
Example ex_join_left_is_last :
  map q_name (flat_map (kids_of SLeft) (kids_of SJoins (ast_stmt ex_commas))) = ["t2"; "(t2_with_1_joins)"]
  /\ same_strs (extract_tables em [ast_stmt ex_commas]) ["t1"; "t2"; "t3"; "t4"] = true.
Proof. vm_compute. tauto. Qed.
(* a niladic keyword function is prescribed as a bare FunctionCall: a function, never a column *)
Example ex_niladic :
  extract_columns em [ast_stmt (MSelect CNil (ICons (MNiladic (mkName "CURRENT_DATE" eq_refl)) "" INil) TNil JNil ONone ENil ONone ENil)] = []
  /\ extract_functions em [ast_stmt (MSelect CNil (ICons (MNiladic (mkName "CURRENT_DATE" eq_refl)) "" INil) TNil JNil ONone ENil ONone ENil)] = ["CURRENT_DATE"].
Proof. vm_compute. tauto. Qed.
Example ex_pinned_cost : visits_pinned em (union_chain 5) = 219 /\ visits em [union_chain 5] = 17.
Proof. vm_compute. tauto. Qed.

(* ---- non-vacuity, statements that carry a query / an expression: the names they define or designate (view name and
   column list, index name, keys and table, created table and its columns, constraint keys) are in the prescribed tree
   and in no result; the names inside the carried query / expressions are ---- *)
Definition colx (q n : string) (H : name_ok n = true) : mexpr := MCol q (mkName n H).
Definition ex_view : mstmt :=
  MCreateView (mkT "zs.zv" eq_refl) ["zc1"; "zc2"]
    (MSetOp "UNION"
       (MSelect CNil (ICons (colx "u" "a" eq_refl) "" (ICons (MFunc (mkName "UPPER" eq_refl) (ECons (colx "" "b" eq_refl) ENil)) "zal1" INil))
                (TCons (TName (mkT "s1.users" eq_refl) "u") TNil) JNil ONone ENil ONone ENil)
       (MSelect CNil (ICons (colx "" "c" eq_refl) "" (ICons (MLit "zc1" "string") "" INil))
                (TCons (TName (mkT "t2" eq_refl) "") TNil) JNil ONone ENil ONone ENil)).
Example ex_view_results :
  (extract_tables em [ast_stmt ex_view], extract_columns em [ast_stmt ex_view], extract_functions em [ast_stmt ex_view]) =
  (["s1.users"; "t2"], ["a"; "b"; "c"], ["UPPER"]).
Proof. vm_compute. reflexivity. Qed.
Definition ex_index : mstmt :=
  MCreateIndex (mkT "zi" eq_refl) (mkT "t1" eq_refl) [mkName "zk1" eq_refl; mkName "zk2" eq_refl]
    (OSome (MBin ">" (MFunc (mkName "length" eq_refl) (ECons (colx "" "name" eq_refl) ENil)) (MLit "0" "int"))).
Example ex_index_results :
  (extract_tables em [ast_stmt ex_index], extract_columns em [ast_stmt ex_index], extract_functions em [ast_stmt ex_index]) =
  ([], ["name"], ["length"]).
Proof. vm_compute. reflexivity. Qed.
Definition ex_table : mstmt :=
  MCreateTable (mkT "zt" eq_refl)
    (DCons (mkName "zk1" eq_refl) "INT" (XPlain "NOT NULL" (XDefault (MFunc (mkName "f" eq_refl) (ECons (MLit "1" "int") ENil)) XNil))
       (DCons (mkName "zk2" eq_refl) "TEXT" (XCheck (MBin "<>" (colx "" "amount" eq_refl) (MLit "zk1" "string")) XNil) DNil))
    (YPlain "UNIQUE" ["zk1"; "zk2"] (YCheck (MInSub (colx "" "id" eq_refl)
        (MSelect CNil (ICons (colx "" "k1" eq_refl) "" INil) (TCons (TName (mkT "orders" eq_refl) "") TNil) JNil ONone ENil ONone ENil)) YNil)).
Example ex_table_results :
  (extract_tables em [ast_stmt ex_table], extract_columns em [ast_stmt ex_table], extract_functions em [ast_stmt ex_table]) =
  (["orders"], ["amount"; "id"; "k1"], ["f"]).
Proof. vm_compute. reflexivity. Qed.
Example ex_designators_in_tree :
  existsb (fun n => str_eqb (q_name n) "zk1") (qwalk em (ast_stmt ex_index)) = true /\
  existsb (fun n => str_eqb (a_qual (q_attrs n)) "t1") (qwalk em (ast_stmt ex_index)) = true /\
  existsb (fun n => smem "zc1" (a_list (q_attrs n))) (qwalk em (ast_stmt ex_view)) = true.
Proof. vm_compute. repeat split. Qed.

(* ---- non-vacuity, depth: a flat chain f(x) + c + c + ... of 300 operands is a tree 300 levels deep; the names of its
   FIRST operand (the deepest node) are extracted ---- *)
Fixpoint plus_chain (n : nat) (first : mexpr) : mexpr :=
  match n with
  | O => first
  | S k => MBin "+" (plus_chain k first) (colx "" "c" eq_refl)
  end.
Example ex_chain_300 :
  let s := MExplain (MSelect CNil (ICons (plus_chain 300 (MFunc (mkName "f" eq_refl) (ECons (colx "" "deep" eq_refl) ENil))) "" INil)
                             (TCons (TName (mkT "t1" eq_refl) "") TNil) JNil ONone ENil ONone ENil) in
  (extract_tables em [ast_stmt s], extract_columns em [ast_stmt s], extract_functions em [ast_stmt s]) = (["t1"], ["deep"; "c"], ["f"]).
Proof. vm_compute. reflexivity. Qed.
