(* C17 — Linter flags exactly what it names; text rewriters keep meaning and converge.
   Only statements, closed by [exact], with Print Assumptions.  The model is Model/Lint.v instantiated
   with the tables regenerated from the toolchain and the source (Gen/LintTables.v, Inst/Inst_C17.v). *)
From Coq Require Import List NArith Bool.
From GV Require Import Model.Lint Proofs.LintP Gen.LintTables Inst.Inst_C17.
Import ListNotations.

Theorem C17_l001_fix_idempotent : forall s, l001_fix (l001_fix (decode s)) = l001_fix (decode s).
Proof. intro s. exact (l001_fix_idempotent (decode s)). Qed.

Print Assumptions C17_l001_fix_idempotent.
