(* C17 — Linter flags exactly what it names; text rewriters keep meaning and converge.
   Only statements, closed by [exact], with Print Assumptions.  The model is Model/Lint.v instantiated
   with the tables regenerated from the toolchain and the source (Gen/LintTables.v, Inst/Inst_C17.v).
   A text is the list of its decoded characters; [decode s] is the text of the byte string s and
   [decode_wf] shows that every decoded text is well formed ([wft]), so each statement below that
   assumes [wft t] holds for [t := decode s] of every byte string s. *)
From Coq Require Import List NArith Bool.
From GV Require Import Model.Lint Proofs.LintP Gen.LintTables Inst.Inst_C17.
Import ListNotations.

Theorem C17_decode_wf : forall s, wft (decode s).
Proof. exact decode_wf. Qed.

(* ---- convergence: applying a fix twice is applying it once (all texts) ---- *)
Theorem C17_l001_fix_idempotent : forall t, l001_fix (l001_fix t) = l001_fix t.
Proof. exact l001_fix_idempotent. Qed.
Theorem C17_l002_fix_idempotent : forall t, l002_fix (l002_fix t) = l002_fix t.
Proof. exact l002_fix_idempotent. Qed.
Theorem C17_l003_fix_idempotent : forall t, i_l003_fix (i_l003_fix t) = i_l003_fix t.
Proof. exact (fun t => l003_fix_idempotent_mx space 1 t (le_n 1)). Qed.
Theorem C17_l010_fix_idempotent : forall t, l010_fix (l010_fix t) = l010_fix t.
Proof. exact l010_fix_idempotent. Qed.
Theorem C17_l007_fix_idempotent : forall t, i_l007_fix (i_l007_fix t) = i_l007_fix t.
Proof. exact (l007_fix_idempotent_gen letter digit upper keywords_tab up_letter up_noquote up_idem nl45 nd45 up_nobt). Qed.

(* the CLI's --auto-fix loop (L001, L002, L003, L010, L007 in sequence) and the language server's format action *)
Theorem C17_cli_fix_idempotent : forall t, i_cli_fix (i_cli_fix t) = i_cli_fix t.
Proof.
  exact (cli_fix_idempotent letter digit space upper keywords_tab up_letter up_noquote up_idem up_nows up_keynoquote nl45 nd45 up_key45
           (proj1 space_32_9) (proj1 (proj2 space_32_9)) (proj2 (proj2 space_32_9)) up_nobt up_keynobt).
Qed.
Theorem C17_format_idempotent : forall tab spaces final t,
  i_format tab spaces final (i_format tab spaces final t) = i_format tab spaces final t.
Proof.
  exact (format_idempotent space upper (proj1 space_32_9) (proj1 (proj2 space_32_9)) (proj2 (proj2 space_32_9))).
Qed.

(* the same on bytes, for every text made of ASCII bytes (decode / encode are inverse there; for other texts the lifting
   needs decode (encode t) = t on rewriter outputs, which is exercised by the fixed-point oracle, not proved) *)
Theorem C17_bytes_l001_idempotent : forall s, ascii_bytes s = true -> onbytes l001_fix (onbytes l001_fix s) = onbytes l001_fix s.
Proof. exact (onbytes_idem l001_fix ascl_l001 l001_fix_idempotent). Qed.
Theorem C17_bytes_l002_idempotent : forall s, ascii_bytes s = true -> onbytes l002_fix (onbytes l002_fix s) = onbytes l002_fix s.
Proof. exact (onbytes_idem l002_fix ascl_l002 l002_fix_idempotent). Qed.
Theorem C17_bytes_l003_idempotent : forall s, ascii_bytes s = true -> onbytes i_l003_fix (onbytes i_l003_fix s) = onbytes i_l003_fix s.
Proof. exact (onbytes_idem i_l003_fix (ascl_l003 space) C17_l003_fix_idempotent). Qed.
Theorem C17_bytes_l010_idempotent : forall s, ascii_bytes s = true -> onbytes l010_fix (onbytes l010_fix s) = onbytes l010_fix s.
Proof. exact (onbytes_idem l010_fix ascl_l010 l010_fix_idempotent). Qed.
Theorem C17_bytes_l007_idempotent : forall s, ascii_bytes s = true -> onbytes i_l007_fix (onbytes i_l007_fix s) = onbytes i_l007_fix s.
Proof. exact (onbytes_idem i_l007_fix (ascl_l007 letter digit upper keywords_tab up_ascii) C17_l007_fix_idempotent). Qed.
Theorem C17_bytes_cli_idempotent : forall s, ascii_bytes s = true -> onbytes i_cli_fix (onbytes i_cli_fix s) = onbytes i_cli_fix s.
Proof. exact (onbytes_idem i_cli_fix (ascl_cli letter digit space upper keywords_tab up_ascii) C17_cli_fix_idempotent). Qed.
Theorem C17_bytes_format_idempotent : forall tab spaces final s, ascii_bytes s = true ->
  onbytes (i_format tab spaces final) (onbytes (i_format tab spaces final) s) = onbytes (i_format tab spaces final) s.
Proof.
  exact (fun tab spaces final => onbytes_idem (i_format tab spaces final) (ascl_format space upper tab spaces final)
                                   (C17_format_idempotent tab spaces final)).
Qed.

(* ---- re-lint: no violation of the rule remains after its fix ---- *)
Theorem C17_l001_fix_clears : forall t, wft t -> l001_check (l001_fix t) = [].
Proof. exact l001_fix_clears. Qed.
Theorem C17_l002_fix_clears : forall t, l002_check (l002_fix t) = [].
Proof. exact l002_fix_clears. Qed.
Theorem C17_l003_fix_clears : forall t, i_l003_check (i_l003_fix t) = [].
Proof. exact (fun t => l003_fix_clears_mx space 1 t (le_n 1)). Qed.

Theorem C17_l007_fix_clears : forall t, i_l007_check (i_l007_fix t) = [].
Proof. exact (l007_fix_clears letter digit upper keywords_tab up_letter up_noquote up_idem nl45 nd45 up_nobt). Qed.
Theorem C17_l010_fix_clears : forall t, wft t -> l010_check (l010_fix t) = [].
Proof. exact l010_fix_clears. Qed.

(* ---- exact flagging, at an existing line and column ---- *)
Theorem C17_l001_check_exact : forall t n col, wft t ->
  In (n, col) (l001_check t) <->
  exists l, nth_error (split_nl t) (n - 1) = Some l /\ 1 <= n /\ ends_blank l /\ col = S (blen (trim_r is_blank l)).
Proof. exact l001_check_exact. Qed.
Theorem C17_l001_location : forall t n col, wft t -> In (n, col) (l001_check t) ->
  exists l, nth_error (split_nl t) (n - 1) = Some l /\ 1 <= n <= length (split_nl t) /\ 1 <= col <= blen l.
Proof. exact l001_location. Qed.
(* L002: flagged <-> the line mixes tabs and spaces in its indentation, or is purely indented in another style than
   the first purely indented line of the text; column 1 of an existing non-empty line *)
Theorem C17_l002_check_exact : forall t n col,
  In (n, col) (l002_check t) <->
  col = 1 /\ 1 <= n /\ exists l, nth_error (split_nl t) (n - 1) = Some l /\ l002_defect 0%N (firstn (n - 1) (split_nl t)) l.
Proof. exact l002_check_exact. Qed.
Theorem C17_l002_location : forall t n col, In (n, col) (l002_check t) ->
  1 <= n <= length (split_nl t) /\ col = 1 /\ exists l, nth_error (split_nl t) (n - 1) = Some l /\ l <> [].
Proof. exact l002_location. Qed.
(* L003: flagged <-> line n is blank, the line before it (if any) is not, and more than one blank line follows in a row *)
Theorem C17_l003_check_exact : forall t n col,
  In (n, col) (i_l003_check t) <->
  col = 1 /\ 1 <= n /\ startsG space 0 (split_nl t) (n - 1) /\ 1 < run_from space (split_nl t) (n - 1).
Proof. exact (l003_check_exact space 1). Qed.
Theorem C17_l003_location : forall t n col, In (n, col) (i_l003_check t) -> 1 <= n <= length (split_nl t) /\ col = 1.
Proof. exact (l003_location space 1). Qed.
Theorem C17_l005_check_exact : forall mx t n col,
  In (n, col) (i_l005_check mx t) <->
  exists l, nth_error (split_nl t) (n - 1) = Some l /\ 1 <= n /\ l <> [] /\
            (starts2 45 45 (i_trim_space l) || starts2 47 42 (i_trim_space l)) = false /\
            mx < blen l /\ col = S mx.
Proof. exact (l005_check_exact space). Qed.

(* ---- conservation: whitespace rules change only whitespace, the keyword rule only letter case ---- *)
Theorem C17_l001_ws_only : forall t, ink space (l001_fix t) = ink space t.
Proof. exact (l001_ws_only space). Qed.
Theorem C17_l002_ws_only : forall t, ink space (l002_fix t) = ink space t.
Proof. exact (l002_ws_only space). Qed.
Theorem C17_l003_ws_only : forall t, ink space (i_l003_fix t) = ink space t.
Proof. exact (l003_ws_only space 1). Qed.
Theorem C17_l010_ws_only : forall t, ink space (l010_fix t) = ink space t.
Proof. exact (l010_ws_only space). Qed.
Theorem C17_l007_case_only : forall t, map (fold upper) (i_l007_fix t) = map (fold upper) t.
Proof. exact (l007_case_only letter digit upper keywords_tab up_idem). Qed.

(* ---- meaning: read as code, a text keeps its sequence of character runs and separators under every rewriter
        (nothing added, dropped or merged; only the amount of whitespace and letter case change) ---- *)
Definition code_reading := cview space upper.
Theorem C17_l001_keeps_code_reading : forall t, code_reading (l001_fix t) = code_reading t.
Proof. exact (l001_cview space upper). Qed.
Theorem C17_l002_keeps_code_reading : forall t, code_reading (l002_fix t) = code_reading t.
Proof. exact (l002_cview space upper). Qed.
Theorem C17_l003_keeps_code_reading : forall t, code_reading (i_l003_fix t) = code_reading t.
Proof. exact (l003_cview space upper 1). Qed.
Theorem C17_l010_keeps_code_reading : forall t, code_reading (l010_fix t) = code_reading t.
Proof. exact (l010_cview space upper). Qed.
Theorem C17_l007_keeps_code_reading : forall t, code_reading (i_l007_fix t) = code_reading t.
Proof. exact (l007_cview space upper letter digit keywords_tab up_idem up_nows). Qed.
Theorem C17_cli_keeps_code_reading : forall t, code_reading (i_cli_fix t) = code_reading t.
Proof. exact (cli_cview letter digit space upper keywords_tab up_idem up_nows). Qed.
Theorem C17_format_keeps_code_reading : forall tab spaces final t, code_reading (i_format tab spaces final t) = code_reading t.
Proof. exact (format_cview space upper). Qed.


(* ---- the full statement and what holds of it -----------------------------------------------------------
   Full strength (the property): for every rewriter F in { L001, L002, L003, L010, L007 fix, the CLI loop,
   formatSQL } and every text t,      lex_reading (F t) = lex_reading t
   where lex_reading classifies every character by the SQL lexical rules and reads literals, quoted
   identifiers and comments exactly, code up to whitespace amount and letter case.
   The faithful model of the current code REFUTES it (witnesses below: the fixers are line based, their quote
   state restarts on every line, comments / back quotes are not recognised).  What is proved:
     * C17_*_keeps_code_reading (above): read as code, nothing is added, dropped or merged, for ALL texts;
     * C17_*_tokens_preserved_partial: the full statement for texts without literals / comments
       (hypothesis [plain], a boolean; the generator's "clean" stream without quotes satisfies it).
   Missing for full strength: lexical-state-aware fixers in /repo (see known_findings.d/C17.json). *)
Definition lex_reading := reading space upper.
Definition is_plain := plain.

Theorem C17_l001_tokens_preserved_partial : forall t, is_plain t = true -> is_plain (l001_fix t) = true ->
  lex_reading (l001_fix t) = lex_reading t.
Proof. exact (preserved_partial space upper l001_fix (l001_cview space upper)). Qed.
Theorem C17_l002_tokens_preserved_partial : forall t, is_plain t = true -> is_plain (l002_fix t) = true ->
  lex_reading (l002_fix t) = lex_reading t.
Proof. exact (preserved_partial space upper l002_fix (l002_cview space upper)). Qed.
Theorem C17_l003_tokens_preserved_partial : forall t, is_plain t = true -> is_plain (i_l003_fix t) = true ->
  lex_reading (i_l003_fix t) = lex_reading t.
Proof. exact (preserved_partial space upper i_l003_fix (l003_cview space upper 1)). Qed.
Theorem C17_l010_tokens_preserved_partial : forall t, is_plain t = true -> is_plain (l010_fix t) = true ->
  lex_reading (l010_fix t) = lex_reading t.
Proof. exact (preserved_partial space upper l010_fix (l010_cview space upper)). Qed.
Theorem C17_l007_tokens_preserved_partial : forall t, is_plain t = true -> is_plain (i_l007_fix t) = true ->
  lex_reading (i_l007_fix t) = lex_reading t.
Proof. exact (preserved_partial space upper i_l007_fix (l007_cview space upper letter digit keywords_tab up_idem up_nows)). Qed.
Theorem C17_cli_tokens_preserved_partial : forall t, is_plain t = true -> is_plain (i_cli_fix t) = true ->
  lex_reading (i_cli_fix t) = lex_reading t.
Proof. exact (preserved_partial space upper i_cli_fix (cli_cview letter digit space upper keywords_tab up_idem up_nows)). Qed.
Theorem C17_format_tokens_preserved_partial : forall tab spaces final t, is_plain t = true -> is_plain (i_format tab spaces final t) = true ->
  lex_reading (i_format tab spaces final t) = lex_reading t.
Proof. exact (fun tab spaces final => preserved_partial space upper (i_format tab spaces final) (format_cview space upper tab spaces final)). Qed.

(* refutations of the full statement on the faithful model (witnesses evaluated in Inst/Inst_C17.v; each is replayed on
   the implementation by lib/c17.py) *)
(* trailing blanks inside a multi-line string literal are removed *)
Theorem C17_l001_tokens_refuted : exists t, lex_reading (l001_fix t) <> lex_reading t.
Proof. exact refuted_l001. Qed.
(* a leading tab on the second line of a string literal becomes four spaces *)
Theorem C17_l002_tokens_refuted : exists t, lex_reading (l002_fix t) <> lex_reading t.
Proof. exact refuted_l002. Qed.
(* a blank line inside a string literal is removed *)
Theorem C17_l003_tokens_refuted : exists t, lex_reading (i_l003_fix t) <> lex_reading t.
Proof. exact refuted_l003. Qed.
(* repeated spaces on the second line of a string literal are collapsed *)
Theorem C17_l010_string_tokens_refuted : exists t, lex_reading (l010_fix t) <> lex_reading t.
Proof. exact refuted_l010_string. Qed.
(* repeated spaces on the second line of a back-quoted identifier are collapsed *)
Theorem C17_l010_backtick_tokens_refuted : exists t, lex_reading (l010_fix t) <> lex_reading t.
Proof. exact refuted_l010_backtick. Qed.
(* a keyword on the second line of a string literal is upper-cased *)
Theorem C17_l007_string_tokens_refuted : exists t, lex_reading (i_l007_fix t) <> lex_reading t.
Proof. exact refuted_l007_string. Qed.
(* a keyword on the second line of a back-quoted identifier is upper-cased *)
Theorem C17_l007_backtick_tokens_refuted : exists t, lex_reading (i_l007_fix t) <> lex_reading t.
Proof. exact refuted_l007_backtick. Qed.
(* repeated spaces inside a block comment are collapsed *)
Theorem C17_l010_block_comment_tokens_refuted : exists t, lex_reading (l010_fix t) <> lex_reading t.
Proof. exact refuted_l010_block_comment. Qed.
(* a keyword inside a block comment is upper-cased *)
Theorem C17_l007_block_comment_tokens_refuted : exists t, lex_reading (i_l007_fix t) <> lex_reading t.
Proof. exact refuted_l007_block_comment. Qed.
(* the CLI loop applies all of the above *)
Theorem C17_cli_tokens_refuted : exists t, lex_reading (i_cli_fix t) <> lex_reading t.
Proof. exact refuted_cli. Qed.
(* formatSQL trims the lines of a multi-line string literal *)
Theorem C17_format_tokens_refuted : exists t, lex_reading (i_format 2 true false t) <> lex_reading t.
Proof. exact refuted_format. Qed.

Print Assumptions C17_decode_wf.
Print Assumptions C17_l001_fix_idempotent.
Print Assumptions C17_l002_fix_idempotent.
Print Assumptions C17_l003_fix_idempotent.
Print Assumptions C17_l010_fix_idempotent.
Print Assumptions C17_l007_fix_idempotent.
Print Assumptions C17_cli_fix_idempotent.
Print Assumptions C17_format_idempotent.
Print Assumptions C17_bytes_l001_idempotent.
Print Assumptions C17_bytes_l002_idempotent.
Print Assumptions C17_bytes_l003_idempotent.
Print Assumptions C17_bytes_l010_idempotent.
Print Assumptions C17_bytes_l007_idempotent.
Print Assumptions C17_bytes_cli_idempotent.
Print Assumptions C17_bytes_format_idempotent.
Print Assumptions C17_l001_fix_clears.
Print Assumptions C17_l002_fix_clears.
Print Assumptions C17_l003_fix_clears.
Print Assumptions C17_l007_fix_clears.
Print Assumptions C17_l010_fix_clears.
Print Assumptions C17_l001_check_exact.
Print Assumptions C17_l001_location.
Print Assumptions C17_l002_check_exact.
Print Assumptions C17_l002_location.
Print Assumptions C17_l003_check_exact.
Print Assumptions C17_l003_location.
Print Assumptions C17_l005_check_exact.
Print Assumptions C17_l001_ws_only.
Print Assumptions C17_l002_ws_only.
Print Assumptions C17_l003_ws_only.
Print Assumptions C17_l010_ws_only.
Print Assumptions C17_l007_case_only.
Print Assumptions C17_l001_keeps_code_reading.
Print Assumptions C17_l002_keeps_code_reading.
Print Assumptions C17_l003_keeps_code_reading.
Print Assumptions C17_l010_keeps_code_reading.
Print Assumptions C17_l007_keeps_code_reading.
Print Assumptions C17_cli_keeps_code_reading.
Print Assumptions C17_format_keeps_code_reading.
Print Assumptions C17_l001_tokens_refuted.
Print Assumptions C17_l002_tokens_refuted.
Print Assumptions C17_l003_tokens_refuted.
Print Assumptions C17_l010_string_tokens_refuted.
Print Assumptions C17_l010_backtick_tokens_refuted.
Print Assumptions C17_l007_string_tokens_refuted.
Print Assumptions C17_l007_backtick_tokens_refuted.
Print Assumptions C17_l010_block_comment_tokens_refuted.
Print Assumptions C17_l007_block_comment_tokens_refuted.
Print Assumptions C17_cli_tokens_refuted.
Print Assumptions C17_format_tokens_refuted.
Print Assumptions C17_l001_tokens_preserved_partial.
Print Assumptions C17_l002_tokens_preserved_partial.
Print Assumptions C17_l003_tokens_preserved_partial.
Print Assumptions C17_l010_tokens_preserved_partial.
Print Assumptions C17_l007_tokens_preserved_partial.
Print Assumptions C17_cli_tokens_preserved_partial.
Print Assumptions C17_format_tokens_preserved_partial.

(* ---- non-vacuity: the hypotheses are met by concrete, non-trivial texts; the fixers do change them ---- *)
Local Open Scope N_scope.
Definition ex_bytes : list N :=   (* "select  1 \n\n\n\tfrom t\t" *)
  [115;101;108;101;99;116;32;32;49;32;10;10;10;9;102;114;111;109;32;116;9].
Example ex_plain : is_plain (decode ex_bytes) = true /\ is_plain (i_cli_fix (decode ex_bytes)) = true.
Proof. vm_compute. split; reflexivity. Qed.
Example ex_wf : wft (decode ex_bytes).
Proof. apply decode_wf. Qed.
Example ex_l001_flags : l001_check (decode ex_bytes) = [(1, 10); (4, 8)]%nat.
Proof. vm_compute. reflexivity. Qed.
Example ex_l001_changes : encode (l001_fix (decode ex_bytes)) <> ex_bytes.
Proof. vm_compute. discriminate. Qed.
Example ex_l007 : encode (i_l007_fix (decode ex_bytes)) =
  [83;69;76;69;67;84;32;32;49;32;10;10;10;9;70;82;79;77;32;116;9].
Proof. vm_compute. reflexivity. Qed.
Example ex_cli : encode (i_cli_fix (decode ex_bytes)) =
  [83;69;76;69;67;84;32;49;10;10;32;32;32;32;70;82;79;77;32;116].
Proof. vm_compute. reflexivity. Qed.
