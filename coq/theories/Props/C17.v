(* C17 — Linter flags exactly what it names; text rewriters keep meaning and converge.
   Only statements, closed by [exact], with Print Assumptions.  The model is Model/Lint.v (the repaired rules: every
   rule reads the lexical context from the whole-text scanner linter.LexMap) instantiated with the tables regenerated
   from the toolchain and the source (Gen/LintTables.v, Inst/Inst_C17.v).  A text is the list of its decoded characters;
   [decode s] is the text of the byte string s. *)
From Coq Require Import List NArith Bool.
From GV Require Import Model.Lint Proofs.LintP Proofs.LintLitP Gen.LintTables Inst.Inst_C17.
Import ListNotations.

(* the reading of a text: code up to the amount of white space and letter case, every character of a string literal,
   quoted identifier or comment exactly (white space that ends a -- comment is layout) *)
Definition lex_reading := reading idstart idpart space upper.

(* ---- meaning: the FULL statement, for ALL texts: every rewriter keeps the reading ---- *)
Theorem C17_l001_tokens_preserved : forall t, lex_reading (i_l001_fix t) = lex_reading t.
Proof. exact (l001_keeps_reading idstart idpart id_facts space upper). Qed.
Theorem C17_l002_tokens_preserved : forall t, lex_reading (i_l002_fix t) = lex_reading t.
Proof. exact (l002_keeps_reading idstart idpart id_facts space upper). Qed.
Theorem C17_l003_tokens_preserved : forall t, lex_reading (i_l003_fix t) = lex_reading t.
Proof. exact (fun t => l003_keeps_reading idstart idpart id_facts space upper sp_nodelim 1 t (le_n 1)). Qed.
Theorem C17_l010_tokens_preserved : forall t, lex_reading (i_l010_fix t) = lex_reading t.
Proof. exact (l010_keeps_reading idstart idpart id_facts space upper). Qed.
Theorem C17_l007_tokens_preserved : forall t, lex_reading (i_l007_fix t) = lex_reading t.
Proof. exact (l007_keeps_reading idstart idpart id_facts letter digit space upper keywords_tab up_plain up_id up_idem up_nows). Qed.
Theorem C17_cli_tokens_preserved : forall t, lex_reading (i_cli_fix t) = lex_reading t.
Proof. exact (cli_keeps_reading idstart idpart id_facts letter digit space upper keywords_tab up_plain up_id up_idem up_nows sp_nodelim). Qed.

Theorem C17_format_tokens_preserved : forall tab spaces final t, lex_reading (i_format tab spaces final t) = lex_reading t.
Proof. exact (format_keeps_reading idstart idpart id_facts space upper sp_nodelim). Qed.

(* ---- convergence: applying a fix twice is applying it once (all texts) ---- *)
Theorem C17_l001_fix_idempotent : forall t, i_l001_fix (i_l001_fix t) = i_l001_fix t.
Proof. exact (l001_fix_idempotent idstart idpart id_facts). Qed.
Theorem C17_l002_fix_idempotent : forall t, i_l002_fix (i_l002_fix t) = i_l002_fix t.
Proof. exact (l002_fix_idempotent idstart idpart id_facts). Qed.
Theorem C17_l003_fix_idempotent : forall t, i_l003_fix (i_l003_fix t) = i_l003_fix t.
Proof. exact (fun t => l003_fix_idempotent_mx idstart idpart id_facts space sp_nodelim 1 t (le_n 1)). Qed.
Theorem C17_l010_fix_idempotent : forall t, i_l010_fix (i_l010_fix t) = i_l010_fix t.
Proof. exact (l010_fix_idempotent idstart idpart id_facts). Qed.
Theorem C17_l007_fix_idempotent : forall t, i_l007_fix (i_l007_fix t) = i_l007_fix t.
Proof. exact (l007_fix_idempotent idstart idpart id_facts letter digit upper keywords_tab up_plain up_id up_letter up_idem). Qed.

(* the output of the CLI loop (L001; L002; L003; L010; L007) is a fixed point of every one of the five fixers, so a second
   run of  lint --auto-fix  changes nothing *)
Theorem C17_cli_fixed_points : forall t,
  i_l001_fix (i_cli_fix t) = i_cli_fix t /\ i_l002_fix (i_cli_fix t) = i_cli_fix t /\ i_l003_fix (i_cli_fix t) = i_cli_fix t /\
  i_l010_fix (i_cli_fix t) = i_cli_fix t /\ i_l007_fix (i_cli_fix t) = i_cli_fix t.
Proof. exact (cli_fixed_points idstart idpart id_facts letter digit space upper keywords_tab up_plain up_id up_letter up_idem up_nows sp_nodelim (proj1 space_32_9)). Qed.
Theorem C17_cli_fix_idempotent : forall t, i_cli_fix (i_cli_fix t) = i_cli_fix t.
Proof. exact (cli_fix_idempotent idstart idpart id_facts letter digit space upper keywords_tab up_plain up_id up_letter up_idem up_nows sp_nodelim (proj1 space_32_9)). Qed.

(* formatting a formatted document changes nothing (textDocument/formatting, every option setting) *)
Theorem C17_format_idempotent : forall tab spaces final t,
  i_format tab spaces final (i_format tab spaces final t) = i_format tab spaces final t.
Proof. exact (format_idempotent idstart idpart id_facts space upper sp_nodelim (proj1 space_32_9) (proj1 (proj2 space_32_9))). Qed.

(* the same on bytes, for every text made of ASCII bytes (decode / encode are inverse there; for other texts the lifting
   needs decode (encode t) = t on rewriter outputs, which is exercised by the fixed-point oracle, not proved) *)
Theorem C17_bytes_l001_idempotent : forall s, ascii_bytes s = true -> onbytes i_l001_fix (onbytes i_l001_fix s) = onbytes i_l001_fix s.
Proof. exact (onbytes_idem i_l001_fix (ascl_l001 idstart idpart id_facts) C17_l001_fix_idempotent). Qed.
Theorem C17_bytes_l002_idempotent : forall s, ascii_bytes s = true -> onbytes i_l002_fix (onbytes i_l002_fix s) = onbytes i_l002_fix s.
Proof. exact (onbytes_idem i_l002_fix (ascl_l002 idstart idpart id_facts) C17_l002_fix_idempotent). Qed.
Theorem C17_bytes_l003_idempotent : forall s, ascii_bytes s = true -> onbytes i_l003_fix (onbytes i_l003_fix s) = onbytes i_l003_fix s.
Proof. exact (onbytes_idem i_l003_fix (ascl_l003 idstart idpart id_facts space) C17_l003_fix_idempotent). Qed.
Theorem C17_bytes_l010_idempotent : forall s, ascii_bytes s = true -> onbytes i_l010_fix (onbytes i_l010_fix s) = onbytes i_l010_fix s.
Proof. exact (onbytes_idem i_l010_fix (ascl_l010 idstart idpart id_facts) C17_l010_fix_idempotent). Qed.
Theorem C17_bytes_l007_idempotent : forall s, ascii_bytes s = true -> onbytes i_l007_fix (onbytes i_l007_fix s) = onbytes i_l007_fix s.
Proof. exact (onbytes_idem i_l007_fix (ascl_l007 idstart idpart id_facts letter digit upper keywords_tab up_ascii) C17_l007_fix_idempotent). Qed.
Theorem C17_bytes_cli_idempotent : forall s, ascii_bytes s = true -> onbytes i_cli_fix (onbytes i_cli_fix s) = onbytes i_cli_fix s.
Proof. exact (onbytes_idem i_cli_fix (ascl_cli idstart idpart id_facts letter digit space upper keywords_tab up_ascii) C17_cli_fix_idempotent). Qed.
Theorem C17_bytes_format_idempotent : forall tab spaces final s, ascii_bytes s = true ->
  onbytes (i_format tab spaces final) (onbytes (i_format tab spaces final) s) = onbytes (i_format tab spaces final) s.
Proof.
  exact (fun tab spaces final => onbytes_idem (i_format tab spaces final) (ascl_format idstart idpart id_facts space upper tab spaces final)
                                   (C17_format_idempotent tab spaces final)).
Qed.

(* ---- re-lint: no violation of the rule remains after its fix ---- *)
Theorem C17_l001_fix_clears : forall t, i_l001_check (i_l001_fix t) = [].
Proof. exact (l001_fix_clears idstart idpart id_facts). Qed.
Theorem C17_l002_fix_clears : forall t, i_l002_check (i_l002_fix t) = [].
Proof. exact (l002_fix_clears idstart idpart id_facts). Qed.
Theorem C17_l007_fix_clears : forall t, i_l007_check (i_l007_fix t) = [].
Proof. exact (l007_fix_clears idstart idpart id_facts letter digit upper keywords_tab up_plain up_id up_letter up_idem). Qed.
(* L010 reports byte columns: for the texts [decode] produces (well-formed characters) *)
Theorem C17_decode_wf : forall s, wft (decode s).
Proof. exact decode_wf. Qed.
Theorem C17_l010_fix_clears : forall t, wft t -> i_l010_check (i_l010_fix t) = [].
Proof. exact (l010_fix_clears idstart idpart id_facts). Qed.
Theorem C17_l003_fix_clears : forall t, i_l003_check (i_l003_fix t) = [].
Proof. exact (fun t => l003_fix_clears_mx idstart idpart id_facts space sp_nodelim 1 t (le_n 1)). Qed.

(* ---- exactness: a rule flags exactly the defect its name states, at an existing location ----
   The lines are the classified lines [i_clines t] of the whole text: (starts in code?, characters with their class).
   L001 trailing whitespace: the line ends in a space or tab that is code or the tail of a -- comment. *)
Theorem C17_l001_check_exact : forall t n col,
  In (n, col) (i_l001_check t) <->
  exists fl, nth_error (i_clines t) (n - 1) = Some fl /\ 1 <= n /\ ends_tblank (snd fl) /\
             col = S (blen (chars (trim_r tblank (snd fl)))).
Proof. exact (l001_check_exact idstart idpart). Qed.
Theorem C17_l001_location : forall t n col, In (n, col) (i_l001_check t) ->
  exists fl, nth_error (i_clines t) (n - 1) = Some fl /\ 1 <= n <= length (i_clines t) /\ 1 <= col <= S (blen (chars (snd fl))).
Proof. exact (l001_location idstart idpart). Qed.
(* L002 mixed indentation: the code indentation of the line mixes tabs and spaces, or differs from the first pure style *)
Theorem C17_l002_check_exact : forall t n col,
  In (n, col) (i_l002_check t) <->
  col = 1 /\ 1 <= n /\ exists fl, nth_error (i_clines t) (n - 1) = Some fl /\ l002_defect 0 (firstn (n - 1) (i_clines t)) (snd fl).
Proof. exact (l002_check_exact idstart idpart). Qed.
Theorem C17_l002_location : forall t n col, In (n, col) (i_l002_check t) ->
  1 <= n <= length (i_clines t) /\ col = 1 /\ exists fl, nth_error (i_clines t) (n - 1) = Some fl /\ take_l lblank (snd fl) <> [].
Proof. exact (l002_location idstart idpart). Qed.
(* L003 consecutive blank lines: line n starts a run of more than one blank line of code *)
Theorem C17_l003_check_exact : forall t n col,
  In (n, col) (i_l003_check t) <->
  col = 1 /\ 1 <= n /\ startsG space 0 (i_clines t) (n - 1) /\ 1 < run_from space (i_clines t) (n - 1).
Proof. exact (l003_check_exact idstart idpart space 1). Qed.
Theorem C17_l003_location : forall t n col, In (n, col) (i_l003_check t) -> 1 <= n <= length (i_clines t) /\ col = 1.
Proof. exact (l003_location idstart idpart space 1). Qed.
(* L007 keyword case: a code word (maximal run of letters, digits, '_' of code that starts with a letter or '_' where no word
   is running) that spells a keyword in another case; the column is the byte column of its first character *)
Theorem C17_l007_check_exact : forall t n col,
  In (n, col) (i_l007_check t) <->
  exists fl pre wd post, nth_error (i_clines t) (n - 1) = Some fl /\ 1 <= n /\ code_word letter digit (snd fl) pre wd post /\
    word_viol upper keywords_tab (chars wd) = true /\ col = S (blen (chars pre)).
Proof. exact (l007_check_exact idstart idpart letter digit upper keywords_tab). Qed.
Theorem C17_l007_location : forall t n col, In (n, col) (i_l007_check t) ->
  exists fl, nth_error (i_clines t) (n - 1) = Some fl /\ 1 <= n <= length (i_clines t) /\ 1 <= col <= S (blen (chars (snd fl))).
Proof. exact (l007_location idstart idpart letter digit upper keywords_tab). Qed.
(* L010 redundant whitespace: a maximal run of two or more code spaces (cspace_run) that is not indentation (some byte up
   to the first space of the run is neither space nor tab); the column is the byte column of the first space of the run *)
Theorem C17_l010_check_exact : forall t n col,
  In (n, col) (i_l010_check t) <->
  exists fl pre r post, nth_error (i_clines t) (n - 1) = Some fl /\ 1 <= n /\ cspace_run (snd fl) pre r post /\
    indent_bytes (snd fl) col = false /\ col = S (blen (chars pre)).
Proof. exact (l010_check_exact idstart idpart). Qed.
Theorem C17_l010_location : forall t n col, In (n, col) (i_l010_check t) ->
  exists fl, nth_error (i_clines t) (n - 1) = Some fl /\ 1 <= n <= length (i_clines t) /\ 1 <= col <= S (blen (chars (snd fl))).
Proof. exact (l010_location idstart idpart). Qed.
(* L005 long lines: a non-empty line that does not start with a comment opener and is longer than the limit, in bytes *)
Theorem C17_l005_check_exact : forall mx t n col,
  In (n, col) (i_l005_check mx t) <->
  exists fl, nth_error (i_clines t) (n - 1) = Some fl /\ 1 <= n /\ chars (snd fl) <> [] /\
            (starts2 45 45 (i_trim_space (chars (snd fl))) || starts2 47 42 (i_trim_space (chars (snd fl)))) = false /\
            mx < blen (chars (snd fl)) /\ col = S mx.
Proof. exact (l005_check_exact idstart idpart space). Qed.

(* ---- the string forms whose delimiters are longer than one character are read as the tokenizer reads them ----
   [lit_code m l]: the first m characters of l are class 1 (literal), the scanner is in code after them.
   Three apostrophes where a string literal may begin open a literal that runs up to and including the next three apostrophes
   in a row ([tri_len]: the tokenizer's loop), so single and doubled quotes inside it are content. *)
Theorem C17_triple_quote_read : forall a b c l, ap a = true -> ap b = true -> ap c = true ->
  lex idstart idpart SCode (a :: b :: c :: l) = lit_code idstart idpart (3 + tri_len l) (a :: b :: c :: l).
Proof. exact (triple_quoted_read idstart idpart). Qed.
(* inside a '...' literal a doubled quote (any two quote characters of the apostrophe kind) is content: its second quote
   never opens a triple-quoted string *)
Theorem C17_doubled_quote_is_content : forall a b l, nq (cp a) = 39%N -> nq (cp b) = 39%N ->
  lex idstart idpart (SLit 39) (a :: b :: l) = 1%N :: 1%N :: lex idstart idpart (SLit 39) l.
Proof. exact (doubled_quote_read idstart idpart). Qed.
(* a '$' followed by  tag '$'  (tag: empty, or an identifier) opens a literal that runs up to and including the first repetition of
   the delimiter '$' tag '$' ([dol_len]: the tokenizer's loop): quotes, comment openers, other '$' inside it are content *)
Theorem C17_dollar_quote_read : forall c nx tag, N.eqb (cp c) 36 = true -> dollar_tag idstart idpart nx = Some tag -> wft nx ->
  lex idstart idpart SCode (c :: nx) =
  lit_code idstart idpart (S (S (length tag)) + dol_len (dl :: tag ++ [dl]) (skipn (S (length tag)) nx)) (c :: nx).
Proof. exact (dollar_quoted_read idstart idpart). Qed.
(* any other '$' ("$1", "$ x", "$a b$", a tag that runs into the end of the text) is a character of code *)
Theorem C17_dollar_not_opener_is_code : forall c nx, N.eqb (cp c) 36 = true -> dollar_tag idstart idpart nx = None ->
  lstep idstart idpart SCode c nx = (0%N, SCode).
Proof. exact (dollar_not_opener_read idstart idpart). Qed.
(* hence (with the preservation theorems): the characters of literals - triple-quoted and dollar-quoted ones included - ,
   quoted identifiers and comments are the same, in the same order, after  lint --auto-fix  and after the format action *)
Theorem C17_cli_literals_kept : forall t, lit_chars (lex_reading (i_cli_fix t)) = lit_chars (lex_reading t).
Proof. exact (fun t => f_equal lit_chars (C17_cli_tokens_preserved t)). Qed.
Theorem C17_format_literals_kept : forall tab spaces final t,
  lit_chars (lex_reading (i_format tab spaces final t)) = lit_chars (lex_reading t).
Proof. exact (fun tab spaces final t => f_equal lit_chars (C17_format_tokens_preserved tab spaces final t)). Qed.
(* and what L007 / L010 flag is a word / a run of spaces of code: never a character of a literal, quoted identifier or comment *)
Theorem C17_l007_flags_code_only : forall t n col, In (n, col) (i_l007_check t) ->
  exists fl pre wd post, nth_error (i_clines t) (n - 1) = Some fl /\ snd fl = pre ++ wd ++ post /\
    col = S (blen (chars pre)) /\ wd <> [] /\ forallb code0 wd = true.
Proof. exact (l007_flags_code idstart idpart letter digit upper keywords_tab). Qed.
Theorem C17_l010_flags_code_only : forall t n col, In (n, col) (i_l010_check t) ->
  exists fl pre r post, nth_error (i_clines t) (n - 1) = Some fl /\ snd fl = pre ++ r ++ post /\
    col = S (blen (chars pre)) /\ 2 <= length r /\ forallb code0 r = true.
Proof. exact (l010_flags_code idstart idpart). Qed.

Print Assumptions C17_l001_tokens_preserved.
Print Assumptions C17_l002_tokens_preserved.
Print Assumptions C17_l003_tokens_preserved.
Print Assumptions C17_l010_tokens_preserved.
Print Assumptions C17_l007_tokens_preserved.
Print Assumptions C17_cli_tokens_preserved.
Print Assumptions C17_format_tokens_preserved.
Print Assumptions C17_l001_fix_idempotent.
Print Assumptions C17_l002_fix_idempotent.
Print Assumptions C17_l003_fix_idempotent.
Print Assumptions C17_l010_fix_idempotent.
Print Assumptions C17_l007_fix_idempotent.
Print Assumptions C17_cli_fixed_points.
Print Assumptions C17_cli_fix_idempotent.
Print Assumptions C17_format_idempotent.
Print Assumptions C17_bytes_l001_idempotent.
Print Assumptions C17_bytes_l002_idempotent.
Print Assumptions C17_bytes_l003_idempotent.
Print Assumptions C17_bytes_l010_idempotent.
Print Assumptions C17_bytes_l007_idempotent.
Print Assumptions C17_bytes_cli_idempotent.
Print Assumptions C17_bytes_format_idempotent.
Print Assumptions C17_l001_fix_clears.
Print Assumptions C17_l002_fix_clears.
Print Assumptions C17_l003_fix_clears.
Print Assumptions C17_l007_fix_clears.
Print Assumptions C17_decode_wf.
Print Assumptions C17_l010_fix_clears.
Print Assumptions C17_l001_check_exact.
Print Assumptions C17_l001_location.
Print Assumptions C17_l002_check_exact.
Print Assumptions C17_l002_location.
Print Assumptions C17_l003_check_exact.
Print Assumptions C17_l003_location.
Print Assumptions C17_l005_check_exact.
Print Assumptions C17_l010_check_exact.
Print Assumptions C17_l010_location.
Print Assumptions C17_l007_check_exact.
Print Assumptions C17_l007_location.
Print Assumptions C17_triple_quote_read.
Print Assumptions C17_doubled_quote_is_content.
Print Assumptions C17_dollar_quote_read.
Print Assumptions C17_dollar_not_opener_is_code.
Print Assumptions C17_cli_literals_kept.
Print Assumptions C17_format_literals_kept.
Print Assumptions C17_l007_flags_code_only.
Print Assumptions C17_l010_flags_code_only.

(* ---- non-vacuity: concrete, non-trivial texts; the fixers do change them, the literals are kept ---- *)
Local Open Scope N_scope.
Definition ex_bytes : list N :=   (* "select  'a  \n\n\n\tb  ' \n\n\n\tfrom t\t" *)
  [115;101;108;101;99;116;32;32;39;97;32;32;10;10;10;9;98;32;32;39;32;10;10;10;9;102;114;111;109;32;116;9].
Example ex_cli : encode (i_cli_fix (decode ex_bytes)) =
  [83;69;76;69;67;84;32;39;97;32;32;10;10;10;9;98;32;32;39;10;10;32;32;32;32;70;82;79;77;32;116].
Proof. vm_compute. reflexivity. Qed.
Example ex_l001_flags : i_l001_check (decode ex_bytes) = [(4, 6); (7, 8)]%nat.
Proof. vm_compute. reflexivity. Qed.
Example ex_l007_flags : i_l007_check (decode ex_bytes) = [(1, 1); (7, 2)]%nat.
Proof. vm_compute. reflexivity. Qed.
Example ex_l010_flags : i_l010_check (decode ex_bytes) = [(1, 7)]%nat.
Proof. vm_compute. reflexivity. Qed.

(* a text with a dollar-quoted and a triple-quoted string: "select  $q$ a  'b $q$,  '''it's  x'''  from  t" *)
Definition ex_lit : list N :=
  [115;101;108;101;99;116;32;32;36;113;36;32;97;32;32;39;98;32;36;113;36;44;32;32;39;39;39;105;116;39;115;32;32;120;39;39;39;32;32;102;114;111;109;32;32;116].
Example ex_lit_classes : lex idstart idpart SCode (decode ex_lit) =
  [0;0;0;0;0;0;0;0;1;1;1;1;1;1;1;1;1;1;1;1;1;0;0;0;1;1;1;1;1;1;1;1;1;1;1;1;1;0;0;0;0;0;0;0;0;0].
Proof. vm_compute. reflexivity. Qed.
(* lint --auto-fix on it: "SELECT $q$ a  'b $q$, '''it's  x''' FROM t" (the spaces inside both strings are kept) *)
Example ex_lit_cli : encode (i_cli_fix (decode ex_lit)) =
  [83;69;76;69;67;84;32;36;113;36;32;97;32;32;39;98;32;36;113;36;44;32;39;39;39;105;116;39;115;32;32;120;39;39;39;32;70;82;79;77;32;116].
Proof. vm_compute. reflexivity. Qed.
Example ex_lit_l010_flags : i_l010_check (decode ex_lit) = [(1, 7); (1, 23); (1, 38); (1, 44)]%nat.
Proof. vm_compute. reflexivity. Qed.
