(* C12 — recovery parsing terminates, agrees with strict parsing, loses no good statement.
   Model: Model/Loops.v [recover] (parseWithRecovery with its forced advance and synchronize), parametric in the
   statement parser; the hypotheses on [ps] are measured on the real parseStatement for every recorded table. *)
From Coq Require Import List Arith Bool.
From GV Require Import Model.Loops Proofs.LoopsP.
Import ListNotations.

(* termination on every token list: |tokens|+1 iterations always suffice, for any statement parser that never
   moves the cursor backwards and consumes something when it succeeds *)
Theorem C12_recovery_terminates :
  forall tree ntok is_eof is_semi starts_stmt ps,
    (forall p t p', ps p = SOk t p' -> p < p') ->
    (forall p c p', ps p = SErr c p' -> p <= p') ->
    forall fuel pos acc errs, ntok - pos < fuel ->
      recover tree ntok is_eof is_semi starts_stmt ps fuel pos acc errs <> RFuel.
Proof. exact recover_fuel. Qed.

(* at least one error exactly when strict parsing fails *)
Theorem C12_errors_iff_strict_fails :
  forall tree ntok is_eof is_semi starts_stmt ps fuel ts es,
    recover tree ntok is_eof is_semi starts_stmt ps fuel 0 [] [] = ROk ts es ->
    parse tree ntok is_eof is_semi ps false fuel 0 [] <> PFuel ->
    (forall c, parse tree ntok is_eof is_semi ps false fuel 0 [] = PErr c -> c <> E_EMPTY) ->
    (es <> [] <-> exists c, parse tree ntok is_eof is_semi ps false fuel 0 [] = PErr c).
Proof. exact recovery_iff_strict. Qed.

(* semicolon-separated statements: precisely the trees of the well-formed ones, in order, and one error per
   malformed one, each located at the first token of its own statement *)
Theorem C12_recovery_segments :
  forall tree ntok is_eof is_semi starts_stmt ps,
    (forall p t p', ps p = SOk t p' -> p < p') ->
    (forall p c p', ps p = SErr c p' -> p <= p') ->
    forall l pos, segs tree ntok is_eof is_semi starts_stmt ps pos l ->
    forall fuel acc errs, ntok - pos < fuel ->
      recover tree ntok is_eof is_semi starts_stmt ps fuel pos acc errs
      = ROk (acc ++ goods tree l) (errs ++ bads tree l).
Proof. exact recovery_segments. Qed.

Print Assumptions C12_recovery_terminates.
Print Assumptions C12_errors_iff_strict_fails.
Print Assumptions C12_recovery_segments.
