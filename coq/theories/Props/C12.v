(* C12 — recovery parsing terminates, agrees with strict parsing, loses no good statement.
   Model: Model/Loops.v [recover] (parseWithRecovery with its forced advance and synchronize), parametric in the
   statement parser; the hypotheses on [ps] are measured on the real parseStatement for every recorded table. *)
From Coq Require Import List Arith Bool NArith.
From GV Require Import Model.Loops Proofs.LoopsP.
Import ListNotations.

(* termination on every token list: |tokens|+1 iterations always suffice, for any statement parser that never
   moves the cursor backwards and consumes something when it succeeds *)
Theorem C12_recovery_terminates :
  forall tree ntok is_eof is_semi starts_stmt ps,
    (forall p t p', ps p = SOk t p' -> p < p') ->
    (forall p c p', ps p = SErr c p' -> p <= p') ->
    forall fuel pos acc errs u, ntok - pos < fuel ->
      recover tree ntok is_eof is_semi starts_stmt ps fuel pos acc errs u <> RFuel.
Proof. exact recover_fuel. Qed.

(* at least one error exactly when strict parsing fails *)
Theorem C12_errors_iff_strict_fails :
  forall tree ntok is_eof is_semi starts_stmt ps fuel ts es,
    recover tree ntok is_eof is_semi starts_stmt ps fuel 0 [] [] None = ROk ts es ->
    parse tree ntok is_eof is_semi ps false fuel 0 [] <> PFuel ->
    (forall c, parse tree ntok is_eof is_semi ps false fuel 0 [] = PErr c -> c <> E_EMPTY) ->
    (es <> [] <-> exists c, parse tree ntok is_eof is_semi ps false fuel 0 [] = PErr c).
Proof. exact recovery_iff_strict. Qed.

(* semicolon-separated statements: precisely the trees of the well-formed ones, in order, and one error per
   malformed one, each located at a token of its own statement.  [segs] describes the segments as the property does:
   a well-formed segment parses to exactly its terminator (segs_good); a malformed one either fails outright without
   passing its terminator (segs_bad) or begins with a complete statement that is followed, inside the segment, by a
   token that cannot start a statement (segs_bad_prefix: no tree is returned for that prefix); no statement-starting
   keyword lies between the failure point and the terminator. *)
Theorem C12_recovery_segments :
  forall tree ntok is_eof is_semi starts_stmt ps,
    (forall p t p', ps p = SOk t p' -> p < p') ->
    (forall p c p', ps p = SErr c p' -> p <= p') ->
    forall l, segs tree ntok is_eof is_semi starts_stmt ps 0 l ->
    forall fuel, ntok + length l < fuel ->
      recover tree ntok is_eof is_semi starts_stmt ps fuel 0 [] [] None
      = ROk (goods tree l) (bads tree l).
Proof. exact recovery_segments. Qed.

(* ... and every one of those errors is located (line and column of the token under the cursor when the statement
   parser gave up) inside its own segment: at or after the first token of the failing statement, with no semicolon
   between the located token and the semicolon / end of input that terminates that segment *)
Theorem C12_errors_located_in_own_segment :
  forall tree ntok is_eof is_semi starts_stmt ps,
    (forall p c p', ps p = SErr c p' -> p <= p') ->
    forall l pos, segs tree ntok is_eof is_semi starts_stmt ps pos l ->
    Forall (fun sc : nat * N =>
              exists p' e, ps (fst sc) = SErr (snd sc) p' /\ err_loc tree ps (fst sc) = p' /\ fst sc <= p' /\ p' <= e /\
                           ((e <? ntok) && negb (is_eof e) = true /\ is_semi e = true \/ (e <? ntok) && negb (is_eof e) = false) /\
                           (forall k, p' <= k < e -> is_semi k = false))
           (bads tree l).
Proof. exact segs_errors_located. Qed.

(* non-vacuity: tokens  K . S K . . . S K . E : statement, ';', a statement whose well-formed prefix [K .] is followed
   by two stray tokens, ';', statement.  Recovery returns the first and the third tree and one error at token 5. *)
Example C12_segments_example :
  let kinds := [3; 0; 2; 3; 0; 0; 0; 2; 3; 0; 1] in
  let tbl := [SOk 100 2; SErr 1%N 1; SErr 1%N 2; SOk 200 5; SErr 1%N 4; SErr 7%N 5; SErr 1%N 6; SErr 1%N 7;
              SOk 300 10; SErr 1%N 9; SErr 1%N 10] in
  run_recover kinds tbl = ROk [100; 300] [(5, 7%N)] /\ run_parse false kinds tbl = PErr 7%N.
Proof. vm_compute. split; reflexivity. Qed.

Print Assumptions C12_recovery_terminates.
Print Assumptions C12_errors_iff_strict_fails.
Print Assumptions C12_recovery_segments.
Print Assumptions C12_errors_located_in_own_segment.
