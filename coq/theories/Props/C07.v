(* C07 — all parsing and validation entry points agree.
   Model: Model/Loops.v (each copy of the statement loop as written, parametric in the statement parser).
   The wrappers (gosqlx.Parse/ParseBytes/ParseWithContext/ParseWithTimeout/Validate, parser.ParseBytes/Validate/
   ParseBytesWithTokens/ParseWithDialect, the *FromModelTokens methods) are compositions of one tokenizer run, one
   token conversion and one of these loops; that composition, and the table [ps] the loops are run on, are what
   the recorded-ps correspondence ties to the code on every run. *)
From Coq Require Import List Arith Bool.
From GV Require Import Model.Loops Proofs.LoopsP Model.Wrappers Proofs.WrappersP.
Import ListNotations.

(* Parser.ParseContext with a context that never fires is Parser.Parse, in default and in strict mode: same trees,
   same error *)
Theorem C07_parse_context_agrees :
  forall tree ntok is_eof is_semi ps strict fuel pos acc,
    parse_ctx tree ntok is_eof is_semi ps strict fuel pos acc = parse tree ntok is_eof is_semi ps strict fuel pos acc.
Proof. exact parse_ctx_agrees. Qed.

(* recovery-mode parsing accepts exactly when strict parsing accepts, and then returns the same trees *)
Theorem C07_recovery_accepts_iff :
  forall tree ntok is_eof is_semi starts_stmt ps fuel ts es,
    recover tree ntok is_eof is_semi starts_stmt ps fuel 0 [] [] None = ROk ts es ->
    parse tree ntok is_eof is_semi ps false fuel 0 [] <> PFuel ->
    (forall c, parse tree ntok is_eof is_semi ps false fuel 0 [] = PErr c -> c <> E_EMPTY) ->
    (es <> [] <-> exists c, parse tree ntok is_eof is_semi ps false fuel 0 [] = PErr c).
Proof. exact recovery_iff_strict. Qed.

(* when both fail, the first error recovery reports carries the code strict parsing reports *)
Theorem C07_recovery_same_code :
  forall tree ntok is_eof is_semi starts_stmt ps fuel c ts es,
    parse tree ntok is_eof is_semi ps false fuel 0 [] = PErr c -> c <> E_EMPTY ->
    recover tree ntok is_eof is_semi starts_stmt ps fuel 0 [] [] None = ROk ts es ->
    exists p more, es = (p, c) :: more.
Proof. intros tree ntok is_eof is_semi starts_stmt ps fuel c ts es Hp Hc Hr.
       exact (fail_then_first_err tree ntok is_eof is_semi starts_stmt ps fuel 0 [] c [] None ts es Hp (or_intror Hc) Hr). Qed.

Theorem C07_recovery_same_trees :
  forall tree ntok is_eof is_semi starts_stmt ps fuel ts,
    parse tree ntok is_eof is_semi ps false fuel 0 [] = POk ts ->
    recover tree ntok is_eof is_semi starts_stmt ps fuel 0 [] [] None = ROk ts [].
Proof. exact recovery_trees_when_ok. Qed.

(* strict mode never changes a tree or an error other than by raising the strict-mode error *)
Theorem C07_strict_refines :
  forall tree ntok is_eof is_semi ps fuel pos acc r,
    parse tree ntok is_eof is_semi ps true fuel pos acc = r ->
    r = PErr E_STRICT \/ parse tree ntok is_eof is_semi ps false fuel pos acc = r.
Proof. exact strict_refines. Qed.

(* a batch call returns exactly what the individual calls return and fails at the first failing index *)
Theorem C07_batch_ok :
  forall Q T (one : Q -> pres T) qs i acc rs,
    multi Q T one i qs acc = MOk rs ->
    exists rs', rs = acc ++ rs' /\ Forall2 (fun q ts => one q = POk ts) qs rs'.
Proof. exact multi_ok. Qed.

Theorem C07_batch_first_failure :
  forall Q T (one : Q -> pres T) qs i acc j c,
    multi Q T one i qs acc = MErr j c ->
    exists pre q post, qs = pre ++ q :: post /\ j = i + length pre /\ one q = PErr c /\
                       Forall (fun q' => exists ts, one q' = POk ts) pre.
Proof. exact multi_err. Qed.

Theorem C07_batch_all_ok :
  forall Q T (one : Q -> pres T) qs i acc rs',
    Forall2 (fun q ts => one q = POk ts) qs rs' -> multi Q T one i qs acc = MOk (acc ++ rs').
Proof. exact multi_all_ok. Qed.

(* the batch entry points run every member on ONE reused parser: as long as every call leaves the parser in a state in
   which a call behaves like one on a fresh parser (the measured hypothesis "depth counter restored", C08's reset
   theorems), the batch on the reused parser is the batch of individual calls ... *)
Theorem C07_batch_reused_parser :
  forall Q T St (one_st : St -> Q -> pres T * St) (s0 : St) (good : St -> Prop),
    (forall s q, good s -> good (snd (one_st s q))) ->
    (forall s q, good s -> fst (one_st s q) = fst (one_st s0 q)) ->
    forall qs s i acc, good s ->
      multi_st Q T St one_st s i qs acc = multi Q T (fun q => fst (one_st s0 q)) i qs acc.
Proof. exact multi_st_refines. Qed.

(* ... instantiated on the nesting-depth counter with balanced bookkeeping ... *)
Theorem C07_batch_depth_balanced :
  forall limit qs i acc, Forall (fun q => snd q = 0) qs ->
    multi_st (nat * nat) nat nat (depth_one limit) 0 i qs acc
    = multi (nat * nat) nat (fun q => fst (depth_one limit 0 q)) i qs acc.
Proof. exact depth_batch_balanced. Qed.

(* ... and false as soon as a member leaves one level behind: 101 queries, each accepted alone, the batch fails *)
Theorem C07_batch_depth_leak_refuted :
  Forall (fun q => fst (depth_one 100 0 q) = POk [fst q]) (repeat (1, 1) 101) /\
  multi_st (nat * nat) nat nat (depth_one 100) 0 0 (repeat (1, 1) 101) [] = MErr 100 E_DEPTH.
Proof. exact depth_batch_leak_refuted. Qed.

(* THE PROPERTY: for every input whose front end (tokenize + convert) result has a token other than semicolons, any two
   entry points — Parse / ParseWithPositions / ParseContext (context never fires) / Validate / recovery, i.e. every
   entry point of the property by the loop copy it runs (Model/Wrappers.v) — both accept or both reject; those that
   return trees return equal trees; those that fail report the same error code (for recovery: its first error).
   A front-end failure is the same failure for all of them.  Holds for every statement parser that consumes on
   success and never moves the cursor backwards. *)
Theorem C07_entry_points_agree :
  forall tree (f : fres tree) (e1 e2 : entry),
    match f with FErr _ => True | FOk t => has_statement_token tree t /\ ps_ok tree t end ->
    agree tree (run_entry tree e1 f) (run_entry tree e2 f).
Proof. exact entry_points_agree. Qed.

Print Assumptions C07_entry_points_agree.
Print Assumptions C07_parse_context_agrees.
Print Assumptions C07_recovery_accepts_iff.
Print Assumptions C07_recovery_same_code.
Print Assumptions C07_recovery_same_trees.
Print Assumptions C07_strict_refines.
Print Assumptions C07_batch_ok.
Print Assumptions C07_batch_first_failure.
Print Assumptions C07_batch_all_ok.
Print Assumptions C07_batch_reused_parser.
Print Assumptions C07_batch_depth_balanced.
Print Assumptions C07_batch_depth_leak_refuted.
