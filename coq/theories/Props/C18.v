(* C18 — Language server never dies, answers each request once, mirrors the document.
   Only statements, closed by [exact], with Print Assumptions.  Models: Model/LspFrame.v (frame reader and
   writer over the byte stream), Model/LspDoc.v (document mirror over bytes and Z positions),
   Model/LspServe.v (message loop, rate limiter, document notifications); specification: Spec/LspSpec.v
   (the protocol's rule for applying an edit: lines ended by LF, CR LF or CR; UTF-16 columns; clamping), Model/LspMirror.v (how a
   protocol-level history is presented to the mirror). *)
From Coq Require Import List NArith ZArith Bool.
From GV Require Import Model.LspDoc Model.LspFrame Model.LspServe Spec.LspSpec Model.LspMirror.
From GV Require Import Proofs.LspDocP Proofs.LspFrameP Proofs.LspServeP Proofs.LspMirrorP.
Import ListNotations.

(* ---------------------------------------------------------------------------------------------
   framing *)

(* every body the writer frames is read back exactly, whatever follows it on the stream, for every
   non-empty body up to the length bound *)
Theorem C18_frame_roundtrip : forall g maxlen b r,
    b <> [] -> (Z.of_nat (length b) <= maxlen)%Z -> (maxlen <= int_max)%Z ->
    read_frame g maxlen (write_frame b ++ r) = FMsg b r.
Proof. exact frame_roundtrip. Qed.

(* the header the writer emits announces exactly the byte length of the body and the header section ends
   exactly where the body starts *)
Theorem C18_frame_length_exact : forall b r, (Z.of_nat (length b) <= int_max)%Z ->
    headers (write_frame b ++ r) [] 0%Z = HDone (Z.of_nat (length b)) (b ++ r).
Proof. exact frame_length_exact. Qed.

(* a stream of framed messages is delivered message by message, in order, none lost or merged *)
Theorem C18_read_all_frames : forall g maxlen bs,
    Forall (fun b => b <> [] /\ (Z.of_nat (length b) <= maxlen)%Z) bs -> (maxlen <= int_max)%Z ->
    forall fuel, (length (concat (map write_frame bs)) < fuel)%nat ->
    read_all g maxlen fuel (concat (map write_frame bs)) = map IBody bs ++ [IEof].
Proof. exact read_all_frames. Qed.

(* the reader never panics, on any byte stream whatsoever (headers, lengths, signs, garbage) *)
Theorem C18_read_frame_total : forall maxlen s, read_frame true maxlen s <> FPanic.
Proof. exact read_frame_total. Qed.

(* ... and the loop over a whole stream terminates: the fuel |s|+1 is never exhausted *)
Theorem C18_read_all_fuel : forall g maxlen s fuel, (length s < fuel)%nat -> ~ In IFuel (read_all g maxlen fuel s).
Proof. exact read_all_fuel. Qed.

(* the pinned reader (no test for a negative length) panics: regression witness of fix d3e8221 *)
Theorem C18_read_frame_unguarded_refuted : exists s, read_frame false 10485760 s = FPanic.
Proof. exact read_frame_unguarded_refuted. Qed.

(* ---------------------------------------------------------------------------------------------
   document mirror *)

(* no edit panics: every Z line/character (negative, past the end, inverted), every document, every
   replacement text, even a line cache unrelated to the content *)
Theorem C18_apply_change_total : forall content lines r text, apply_change content lines r text <> Panic.
Proof. exact apply_change_total. Qed.

Theorem C18_dm_run_total : forall ops ds, dm_run ds ops <> Panic.
Proof. exact dm_run_total. Qed.

(* one edit: the mirror of the UTF-8 encoded document equals the encoding of the document edited under
   the protocol's rule, for all Z ranges, all documents of Unicode scalar values, all texts *)
Theorem C18_mirror_correct : forall d txt sl sc el ec, valid_text d ->
    apply_change (enc d) (split_lines (enc d)) (Range sl sc el ec) (enc txt)
    = Val (enc (spec_apply d sl sc el ec txt)).
Proof. exact mirror_correct. Qed.

(* every list of full and incremental edits *)
Theorem C18_mirror_correct_edits : forall es d v, valid_text d -> Forall valid_edit es ->
    apply_all (Doc v (enc d) (split_lines (enc d))) (map enc_edit es)
    = Val (Doc v (enc (spec_edits d es)) (split_lines (enc (spec_edits d es)))).
Proof. exact mirror_correct_edits. Qed.

(* every history of open / change / close notifications on a document, interleaved with arbitrary
   operations on other documents: the manager's copy is the protocol-level document, with its version *)
Theorem C18_history_mirror : forall u os ds s ds',
    hist_rel u ds s -> Forall (valid_sop u) os -> dm_run ds (map (enc_op u) os) = Val ds' ->
    observe ds' u = enc_obs (spec_run s os).
Proof. exact dm_history_observe. Qed.

(* ---------------------------------------------------------------------------------------------
   message loop (as repaired: handlers under recover) *)

Definition update_total : forall ds u v cs, dm_update ds u v cs <> Panic :=
  fun ds u v cs => dm_step_total ds (OpChange u v cs).

(* the loop never dies: every history of decoded messages, every handler outcome including handler
   panics and parser panics during validation, every clock, every limiter setting *)
Theorem C18_serve_total : forall window limit maxdoc validate ms clock k st,
    serve true window limit maxdoc validate clock k st ms <> Panic.
Proof. exact serve_total. Qed.

(* the response frames of a run are exactly the ids the history must be answered with, in order — for
   every history, every clock, also beyond the limiter window; notifications are never answered *)
Theorem C18_serve_resp_ids : forall rf window limit maxdoc validate ms clock k st st' evs,
    s_shutdown st = false ->
    serve rf window limit maxdoc validate clock k st ms = Val (st', evs) ->
    resp_ids evs = expected_ids window limit clock k (s_count st) (s_reset st) ms.
Proof. exact serve_resp_ids. Qed.

(* within the limiter window: one response per request (and per malformed body with a recoverable id),
   carrying its id, in order, none for notifications, nothing after "exit" *)
Theorem C18_one_response_per_request : forall window limit maxdoc validate ms clock st' evs,
    (Z.of_nat (length ms) <= limit)%Z ->
    serve true window limit maxdoc validate clock 0 init_state ms = Val (st', evs) ->
    resp_ids evs = flat_map may_answer (until_exit ms).
Proof. exact (one_response_per_request true). Qed.

(* beyond the window too, for decodable histories without "exit": every request is answered exactly once
   (a dropped request with RequestCancelled), whatever the clock and the length *)
Theorem C18_one_response_any_length : forall window limit maxdoc validate ms clock st' evs,
    forallb well_formed ms = true -> forallb (fun m => negb (is_exit m)) ms = true ->
    serve true window limit maxdoc validate clock 0 init_state ms = Val (st', evs) ->
    resp_ids evs = flat_map must_answer ms.
Proof. exact (one_response_any_length true). Qed.

(* within the window the server's documents are the DocumentManager history of the notifications *)
Theorem C18_serve_mirror : forall window limit maxdoc validate ms clock st' evs,
    (Z.of_nat (length ms) <= limit)%Z ->
    serve true window limit maxdoc validate clock 0 init_state ms = Val (st', evs) ->
    dm_run [] (flat_map notif_op (until_exit ms)) = Val (s_docs st').
Proof. exact (fun w l md v => serve_mirror_init w l md v update_total). Qed.

(* diagnostics published for an open or change notification are computed from exactly the mirrored text
   and carry the mirror's version *)
Theorem C18_publish_current : forall maxdoc validate ds n ds' evs sd u v c,
    handle_notif maxdoc validate ds n = (ds', Val evs, sd) ->
    (match n with NDidOpen _ _ _ | NDidChange _ _ _ => True | _ => False end) ->
    In (EPub u v c) evs -> observe ds' u = Some (v, c).
Proof. exact publish_current. Qed.

(* the pinned loop (no recover) dies on a panicking handler: regression witness of fix 88241d7 *)
Theorem C18_serve_unrecovered_refuted :
  exists ms, serve false 1000 100 5242880 (fun _ => VOk) (fun _ => 0%Z) 0 init_state ms = Panic.
Proof. exact serve_unrecovered_refuted. Qed.

Print Assumptions C18_frame_roundtrip.
Print Assumptions C18_frame_length_exact.
Print Assumptions C18_read_all_frames.
Print Assumptions C18_read_frame_total.
Print Assumptions C18_read_all_fuel.
Print Assumptions C18_read_frame_unguarded_refuted.
Print Assumptions C18_apply_change_total.
Print Assumptions C18_dm_run_total.
Print Assumptions C18_mirror_correct.
Print Assumptions C18_mirror_correct_edits.
Print Assumptions C18_history_mirror.
Print Assumptions C18_serve_total.
Print Assumptions C18_serve_resp_ids.
Print Assumptions C18_one_response_per_request.
Print Assumptions C18_one_response_any_length.
Print Assumptions C18_serve_mirror.
Print Assumptions C18_publish_current.
Print Assumptions C18_serve_unrecovered_refuted.

(* ---------------------------------------------------------------------------------------------
   non-vacuity: the hypotheses are met by concrete non-trivial states, and the statements bite *)
Local Open Scope N_scope.

(* "aé😀b\ncd" *)
Definition ex_doc : list N := [97; 233; 128512; 98; 10; 99; 100].

Example ex_doc_valid : valid_text ex_doc.
Proof. repeat constructor; unfold valid_cp; cbv; intuition discriminate. Qed.

Example ex_enc : enc ex_doc = [97; 195; 169; 240; 159; 152; 128; 98; 10; 99; 100].
Proof. vm_compute. reflexivity. Qed.

(* column 2 is after "é" (2 bytes), column 4 after the surrogate pair of U+1F600 (4 bytes) *)
Example ex_utf16 : apply_change (enc ex_doc) (split_lines (enc ex_doc)) (Range 0 2 0 4) [88]
                   = Val (enc [97; 233; 88; 98; 10; 99; 100]).
Proof. vm_compute. reflexivity. Qed.

(* line 5, negative positions and an inverted range clamp *)
Example ex_clamp : apply_change (enc ex_doc) (split_lines (enc ex_doc)) (Range 5 0 (-1) (-1)) [88]
                   = Val (enc (ex_doc ++ [88])).
Proof. vm_compute. reflexivity. Qed.

(* CR LF is one terminator: a position past the end of line 0 of "ab\r\ncd" is before the CR; a lone CR
   starts a new line ("a\rb": line 1 is "b") *)
Example ex_crlf : apply_change (enc [97; 98; 13; 10; 99; 100]) (split_lines (enc [97; 98; 13; 10; 99; 100])) (Range 0 99 0 99) [88]
                  = Val (enc [97; 98; 88; 13; 10; 99; 100])
                  /\ spec_apply [97; 13; 98] 1 0 1 0 [88] = [97; 13; 88; 98]
                  /\ split_lines [97; 98; 13; 10; 99; 13; 100; 10] = [[97; 98]; [99]; [100]; []].
Proof. repeat split; vm_compute; reflexivity. Qed.

Example ex_history :
  exists ds', dm_run [] (map (enc_op [117]) [SOpen 1 ex_doc; SOther (OpOpen [118] 7 [1]);
                                            SChange 2 [SIncr 0 3 0 1 [88]; SIncr 5 0 5 0 [89]]]) = Val ds'
              /\ observe ds' [117] = Some (2%Z, enc [97; 233; 88; 128512; 98; 10; 99; 100; 89]).
Proof. eexists. split; vm_compute; reflexivity. Qed.

(* a conversation: request 1, a notification, a panicking request 2, a mistyped body with id 3, "exit",
   then a request that is never read *)
Example ex_conversation :
  exists st evs,
    serve true 1000 100 5242880 (fun _ => VOk) (fun _ => 0%Z) 0 init_state
      [MRequest 1 ROk; MNotif (NDidOpen [117] 1 (enc ex_doc)); MRequest 2 RPanic; MMistyped 3;
       MNotif NExit; MRequest 4 ROk] = Val (st, evs)
    /\ resp_ids evs = [1; 2; 3] /\ observe (s_docs st) [117] = Some (1%Z, enc ex_doc).
Proof. do 2 eexists. repeat split; vm_compute; reflexivity. Qed.

(* beyond the window a request is still answered (RequestCancelled) *)
Example ex_limited :
  exists st evs,
    serve true 1000 1 5242880 (fun _ => VOk) (fun _ => 0%Z) 0 init_state [MRequest 1 ROk; MRequest 2 ROk] = Val (st, evs)
    /\ evs = [EResp 1 KResult; EResp 2 (KErr request_cancelled)].
Proof. do 2 eexists. split; vm_compute; reflexivity. Qed.

Example ex_frames :
  read_all true 10485760 200 (write_frame [123; 125] ++ [67; 10] ++ write_frame [49; 50; 51])
  = [IBody [123; 125]; IBody [49; 50; 51]; IEof].
Proof. vm_compute. reflexivity. Qed.
