(* C09 — pooled nodes come back clean (cleanliness clause), for every put/get/GC history.
   Model: Model/Pool.v instantiated with the pool probe table regenerated from the current source. *)
From Coq Require Import List NArith Bool.
From GV Require Import Model.Pool Proofs.PoolP Gen.PoolTable Inst.Inst_C09.
Import ListNotations.

(* every object handed out by a pool, after any history of releases of arbitrary (dirty) objects, gets and
   garbage collections, is fresh on every field except those listed as known findings *)
Theorem C09_get_is_fresh_except :
  forall h, wf_hist pool_all h ->
  forall ty o, In (ty, o) (run pool_cleared [] h) -> fresh_up_to pool_known ty o.
Proof.
  intros h Hwf. apply (get_is_fresh_except pool_all pool_cleared pool_known cleared_ok h []); [|exact Hwf].
  intros t y [].
Qed.

Print Assumptions C09_get_is_fresh_except.
