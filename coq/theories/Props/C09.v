(* C09 — returned values belong to the caller; pooled nodes come back clean.
   Cleanliness clause: Model/Pool.v instantiated with the pool probe table.
   Ownership clause: Model/Own.v instantiated with the release tables (Gen/OwnTable.v).
   All tables are regenerated from the current source on every run. *)
From Coq Require Import List NArith Bool.
From GV Require Import Model.Pool Proofs.PoolP Gen.PoolTable Model.Own Proofs.OwnP Gen.OwnTable Inst.Inst_C09.
Import ListNotations.

(* every object handed out by a pool, after any history of releases of arbitrary (dirty) objects, gets and
   garbage collections, is fresh on every field except those listed as known findings *)
Theorem C09_get_is_fresh_except :
  forall h, wf_hist pool_all h ->
  forall ty o, In (ty, o) (Pool.run pool_cleared [] h) -> fresh_up_to pool_known ty o.
Proof.
  intros h Hwf. apply (get_is_fresh_except pool_all pool_cleared pool_known cleared_ok h []); [|exact Hwf].
  intros t y [].
Qed.

Print Assumptions C09_get_is_fresh_except.

(* ---- ownership clause --------------------------------------------------------------------------
   Histories: any interleaving of Alloc / Get / Write (tree builders: the parser, pool users), Release
   (ReleaseAST, Put<X>Statement, PutExpression as the current code does them: table driven), Drop / DropAll
   (garbage collection of pool slots), Observe; any number of trees.  wf_histb: builders write only objects
   they obtained themselves, Get hands out only pooled objects, a release is started by the holder and
   puts no object that is already in a pool. *)
Notation own_run := (Own.run cur_pooled cur_container cur_descend cur_keeps cur_budget own_depth).
Notation own_wf := (Own.wf_histb cur_pooled cur_container cur_descend cur_keeps cur_budget own_depth).

(* every object has at most one holder: the pools never hold an object twice, no caller-held tree reaches
   a pooled object, no object is reachable from trees of two different holders *)
Theorem C09_no_double_ownership :
  forall h, own_wf init h = true ->
  let s := own_run init h in
  NoDup (pool s) /\
  (forall r t i, own s r = Live t -> reach (cont s) r i -> ~ In i (pool s)) /\
  (forall r r' t t' i, own s r = Live t -> own s r' = Live t' ->
                       reach (cont s) r i -> reach (cont s) r' i -> t = t').
Proof. exact (no_double_ownership cur_pooled cur_container cur_descend cur_keeps cur_budget own_depth cur_keeps_false). Qed.

Print Assumptions C09_no_double_ownership.

(* a tree its holder has not released looks the same, stays the holder's and stays out of the pools,
   whatever other holders, the release paths and the collector do afterwards *)
Theorem C09_held_results_stable :
  forall h1 h2 t r,
  own_wf init (h1 ++ h2) = true -> Forall (fun o => actor o <> Some t) h2 ->
  own (own_run init h1) r = Live t ->
  (forall fuel, view fuel (cont (own_run init (h1 ++ h2))) r = view fuel (cont (own_run init h1)) r) /\
  (forall i, reach (cont (own_run init h1)) r i ->
             own (own_run init (h1 ++ h2)) i = Live t /\ ~ In i (pool (own_run init (h1 ++ h2)))).
Proof. exact (held_results_stable_from_init cur_pooled cur_container cur_descend cur_keeps cur_budget own_depth cur_keeps_false). Qed.

Print Assumptions C09_held_results_stable.

(* releasing one tree never changes another live tree *)
Theorem C09_release_does_not_touch_other_trees :
  forall h t' r' t r,
  own_wf init (h ++ [Release t' r']) = true -> t <> t' ->
  own (own_run init h) r = Live t ->
  (forall fuel, view fuel (cont (own_run init (h ++ [Release t' r']))) r = view fuel (cont (own_run init h)) r) /\
  (forall i, reach (cont (own_run init h)) r i ->
             own (own_run init (h ++ [Release t' r'])) i = Live t /\
             ~ In i (pool (own_run init (h ++ [Release t' r'])))).
Proof. exact (release_does_not_touch_other_trees cur_pooled cur_container cur_descend cur_keeps cur_budget own_depth cur_keeps_false). Qed.

Print Assumptions C09_release_does_not_touch_other_trees.

(* slices, strings and result structs: a result none of whose cells is written later reads the same *)
Theorem C09_alias_free_results_stable :
  forall ws m cells, disjointb cells ws = true -> read (wr_all m ws) cells = read m cells.
Proof. exact alias_free_stable. Qed.

Print Assumptions C09_alias_free_results_stable.

(* the hypotheses are met by a concrete non-trivial history on the current tables: tree 0 = an AST
   holding a SelectStatement with one column (an Identifier); tree 1 = a second AST; tree 0 is released
   (all three objects go to the pools), a third builder obtains the pooled Identifier and writes it;
   tree 1 is untouched. *)
Example own_history_example :
  let h := [Alloc 0 ex_ast; Alloc 0 ex_select; Alloc 0 ex_ident;
            Write 0 1%N (mkNode ex_select 5%N [(ex_select_slot, 2%N)]); Write 0 0%N (mkNode ex_ast 0%N [(ex_ast_slot, 1%N)]);
            Alloc 1 ex_ast; Observe 1 3%N; Release 0 0%N; Get 2 2%N; Write 2 2%N (mkNode ex_ident 9%N [])] in
  own_wf init h = true /\
  seteqb (pool (own_run init h)) [0%N; 1%N] = true /\
  own (own_run init h) 2%N = Live 2 /\ own (own_run init h) 3%N = Live 1.
Proof. vm_compute. repeat split. Qed.
