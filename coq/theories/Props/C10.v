(* C10 — Concurrent use gives the sequential results, race-free, with exact metrics.
   Models: Model/Metrics.v (update protocol of the metrics structs, programs regenerated from the source into
   Gen/MetricsProg.v), Model/Conc.v (goroutines over shared pools), Model/Footprint.v (package-level state). *)
From Coq Require Import List ZArith NArith Bool.
From GV Require Import Model.Metrics Proofs.MetricsP Gen.MetricsProg Inst.Inst_C10.
Import ListNotations.
Local Open Scope Z_scope.

(* ---- metrics totals ----
   Any number of goroutines, each executing one call of any Record* function of pkg/metrics (as translated from
   the current source) with any arguments, under ANY schedule (any interleaving of their individual atomic
   operations).  When all have finished: every counter (operations, errors, bytes, durations, pool gets/puts,
   errors-by-type total) equals its initial value plus the sum of what every call adds; the largest query size
   is the maximum of the initial value and all recorded sizes; the smallest query size is the minimum of all
   recorded sizes (with -1 = "nothing recorded yet"). *)
Theorem C10_metrics_totals_exact :
  forall init ts sched,
    (forall t, In t ts -> In (t_secs t) metrics_progs /\ t_si t = 0%nat /\ t_pc t = 0%nat) ->
    let c := run (init, ts) sched in
    all_done (snd c) = true ->
    forall l r, In (l, r) metrics_roles ->
      match r with
      | RCounter => fst c l = init l + sumZ (map (contrib_total l) ts)
      | RMax => fst c l = maxZ (init l) (all_recorded l ts)
      | RMin => (init l = -1 \/ 0 <= init l) -> (forall x, In x (all_recorded l ts) -> 0 <= x) ->
                fst c l = minZ (init l) (all_recorded l ts)
      | RStamp => True
      end.
Proof. exact (metrics_exact metrics_roles metrics_progs metrics_progs_ok). Qed.

(* the same for the second metrics struct of the library, pkg/sql/monitor *)
Theorem C10_monitor_totals_exact :
  forall init ts sched,
    (forall t, In t ts -> In (t_secs t) monitor_progs /\ t_si t = 0%nat /\ t_pc t = 0%nat) ->
    let c := run (init, ts) sched in
    all_done (snd c) = true ->
    forall l r, In (l, r) monitor_roles ->
      match r with
      | RCounter => fst c l = init l + sumZ (map (contrib_total l) ts)
      | RMax => fst c l = maxZ (init l) (all_recorded l ts)
      | RMin => (init l = -1 \/ 0 <= init l) -> (forall x, In x (all_recorded l ts) -> 0 <= x) ->
                fst c l = minZ (init l) (all_recorded l ts)
      | RStamp => True
      end.
Proof. exact (metrics_exact monitor_roles monitor_progs monitor_progs_ok). Qed.

(* counters are exact at every moment, not only at quiescence (a concurrent GetStats never sees a counter that
   is not the sum of completed adds) *)
Theorem C10_counters_exact_always :
  forall l init ts sched,
    (forall t, In t ts -> add_only l (t_secs t) = true /\ t_si t = 0%nat) ->
    let c := run (init, ts) sched in
    fst c l = init l + sumZ (map (contrib_so_far l) (snd c)).
Proof. exact counters_exact_always. Qed.

(* the load-compare-store form of the update (what the code was before the repair) loses the extreme: a concrete
   two-goroutine schedule *)
Theorem C10_max_load_compare_store_refuted :
  exists ts sched,
    let c := run (fun _ => 0, ts) sched in
    (forall t, In t ts -> t_secs t = [lcs_sec max_skip 7%N] /\ t_si t = 0%nat /\ t_pc t = 0%nat) /\
    all_done (snd c) = true /\ fst c 7%N <> maxZ 0 (concat (map (recorded_total 7%N) ts)).
Proof. exact max_lcs_refuted. Qed.

Theorem C10_min_load_compare_store_refuted :
  exists ts sched,
    let c := run (fun _ => -1, ts) sched in
    (forall t, In t ts -> t_secs t = [lcs_sec min_skip 7%N] /\ t_si t = 0%nat /\ t_pc t = 0%nat) /\
    all_done (snd c) = true /\ fst c 7%N <> minZ (-1) (concat (map (recorded_total 7%N) ts)).
Proof. exact min_lcs_refuted. Qed.

Print Assumptions C10_metrics_totals_exact.
Print Assumptions C10_monitor_totals_exact.
Print Assumptions C10_counters_exact_always.
Print Assumptions C10_max_load_compare_store_refuted.
Print Assumptions C10_min_load_compare_store_refuted.

(* the hypotheses are satisfiable by a non-trivial state: three goroutines record tokenizations of sizes 120, 7
   and 300 (the second with an error) and one records a parse; an interleaved schedule; all finish; the totals
   are the true ones *)
Definition ex_threads : list thread :=
  [ start metrics_RecordTokenization [5; 120; 0; 1000; 0];
    start metrics_RecordTokenization [6; 7; 1; 1001; 0];
    start metrics_RecordTokenization [7; 300; 0; 1002; 0];
    start metrics_RecordParse [9; 2; 0; 1003; 0; 0] ].
Definition ex_sched : list nat :=
  concat (repeat [0; 1; 2; 3; 2; 1; 0]%nat 12).
Definition ex_init : mem := fun l => if N.eqb l metrics_loc_minQuerySize then -1 else 0.

Example ex_hyp : forall t, In t ex_threads -> In (t_secs t) metrics_progs /\ t_si t = 0%nat /\ t_pc t = 0%nat.
Proof. intros t [<-|[<-|[<-|[<-|[]]]]]; vm_compute; tauto. Qed.
Example ex_done : all_done (snd (run (ex_init, ex_threads) ex_sched)) = true.
Proof. vm_compute. reflexivity. Qed.
Example ex_totals :
  let m := fst (run (ex_init, ex_threads) ex_sched) in
  (m metrics_loc_tokenizeOperations, m metrics_loc_tokenizeErrors, m metrics_loc_totalQueryBytes,
   m metrics_loc_minQuerySize, m metrics_loc_maxQuerySize, m metrics_loc_parseOperations, m metrics_loc_statementsCreated)
  = (3, 1, 427, 7, 300, 1, 2).
Proof. vm_compute. reflexivity. Qed.
