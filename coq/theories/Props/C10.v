(* C10 — Concurrent use gives the sequential results, race-free, with exact metrics.
   Models: Model/Metrics.v (update protocol of the metrics structs, programs regenerated from the source into
   Gen/MetricsProg.v), Model/Conc.v (goroutines over shared pools), Model/Footprint.v (package-level state). *)
From Coq Require Import List ZArith NArith Bool.
From GV Require Import Model.Metrics Proofs.MetricsP Gen.MetricsProg Inst.Inst_C10.
From GV Require Import Model.Conc Proofs.ConcP Model.Footprint Proofs.FootprintP Gen.Globals.
From GV Require Import Model.LockOrder Proofs.LockOrderP Gen.LockTable.
Import ListNotations.
Local Open Scope Z_scope.

(* ---- metrics totals ----
   Any number of goroutines, each executing one call of any Record* function of pkg/metrics (as translated from
   the current source) with any arguments, under ANY schedule (any interleaving of their individual atomic
   operations).  When all have finished: every counter (operations, errors, bytes, durations, pool gets/puts,
   errors-by-type total) equals its initial value plus the sum of what every call adds; the largest query size
   is the maximum of the initial value and all recorded sizes; the smallest query size is the minimum of all
   recorded sizes (with -1 = "nothing recorded yet"). *)
Theorem C10_metrics_totals_exact :
  forall init ts sched,
    (forall t, In t ts -> In (t_secs t) metrics_progs /\ t_si t = 0%nat /\ t_pc t = 0%nat) ->
    let c := run (init, ts) sched in
    all_done (snd c) = true ->
    forall l r, In (l, r) metrics_roles ->
      match r with
      | RCounter => fst c l = init l + sumZ (map (contrib_total l) ts)
      | RMax => fst c l = maxZ (init l) (all_recorded l ts)
      | RMin => (init l = -1 \/ 0 <= init l) -> (forall x, In x (all_recorded l ts) -> 0 <= x) ->
                fst c l = minZ (init l) (all_recorded l ts)
      | RStamp => True
      end.
Proof. exact (metrics_exact metrics_roles metrics_progs metrics_progs_ok). Qed.

(* the same for the second metrics struct of the library, pkg/sql/monitor *)
Theorem C10_monitor_totals_exact :
  forall init ts sched,
    (forall t, In t ts -> In (t_secs t) monitor_progs /\ t_si t = 0%nat /\ t_pc t = 0%nat) ->
    let c := run (init, ts) sched in
    all_done (snd c) = true ->
    forall l r, In (l, r) monitor_roles ->
      match r with
      | RCounter => fst c l = init l + sumZ (map (contrib_total l) ts)
      | RMax => fst c l = maxZ (init l) (all_recorded l ts)
      | RMin => (init l = -1 \/ 0 <= init l) -> (forall x, In x (all_recorded l ts) -> 0 <= x) ->
                fst c l = minZ (init l) (all_recorded l ts)
      | RStamp => True
      end.
Proof. exact (metrics_exact monitor_roles monitor_progs monitor_progs_ok). Qed.

(* counters are exact at every moment, not only at quiescence (a concurrent GetStats never sees a counter that
   is not the sum of completed adds) *)
Theorem C10_counters_exact_always :
  forall l init ts sched,
    (forall t, In t ts -> add_only l (t_secs t) = true /\ t_si t = 0%nat) ->
    let c := run (init, ts) sched in
    fst c l = init l + sumZ (map (contrib_so_far l) (snd c)).
Proof. exact counters_exact_always. Qed.

(* the load-compare-store form of the update (what the code was before the repair) loses the extreme: a concrete
   two-goroutine schedule *)
Theorem C10_max_load_compare_store_refuted :
  exists ts sched,
    let c := run (fun _ => 0, ts) sched in
    (forall t, In t ts -> t_secs t = [lcs_sec max_skip 7%N] /\ t_si t = 0%nat /\ t_pc t = 0%nat) /\
    all_done (snd c) = true /\ fst c 7%N <> maxZ 0 (concat (map (recorded_total 7%N) ts)).
Proof. exact max_lcs_refuted. Qed.

Theorem C10_min_load_compare_store_refuted :
  exists ts sched,
    let c := run (fun _ => -1, ts) sched in
    (forall t, In t ts -> t_secs t = [lcs_sec min_skip 7%N] /\ t_si t = 0%nat /\ t_pc t = 0%nat) /\
    all_done (snd c) = true /\ fst c 7%N <> minZ (-1) (concat (map (recorded_total 7%N) ts)).
Proof. exact min_lcs_refuted. Qed.

(* a single compare-and-swap attempt without the retry loses the extreme as well *)
Theorem C10_max_single_attempt_refuted :
  exists ts sched,
    let c := run (fun _ => 0, ts) sched in
    (forall t, In t ts -> t_secs t = [single_cas_sec 7%N] /\ t_si t = 0%nat /\ t_pc t = 0%nat) /\
    all_done (snd c) = true /\ fst c 7%N <> maxZ 0 (concat (map (recorded_total 7%N) ts)).
Proof. exact max_single_cas_refuted. Qed.

(* a retry that reloads into another register (a shadowed variable) never refreshes the value the swap expects: after a
   lost swap the call spins for ever — it never returns, however long it is run *)
Theorem C10_stale_retry_never_returns :
  let c := run (fun _ => 0, stale_retry_threads) stale_retry_prefix in
  all_done (snd c) = false /\
  forall n, all_done (snd (run c (concat (repeat (repeat 0%nat 6) n)))) = false.
Proof. exact stale_retry_spins. Qed.

(* ---- every call returns what it returns when run alone ----
   Goroutines that share only pools (any number, any schedule, any choice of which pooled object a Get receives,
   including a new one): under the pool discipline (C09: what Put stores is observationally what New builds) and if
   the local computations see their objects only up to observational equivalence, every goroutine that has finished
   holds exactly the result of running its steps alone from empty pools. *)
Theorem C10_results_sequential :
  forall (obj res : Type) (fresh : obj) (eqv : obj -> obj -> Prop) (reset : obj -> obj),
    (forall o, eqv (reset o) fresh) -> eqv fresh fresh ->
    forall sh0 progs sched,
      (forall p o, In o (pools obj sh0 p) -> eqv o fresh) ->
      (forall pr, In pr progs -> prog_respects obj res eqv (fst pr)) ->
      let c := grun obj res fresh reset (sh0, map (fun pr => gstart obj res (fst pr) (snd pr)) progs) sched in
      forall i t pr, nth_error (snd c) i = Some t -> nth_error progs i = Some pr ->
        g_todo obj res t = [] -> g_res obj res t = snd (solo obj res fresh (snd pr) (fst pr)).
Proof. exact results_sequential. Qed.

(* ---- no race on library state ----
   In every execution whose accesses to package-level state are at sites of the table regenerated from the source,
   no two accesses of different goroutines to the same cell, one of them a write, are unordered (full strength: the
   exception list known_cells is empty on the current tree, see C10_no_exceptions) *)
Theorem C10_footprint_race_free :
  forall tr : list event,
    (forall e, In e tr -> In (e_site e) sites) ->
    forall e1 e2, In e1 tr -> In e2 tr -> ~ In (a_cell (e_site e1)) known_cells -> ~ race e1 e2.
Proof. exact (footprint_race_free known_cells sites globals_ok). Qed.

(* what a common mutex buys: in every execution that respects mutual exclusion and in which each access holds the
   mutexes its site names, the first goroutine releases the common mutex between the two accesses *)
Theorem C10_common_lock_orders :
  forall pre t1 s1 mid t2 s2 post,
    wf_trace [] (pre ++ Acc t1 s1 :: mid ++ Acc t2 s2 :: post) = true ->
    t1 <> t2 -> common_lock s1 s2 = true ->
    exists m, has_rel t1 m mid = true /\ In m (map fst (a_held s1)) /\ In m (map fst (a_held s2)).
Proof. exact common_lock_orders. Qed.

(* ---- the goroutines finish: no deadlock on the library's mutexes ----
   Any number of goroutines; each holds some mutexes (read or write mode) and may be blocked in a Lock / RLock call.
   sync.RWMutex semantics including WRITER PREFERENCE (Model/LockOrder.v: a blocked Lock blocks every new RLock).
   Every blocked goroutine is blocked at a site of the acquisition table regenerated from the source and holds only
   mutexes that may be held there (tools/gotables/acquire.go: may-analysis).  Then, whenever somebody is blocked, some
   blocked call can return, or some goroutine that holds a mutex is running (not blocked): no state is a deadlock. *)
Theorem C10_no_deadlock_by_lock_order :
  forall ts : lockstate,
    (forall t, In t ts -> at_row acquisitions t) ->
    (exists t, In t ts /\ waiting t = true) ->
    (exists t, In t ts /\ waiting t = true /\ can_enter ts t = true) \/
    (exists t, In t ts /\ l_held t <> [] /\ waiting t = false).
Proof. exact (no_deadlock lock_ranks acquisitions lock_order_ok). Qed.

Theorem C10_never_deadlocked :
  forall ts : lockstate, (forall t, In t ts -> at_row acquisitions t) -> deadlocked ts = false.
Proof. exact (never_deadlocked lock_ranks acquisitions lock_order_ok). Qed.

(* what the discipline is for: a read lock taken again while it is held, with a writer arriving in between, blocks
   everybody for ever (the blocked goroutines ARE at rows of that two-row table; no rank accepts it) *)
Theorem C10_reentrant_read_lock_refuted :
  deadlocked reentrant_rlock_state = true /\
  (forall t, In t reentrant_rlock_state -> waiting t = true /\ can_enter reentrant_rlock_state t = false) /\
  (forall t, In t reentrant_rlock_state ->
     at_row [ {| q_mutex := 7%N; q_mode := MR; q_may := [7%N] |}; {| q_mutex := 7%N; q_mode := MW; q_may := [] |} ] t) /\
  (forall ranks, acq_table_ok ranks [ {| q_mutex := 7%N; q_mode := MR; q_may := [7%N] |}; {| q_mutex := 7%N; q_mode := MW; q_may := [] |} ] = false).
Proof. exact reentrant_rlock_deadlocks. Qed.

(* ---- no lock is leaked to the caller ----
   A goroutine that has returned from an entry point of the library holds none of its mutexes (instance: no row of the
   regenerated exit table holds anything); so, with the lock order, whenever somebody is blocked a blocked call can return
   or a goroutine INSIDE the library is running with the lock (it reaches its unlock: every return path unlocks) *)
Theorem C10_no_lock_leak_outside_holds_nothing :
  forall t : lthread, returned_from lock_exits t -> l_held t = [].
Proof. exact (fun t => no_leak_outside_holds_nothing lock_exits t no_lock_leak_ok). Qed.

Theorem C10_no_lock_leak_running_holder_is_inside :
  forall ts : lockstate,
    (forall t, In t ts -> at_row acquisitions t) ->
    (exists t, In t ts /\ waiting t = true) ->
    (exists t, In t ts /\ waiting t = true /\ can_enter ts t = true) \/
    (exists t, In t ts /\ l_held t <> [] /\ waiting t = false /\ ~ returned_from lock_exits t).
Proof. exact (fun ts => running_holder_is_inside lock_ranks acquisitions lock_exits ts lock_order_ok no_lock_leak_ok). Qed.

(* what a leaked lock does: a goroutine that returned holding m in write mode (nobody can unlock for it) makes every Lock
   and RLock on m wait for ever, in every state in which it still holds it, any number of goroutines *)
Theorem C10_leaked_lock_blocks :
  forall (ts : lockstate) u m, In u ts -> holds_w m u = true ->
    forall t md, In t ts -> l_wait t = Some (m, md) -> can_enter ts t = false.
Proof. exact leaked_lock_blocks. Qed.

(* and two mutexes taken in opposite orders *)
Theorem C10_lock_order_inversion_refuted :
  deadlocked abba_state = true /\
  (forall ranks, acq_table_ok ranks [ {| q_mutex := 2%N; q_mode := MW; q_may := [1%N] |}; {| q_mutex := 1%N; q_mode := MW; q_may := [2%N] |} ] = false).
Proof. exact abba_deadlocks. Qed.

Print Assumptions C10_metrics_totals_exact.
Print Assumptions C10_monitor_totals_exact.
Print Assumptions C10_counters_exact_always.
Print Assumptions C10_max_load_compare_store_refuted.
Print Assumptions C10_min_load_compare_store_refuted.
Print Assumptions C10_max_single_attempt_refuted.
Print Assumptions C10_stale_retry_never_returns.
Print Assumptions C10_results_sequential.
Print Assumptions C10_footprint_race_free.
Print Assumptions C10_common_lock_orders.
Print Assumptions C10_no_deadlock_by_lock_order.
Print Assumptions C10_never_deadlocked.
Print Assumptions C10_reentrant_read_lock_refuted.
Print Assumptions C10_lock_order_inversion_refuted.
Print Assumptions C10_no_lock_leak_outside_holds_nothing.
Print Assumptions C10_no_lock_leak_running_holder_is_inside.
Print Assumptions C10_leaked_lock_blocks.
(* the hypotheses are satisfiable by a non-trivial state: three goroutines record tokenizations of sizes 120, 7
   and 300 (the second with an error) and one records a parse; an interleaved schedule; all finish; the totals
   are the true ones *)
Definition ex_threads : list thread :=
  [ start metrics_RecordTokenization [5; 120; 0; 1000; 0];
    start metrics_RecordTokenization [6; 7; 1; 1001; 0];
    start metrics_RecordTokenization [7; 300; 0; 1002; 0];
    start metrics_RecordParse [9; 2; 0; 1003; 0; 0] ].
Definition ex_sched : list nat :=
  concat (repeat [0; 1; 2; 3; 2; 1; 0]%nat 60).   (* long enough for any reasonable layout of the loops; finished threads stutter *)
Definition ex_init : mem := fun l => if N.eqb l metrics_pub_MinQuerySize then -1 else 0.

Example ex_hyp : forall t, In t ex_threads -> In (t_secs t) metrics_progs /\ t_si t = 0%nat /\ t_pc t = 0%nat.
Proof. intros t [<-|[<-|[<-|[<-|[]]]]]; vm_compute; tauto. Qed.
Example ex_done : all_done (snd (run (ex_init, ex_threads) ex_sched)) = true.
Proof. vm_compute. reflexivity. Qed.
Example ex_totals :
  let m := fst (run (ex_init, ex_threads) ex_sched) in
  (m metrics_pub_TokenizeOperations, m metrics_pub_TokenizeErrors, m metrics_pub_TotalBytesProcessed,
   m metrics_pub_MinQuerySize, m metrics_pub_MaxQuerySize, m metrics_pub_ParseOperations, m metrics_pub_StatementsCreated)
  = (3, 1, 427, 7, 300, 1, 2).
Proof. vm_compute. reflexivity. Qed.

(* pools: an object is (visible state, stale garbage); Put clears the visible state only; computations read only
   the visible state.  Two goroutines exchange objects through the pool and still compute their solo results. *)
Definition ex_obj := (nat * nat)%type.
Definition ex_eqv (a b : ex_obj) : Prop := fst a = fst b.
Definition ex_reset (o : ex_obj) : ex_obj := (0%nat, snd o).
Definition ex_work (k : nat) : list ex_obj -> nat -> list ex_obj * nat :=
  fun h r => match h with
             | o :: rest => ((fst o + k, snd o + 7)%nat :: rest, (r + fst o + k)%nat)
             | [] => ([], r)
             end.
Definition ex_prog (k : nat) : list (cstep ex_obj nat) :=
  [PoolGet ex_obj nat 0; Local ex_obj nat (ex_work k); PoolPut ex_obj nat 0; PoolGet ex_obj nat 0;
   Local ex_obj nat (ex_work (k + 1)); AtomicAdd ex_obj nat 0 1; PoolPut ex_obj nat 0].
Example ex_reset_fresh : forall o, ex_eqv (ex_reset o) (0%nat, 0%nat).
Proof. reflexivity. Qed.
Example ex_respects : forall k, prog_respects ex_obj nat ex_eqv (ex_prog k).
Proof.
  intros k f Hf. cbn in Hf.
  assert (H : forall j, respects ex_obj nat ex_eqv (ex_work j)).
  { intros j h h' r Hh. destruct Hh as [|a b l l' Hab Hl]; cbn; [split; auto|].
    unfold ex_eqv in Hab. rewrite Hab. split; auto. constructor; auto. unfold ex_eqv. cbn. reflexivity. }
  destruct Hf as [Hf|[Hf|[Hf|[Hf|[Hf|[Hf|[Hf|[]]]]]]]]; try discriminate; inversion Hf; apply H.
Qed.
Example ex_conc_run :
  let c := grun ex_obj nat (0%nat, 0%nat) ex_reset
             ({| pools := fun _ => []; counters := fun _ => 0 |}, [gstart ex_obj nat (ex_prog 3) 0%nat; gstart ex_obj nat (ex_prog 10) 0%nat])
             [(0,0); (0,0); (0,0); (1,0); (1,0); (0,5); (1,0); (0,0); (1,0); (0,0); (0,0); (1,0); (1,0); (1,0)]%nat in
  map (g_res ex_obj nat) (snd c) = [snd (solo ex_obj nat (0%nat, 0%nat) 0%nat (ex_prog 3)); snd (solo ex_obj nat (0%nat, 0%nat) 0%nat (ex_prog 10))]
  /\ map (fun t => length (g_todo ex_obj nat t)) (snd c) = [0; 0]%nat
  /\ map snd (pools ex_obj (fst c) 0%nat) <> [0; 0]%nat.   (* the pooled objects do carry stale garbage *)
Proof. vm_compute. repeat split; discriminate. Qed.

(* footprint: the table is not vacuous and the exception list is empty on this tree *)
Example C10_no_exceptions : known_cells = [].
Proof. reflexivity. Qed.
Example ex_sites_nonempty : (100 <=? length sites)%nat = true.
Proof. vm_compute. reflexivity. Qed.
(* an unguarded map write next to a guarded read is rejected by the check *)
Example ex_unguarded_rejected :
  table_ok [] [ {| a_cell := 1%N; a_write := true; a_kind := KPlain; a_held := []; a_once := None; a_after := []; a_init := false |};
                {| a_cell := 1%N; a_write := false; a_kind := KPlain; a_held := [(2%N, false)]; a_once := None; a_after := []; a_init := false |} ] = false.
Proof. vm_compute. reflexivity. Qed.

(* lock discipline: the table is not vacuous, and its hypothesis is satisfiable by a non-trivial state: a reader of the
   metrics error breakdown holds the first mutex of the table while two recorders are blocked on it *)
Example ex_acquisitions_nonempty : (1 <=? length acquisitions)%nat = true.
Proof. vm_compute. reflexivity. Qed.
Definition ex_lock_state : lockstate :=
  match acquisitions with
  | a :: _ => [ {| l_held := [(q_mutex a, MR)]; l_wait := None |};
                {| l_held := []; l_wait := Some (q_mutex a, q_mode a) |};
                {| l_held := []; l_wait := Some (q_mutex a, q_mode a) |} ]
  | [] => []
  end.
Example ex_lock_state_at_rows : forall t, In t ex_lock_state -> at_row acquisitions t.
Proof.
  unfold ex_lock_state. destruct acquisitions as [|a r] eqn:E; [intros t []|].
  intros t [<-|[<-|[<-|[]]]]; cbn; auto; exists a; (split; [now left|]); repeat split; auto; intros h [].
Qed.
Example ex_lock_state_not_deadlocked : deadlocked ex_lock_state = false.
Proof. apply C10_never_deadlocked. exact ex_lock_state_at_rows. Qed.
