(* C04 — The token stream is a faithful, layout-independent reading of the text.
   Only statements, closed by [exact], with Print Assumptions.  The model is Model/Lexer.v (byte-level mirror of
   pkg/sql/tokenizer/tokenizer.go) over the lexical tables regenerated from the current source (Gen/LexTables.v);
   the reference lexical grammar is Spec/LexSpec.v.

   FULL-STRENGTH STATEMENT, proved here for every lexeme class of the reference grammar:
     lex_faithful : forall ls seps, wf ls seps -> (the text fits the two limits) ->
        tokenize (interleave ls seps) = Val (toks, cms) with
          reading toks = map tok_norm ls ++ [EOF]          (kinds, decoded values, quote marks; exactly one end marker)
          map com_key cms = comments_of seps              (each comment once, exact text and style)
     and in raw form (C04_lex_faithful_raw) the exact token list with byte spans and the exact comment records;
     corollaries C04_layout_independent, C04_keyword_case_independent, C04_token_limit_iff; C04_quoted_distinct.
   [reading] is the kind/value/quote sequence after a two-word keyword token (GROUP BY read across plain white space
   as ONE raw token by the tokenizer) is split into its words and keyword spellings are upper-cased: that is the
   stream the parser consumes (design/C04.md).
   Lexeme classes inside wf (Spec/LexSpec.v [lexeme]; this is the whole list of token readers of the tokenizer):
   operators and punctuation (all 43 entries of all_ops), bare @, bare $, numbers (integer, decimal, exponent forms),
   words (identifiers incl. Unicode, keywords, the two-word keyword look-ahead), $n and @name parameters,
   single-quoted strings (doubled quotes, every backslash escape, typographic quotes), double-quoted identifiers (also
   typographic), back-ticked identifiers, dollar-quoted strings (with and without tag), triple-quoted strings.
   Separators: white-space bytes, line comments (ended by LF or end of text), block comments.
   Outside the grammar (so outside the theorem, covered by totality/shape and the correspondence only): texts with
   invalid UTF-8 inside words or quoted literals, a bare $ directly followed by a word, malformed input. *)
From Coq Require Import List NArith Bool.
From GV Require Import Gen.LexTables Model.Lexer Inst.Inst_C04 Spec.LexSpec Proofs.LexerP Proofs.LexSpecP Proofs.LexSepP
  Proofs.LexMunchP Proofs.LexWordP Proofs.LexFaithP Proofs.LexNormP.
Import ListNotations.
Local Open Scope N_scope.

(* every byte string — any bytes, valid UTF-8 or not — is tokenized without panic and within the fuel |bs|+1 *)
Theorem C04_tokenize_total : forall bs, tokenize bs <> Panic /\ tokenize bs <> OutOfFuel.
Proof. exact tokenize_total. Qed.

(* a successful run ends with exactly one end-of-input marker and contains no other *)
Theorem C04_exactly_one_eof :
  forall bs toks cms, tokenize bs = Val (toks, cms) ->
  exists ts i, toks = ts ++ [eof_at i] /\ Forall (fun t => ttype t <> TT_EOF) ts.
Proof. exact exactly_one_eof. Qed.

(* ... and its tokens have non-empty, ordered, pairwise disjoint byte spans, the end marker after the last of them,
   and there are at most max_tok of them (for every value of the two limits) *)
Theorem C04_tokenize_shape :
  forall max_in max_tok bs toks cms, tokenize_with max_in max_tok bs = Val (toks, cms) ->
  exists ts i, toks = ts ++ [eof_at i] /\ Forall non_eof ts /\ spans_from 0 ts /\ last_end 0 ts <= i /\
               N.of_nat (length ts) <= max_tok.
Proof. exact tokenize_shape. Qed.

(* size limit, for every value of the limits: above it E1006 at 1:1 ... *)
Theorem C04_size_limit :
  forall max_in max_tok bs, max_in < N.of_nat (length bs) -> tokenize_with max_in max_tok bs = Err E_InputTooLarge 1 1.
Proof. exact size_limit_reject. Qed.

(* ... at or below it (in particular exactly at it) the size limit plays no role in the result *)
Theorem C04_size_limit_exact :
  forall m1 m2 max_tok bs, N.of_nat (length bs) <= m1 -> N.of_nat (length bs) <= m2 ->
  tokenize_with m1 max_tok bs = tokenize_with m2 max_tok bs.
Proof. exact size_limit_exact. Qed.

(* token limit, the bound (the equivalence is C04_token_limit_iff below) *)
Theorem C04_token_limit_bound :
  forall max_in max_tok bs toks cms, tokenize_with max_in max_tok bs = Val (toks, cms) ->
  N.of_nat (length toks) <= max_tok + 1.
Proof. exact token_limit_bound. Qed.

(* comments: captured in source order, disjoint, each non-empty, each text exactly the bytes of the input between
   its start and end offsets and beginning with the opener of its style, the inline flag computed at its start *)
Theorem C04_comments_captured :
  forall bs toks cms, tokenize bs = Val (toks, cms) -> coms_from bs 0 cms.
Proof. exact comments_captured. Qed.

(* the separator lemma: at the head of a well-formed item sequence skipWhitespaceAndComments consumes exactly the
   leading separator pieces, records exactly their comments and stops on the first byte of the next lexeme *)
Theorem C04_sep_skip :
  forall bs its fuel i acc, items_ok its = true -> (length (render_items its) < fuel)%nat ->
  skip_trivia bs fuel (render_items its, i) acc =
  Val ((render_items (after its), i + N.of_nat (length (render_trivs (lead its)))), acc ++ coms_of bs i (lead its)).
Proof. exact sep_skip. Qed.

(* munch lemmas: a well-formed lexeme of any class but words, followed by a text that cannot extend it, is read as
   exactly its token, the cursor left exactly behind it; a word is read as the grammar's reading step next_lex
   (keyword lookup; one raw token for a two-word keyword completed across plain white space) *)
Theorem C04_munch :
  (forall l, is_word l = false -> forall bs r i, lex_ok l = true -> class_follow l r = true ->
     next_token bs (render l ++ r, i) = Val (tok_of l, (r, i + N.of_nat (length (render l))))) /\
  (forall bs rs rest i, lex_ok (LWord rs) = true -> class_follow (LWord rs) (render_items rest) = true ->
     items_ok rest = true ->
     next_token bs (utf8 rs ++ render_items rest, i) =
     let '(tk, n, rest') := next_lex (LWord rs) rest in Val (tk, (render_items rest', i + N.of_nat n))).
Proof. exact (conj munch_all munch_word). Qed.

(* faithful reading, raw form: the exact token list (kinds, decoded values, quote marks, byte spans), one end marker
   at the end of the text, the exact comment records *)
Theorem C04_lex_faithful_raw :
  forall max_in max_tok ls seps, wf ls seps ->
  N.of_nat (length (interleave ls seps)) <= max_in -> N.of_nat (length (raw_tokens ls seps)) <= max_tok ->
  tokenize_with max_in max_tok (interleave ls seps) =
  Val (raw_tokens ls seps ++ [eof_at (N.of_nat (length (interleave ls seps)))], raw_comments ls seps).
Proof. exact lex_faithful_raw. Qed.

(* faithful reading: kinds and decoded values of the lexemes in source order, then exactly one end marker; each
   comment captured once with its exact text *)
Theorem C04_lex_faithful :
  forall max_in max_tok ls seps, wf ls seps -> fits max_in max_tok ls seps ->
  exists toks cms, tokenize_with max_in max_tok (interleave ls seps) = Val (toks, cms) /\
                   reading toks = map tok_norm ls ++ [eof_rtok] /\ map com_key cms = comments_of seps.
Proof. exact lex_faithful. Qed.

(* the reading prescribed by the grammar does not depend on the separators at all *)
Theorem C04_raw_reading :
  forall ls seps, wf ls seps ->
  reading (raw_tokens ls seps) = map tok_norm ls /\ map com_key (raw_comments ls seps) = comments_of seps.
Proof. exact raw_reading. Qed.

(* changing only the white space and comments between the lexemes never changes the sequence of kinds and values *)
Theorem C04_layout_independent :
  forall max_in max_tok ls seps1 seps2,
  wf ls seps1 -> wf ls seps2 -> fits max_in max_tok ls seps1 -> fits max_in max_tok ls seps2 ->
  exists t1 c1 t2 c2,
    tokenize_with max_in max_tok (interleave ls seps1) = Val (t1, c1) /\
    tokenize_with max_in max_tok (interleave ls seps2) = Val (t2, c2) /\ reading t1 = reading t2.
Proof. exact layout_independent. Qed.

(* ... nor does changing the letter case of keywords *)
Theorem C04_keyword_case_independent :
  forall max_in max_tok ls ls' seps seps',
  Forall2 case_variant ls ls' -> wf ls seps -> wf ls' seps' ->
  fits max_in max_tok ls seps -> fits max_in max_tok ls' seps' ->
  exists t1 c1 t2 c2,
    tokenize_with max_in max_tok (interleave ls seps) = Val (t1, c1) /\
    tokenize_with max_in max_tok (interleave ls' seps') = Val (t2, c2) /\ reading t1 = reading t2.
Proof. exact keyword_case_independent. Qed.

(* the token limit as an equivalence: E1007 exactly when the text has more raw tokens than the limit; a text with
   exactly max_tok tokens is not rejected for that reason *)
Theorem C04_token_limit_iff :
  forall max_in max_tok ls seps, wf ls seps -> N.of_nat (length (interleave ls seps)) <= max_in ->
  ((exists l c, tokenize_with max_in max_tok (interleave ls seps) = Err E_TokenLimitReached l c) <->
   max_tok < N.of_nat (length (raw_tokens ls seps))).
Proof. exact token_limit_iff. Qed.

(* quoted identifiers are kept distinct from keywords whatever they spell *)
Theorem C04_quoted_distinct :
  (forall bs tl i ty v q c', next_token bs (34 :: tl, i) = Val ((ty, v, q), c') -> ty = TT_DoubleQuotedString /\ q = 34) /\
  (forall bs tl i ty v q c', next_token bs (96 :: tl, i) = Val ((ty, v, q), c') -> ty = TT_Identifier /\ q = 96) /\
  (forall c ty v q c', read_identifier c = Val ((ty, v, q), c') -> q = 0) /\
  forallb (fun kv => negb (snd kv =? TT_DoubleQuotedString)) (keywords ++ compound_keywords) = true.
Proof. exact (conj double_quoted_kind (conj backtick_kind (conj word_unquoted dq_not_keyword))). Qed.

Print Assumptions C04_tokenize_total.
Print Assumptions C04_exactly_one_eof.
Print Assumptions C04_tokenize_shape.
Print Assumptions C04_size_limit.
Print Assumptions C04_size_limit_exact.
Print Assumptions C04_token_limit_bound.
Print Assumptions C04_comments_captured.
Print Assumptions C04_sep_skip.
Print Assumptions C04_munch.
Print Assumptions C04_lex_faithful_raw.
Print Assumptions C04_lex_faithful.
Print Assumptions C04_raw_reading.
Print Assumptions C04_layout_independent.
Print Assumptions C04_keyword_case_independent.
Print Assumptions C04_token_limit_iff.
Print Assumptions C04_quoted_distinct.

(* the hypotheses are satisfiable by concrete non-trivial inputs: SELECT 'a''b' -- c   and   a <@ b /* x */ *)
Example ex_run_1 :
  exists toks cms, tokenize [83;69;76;69;67;84;32;39;97;39;39;98;39;32;45;45;32;99] = Val (toks, cms)
                   /\ length toks = 3%nat /\ length cms = 1%nat.
Proof. eexists; eexists. vm_compute. repeat split. Qed.
Example ex_run_2 :
  map ttype (match tokenize [97;32;60;64;32;98;32;47;42;32;120;32;42;47] with Val (t, _) => t | _ => [] end)
  = [TT_Identifier; TT_ArrowAt; TT_Identifier; TT_EOF].
Proof. vm_compute. reflexivity. Qed.
Example ex_follow : follow_free [61; 62; 64] [32; 98].
Proof. cbn. intuition discriminate. Qed.

(* wf is satisfiable by a non-trivial stream:   select x  -- c <LF> group <LF> by 'a''b' <= $1 and a closing block comment
   (keyword in lower case, a line comment, a two-word keyword across a line feed, a string with a doubled quote,
   an extendable operator, a parameter, a trailing block comment) *)
Definition ex_ls : list lexeme :=
  [LWord [115;101;108;101;99;116]; LWord [120]; LWord [103;114;111;117;112]; LWord [98;121];
   LSStr 39 39 [SChar 97; SQuote2 39 39; SChar 98]; LOp ([60;61], TT_LtEq, []); LParamNum [49]].
Definition ex_seps : list sep :=
  [[]; [TWs 32]; [TWs 32; TWs 32; TLine [32;99]; TWs 10]; [TWs 10]; [TWs 32]; [TWs 32]; [TWs 32]; [TWs 32; TBlock [32;122;32]]].
Example ex_wf : wf ex_ls ex_seps.
Proof. split; vm_compute; reflexivity. Qed.
Example ex_fits : fits max_input max_tokens ex_ls ex_seps.
Proof. split; vm_compute; discriminate. Qed.
(* its raw reading has 6 tokens (group by is one raw token), its normalised reading the 7 lexemes *)
Example ex_raw_count : length (raw_tokens ex_ls ex_seps) = 6%nat /\ length (map tok_norm ex_ls) = 7%nat.
Proof. split; vm_compute; reflexivity. Qed.
Example ex_case : Forall2 case_variant ex_ls
  ([LWord [83;69;76;69;67;84]; LWord [120]; LWord [71;82;79;85;80]; LWord [66;89]] ++ skipn 4 ex_ls).
Proof.
  unfold ex_ls. cbn [app skipn].
  repeat (first [apply Forall2_nil | apply Forall2_cons]);
    try (left; reflexivity); right; split; try (vm_compute; reflexivity); vm_compute; discriminate.
Qed.
