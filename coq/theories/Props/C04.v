From Coq Require Import List NArith Bool.
From GV Require Import Gen.LexTables Model.Lexer Spec.LexSpec Proofs.LexerP Proofs.LexSpecP.
