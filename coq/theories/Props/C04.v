(* C04 — The token stream is a faithful, layout-independent reading of the text.
   Only statements, closed by [exact], with Print Assumptions.  The model is Model/Lexer.v (byte-level mirror of
   pkg/sql/tokenizer/tokenizer.go) over the lexical tables regenerated from the current source (Gen/LexTables.v).

   FULL-STRENGTH STATEMENT (not proved in this revision; what is missing is said below):
     lex_faithful : forall ls seps, wf ls seps ->
        tokenize (interleave ls seps) = Val (map tok_of ls ++ [EOF], comments_of seps)
     with corollaries layout_independent (two separator assignments give the same kind/value sequence),
     keyword_case_independent, quoted_distinct.
   Proved here: totality; shape of every successful run (exactly one end marker, ordered non-empty spans, token
   count bound); the size limit; comments captured in order with the exact bytes they span; the munch lemma of the
   operator/punctuation class (C04_lex_faithful_partial: every operator of the grammar except bare '@' and the '$'
   forms is read with its kind and text whenever what follows cannot extend it); quoted identifiers are kept
   distinct (kind and quote mark of "..." and `...` do not depend on the spelling between the quotes; words carry
   quote mark 0; the quoted kinds are not keyword kinds).
   Missing for lex_faithful: munch lemmas for words/keywords (with the compound look-ahead), numbers, strings,
   quoted identifiers, dollar quoting, the separator lemma for skip_trivia against the separator language, and the
   induction over the lexeme list; layout_independent and keyword_case_independent are corollaries of it and are
   therefore decided in this revision only by the implementation-side oracles and the correspondence. *)
From Coq Require Import List NArith Bool.
From GV Require Import Gen.LexTables Model.Lexer Inst.Inst_C04 Spec.LexSpec Proofs.LexerP Proofs.LexSpecP.
Import ListNotations.
Local Open Scope N_scope.

(* every byte string — any bytes, valid UTF-8 or not — is tokenized without panic and within the fuel |bs|+1 *)
Theorem C04_tokenize_total : forall bs, tokenize bs <> Panic /\ tokenize bs <> OutOfFuel.
Proof. exact tokenize_total. Qed.

(* a successful run ends with exactly one end-of-input marker and contains no other *)
Theorem C04_exactly_one_eof :
  forall bs toks cms, tokenize bs = Val (toks, cms) ->
  exists ts i, toks = ts ++ [eof_at i] /\ Forall (fun t => ttype t <> TT_EOF) ts.
Proof. exact exactly_one_eof. Qed.

(* ... and its tokens have non-empty, ordered, pairwise disjoint byte spans, the end marker after the last of them,
   and there are at most max_tok of them (for every value of the two limits) *)
Theorem C04_tokenize_shape :
  forall max_in max_tok bs toks cms, tokenize_with max_in max_tok bs = Val (toks, cms) ->
  exists ts i, toks = ts ++ [eof_at i] /\ Forall non_eof ts /\ spans_from 0 ts /\ last_end 0 ts <= i /\
               N.of_nat (length ts) <= max_tok.
Proof. exact tokenize_shape. Qed.

(* size limit, for every value of the limits: above it E1006 at 1:1 ... *)
Theorem C04_size_limit :
  forall max_in max_tok bs, max_in < N.of_nat (length bs) -> tokenize_with max_in max_tok bs = Err E_InputTooLarge 1 1.
Proof. exact size_limit_reject. Qed.

(* ... at or below it (in particular exactly at it) the size limit plays no role in the result *)
Theorem C04_size_limit_exact :
  forall m1 m2 max_tok bs, N.of_nat (length bs) <= m1 -> N.of_nat (length bs) <= m2 ->
  tokenize_with m1 max_tok bs = tokenize_with m2 max_tok bs.
Proof. exact size_limit_exact. Qed.

(* token limit (partial: the bound; "more tokens than the limit => E1007" is explored on the implementation by C02) *)
Theorem C04_token_limit_partial :
  forall max_in max_tok bs toks cms, tokenize_with max_in max_tok bs = Val (toks, cms) ->
  N.of_nat (length toks) <= max_tok + 1.
Proof. exact token_limit_bound. Qed.

(* comments: captured in source order, disjoint, each non-empty, each text exactly the bytes of the input between
   its start and end offsets and beginning with the opener of its style, the inline flag computed at its start *)
Theorem C04_comments_captured :
  forall bs toks cms, tokenize bs = Val (toks, cms) -> coms_from bs 0 cms.
Proof. exact comments_captured. Qed.

(* faithful reading, staged part: operator and punctuation lexemes *)
Theorem C04_lex_faithful_partial :
  (forall b ty, In (b, ty) punct1 ->
     forall bs r i, next_token bs (b :: r, i) = Val ((ty, [b], 0), (r, i + 1))) /\
  (forall v ty forb, In (v, ty, forb) optable ->
     forall bs r i, follow_free forb r -> next_token bs (v ++ r, i) = Val ((ty, v, 0), (r, i + N.of_nat (length v)))).
Proof. exact (conj munch_punct1 munch_op). Qed.

(* quoted identifiers are kept distinct from keywords whatever they spell *)
Theorem C04_quoted_distinct :
  (forall bs tl i ty v q c', next_token bs (34 :: tl, i) = Val ((ty, v, q), c') -> ty = TT_DoubleQuotedString /\ q = 34) /\
  (forall bs tl i ty v q c', next_token bs (96 :: tl, i) = Val ((ty, v, q), c') -> ty = TT_Identifier /\ q = 96) /\
  (forall c ty v q c', read_identifier c = Val ((ty, v, q), c') -> q = 0) /\
  forallb (fun kv => negb (snd kv =? TT_DoubleQuotedString)) (keywords ++ compound_keywords) = true.
Proof. exact (conj double_quoted_kind (conj backtick_kind (conj word_unquoted dq_not_keyword))). Qed.

Print Assumptions C04_tokenize_total.
Print Assumptions C04_exactly_one_eof.
Print Assumptions C04_tokenize_shape.
Print Assumptions C04_size_limit.
Print Assumptions C04_size_limit_exact.
Print Assumptions C04_token_limit_partial.
Print Assumptions C04_comments_captured.
Print Assumptions C04_lex_faithful_partial.
Print Assumptions C04_quoted_distinct.

(* the hypotheses are satisfiable by concrete non-trivial inputs: SELECT 'a''b' -- c   and   a <@ b /* x */ *)
Example ex_run_1 :
  exists toks cms, tokenize [83;69;76;69;67;84;32;39;97;39;39;98;39;32;45;45;32;99] = Val (toks, cms)
                   /\ length toks = 3%nat /\ length cms = 1%nat.
Proof. eexists; eexists. vm_compute. repeat split. Qed.
Example ex_run_2 :
  map ttype (match tokenize [97;32;60;64;32;98;32;47;42;32;120;32;42;47] with Val (t, _) => t | _ => [] end)
  = [TT_Identifier; TT_ArrowAt; TT_Identifier; TT_EOF].
Proof. vm_compute. reflexivity. Qed.
Example ex_follow : follow_free [61; 62; 64] [32; 98].
Proof. cbn. intuition discriminate. Qed.
