(* C19 — CLI verdicts match the library; files are never left half-written.
   Only statements, closed by [exact], with Print Assumptions.
   Part 1 (this section): in-place rewriting.  Models: Model/FileRepl.v; the protocol the current binary follows
   is Gen/WriteProto.v (regenerated from its system-call trace on every run). *)
From Coq Require Import List NArith Bool.
From GV Require Import Model.FileRepl Proofs.FileReplP Model.Cli Proofs.CliP Gen.WriteProto Inst.Inst_C19.
Import ListNotations.

(* temp file + rename, for every old file, every new content, every crash point (call index i, byte offset k
   inside a write): a reader of the target sees the complete old or the complete new content *)
Theorem C19_replace_atomic : forall t tmp new m s fold,
  tmp <> t -> lookup t s = Some fold -> lookup tmp s = None ->
  forall i k, content t (crash_at (atomic_proto t tmp new m) i k s) = Some (f_data fold) \/
              content t (crash_at (atomic_proto t tmp new m) i k s) = Some new.
Proof. exact replace_atomic. Qed.

(* success leaves exactly the new content (with the requested permission bits) and no temporary file *)
Theorem C19_replace_success : forall t tmp new m s fold,
  tmp <> t -> lookup t s = Some fold -> lookup tmp s = None ->
  lookup t (run (atomic_proto t tmp new m) s) = Some (mkFile new m) /\
  lookup tmp (run (atomic_proto t tmp new m) s) = None.
Proof. exact replace_success. Qed.

(* a write that fails after any number k of bytes, followed by the clean-up calls: the target is the old file
   (content and mode) at every crash point (j, k') of that run, and the temporary file is removed at its end *)
Theorem C19_replace_write_failure : forall t tmp new m s fold k,
  tmp <> t -> lookup t s = Some fold -> lookup tmp s = None ->
  (forall j k', lookup t (crash_at (fail_run (atomic_proto t tmp new m) (atomic_cleanup tmp) 1 k) j k' s) = Some fold) /\
  lookup tmp (run (fail_run (atomic_proto t tmp new m) (atomic_cleanup tmp) 1 k) s) = None.
Proof. exact replace_write_failure. Qed.

(* the same for every protocol accepted by the decidable shape check (extra fsync, chmod before the write,
   several write calls, ... are all covered) *)
Theorem C19_shape_atomic : forall t new proto s fold,
  atomic_shapeb t new proto = true ->
  lookup t s = Some fold ->
  (forall src, commit_src t proto = Some src -> lookup src s = None) ->
  (forall i k, content t (crash_at proto i k s) = Some (f_data fold) \/
               content t (crash_at proto i k s) = Some new) /\
  content t (run proto s) = Some new.
Proof. exact shape_atomic. Qed.

Theorem C19_untouched_keeps : forall t proto s,
  untouched_shapeb t proto = true -> forall i k, lookup t (crash_at proto i k s) = lookup t s.
Proof. exact untouched_keeps. Qed.

(* truncate-then-write (os.WriteFile on the original path, what the pinned writers did): killed or failed after
   k bytes the file holds exactly the first k bytes of the new content ... *)
Theorem C19_writefile_crash_prefix : forall t new m s fold k,
  lookup t s = Some fold ->
  content t (crash_at (trunc_proto t new m) 1 k s) = Some (firstn k new).
Proof. exact writefile_crash_prefix. Qed.

(* ... which is neither old nor new: the property is refuted for that protocol *)
Theorem C19_writefile_refuted : exists (old new : bytes) (i k : nat),
  let s := [(1%N, mkFile old 420)] in
  content 1%N s = Some old /\
  content 1%N (crash_at (trunc_proto 1%N new 420) i k s) <> Some old /\
  content 1%N (crash_at (trunc_proto 1%N new 420) i k s) <> Some new.
Proof. exact writefile_refuted. Qed.

Theorem C19_trunc_shape_loses_old : forall t proto s fold,
  trunc_shapeb t proto = true -> lookup t s = Some fold ->
  exists i, content t (run (firstn i proto) s) = Some [].
Proof. exact trunc_shape_loses_old. Qed.

(* instance: the calls the current binary issues for `format -i` and `lint --auto-fix` are atomic for every
   initial file system in which the target exists and the temporary name is free *)
Theorem C19_observed_format_atomic : forall s fold,
  lookup 1%N s = Some fold ->
  (forall src, commit_src 1%N fmt_ok = Some src -> lookup src s = None) ->
  (forall i k, content 1%N (crash_at fmt_ok i k s) = Some (f_data fold) \/
               content 1%N (crash_at fmt_ok i k s) = Some fmt_new) /\
  content 1%N (run fmt_ok s) = Some fmt_new.
Proof. exact (fun s fold => shape_atomic 1%N fmt_new fmt_ok s fold fmt_ok_atomic). Qed.

Theorem C19_observed_lint_atomic : forall s fold,
  lookup 1%N s = Some fold ->
  (forall src, commit_src 1%N lint_ok = Some src -> lookup src s = None) ->
  (forall i k, content 1%N (crash_at lint_ok i k s) = Some (f_data fold) \/
               content 1%N (crash_at lint_ok i k s) = Some lint_new) /\
  content 1%N (run lint_ok s) = Some lint_new.
Proof. exact (fun s fold => shape_atomic 1%N lint_new lint_ok s fold lint_ok_atomic). Qed.

Theorem C19_observed_failures_keep_old : forall proto s,
  In proto (fmt_fail ++ lint_fail) ->
  forall i k, lookup 1%N (crash_at proto i k s) = lookup 1%N s.
Proof. exact observed_failures_keep_old. Qed.

(* ---------------------------------------------------------------------------------------------------------
   Part 2: verdicts.  Model: Model/Cli.v (exit status, writes, prints and report contents of the four commands
   as functions of the flags and of what the library says about each input). *)

(* validate: exit status 0 never hides an input the library rejects, whatever the flags ... *)
Theorem C19_exit_validate_zero_accepts : forall fl inp,
  exit_validate fl inp = 0%N -> inputs_of inp <> [] /\ Forall (fun v => v = VValid) (inputs_of inp).
Proof. exact exit_validate_zero_accepts. Qed.

(* ... and for a well-formed invocation (known --output-format, writable --output-file) it is 0 exactly when
   there is an input and the library accepts every input (files, stdin, inline SQL) *)
Theorem C19_exit_validate_zero_iff : forall fl inp,
  v_fmt fl <> 3%N -> v_outfile_ok fl = true ->
  (exit_validate fl inp = 0%N <-> inputs_of inp <> [] /\ Forall (fun v => v = VValid) (inputs_of inp)).
Proof. exact exit_validate_zero_iff. Qed.

(* JSON errors[] / SARIF results[] name exactly the failing inputs *)
Theorem C19_report_names_exactly_failing : forall fl inp r,
  validate_report fl inp = Some r ->
  forall i, In i r <-> nth_error (inputs_of inp) i = Some VInvalid.
Proof. exact report_names_exactly_failing. Qed.

Theorem C19_report_exists_iff : forall fl inp,
  (exists r, validate_report fl inp = Some r) <->
  (v_fmt fl = 1%N \/ v_fmt fl = 2%N) /\ v_outfile_ok fl = true /\ inputs_of inp <> [].
Proof. exact report_exists_iff. Qed.

Theorem C19_report_valid_iff_exit : forall fl inp r,
  validate_report fl inp = Some r ->
  (validate_report_valid inp = true <-> exit_validate fl inp = 0%N).
Proof. exact report_valid_iff_exit. Qed.

(* format, file arguments: exit 0 iff there is an input, every input was formatted, under --check none needs
   formatting, and every attempted write succeeded *)
Theorem C19_exit_format_zero_iff : forall fl l,
  exit_format fl (IFiles l) = 0%N <-> l <> [] /\ forallb (f_goodb fl) l = true.
Proof. exact exit_format_zero_iff. Qed.

(* format, stdin (stdin = true) or inline SQL *)
Theorem C19_exit_format_zero_iff_one : forall fl stdin x,
  snd (format_one fl stdin x) = 0%N <->
  (stdin && f_inplace fl = false) /\
  exists o f wok, x = FOk o f wok /\
    (if f_check fl then o = f else (f_output fl = true -> wok = true)).
Proof. exact exit_format_zero_iff_one. Qed.

(* --check never writes a file (nor prints formatted text), whatever the other flags and the kind of input *)
Theorem C19_check_never_writes : forall fl inp, f_check fl = true -> format_actions fl inp = [].
Proof. exact check_never_writes. Qed.

(* a file is replaced in place only when its processing succeeded, with exactly the formatted text, only when
   that differs from the original, only under -i and never under --check *)
Theorem C19_format_only_on_success : forall fl inp i b,
  In (WriteSelf i b) (format_actions fl inp) ->
  f_check fl = false /\ f_inplace fl = true /\
  exists l o, inp = IFiles l /\ nth_error l i = Some (FOk o b true) /\ o <> b.
Proof. exact format_only_on_success. Qed.

(* same input, same options: printed text = formatted text (newline-terminated), -i writes the formatted text
   iff it differs, --check fails iff it differs iff -i would write; --check itself does nothing *)
Theorem C19_format_triangle : forall o f,
  let x := [FOk o f true] in
  format_actions (mkF false false false) (IFiles x) = [Print (ensure_nl f)] /\
  format_actions (mkF true false false) (IFiles x) = (if bytes_eqb o f then [] else [WriteSelf 0 f]) /\
  (exit_format (mkF false true false) (IFiles x) = 1%N <-> f <> o) /\
  (exit_format (mkF false true false) (IFiles x) = 0%N <-> f = o) /\
  (exit_format (mkF false true false) (IFiles x) = 1%N <-> format_actions (mkF true false false) (IFiles x) <> []) /\
  format_actions (mkF false true false) (IFiles x) = [].
Proof. exact format_triangle. Qed.

Theorem C19_format_triangle_one : forall stdin o f,
  format_one (mkF false false false) stdin (FOk o f true) = ([Print (ensure_nl f)], 0%N) /\
  (snd (format_one (mkF false true false) stdin (FOk o f true)) = 1%N <-> f <> o) /\
  fst (format_one (mkF false true false) stdin (FOk o f true)) = [].
Proof. exact format_triangle_one. Qed.

(* lint: exit 0 iff every file was read, no finding has severity error, and (with --fail-on-warn) none has
   severity warning *)
Theorem C19_exit_lint_zero_iff : forall fl l,
  exit_lint fl (IFiles l) = 0%N <->
  existsb l_readerr l = false /\
  existsb is_err (flat_map l_viols l) = false /\
  (l_failwarn fl = true -> existsb is_warn (flat_map l_viols l) = false).
Proof. exact exit_lint_zero_iff. Qed.

Theorem C19_lint_no_fix_never_writes : forall fl inp, l_fix fl = false -> lint_actions fl inp = [].
Proof. exact lint_no_fix_never_writes. Qed.

Theorem C19_lint_only_on_success : forall fl inp a,
  In a (lint_actions fl inp) ->
  l_fix fl = true /\
  exists l i b o v, inp = IFiles l /\ a = WriteSelf i b /\ nth_error l i = Some (LOk o v b true) /\ v <> [] /\ o <> b.
Proof. exact lint_only_on_success. Qed.

Theorem C19_exit_parse_zero_iff : forall inp, exit_parse inp = 0%N <-> inputs_of inp = [PAccept].
Proof. exact exit_parse_zero_iff. Qed.

(* a concrete mixed run: three files (needs formatting / fails / already formatted) under -i *)
Example C19_ex_mixed_inplace :
  format_run (mkF true false false)
    (IFiles [FOk [115%N] [83%N] true; FFail; FOk [83%N] [83%N] true]) = ([WriteSelf 0 [83%N]], 1%N).
Proof. vm_compute. reflexivity. Qed.
Example C19_ex_report :
  validate_report (mkV 1 true) (IFiles [VValid; VInvalid; VValid; VInvalid]) = Some [1; 3] /\
  exit_validate (mkV 1 true) (IFiles [VValid; VInvalid; VValid; VInvalid]) = 1%N.
Proof. vm_compute. split; reflexivity. Qed.

(* the hypotheses are satisfiable by a concrete, non-trivial state *)
Example C19_ex_atomic_state :
  let s := [(1%N, mkFile [1%N; 2%N; 3%N] 420)] in
  lookup 1%N s = Some (mkFile [1%N; 2%N; 3%N] 420) /\ lookup 2%N s = None /\
  content 1%N (crash_at (atomic_proto 1%N 2%N [7%N; 8%N] 420) 1 1 s) = Some [1%N; 2%N; 3%N] /\
  content 2%N (crash_at (atomic_proto 1%N 2%N [7%N; 8%N] 420) 1 1 s) = Some [7%N] /\
  content 1%N (run (atomic_proto 1%N 2%N [7%N; 8%N] 420) s) = Some [7%N; 8%N].
Proof. vm_compute. repeat split. Qed.

Print Assumptions C19_replace_atomic.
Print Assumptions C19_replace_success.
Print Assumptions C19_replace_write_failure.
Print Assumptions C19_shape_atomic.
Print Assumptions C19_untouched_keeps.
Print Assumptions C19_writefile_crash_prefix.
Print Assumptions C19_writefile_refuted.
Print Assumptions C19_trunc_shape_loses_old.
Print Assumptions C19_observed_format_atomic.
Print Assumptions C19_observed_lint_atomic.
Print Assumptions C19_observed_failures_keep_old.
Print Assumptions C19_exit_validate_zero_accepts.
Print Assumptions C19_exit_validate_zero_iff.
Print Assumptions C19_report_names_exactly_failing.
Print Assumptions C19_report_exists_iff.
Print Assumptions C19_report_valid_iff_exit.
Print Assumptions C19_exit_format_zero_iff.
Print Assumptions C19_exit_format_zero_iff_one.
Print Assumptions C19_check_never_writes.
Print Assumptions C19_format_only_on_success.
Print Assumptions C19_format_triangle.
Print Assumptions C19_format_triangle_one.
Print Assumptions C19_exit_lint_zero_iff.
Print Assumptions C19_lint_no_fix_never_writes.
Print Assumptions C19_lint_only_on_success.
Print Assumptions C19_exit_parse_zero_iff.
