(* C19 — CLI verdicts match the library; files are never left half-written.
   Only statements, closed by [exact], with Print Assumptions.
   Part 1 (this section): in-place rewriting.  Models: Model/FileRepl.v; the protocol the current binary follows
   is Gen/WriteProto.v (regenerated from its system-call trace on every run). *)
From Coq Require Import List NArith Bool.
From GV Require Import Model.FileRepl Proofs.FileReplP Gen.WriteProto Inst.Inst_C19.
Import ListNotations.

(* temp file + rename, for every old file, every new content, every crash point (call index i, byte offset k
   inside a write): a reader of the target sees the complete old or the complete new content *)
Theorem C19_replace_atomic : forall t tmp new m s fold,
  tmp <> t -> lookup t s = Some fold -> lookup tmp s = None ->
  forall i k, content t (crash_at (atomic_proto t tmp new m) i k s) = Some (f_data fold) \/
              content t (crash_at (atomic_proto t tmp new m) i k s) = Some new.
Proof. exact replace_atomic. Qed.

(* success leaves exactly the new content (with the requested permission bits) and no temporary file *)
Theorem C19_replace_success : forall t tmp new m s fold,
  tmp <> t -> lookup t s = Some fold -> lookup tmp s = None ->
  lookup t (run (atomic_proto t tmp new m) s) = Some (mkFile new m) /\
  lookup tmp (run (atomic_proto t tmp new m) s) = None.
Proof. exact replace_success. Qed.

(* a write that fails after any number k of bytes, followed by the clean-up calls: the target is the old file
   (content and mode) at every crash point (j, k') of that run, and the temporary file is removed at its end *)
Theorem C19_replace_write_failure : forall t tmp new m s fold k,
  tmp <> t -> lookup t s = Some fold -> lookup tmp s = None ->
  (forall j k', lookup t (crash_at (fail_run (atomic_proto t tmp new m) (atomic_cleanup tmp) 1 k) j k' s) = Some fold) /\
  lookup tmp (run (fail_run (atomic_proto t tmp new m) (atomic_cleanup tmp) 1 k) s) = None.
Proof. exact replace_write_failure. Qed.

(* the same for every protocol accepted by the decidable shape check (extra fsync, chmod before the write,
   several write calls, ... are all covered) *)
Theorem C19_shape_atomic : forall t new proto s fold,
  atomic_shapeb t new proto = true ->
  lookup t s = Some fold ->
  (forall src, commit_src t proto = Some src -> lookup src s = None) ->
  (forall i k, content t (crash_at proto i k s) = Some (f_data fold) \/
               content t (crash_at proto i k s) = Some new) /\
  content t (run proto s) = Some new.
Proof. exact shape_atomic. Qed.

Theorem C19_untouched_keeps : forall t proto s,
  untouched_shapeb t proto = true -> forall i k, lookup t (crash_at proto i k s) = lookup t s.
Proof. exact untouched_keeps. Qed.

(* truncate-then-write (os.WriteFile on the original path, what the pinned writers did): killed or failed after
   k bytes the file holds exactly the first k bytes of the new content ... *)
Theorem C19_writefile_crash_prefix : forall t new m s fold k,
  lookup t s = Some fold ->
  content t (crash_at (trunc_proto t new m) 1 k s) = Some (firstn k new).
Proof. exact writefile_crash_prefix. Qed.

(* ... which is neither old nor new: the property is refuted for that protocol *)
Theorem C19_writefile_refuted : exists (old new : bytes) (i k : nat),
  let s := [(1%N, mkFile old 420)] in
  content 1%N s = Some old /\
  content 1%N (crash_at (trunc_proto 1%N new 420) i k s) <> Some old /\
  content 1%N (crash_at (trunc_proto 1%N new 420) i k s) <> Some new.
Proof. exact writefile_refuted. Qed.

Theorem C19_trunc_shape_loses_old : forall t proto s fold,
  trunc_shapeb t proto = true -> lookup t s = Some fold ->
  exists i, content t (run (firstn i proto) s) = Some [].
Proof. exact trunc_shape_loses_old. Qed.

(* instance: the calls the current binary issues for `format -i` and `lint --auto-fix` are atomic for every
   initial file system in which the target exists and the temporary name is free *)
Theorem C19_observed_format_atomic : forall s fold,
  lookup 1%N s = Some fold ->
  (forall src, commit_src 1%N fmt_ok = Some src -> lookup src s = None) ->
  (forall i k, content 1%N (crash_at fmt_ok i k s) = Some (f_data fold) \/
               content 1%N (crash_at fmt_ok i k s) = Some fmt_new) /\
  content 1%N (run fmt_ok s) = Some fmt_new.
Proof. exact (fun s fold => shape_atomic 1%N fmt_new fmt_ok s fold fmt_ok_atomic). Qed.

Theorem C19_observed_lint_atomic : forall s fold,
  lookup 1%N s = Some fold ->
  (forall src, commit_src 1%N lint_ok = Some src -> lookup src s = None) ->
  (forall i k, content 1%N (crash_at lint_ok i k s) = Some (f_data fold) \/
               content 1%N (crash_at lint_ok i k s) = Some lint_new) /\
  content 1%N (run lint_ok s) = Some lint_new.
Proof. exact (fun s fold => shape_atomic 1%N lint_new lint_ok s fold lint_ok_atomic). Qed.

Theorem C19_observed_failures_keep_old : forall proto s,
  In proto (fmt_fail ++ lint_fail) ->
  forall i k, lookup 1%N (crash_at proto i k s) = lookup 1%N s.
Proof. exact observed_failures_keep_old. Qed.

(* the hypotheses are satisfiable by a concrete, non-trivial state *)
Example C19_ex_atomic_state :
  let s := [(1%N, mkFile [1%N; 2%N; 3%N] 420)] in
  lookup 1%N s = Some (mkFile [1%N; 2%N; 3%N] 420) /\ lookup 2%N s = None /\
  content 1%N (crash_at (atomic_proto 1%N 2%N [7%N; 8%N] 420) 1 1 s) = Some [1%N; 2%N; 3%N] /\
  content 2%N (crash_at (atomic_proto 1%N 2%N [7%N; 8%N] 420) 1 1 s) = Some [7%N] /\
  content 1%N (run (atomic_proto 1%N 2%N [7%N; 8%N] 420) s) = Some [7%N; 8%N].
Proof. vm_compute. repeat split. Qed.

Print Assumptions C19_replace_atomic.
Print Assumptions C19_replace_success.
Print Assumptions C19_replace_write_failure.
Print Assumptions C19_shape_atomic.
Print Assumptions C19_untouched_keeps.
Print Assumptions C19_writefile_crash_prefix.
Print Assumptions C19_writefile_refuted.
Print Assumptions C19_trunc_shape_loses_old.
Print Assumptions C19_observed_format_atomic.
Print Assumptions C19_observed_lint_atomic.
Print Assumptions C19_observed_failures_keep_old.
