(* C09 cleanliness at full strength (no exception list): compiles exactly when the probe finds every
   field of every pooled type reset on every release path. *)
From Coq Require Import List NArith Bool.
From GV Require Import Model.Pool Proofs.PoolP Gen.PoolTable.
Import ListNotations.

Lemma cleared_full : cleared_except pool_all pool_cleared [] = true.
Proof. vm_compute. reflexivity. Qed.

Theorem C09_get_is_fresh :
  forall h, wf_hist pool_all h -> forall ty o, In (ty, o) (run pool_cleared [] h) -> o = [].
Proof. exact (get_is_fresh pool_all pool_cleared cleared_full). Qed.

Print Assumptions C09_get_is_fresh.
