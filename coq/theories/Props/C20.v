(* C20 — processing cost grows near-linearly with input size.
   Model: Model/Cost.v (work = loop-body executions, the unit the coverage counters of the real code report).
   Proved here for the source-position conversion that every token and comment goes through (the part of
   tokenizing that was quadratic on the pinned tree); the remaining stages are covered by the deterministic
   statement-count measurement of the implementation on growing input families (lib/c20.py). *)
From Coq Require Import List Arith Bool Lia.
From GV Require Import Model.Cost Proofs.CostP.
From GV Require Import Gen.LexTables Model.Lexer Proofs.LexerP Model.Loops Proofs.LoopsP.
From GV Require Import Model.Walk Model.QAst Model.Extract Proofs.ExtractP.
Import ListNotations.

(* the repaired conversion answers every list of queries, in any order, exactly as the rescanning one does *)
Theorem C20_resume_point_is_rescan :
  forall starts wd len, (exists rest, starts = 0 :: rest) ->
  forall qs, fst (incr_run starts wd len lstate0 qs) = map (rescan_loc starts wd len) qs.
Proof. intros starts wd len Hh qs. apply incr_run_correct; [exact Hh | apply linv0]. Qed.

(* one tokenizer run asks in increasing offset order: all position conversions together cost at most one pass over
   the line table plus two passes over the input, whatever the number of tokens — linear in the input size *)
Theorem C20_position_work_linear :
  forall starts wd len, (exists rest, starts = 0 :: rest) ->
  (forall i j, i <= j -> j < length starts -> nth i starts 0 <= nth j starts 0) ->
  forall q qs, nondecreasing_from q qs ->
    snd (incr_run starts wd len lstate0 (q :: qs)) <= 1 + length starts + 2 * len.
Proof. exact incr_total_linear. Qed.

(* the pinned (rescanning) conversion is quadratic: k queries spaced d bytes apart on one line cost k + d*k*(k-1)/2 *)
Theorem C20_rescan_quadratic_refuted :
  forall d k len, d * k <= len ->
    2 * rescan_total [0] len (evenly d k) = 2 * k + d * k * (k - 1).
Proof. exact rescan_total_quadratic. Qed.

(* ---- the other linear stages that have a model ---- *)
(* tokenizing: the token loop with fuel |bs|+1 never runs out: at most |bs|+1 iterations, each consuming at least one
   byte (the progress lemmas of Proofs/LexerP.v), for every byte string *)
Theorem C20_tokenizer_iterations_linear : forall bs, tokenize bs <> OutOfFuel.
Proof. intros bs. exact (proj2 (tokenize_total bs)). Qed.

(* the statement loops: at most |tokens|+1 iterations for every statement parser that consumes on success *)
Theorem C20_statement_loop_iterations_linear :
  forall tree ntok is_eof is_semi ps, (forall p t p', ps p = SOk t p' -> p < p') ->
  forall strict pos acc, parse tree ntok is_eof is_semi ps strict (S (ntok - pos)) pos acc <> PFuel.
Proof. intros tree ntok is_eof is_semi ps H strict pos acc.
       apply (parse_fuel tree ntok is_eof is_semi (fun _ => false) ps H). apply Nat.lt_succ_diag_r. Qed.

(* recovery parsing touches every token at most three times, wherever the errors are and whatever the statement parser
   answers (it resumes where the failed statement stopped, never inside it) ... *)
Theorem C20_recovery_work_linear :
  forall tree ntok is_eof is_semi starts_stmt ps,
    (forall p t p', ps p = SOk t p' -> p < p') ->
    (forall p c p', ps p = SErr c p' -> p <= p') ->
    (forall p, match ps p with SOk _ p' => p' <= ntok | SErr _ p' => p' <= ntok end) ->
    forall fuel pos, pos <= ntok ->
      rwork tree ntok is_eof is_semi starts_stmt ps resume_code fuel pos <= 3 * (ntok - pos).
Proof. exact recover_work_linear. Qed.

(* ... while going back into the failed statement (resume one token past its start) re-reads the rest of a long
   malformed statement from every inner statement keyword: 40 keywords, 161 tokens, 3480 token visits *)
Theorem C20_recovery_restart_quadratic_refuted :
  run_rwork false (chain_kinds 40) (chain_tbl 40) = 162 /\
  run_rwork true (chain_kinds 40) (chain_tbl 40) = 3480 /\
  20 * length (chain_kinds 40) < run_rwork true (chain_kinds 40) (chain_tbl 40).
Proof. exact restart_work_quadratic_refuted. Qed.

(* metadata extraction: one visit per node, for every tree and every Children() table (the pinned double recursion
   cost 2^k visits on k UNIONs: Props/C15.v C15_collect_visits_exponential_refuted) *)
Theorem C20_collect_visits_linear : forall em (stmts : list qn), visits em stmts <= list_sum (map qsize stmts).
Proof. exact collect_visits_linear. Qed.

(* non-vacuity: a 3-line input "ab\n\tcd\nef" (line table [0;3;7], tab at offset 3), queries in tokenizer order
   and then one backward query *)
Example C20_example :
  loc_case [0; 3; 7] [3] 9 [0; 2; 4; 6; 7; 9; 4]
  = ([(1, 1); (1, 3); (2, 5); (2, 7); (3, 1); (3, 3); (2, 5)], 12, 23).
Proof. vm_compute. reflexivity. Qed.

Print Assumptions C20_resume_point_is_rescan.
Print Assumptions C20_position_work_linear.
Print Assumptions C20_rescan_quadratic_refuted.
Print Assumptions C20_tokenizer_iterations_linear.
Print Assumptions C20_statement_loop_iterations_linear.
Print Assumptions C20_collect_visits_linear.
Print Assumptions C20_recovery_work_linear.
Print Assumptions C20_recovery_restart_quadratic_refuted.
