(* C20 — processing cost grows near-linearly with input size.
   Model: Model/Cost.v (work = loop-body executions, the unit the coverage counters of the real code report).
   Proved here for the source-position conversion that every token and comment goes through (the part of
   tokenizing that was quadratic on the pinned tree); the remaining stages are covered by the deterministic
   statement-count measurement of the implementation on growing input families (lib/c20.py). *)
From Coq Require Import List Arith Bool Lia.
From GV Require Import Model.Cost Proofs.CostP.
Import ListNotations.

(* the repaired conversion answers every list of queries, in any order, exactly as the rescanning one does *)
Theorem C20_resume_point_is_rescan :
  forall starts wd len, (exists rest, starts = 0 :: rest) ->
  forall qs, fst (incr_run starts wd len lstate0 qs) = map (rescan_loc starts wd len) qs.
Proof. intros starts wd len Hh qs. apply incr_run_correct; [exact Hh | apply linv0]. Qed.

(* one tokenizer run asks in increasing offset order: all position conversions together cost at most one pass over
   the line table plus two passes over the input, whatever the number of tokens — linear in the input size *)
Theorem C20_position_work_linear :
  forall starts wd len, (exists rest, starts = 0 :: rest) ->
  (forall i j, i <= j -> j < length starts -> nth i starts 0 <= nth j starts 0) ->
  forall q qs, nondecreasing_from q qs ->
    snd (incr_run starts wd len lstate0 (q :: qs)) <= 1 + length starts + 2 * len.
Proof. exact incr_total_linear. Qed.

(* the pinned (rescanning) conversion is quadratic: k queries spaced d bytes apart on one line cost k + d*k*(k-1)/2 *)
Theorem C20_rescan_quadratic_refuted :
  forall d k len, d * k <= len ->
    2 * rescan_total [0] len (evenly d k) = 2 * k + d * k * (k - 1).
Proof. exact rescan_total_quadratic. Qed.

(* non-vacuity: a 3-line input "ab\n\tcd\nef" (line table [0;3;7], tab at offset 3), queries in tokenizer order
   and then one backward query *)
Example C20_example :
  loc_case [0; 3; 7] [3] 9 [0; 2; 4; 6; 7; 9; 4]
  = ([(1, 1); (1, 3); (2, 5); (2, 7); (3, 1); (3, 3); (2, 5)], 12, 23).
Proof. vm_compute. reflexivity. Qed.

Print Assumptions C20_resume_point_is_rescan.
Print Assumptions C20_position_work_linear.
Print Assumptions C20_rescan_quadratic_refuted.
