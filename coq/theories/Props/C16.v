(* C16 — Injection findings are context-closed, layout-invariant and self-consistent.
   Only statements, closed by [exact], with Print Assumptions.  Model: Model/Scan.v (Scanner.Scan of
   pkg/sql/security/scanner.go as written: ast.Inspect over each statement applying the local detectors, every
   append guarded by shouldInclude, then updateCounts) over query trees traversed with the regenerated Children()
   table ([em], Gen/QSlots.v), started from the statements [scan_root] admits ([scan_roots]; Gen/QRoots.v, probed on
   the compiled Scan each run: every statement kind of the grammar, Inst_C16.roots_cover_ok).
   Positions: Model/ScanRef.v ([subs s] = every expression / statement position of a reference-grammar statement,
   at ANY depth — structural recursion, no bound; a payload p in a one-hole context C is [In p (subs (plug C p))]).
   The grammar includes the statements that carry a query or an expression without being queries (CREATE VIEW /
   MATERIALIZED VIEW ... AS query, CREATE INDEX ... WHERE cond, CREATE TABLE with DEFAULT / CHECK).
   Layout (letter case of keywords, whitespace, redundant parentheses) leaves no trace in the tree the scan reads
   (checked by the tie: prescribed tree = parsed tree of every rendering); the detectors compare operator and
   function names case-insensitively (hypotheses [upper op = ...] below).
   ScanSQL's regular expressions are not modelled (Go regexp): exercised by the oracle only. *)
From Coq Require Import List String NArith Bool Arith.
From GV Require Import Model.Walk Model.QAst Model.QRef Model.Scan Model.ScanRef Proofs.QAstP Proofs.ExtractP Proofs.ScanP
  Gen.ChildrenTable Gen.QSlots Gen.QRoots Inst.Inst_C15 Inst.Inst_C16.
Import ListNotations.
Local Open Scope string_scope.
Local Open Scope list_scope.

(* raising the minimum severity removes exactly the findings below it (order and multiplicity kept) *)
Theorem C16_threshold_filter : forall m stmts,
  scan_findings em scan_root m stmts = filter (keeps m) (scan_findings em scan_root (Some Low) stmts).
Proof. exact (threshold_filter em scan_root). Qed.

(* total and per-severity counts equal the findings listed *)
Theorem C16_counts_consistent : forall m stmts,
  let (fs, c) := scan em scan_root m stmts in
  c_total c = List.length fs /\
  c_critical c = count_sev Critical fs /\ c_high c = count_sev High fs /\
  c_medium c = count_sev Medium fs /\ c_low c = count_sev Low fs /\
  c_critical c + c_high c + c_medium c + c_low c = c_total c.
Proof. exact (counts_consistent em scan_root). Qed.

(* the scan is a function of the tree (the model has no state and returns no tree): scanning a sequence of
   statements is scanning each; the implementation side (tree unchanged, long-lived Scanner) is checked by the tie *)
Theorem C16_scan_pure : forall m a b, scan_findings em scan_root m (a ++ b) = scan_findings em scan_root m a ++ scan_findings em scan_root m b.
Proof. exact (scan_pure em scan_root). Qed.

(* every position of every reference statement is visited (C14 completeness on the prescribed tree) *)
Theorem C16_position_visited : forall s x, In x (subs s) -> In (ast_sub x) (qwalk em (ast_stmt s)).
Proof. exact (position_visited em em_covers_ok). Qed.

(* the scan starts from every statement of the grammar, whatever its type (CREATE VIEW ... included) *)
Theorem C16_statement_is_root : forall s : mstmt, scan_roots scan_root [ast_stmt s] = [ast_stmt s].
Proof. exact (statement_is_root scan_root roots_cover_ok). Qed.

(* context closure: what the detectors report on the payload they report in EVERY context, every threshold *)
Theorem C16_context_closed : forall m s x f,
  In x (subs s) -> In f (local_findings m (ast_sub x)) -> In f (scan_findings em scan_root m [ast_stmt s]).
Proof. exact (context_closed em em_covers_ok scan_root roots_cover_ok). Qed.

(* Historical: EXPLAIN q / DESCRIBE q was parsed to DescribeStatement{TableName: "SELECT"} — the query parsed and thrown
   away ([explain_pinned]), so a payload written in it had a position in the statement and no node in the tree.
   Repaired in /repo c61589e (DescribeStatement.Query); [MExplain] is prescribed with the query since. *)
Theorem C16_explain_query_dropped_refuted :
  exists q x f, In x (subs (MExplain q)) /\ In f (local_findings (Some Low) (ast_sub x)) /\
                ~ In f (scan_findings em scan_root (Some Low) [explain_pinned]).
Proof. exact (explain_query_dropped em scan_root). Qed.

(* nothing is reported that no node of the tree produces *)
Theorem C16_findings_sound : forall m t f,
  In f (scan_findings em scan_root m [t]) -> exists n, qreach em t n /\ In f (local_findings m n).
Proof. exact (findings_sound em scan_root). Qed.

(* the documented payloads, on the payload node (any letter case of the operator / function name) *)
Theorem C16_literal_tautology : forall m op v t1 t2,
  upper op = "=" -> should_include m Critical = true ->
  In taut (local_findings m (ast_expr (MBin op (MLit v t1) (MLit v t2)))).
Proof. exact literal_tautology_detected. Qed.
Theorem C16_column_tautology : forall m op q n,
  upper op = "=" -> should_include m Critical = true ->
  In taut (local_findings m (ast_expr (MBin op (MCol q n) (MCol q n)))).
Proof. exact column_tautology_detected. Qed.
Theorem C16_or_tautology : forall m orop op e v t1 t2,
  upper orop = "OR" -> upper op = "=" -> should_include m Critical = true ->
  In taut (local_findings m (ast_expr (MBin orop e (MBin op (MLit v t1) (MLit v t2))))).
Proof. exact or_tautology_detected. Qed.
Theorem C16_time_function : forall m f args,
  smem (upper (nstr f)) time_funcs = true -> should_include m High = true ->
  In (mkF PTimeBased High) (local_findings m (ast_expr (MFunc f args))).
Proof. exact time_function_detected. Qed.
Theorem C16_dangerous_function : forall m f args,
  smem (upper (nstr f)) dangerous_funcs = true -> should_include m Critical = true ->
  In (mkF POutOfBand Critical) (local_findings m (ast_expr (MFunc f args))).
Proof. exact dangerous_function_detected. Qed.
Theorem C16_union_nulls : forall m op l w v1 t1 v2 t2 rest from joins wh gb hv ob,
  upper op = "UNION" -> upper t1 = "NULL" -> upper t2 = "NULL" -> should_include m High = true ->
  In (mkF PUnionBased High)
     (local_findings m (ast_stmt (MSetOp op l (MSelect w (ICons (MLit v1 t1) "" (ICons (MLit v2 t2) "" rest)) from joins wh gb hv ob)))).
Proof. exact union_nulls_detected. Qed.
Theorem C16_union_system_table : forall m op l w cols n al from joins wh gb hv ob,
  upper op = "UNION" -> is_system_table (tstr n) = true -> should_include m Critical = true ->
  In (mkF PUnionBased Critical)
     (local_findings m (ast_stmt (MSetOp op l (MSelect w cols (TCons (TName n al) from) joins wh gb hv ob)))).
Proof. exact union_system_table_detected. Qed.

Print Assumptions C16_threshold_filter.
Print Assumptions C16_counts_consistent.
Print Assumptions C16_scan_pure.
Print Assumptions C16_position_visited.
Print Assumptions C16_statement_is_root.
Print Assumptions C16_context_closed.
Print Assumptions C16_explain_query_dropped_refuted.
Print Assumptions C16_findings_sound.
Print Assumptions C16_literal_tautology.
Print Assumptions C16_column_tautology.
Print Assumptions C16_or_tautology.
Print Assumptions C16_time_function.
Print Assumptions C16_dangerous_function.
Print Assumptions C16_union_nulls.
Print Assumptions C16_union_system_table.

(* ---- non-vacuity: 1=1 inside a derived table that is the first FROM item of a join (the shared JoinClause.Left
   copy must not double it), pg_sleep in a JOIN condition of a CTE body, the payload positions are in [subs] ---- *)
Definition sel1 (wh : mopt) (from : mtrefs) (joins : mjoins) : mstmt :=
  MSelect CNil (ICons (MCol "" (mkName "a" eq_refl)) "" INil) from joins wh ENil ONone ENil.
Definition p_taut : mexpr := MBin "=" (MLit "1" "int") (MLit "1" "int").
Definition p_sleep : mexpr := MBin ">" (MFunc (mkName "pg_sleep" eq_refl) (ECons (MLit "5" "int") ENil)) (MLit "0" "int").
Definition ex_scan : mstmt :=
  MSelect (CCons (mkName "cte1" eq_refl) [] (sel1 ONone (TCons (TName (mkT "t1" eq_refl) "") TNil)
                                              (JCons "INNER" (TName (mkT "t2" eq_refl) "") (OSome p_sleep) JNil)) CNil)
    (ICons (MStar "") "" INil)
    (TCons (TSub (sel1 (OSome (MBin "or" (MCol "" (mkName "b" eq_refl)) p_taut)) (TCons (TName (mkT "t3" eq_refl) "") TNil) JNil) "zal1") TNil)
    (JCons "LEFT" (TName (mkT "cte1" eq_refl) "") (OSome (MBin "=" (MCol "zal1" (mkName "a" eq_refl)) (MCol "cte1" (mkName "a" eq_refl)))) JNil)
    ONone ENil ONone ENil.
Example ex_scan_low : map fcode (scan_findings em scan_root (Some Low) [ast_stmt ex_scan]) = [10; 3; 3]%N.
Proof. vm_compute. reflexivity. Qed.
Example ex_scan_critical : map fcode (scan_findings em scan_root (Some Critical) [ast_stmt ex_scan]) = [3; 3]%N.
Proof. vm_compute. reflexivity. Qed.
Example ex_scan_counts : snd (scan em scan_root (Some Low) [ast_stmt ex_scan]) = mkC 3 2 1 0 0.
Proof. vm_compute. reflexivity. Qed.
Example ex_join_condition_not_tautology :   (* zal1.a = cte1.a is a join condition, not col = col *)
  is_tautology (ast_expr (MBin "=" (MCol "zal1" (mkName "a" eq_refl)) (MCol "cte1" (mkName "a" eq_refl)))) = false.
Proof. vm_compute. reflexivity. Qed.

(* ---- non-vacuity, statements that carry a query / an expression: the payload is reported from inside a view body,
   a materialized view body, a partial-index predicate, a column DEFAULT, a table CHECK, an explained query ---- *)
Definition t1 : mtrefs := TCons (TName (mkT "t1" eq_refl) "") TNil.
Definition ex_carriers : list mstmt :=
  [MCreateView (mkT "zs.zv" eq_refl) ["zc1"] (sel1 (OSome p_taut) t1 JNil);
   MCreateMView (mkT "zmv" eq_refl) [] (MSetOp "UNION" (sel1 ONone t1 JNil) (sel1 (OSome p_sleep) t1 JNil));
   MCreateIndex (mkT "zi" eq_refl) (mkT "t1" eq_refl) [mkName "zk1" eq_refl] (OSome (MBin "AND" p_sleep p_taut));
   MCreateTable (mkT "zt" eq_refl)
     (DCons (mkName "zk1" eq_refl) "INT" (XPlain "NOT NULL" (XDefault (MFunc (mkName "SLEEP" eq_refl) (ECons (MLit "5" "int") ENil)) XNil)) DNil)
     (YPlain "UNIQUE" ["zk1"] (YCheck p_taut YNil));
   MExplain (sel1 (OSome p_taut) t1 JNil)].
Example ex_carriers_low :
  map (fun s => map fcode (scan_findings em scan_root (Some Low) [ast_stmt s])) ex_carriers = [[3]; [10]; [10; 3]; [10; 3]; [3]]%N.
Proof. vm_compute. reflexivity. Qed.
Example ex_carriers_are_roots : forallb (fun s => scan_root (q_kind (ast_stmt s))) ex_carriers = true.
Proof. vm_compute. reflexivity. Qed.

(* ---- non-vacuity, depth: a flat chain p OR c = 7 OR c = 7 ... of 300 operands is a tree 300 levels deep; the payload
   is its FIRST operand (the deepest node): reported by its own node and by the OR node above it ---- *)
Fixpoint or_chain (n : nat) (first : mexpr) : mexpr :=
  match n with
  | O => first
  | S k => MBin "OR" (or_chain k first) (MBin "=" (MCol "" (mkName "c" eq_refl)) (MLit "7" "int"))
  end.
Example ex_chain_300 :
  map fcode (scan_findings em scan_root (Some Critical) [ast_stmt (sel1 (OSome (or_chain 300 p_taut)) t1 JNil)]) = [3; 3]%N.
Proof. vm_compute. reflexivity. Qed.
Example ex_chain_300_in_view :
  map fcode (scan_findings em scan_root (Some Low)
               [ast_stmt (MCreateView (mkT "zv" eq_refl) [] (sel1 (OSome (or_chain 300 p_sleep)) t1 JNil))]) = [10]%N.
Proof. vm_compute. reflexivity. Qed.
