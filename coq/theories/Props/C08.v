(* C08 — Results never depend on what a reused or pooled object did before.
   Model: Model/Reuse.v (parser and tokenizer state records, every operation as a state transformer written from
   the Go code, parametric in the statement parser PS / the lexer LEX, which may fail or be cancelled anywhere).
   The footprint tables the proofs rest on are compared with the tables regenerated from the Go source in
   Inst/Inst_C08.v and validated against the real instances by the history correspondence. *)
From Coq Require Import List NArith Bool.
From GV Require Import Model.Loops Model.Reuse Proofs.ReuseP.
Import ListNotations.

(* generic form: ANY implementation that respects a footprint table satisfying the read-before-write condition *)
Theorem C08_no_carry_over_any_implementation :
  forall (field op X S R : Type) (T : footprint field op) (feq : field -> S -> S -> Prop),
  (forall f s, feq f s s) -> (forall f a b, feq f a b -> feq f b a) -> (forall f a b c, feq f a b -> feq f b c -> feq f a c) ->
  forall (fresh : S) (sem : op -> X -> S -> S * R), respects T feq fresh sem ->
  (forall f, In f (fp_fields T)) -> (forall o, In o (fp_ops T)) ->
  table_ok T = true -> boundaries_ok T = true ->
  forall put, fp_kind T put = Boundary ->
  forall s0, obtainable fresh sem put s0 ->
  forall (h : hist op X) probe,
    result sem (run sem h s0) probe = result sem (run sem (cfg T h) fresh) probe.
Proof. exact no_carry_over_pooled_gen. Qed.
Print Assumptions C08_no_carry_over_any_implementation.

(* a field added to the struct needs no new model column: when the model's table satisfies the read-before-write
   condition and the regenerated columns of the fields no model field stands for pass Inst_C08's [extras_ok] (each such
   field is dead on entry of every method, or kept by work and zeroed by every boundary operation), the table EXTENDED
   by those columns satisfies the hypothesis of the generic theorem above, and its footprint on the model's own fields
   is the model's *)
Theorem C08_extra_fields_admitted :
  forall (field op : Type) (T : footprint field op) (fname : field -> String.string) (methods : op -> list String.string)
         (gen_fields : list String.string) (gen : list fxrow),
  table_ok T = true -> extras_ok T fname methods gen_fields gen = true ->
  table_ok (ext_table T fname methods gen_fields gen) = true /\
  (forall o f, fp_reads (ext_table T fname methods gen_fields gen) o (inl f) = fp_reads T o f /\
               fp_eff (ext_table T fname methods gen_fields gen) o (inl f) = fp_eff T o f /\
               fp_kind (ext_table T fname methods gen_fields gen) o = fp_kind T o).
Proof. intros. split; [apply ext_table_ok; assumption | apply ext_conservative]. Qed.
Print Assumptions C08_extra_fields_admitted.

(* parser: for every statement parser, every finite history of Parse / ParseWithPositions / ParseContext / recovery
   parses (valid, failing, cancelled, conversion failures), ApplyOptions, Reset, Release, Put/Get on an instance that
   was new or came out of the pool after arbitrary use by others: the probe call gives exactly what it gives on a new
   parser carrying only the options applied by the current holder *)
Theorem C08_no_carry_over :
  forall (PS : pview -> nat -> sres nat) (ctx_done0 : cx -> bool) (REC_END : pview -> nat),
  let sem := psem no_defects PS ctx_done0 REC_END in
  forall s0, obtainable fresh_p sem OPutGet s0 ->
  forall (h : hist pop pin) probe,
    result sem (run sem h s0) probe = result sem (run sem (cfg (ptable no_defects) h) fresh_p) probe.
Proof. exact no_carry_over. Qed.
Print Assumptions C08_no_carry_over.

Theorem C08_reset_is_fresh :
  forall PS ctx_done0 REC_END o, In o [OReset; ORelease; OPutGet] ->
  forall (h : hist pop pin) x s0, run (psem no_defects PS ctx_done0 REC_END) (h ++ [(o, x)]) s0 = fresh_p.
Proof. exact reset_is_fresh. Qed.
Print Assumptions C08_reset_is_fresh.

Theorem C08_pool_get_is_fresh :
  forall PS ctx_done0 REC_END s, obtainable fresh_p (psem no_defects PS ctx_done0 REC_END) OPutGet s -> s = fresh_p.
Proof. exact pool_get_is_fresh. Qed.
Print Assumptions C08_pool_get_is_fresh.

Theorem C08_depth_ctx_never_left_behind :
  forall PS ctx_done0 REC_END s0, obtainable fresh_p (psem no_defects PS ctx_done0 REC_END) OPutGet s0 ->
  forall (h : hist pop pin),
    p_depth (run (psem no_defects PS ctx_done0 REC_END) h s0) = 0 /\ p_ctx (run (psem no_defects PS ctx_done0 REC_END) h s0) = None.
Proof. exact depth_ctx_never_left_behind. Qed.
Print Assumptions C08_depth_ctx_never_left_behind.

(* tokenizer *)
Theorem C08_tok_no_carry_over :
  forall LEX tctx_done0 kw_of_dialect,
  let sem := tsem no_tdefects LEX tctx_done0 kw_of_dialect in
  forall s0, obtainable fresh_t sem OTPutGet s0 ->
  forall (h : hist top tin) probe,
    result sem (run sem h s0) probe = result sem (run sem (cfg (ttable no_tdefects) h) fresh_t) probe.
Proof. exact tok_no_carry_over. Qed.
Print Assumptions C08_tok_no_carry_over.

Theorem C08_tok_pool_get_is_fresh :
  forall LEX tctx_done0 kw_of_dialect s,
  obtainable fresh_t (tsem no_tdefects LEX tctx_done0 kw_of_dialect) OTPutGet s -> s = fresh_t.
Proof. exact tok_pool_get_is_fresh. Qed.
Print Assumptions C08_tok_pool_get_is_fresh.

Theorem C08_tok_reset_is_fresh :
  forall LEX tctx_done0 kw_of_dialect,
  let sem := tsem no_tdefects LEX tctx_done0 kw_of_dialect in
  forall s0, obtainable fresh_t sem OTPutGet s0 ->
  forall (h : hist top tin) x f, f <> TLogger ->
    tfeq f (run sem (h ++ [(OTReset, x)]) s0) (run sem (cfg (ttable no_tdefects) h) fresh_t).
Proof. exact tok_reset_is_fresh. Qed.
Print Assumptions C08_tok_reset_is_fresh.

(* each repaired defect, switched back on, is a carry-over (these are the witnesses replayed on the implementation) *)
Theorem C08_stale_positions_refuted :
  exists h probe, result (psem_d (mkD true false false)) (run (psem_d (mkD true false false)) h fresh_p) probe
               <> result (psem_d (mkD true false false)) (run (psem_d (mkD true false false)) (cfg (ptable (mkD true false false)) h) fresh_p) probe.
Proof. exact stale_positions_refuted. Qed.
Theorem C08_put_keeps_dialect_refuted :
  exists h probe, result (psem_d (mkD false true false)) (run (psem_d (mkD false true false)) h fresh_p) probe
               <> result (psem_d (mkD false true false)) (run (psem_d (mkD false true false)) (cfg (ptable (mkD false true false)) h) fresh_p) probe.
Proof. exact put_keeps_dialect_refuted. Qed.
Theorem C08_release_keeps_config_refuted :
  exists h probe, result (psem_d (mkD false false true)) (run (psem_d (mkD false false true)) h fresh_p) probe
               <> result (psem_d (mkD false false true)) (run (psem_d (mkD false false true)) (cfg (ptable (mkD false false true)) h) fresh_p) probe.
Proof. exact release_keeps_config_refuted. Qed.
Theorem C08_tok_put_keeps_dialect_refuted :
  exists h, run (tsem_d (mkTD true false)) h fresh_t <> fresh_t /\ exists h', h = h' ++ [(OTPutGet, tin0 [] 0 0)].
Proof. exact tok_put_keeps_dialect_refuted. Qed.
Theorem C08_tok_early_return_refuted :
  exists h probe, result (tsem_d (mkTD false true)) (run (tsem_d (mkTD false true)) h fresh_t) probe
               <> result (tsem_d (mkTD false true)) (run (tsem_d (mkTD false true)) (cfg (ttable (mkTD false true)) h) fresh_t) probe.
Proof. exact tok_early_return_refuted. Qed.
Print Assumptions C08_stale_positions_refuted.

(* non-vacuity: a concrete dirty history (positions, strict + MySQL dialect, a failing parse, a cancelled parse, a
   recovery parse, release, put/get), then the probe that only MySQL accepts, under the current holder's option *)
Example C08_example_history :
  let sem := psem_d no_defects in
  let h := [(OApply, demo_in [] [] [WithStrict; WithDialect 1]);
            (OParsePos, demo_in [3; 4; 1] [(1, 1); (4, 13); (4, 14)] []);
            (OParse, demo_in [9; 1] [] []);
            (ORecoverPos, demo_in [9; 2; 5; 7; 8; 7; 1] [(1, 1); (1, 2); (2, 1); (2, 2); (2, 3); (2, 4); (2, 5)] []);
            (ORelease, demo_in [] [] []);
            (OPutGet, demo_in [] [] []);
            (OApply, demo_in [] [] [WithDialect 1])] in
  run sem h fresh_p <> fresh_p /\
  cfg (ptable no_defects) h = [(OApply, demo_in [] [] [WithDialect 1])] /\
  result sem (run sem h fresh_p) (OParse, demo_in [5; 7; 8; 7; 1] [] []) = RTrees (POk [42]) (0, 0) /\
  result sem fresh_p (OParse, demo_in [5; 7; 8; 7; 1] [] []) = RTrees (PErr 1000%N) (0, 0).
Proof. vm_compute. repeat split. discriminate. Qed.

(* the obtainable hypothesis is satisfiable by a pooled, previously dirty instance *)
Example C08_example_pooled :
  obtainable fresh_p (psem_d no_defects) OPutGet
    (run (psem_d no_defects) ([(OApply, demo_in [] [] [WithStrict; WithDialect 1]); (OParsePos, demo_in [3; 1] [(1, 1); (1, 3)] [])]
                              ++ [(OPutGet, demo_in [] [] [])]) fresh_p).
Proof. apply ob_pooled. apply ob_new. Qed.
