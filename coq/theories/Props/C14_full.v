(* C14 at full strength: no exception list.  Compiles exactly when known_findings.json has no open
   type_field entry for C14 and every node-holding field of every node type is emitted. *)
From Coq Require Import List NArith Bool.
From GV Require Import Model.Walk Proofs.WalkP Gen.ChildrenTable.
Import ListNotations.

Lemma cover_full : cover_except fields emitted [] = true.
Proof. vm_compute. reflexivity. Qed.

Theorem C14_walk_complete :
  forall t n, wf fields t -> subtree n t -> In n (walk emitted t).
Proof. exact (walk_complete fields emitted cover_full). Qed.

Print Assumptions C14_walk_complete.
