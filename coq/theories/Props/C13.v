(* C13 — every failure is a structured, classifiable, reproducible error.
   Model: Model/ErrFlow.v (error values as terms; the errors that can arrive at a function's error result are
   the inductive closure over the table of ALL error construction / wrapping sites and value-flow edges of
   pkg/sql/tokenizer, pkg/sql/parser, pkg/gosqlx, regenerated from go/ssa on every run: Gen/ErrSites.v).
   The reproducibility clause (same input, same code/message/location) and the location clause are decided on
   the implementation by the sweep (lib/c13.py); determinism of the parse itself is C08's theorem. *)
From Coq Require Import List NArith Bool.
From GV Require Import Model.ErrFlow Proofs.ErrFlowP Gen.ErrSites Inst.Inst_C13.
From GV Require Gen.LexTables Model.Lexer Model.Loc Proofs.LexErrLocP.
Import ListNotations.
Local Open Scope N_scope.

(* Full-strength statement (exception lists empty):
     forall a e, In a err_api -> derives err_table a e ->
       is_ctx e = true \/ exists n, In n err_table /\ as_structured e = Some (n_id n, n_code n) /\ node_family_ok n = true
   Proved below for every error value built without the sites of known_findings.d/C13.json (err_known_family);
   it is the full-strength statement as soon as that list is empty. *)
Theorem C13_structured_reachable :
  forall a e, In a err_api -> derives err_table a e -> uses_no err_known_family e = true ->
    is_ctx e = true \/
    exists n, In n err_table /\ as_structured e = Some (n_id n, n_code n) /\ node_family_ok n = true.
Proof. exact (structured_reachable_except err_table err_known_family err_bad err_api c13_site_table_ok). Qed.

(* wrapped causes remain reachable: everything that went into the making of a returned error is on its Unwrap
   chain (errors.Is / errors.As reach it), for every node of the table, not only entry points *)
Theorem C13_cause_reachable :
  forall i e, derives err_table i e -> uses_no err_known_rewrap e = true -> subterms e = chain e.
Proof. exact (cause_reachable_except err_table err_known_rewrap c13_no_rewrap). Qed.

(* hence the code of the error a failure originated from (for a limit violation: its dedicated code) is exposed
   along the chain, however many constructs wrapped it on the way out *)
Theorem C13_origin_code_exposed :
  forall i e s c, derives err_table i e -> uses_no err_known_rewrap e = true -> leaf_of e = Leaf s c ->
    In c (chain_codes e).
Proof. exact (origin_code_exposed err_table err_known_rewrap c13_no_rewrap). Qed.

(* refutation side: any re-wrap-by-text site (the listed ones are such sites) cuts its operand off the chain *)
Theorem C13_cause_reachable_refuted_at_rewrap_sites :
  forall T n m e, In n T -> n_kind n = KRewrapv -> In m (n_dropped n) -> derives T m e ->
    exists e', derives T (n_id n) e' /\ In e (subterms e') /\ ~ In e (chain e') /\ subterms e' <> chain e'.
Proof. exact rewrap_cuts_chain. Qed.

(* the chain evaluator used by the correspondence accepts only shapes of derivable error values *)
Theorem C13_observed_shape_derivable :
  forall i sh, produces err_table i sh = true -> exists e, derives err_table i e /\ shape_of e = sh.
Proof. exact (produces_sound err_table). Qed.

(* the hypotheses are satisfiable by a non-trivial table: a wrapper entry point over a tokenizer and a parser *)
Definition ex_table : table :=
  [ mkNode 0 KFun 3 0 0 [1; 2] [];            (* Parse: returns one of two %w wraps *)
    mkNode 1 KWrapw 3 0 0 [3] [];             (* "tokenization failed: %w" *)
    mkNode 2 KWrapw 3 0 0 [5] [];             (* "parsing failed: %w" *)
    mkNode 3 KFun 1 0 0 [4] [];               (* Tokenize *)
    mkNode 4 KLeaf 1 1002 0 [] [];            (* unterminated string *)
    mkNode 5 KFun 2 0 0 [6; 7; 9] [];         (* ParseContext *)
    mkNode 6 KLeaf 2 2007 1 [] [];            (* depth limit *)
    mkNode 7 KCause 2 2004 0 [5] [];          (* nested construct keeps its cause *)
    mkNode 8 KCtx 2 0 0 [] [];                (* poll *)
    mkNode 9 KWrapw 2 0 0 [8] [] ].           (* "parsing cancelled: %w" *)
Example ex_ok : site_table_ok [] [] [0] ex_table = true /\ no_rewrap [] ex_table = true.
Proof. split; vm_compute; reflexivity. Qed.
Example ex_derives : derives ex_table 0 (Wrapw 2 (Cause 7 2004 (Leaf 6 2007))).
Proof.
  eapply (D_fun ex_table (mkNode 0 KFun 3 0 0 [1; 2] [])); [cbn; tauto|reflexivity|cbn; right; left; reflexivity|].
  eapply (D_wrapw ex_table (mkNode 2 KWrapw 3 0 0 [5] [])); [cbn; tauto|reflexivity|cbn; left; reflexivity|].
  eapply (D_fun ex_table (mkNode 5 KFun 2 0 0 [6; 7; 9] [])); [cbn; tauto|reflexivity|cbn; right; left; reflexivity|].
  eapply (D_cause ex_table (mkNode 7 KCause 2 2004 0 [5] [])); [cbn; tauto|reflexivity|cbn; left; reflexivity|].
  eapply (D_fun ex_table (mkNode 5 KFun 2 0 0 [6; 7; 9] [])); [cbn; tauto|reflexivity|cbn; left; reflexivity|].
  eapply (D_leaf ex_table (mkNode 6 KLeaf 2 2007 1 [] [])); [cbn; tauto|reflexivity].
Qed.
Example ex_codes : chain_codes (Wrapw 2 (Cause 7 2004 (Leaf 6 2007))) = [2004; 2007].
Proof. reflexivity. Qed.

(* ---- the tokenizer's own errors (model Model/Lexer.v, proofs Proofs/LexErrLocP.v) ----
   every error Tokenize returns is either the size-limit rejection at 1:1 or carries toSQLPosition of a byte offset
   that is at most the length of the input (the end of the input is a legitimate error position) ... *)
Theorem C13_tokenizer_error_offset :
  forall max_in max_tok bs c l k, Lexer.tokenize_with max_in max_tok bs = Lexer.Err c l k ->
  (c = LexTables.E_InputTooLarge /\ l = 1%N /\ k = 1%N) \/
  exists i, (i <= N.of_nat (length bs))%N /\ (l, k) = Lexer.to_loc bs i.
Proof. exact LexErrLocP.tokenize_err_offset. Qed.

(* ... hence the reported location lies inside the input: line and column are 1-based, the line is at most the number
   of lines of the input, and the column is at most the width of that line + 1 (s = byte offset at which line l
   starts: s = 0 or the byte before s is LF, and l = 1 + number of LF before s) *)
Theorem C13_tokenizer_error_location_inside :
  forall max_in max_tok bs c l k, Lexer.tokenize_with max_in max_tok bs = Lexer.Err c l k ->
  (1 <= l)%N /\ (1 <= k)%N /\ (N.to_nat l <= 1 + Loc.count_lf bs)%nat /\
  exists s, ((s <= length bs)%nat /\ (s = 0%nat \/ nth_error bs (s - 1) = Some Loc.LF) /\
             N.to_nat l = (1 + Loc.count_lf (firstn s bs))%nat) /\
            (N.to_nat k <= 1 + Loc.width (Loc.line_bytes bs s))%nat.
Proof. exact LexErrLocP.tokenize_err_location_inside. Qed.

Print Assumptions C13_structured_reachable.
Print Assumptions C13_cause_reachable.
Print Assumptions C13_origin_code_exposed.
Print Assumptions C13_cause_reachable_refuted_at_rewrap_sites.
Print Assumptions C13_observed_shape_derivable.
Print Assumptions C13_tokenizer_error_offset.
Print Assumptions C13_tokenizer_error_location_inside.
