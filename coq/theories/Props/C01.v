(* C01 — no input can crash, panic or hang any entry point.
   Totality in Coq is only meaningful where partiality is modelled: the models below return explicit Panic /
   OutOfFuel outcomes (Lexer, Loops) or model the state that made loops spin (Cursor).  Stated here for the modelled
   cores; the grammar functions, serialisers, scanner and extractors are covered by the exploration of lib/c01.py
   (every public entry point on every input, fatal errors and hangs attributed per call). *)
From Coq Require Import List Arith Bool NArith Lia.
From GV Require Import Model.Lexer Proofs.LexerP Model.Loops Proofs.LoopsP Model.Cursor Proofs.CursorP.
Import ListNotations.

(* tokenizing: every byte string, valid UTF-8 or not — never a panic, never out of fuel (fuel |bs|+1) *)
Theorem C01_tokenize_total : forall bs, tokenize bs <> Panic /\ tokenize bs <> OutOfFuel.
Proof. exact tokenize_total. Qed.

(* the statement loops of Parse / ParseWithPositions (default and strict) terminate within |tokens|+1 iterations on
   every token list, for every statement parser that consumes on success *)
Theorem C01_parse_loop_total :
  forall tree ntok is_eof is_semi ps,
    (forall p t p', ps p = SOk t p' -> p < p') ->
    forall strict fuel pos acc, ntok - pos < fuel -> parse tree ntok is_eof is_semi ps strict fuel pos acc <> PFuel.
Proof. intros tree ntok is_eof is_semi ps H. exact (parse_fuel tree ntok is_eof is_semi (fun _ => false) ps H). Qed.

(* ParseContext's copy of the loop *)
Theorem C01_parse_context_loop_total :
  forall tree ntok is_eof is_semi ps,
    (forall p t p', ps p = SOk t p' -> p < p') ->
    forall strict fuel pos acc, ntok - pos < fuel -> parse_ctx tree ntok is_eof is_semi ps strict fuel pos acc <> PFuel.
Proof.
  intros tree ntok is_eof is_semi ps H strict fuel pos acc Hf.
  rewrite (parse_ctx_agrees tree ntok is_eof is_semi ps). exact (parse_fuel tree ntok is_eof is_semi (fun _ => false) ps H strict fuel pos acc Hf).
Qed.

(* recovery-mode parsing *)
Theorem C01_recovery_loop_total :
  forall tree ntok is_eof is_semi starts_stmt ps,
    (forall p t p', ps p = SOk t p' -> p < p') ->
    (forall p c p', ps p = SErr c p' -> p <= p') ->
    forall fuel pos acc errs u, ntok - pos < fuel ->
      recover tree ntok is_eof is_semi starts_stmt ps fuel pos acc errs u <> RFuel.
Proof. exact recover_fuel. Qed.

(* the token cursor: for EVERY token sequence (empty, without EOF, EOF in the middle) the current token is end of
   input after at most (|tokens| - pos) + 1 advances, so every loop keyed on the current token terminates *)
Theorem C01_cursor_reaches_eof :
  forall eof c n, length (c_toks c) - c_pos c < n -> c_cur (advance_n eof n c) = eof.
Proof. exact cursor_reaches_eof. Qed.

Theorem C01_token_keyed_loops_terminate :
  forall eof continue, continue eof = false ->
  forall fuel c, length (c_toks c) - c_pos c + 1 < fuel -> keyed_loop eof continue fuel c <> None.
Proof. exact keyed_loop_terminates. Qed.

(* the pinned cursor (the last token stays current past the end) is refuted: on the one-token slice [t] without EOF
   a loop keyed on t never stops, whatever the fuel — the hang/unbounded allocation found on the pinned tree *)
Theorem C01_stale_cursor_refuted : forall t fuel, stale_loop (Nat.eqb t) fuel (start [t] 0) = None.
Proof. intros t fuel. apply stale_loop_spins; reflexivity. Qed.

Example C01_cursor_example :
  cursor_trace 1 [5; 7] 0 4 = [(0, 5); (1, 7); (2, 7); (3, 1); (4, 1)].
Proof. vm_compute. reflexivity. Qed.

Print Assumptions C01_tokenize_total.
Print Assumptions C01_parse_loop_total.
Print Assumptions C01_parse_context_loop_total.
Print Assumptions C01_recovery_loop_total.
Print Assumptions C01_cursor_reaches_eof.
Print Assumptions C01_token_keyed_loops_terminate.
Print Assumptions C01_stale_cursor_refuted.
