(* C06 — serialising a tree and re-parsing gives the same tree; formatting is stable.

   FULL statement (what the property asks, at the level the models reach): for EVERY tree t in the image of the
   parser (every accepted input) and every serialiser s and option set o,
       reparse (s o t) = Val t'  with t' = t up to the letter case of keyword fields,   and   fmt o (fmt o x) = fmt o x.
   PROVED below (expression level, plain serialisation SQL() = exprSQL, no size bound): for EVERY reference expression e
   of Spec/RefGrammar.v (ref_expr e: identifiers, literals, placeholders, every binary operator of the precedence ladder,
   NOT, IS [NOT] NULL, [NOT] IN (list), [NOT] BETWEEN, [NOT] LIKE / ILIKE, :: and CAST with type arguments, function calls
   with DISTINCT, CASE in both forms, tuples — composed with C03_parse_render_expr_ext) whose names are printable (a
   bare name has no dot and is not the lone asterisk, the parts of a qualified name need no quotes, type names and
   type arguments are words):
     - the printer writes exactly the rendering, with only the required parentheses, of the normalised expression
       (C06_print_is_render; normalised: identifiers quoted when safeIdentifier says so, a cast written CAST(e AS t)
       unless e is itself a cast, then e::t), whose prescribed tree is the tree printed;
     - the parser model reads the printed tokens back to exactly that tree and leaves the follow tokens
       (C06_print_parse_expr: the round trip; any follow token, any depth limit the nesting fits in);
     - print-after-parse maps every rendering (any redundant parentheses) of e to one canonical token list and is
       idempotent (C06_format_canonical, C06_format_idempotent);
     - the string-literal codec and the identifier quoting codec round-trip (C06_literal_roundtrip,
       C06_ident_roundtrip; ASCII contents, see Model/ExprPrint.v).
   REFUTED, with the witness that is the corpus entry of the finding: the printer of the pinned tree (no
   parentheses; IS NOT NULL printed IS NULL; reserved words unquoted; Ctrl-Z escaped as \Z; a leading quote written as two quotes) — all five repaired in
   /repo — and the three unrepaired behaviours of the current tree (a quoted identifier containing a dot, or beginning
   with a digit, is written raw; NUL is dropped from string literals).
   STATEMENT level (Model/StmtPrint.v mirrors SelectStatement / SetOperation / InsertStatement / UpdateStatement /
   DeleteStatement / WithClause .SQL() and their helpers): for every reference statement of Spec/RefStmt.v (SELECT with
   DISTINCT [ON], select list with aliases, FROM list, joins of every kind with ON / USING, WHERE, GROUP BY with ROLLUP / CUBE,
   HAVING, ORDER BY with direction and NULLS, LIMIT, OFFSET, FETCH; set operations; WITH [RECURSIVE] with column lists and
   [NOT] MATERIALIZED; INSERT with VALUES | query, ON CONFLICT, RETURNING; UPDATE; DELETE) whose names are written without
   quotes and whose numbers are canonical (stmt_p), the printer writes the rendering of the normalised statement
   (C06_print_stmt_is_render) and the statement parser model reads it back to the same tree
   (C06_print_parse_select_partial, C06_print_parse_stmt_partial; `_partial`: the reference statement grammar of C03 omits
   derived tables, LATERAL, GROUPING SETS, FOR, sub-query expressions, window functions, ON DUPLICATE KEY, UPDATE ... FROM,
   DELETE ... USING, MERGE, DDL).
   NOT covered by a theorem (oracle only, see design/C06.md): sub-queries, the clauses listed above, DDL / MERGE printers;
   the layouts of AST.Format / gosqlx.Format / formatter.Format / the CLI formatter (tied to SQL() by the
   token-agreement oracle). *)
From Coq Require Import List String Ascii Arith.
From GV Require Import Spec.RefGrammar Spec.RefStmt Model.Expr Model.ExprParse Model.StmtParse Proofs.ExprParseP Proofs.ExprParseExtP Proofs.StmtParseP
  Model.ExprPrint Proofs.ExprPrintP Model.StmtPrint Proofs.StmtPrintP.
Import ListNotations.

Theorem C06_print_is_render :
  forall e, ref_expr e = true -> printable print_ok e = true ->
    print_expr print_ok (ast_of e) = Some (render 0 no_parens (norm print_ok e))
    /\ ast_of (norm print_ok e) = ast_of e.
Proof. intros e Hr Hq. split; [exact (print_is_render e Hr Hq)|exact (ast_of_norm print_ok e)]. Qed.
Print Assumptions C06_print_is_render.

Theorem C06_print_parse_expr :
  forall md e stop d fuel,
    ref_expr e = true -> printable print_ok e = true -> follow_ok stop ->
    d + 1 + pdepth 0 no_parens (norm print_ok e) <= md ->
    exists ts, print_expr print_ok (ast_of e) = Some ts
               /\ (List.length (ts ++ stop) < fuel -> parse_expression md no_defects fuel d (ts ++ stop) = Val (ast_of e, stop)).
Proof. exact print_parse_expr. Qed.
Print Assumptions C06_print_parse_expr.

Theorem C06_format_canonical :
  forall md e (r : rho) stop d fuel,
    ref_expr e = true -> printable print_ok e = true -> follow_ok stop ->
    d + 1 + pdepth 0 r e <= md -> List.length (render 0 r e ++ stop) < fuel ->
    fmt_expr md fuel d (render 0 r e ++ stop) = Some (render 0 no_parens (norm print_ok e), stop).
Proof. exact fmt_canonical. Qed.
Print Assumptions C06_format_canonical.

Theorem C06_format_idempotent :
  forall md e (r : rho) stop d fuel out rest,
    ref_expr e = true -> printable print_ok e = true -> follow_ok stop ->
    d + 1 + pdepth 0 r e <= md -> List.length (render 0 r e ++ stop) < fuel ->
    d + 1 + pdepth 0 no_parens (norm print_ok e) <= md ->
    fmt_expr md fuel d (render 0 r e ++ stop) = Some (out, rest) ->
    List.length (out ++ stop) < fuel ->
    fmt_expr md fuel d (out ++ rest) = Some (out, rest).
Proof. exact fmt_idempotent. Qed.
Print Assumptions C06_format_idempotent.

Theorem C06_literal_roundtrip :
  forall cf s rest,
    d_ctrlz_escape cf = false -> d_triple_quote cf = false -> (d_drop_nul cf = true -> has_char (ch 0) s = false) ->
    not_quote_head c_quote rest ->
    read_lit_text (lit_text cf s ++ rest)%string = Some (s, rest).
Proof. exact literal_roundtrip. Qed.
Print Assumptions C06_literal_roundtrip.

Theorem C06_ident_roundtrip :
  forall n rest, has_char (ch 10) n = false -> not_quote_head c_dquote rest ->
    read_qident_text (quote_ident n ++ rest)%string = Some (n, rest).
Proof. exact ident_roundtrip. Qed.
Print Assumptions C06_ident_roundtrip.

Theorem C06_refuted_no_parens : rt_fails (PFlags true false false false false) w_parens.
Proof. exact refuted_no_parens. Qed.
Print Assumptions C06_refuted_no_parens.

Theorem C06_refuted_is_not_null_lost : rt_fails (PFlags false true false false false) w_isnotnull.
Proof. exact refuted_is_not_null_lost. Qed.
Print Assumptions C06_refuted_is_not_null_lost.

Theorem C06_refuted_reserved_raw : rt_fails (PFlags false false true false false) w_reserved.
Proof. exact refuted_reserved_raw. Qed.
Print Assumptions C06_refuted_reserved_raw.

Theorem C06_refuted_dot_safe :
  ref_expr w_dotted = true /\
  exists ts, print_expr print_tree (ast_of w_dotted) = Some ts
             /\ parse_expr_top no_defects 0 (ts ++ eof_stop) <> Val (ast_of w_dotted, eof_stop).
Proof. exact refuted_dot_safe. Qed.
Print Assumptions C06_refuted_dot_safe.

Theorem C06_refuted_digit_safe :
  ref_expr w_digit = true /\
  exists ts, print_expr print_tree (ast_of w_digit) = Some ts
             /\ parse_expr_top no_defects 0 (ts ++ eof_stop) <> Val (ast_of w_digit, eof_stop).
Proof. exact refuted_digit_safe. Qed.
Print Assumptions C06_refuted_digit_safe.

Theorem C06_refuted_ctrlz_escape : exists s, read_lit_text (lit_text (CFlags true false false) s) <> Some (s, ""%string).
Proof. exact refuted_ctrlz_escape. Qed.
Print Assumptions C06_refuted_ctrlz_escape.

Theorem C06_refuted_triple_quote : exists s, read_lit_text (lit_text (CFlags false false true) s) <> Some (s, ""%string).
Proof. exact refuted_triple_quote. Qed.
Print Assumptions C06_refuted_triple_quote.

Theorem C06_refuted_drop_nul : exists s, read_lit_text (lit_text codec_tree s) <> Some (s, ""%string).
Proof. exact refuted_drop_nul. Qed.
Print Assumptions C06_refuted_drop_nul.

(* hypotheses are satisfiable by a concrete non-trivial state *)
Example C06_nonvacuous :
  ref_expr ex_mixed = true /\ printable print_ok ex_mixed = true
  /\ follow_ok [Tk TyEOF ""%string]
  /\ 0 + 1 + pdepth 0 no_parens (norm print_ok ex_mixed) <= max_recursion_depth
  /\ exists ts, print_expr print_ok (ast_of w_parens) = Some ts
                /\ map lit ts = ["("; "a"; "OR"; "b"; ")"; "AND"; "c"]%string
                /\ parse_expr_top no_defects 0 (ts ++ eof_stop) = Val (ast_of w_parens, eof_stop).
Proof.
  split; [reflexivity|]. split; [reflexivity|]. split; [apply follow_eof|].
  split; [vm_compute; repeat constructor|exact ex_print_parse].
Qed.

(* a function call, CASE, a tuple, a type with arguments and a cast chain: in the surface of the theorems, and the printed
   tokens parse back *)
Definition ex_rich : mexpr :=
  (MCase None [(MBin BAnd (MBin BOr (MIdent false "a") (MIdent true "select")) (MFunc "f" true [MTuple [MNum "1"; MStr "x"]]),
              MCastOp (MCastOp (MCast (MIdent false "b") (MkType "NUMERIC" ["10"; "2"])) (MkType "INT" [])) (MkType "TEXT" []))]
        (Some (MNot (MIsNull (MQIdent "t" "c") true))))%string.
Example C06_nonvacuous_rich :
  ref_expr ex_rich = true /\ printable print_ok ex_rich = true
  /\ exists ts, print_expr print_ok (ast_of ex_rich) = Some ts
                /\ map lit ts = ["CASE"; "WHEN"; "("; "a"; "OR"; "select"; ")"; "AND"; "f"; "("; "DISTINCT"; "("; "1"; ","; "x"; ")"; ")";
                                  "THEN"; "CAST"; "("; "b"; "AS"; "NUMERIC"; "("; "10"; ","; "2"; ")"; ")"; "::"; "INT"; "::"; "TEXT";
                                  "ELSE"; "NOT"; "t"; "."; "c"; "IS"; "NOT"; "NULL"; "END"]%string
                /\ parse_expr_top no_defects 0 (ts ++ eof_stop) = Val (ast_of ex_rich, eof_stop).
Proof. split; [reflexivity|]. split; [reflexivity|]. eexists. split; [vm_compute; reflexivity|]. split; vm_compute; reflexivity. Qed.

(* ------------------------------------------------------------------------------------------------ *)
(* statement level *)
Theorem C06_print_select_is_render :
  forall s, select_ok s = true -> select_p s = true ->
    print_select print_ok (ast_of_select s) = Some (render_select sr0 (norm_select s))
    /\ ast_of_select (norm_select s) = ast_of_select s.
Proof. intros s Hok Hp. split; [exact (print_select_is_render s Hok Hp)|exact (select_norm_ast None s)]. Qed.
Print Assumptions C06_print_select_is_render.

Theorem C06_print_parse_select_partial :
  forall md sf fuel s stop d,
    select_ok s = true -> select_p s = true -> query_follow stop ->
    d + 2 + select_depth sr0 (norm_select s) <= md ->
    exists ts, print_select print_ok (ast_of_select s) = Some ts
               /\ (List.length (ts ++ stop) <= fuel ->
                   parse_statement md sf (parse_expression md no_defects fuel) d (ts ++ stop) = Val (GSelectS (ast_of_select s), stop)).
Proof. exact print_parse_select. Qed.
Print Assumptions C06_print_parse_select_partial.

Theorem C06_print_stmt_is_render :
  forall s, stmt_ok s = true -> stmt_p s = true ->
    print_stmt print_ok (ast_of_stmt s) = Some (render_stmt sr0 (norm_stmt s))
    /\ ast_of_stmt (norm_stmt s) = ast_of_stmt s.
Proof. intros s Hok Hp. split; [exact (print_stmt_is_render s Hok Hp)|exact (stmt_norm_ast s)]. Qed.
Print Assumptions C06_print_stmt_is_render.

Theorem C06_print_parse_stmt_partial :
  forall md sf fuel s stop d,
    stmt_ok s = true -> stmt_p s = true -> stmt_follow stop ->
    d + stmt_depth sr0 (norm_stmt s) <= md ->
    exists ts, print_stmt print_ok (ast_of_stmt s) = Some ts
               /\ (List.length (ts ++ stop) <= fuel ->
                   parse_statement md sf (parse_expression md no_defects fuel) d (ts ++ stop) = Val (ast_of_stmt s, stop)).
Proof. exact print_parse_stmt. Qed.
Print Assumptions C06_print_parse_stmt_partial.

Example C06_stmt_nonvacuous :
  select_ok ex_select = true /\ select_p ex_select = true
  /\ stmt_ok ex_stmt_with = true /\ stmt_p ex_stmt_with = true /\ stmt_ok ex_stmt_insert = true /\ stmt_p ex_stmt_insert = true
  /\ stmt_follow [Tk TyEOF ""%string]
  /\ exists ts, print_stmt print_ok (ast_of_stmt ex_stmt_insert) = Some ts
                /\ parse_statement_top tree_flags (ts ++ [Tk TyEOF ""%string]) = Val (ast_of_stmt ex_stmt_insert, [Tk TyEOF ""%string]).
Proof.
  repeat (split; [reflexivity|]). split; [apply stmt_follow_eof|exact ex_stmt_print_parse].
Qed.
