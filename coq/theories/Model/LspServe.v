(* LspServe.v — model of the LSP message loop (pkg/lsp/server.go Run / handleMessage / checkRateLimit,
   pkg/lsp/handler.go HandleNotification and the document notifications), over abstract decoded
   messages.  JSON decoding is abstracted: a message body is classified by what json.Unmarshal into
   lsp.Request and the handler switch make of it ([amsg]); request handlers are abstracted to their
   outcome (result / error / panic) because they do not change the server state; validateDocument is
   abstracted to whether the parser call returns or panics on a text. *)
From Coq Require Import List NArith ZArith Bool.
From GV Require Import Model.LspDoc Model.LspFrame.
Import ListNotations.

Inductive reqres := ROk | RErr | RPanic.
Inductive vres := VOk | VPanic.

Inductive notif :=
| NOther                                              (* "initialized", unknown methods: nothing happens *)
| NExit                                               (* "exit": SetShutdown *)
| NBadParams                                          (* a did* notification whose params do not unmarshal *)
| NDidOpen (u : uri) (version : Z) (text : list N)
| NDidChange (u : uri) (version : Z) (cs : list change)
| NDidClose (u : uri)
| NDidSave (u : uri) (text : list N).

Inductive amsg :=
| MShort                                              (* len(msg) < 2 *)
| MGarbage                                            (* Unmarshal fails, no id recoverable *)
| MMistyped (id : N)                                  (* Unmarshal into Request fails, the partial decode finds an id *)
| MNoMethod (oid : option N)                          (* decodes, method == "" *)
| MRequest (id : N) (h : reqres)                      (* decodes, id != nil: a request *)
| MNotif (n : notif).                                 (* decodes, id == nil: a notification *)

Inductive rkind := KResult | KErr (code : Z).

Inductive event :=
| EResp (id : N) (k : rkind)                          (* a Response frame *)
| EPub (u : uri) (version : Z) (content : list N)     (* publishDiagnostics computed from [content] *)
| EPubClear (u : uri) (version : Z)                   (* publishDiagnostics with no diagnostics *)
| EShow                                               (* window/showMessage *)
| EState (u : uri) (o : option (Z * list N)).         (* not a frame: mirror of u after a document notification *)

Definition parse_error : Z := (-32700)%Z.
Definition invalid_request : Z := (-32600)%Z.
Definition internal_error : Z := (-32603)%Z.
Definition request_cancelled : Z := (-32800)%Z.

Record state := State { s_docs : docs; s_count : Z; s_reset : Z; s_shutdown : bool }.

Definition init_state : state := State [] 0 0 false.

Section Serve.
  Variable recover_fix : bool.          (* handlers run under recover() (fix c18-4); false = pinned code *)
  Variable window : Z.                  (* RateLimitWindow *)
  Variable limit : Z.                   (* RateLimitRequests *)
  Variable maxdoc : Z.                  (* MaxDocumentSize *)
  Variable validate : list N -> vres.   (* does gosqlx.ParseWithRecovery return on this text *)

  (* checkRateLimit at time [now] *)
  Definition check_rate (now : Z) (st : state) : bool * state :=
    if (now - s_reset st >=? window)%Z then
      (true, State (s_docs st) 1 now (s_shutdown st))
    else
      let c := (s_count st + 1)%Z in
      ((c <=? limit)%Z, State (s_docs st) c (s_reset st) (s_shutdown st)).

  (* validateDocument(uri, content, version) *)
  Definition validate_doc (u : uri) (content : list N) (version : Z) : outcome (list event) :=
    match validate content with
    | VOk => Val [EPub u version content]
    | VPanic => Panic
    end.

  (* HandleNotification: new documents, frames written, shutdown flag; Panic = the handler panicked.
     The documents are returned even when validation panics (the mirror was already updated). *)
  Definition handle_notif (ds : docs) (n : notif) : docs * outcome (list event) * bool :=
    match n with
    | NOther => (ds, Val [], false)
    | NExit => (ds, Val [], true)
    | NBadParams => (ds, Val [EShow], false)
    | NDidOpen u v t =>
        let ds' := dm_open ds u v t in
        if (Z.of_nat (length t) >? maxdoc)%Z then (ds', Val [EShow; EState u (observe ds' u)], false)
        else (ds', match validate_doc u t v with
                   | Val evs => Val (evs ++ [EState u (observe ds' u)])
                   | Panic => Panic
                   end, false)
    | NDidChange u v cs =>
        match dm_update ds u v cs with
        | Panic => (ds, Panic, false)
        | Val ds' =>
            match dm_content ds' u with
            | Some c =>
                if (Z.of_nat (length c) >? maxdoc)%Z then (ds', Val [EPubClear u v; EState u (observe ds' u)], false)
                else (ds', match validate_doc u c v with
                           | Val evs => Val (evs ++ [EState u (observe ds' u)])
                           | Panic => Panic
                           end, false)
            | None => (ds', Val [EState u None], false)
            end
        end
    | NDidClose u =>
        let ds' := dm_close ds u in (ds', Val [EPubClear u 0; EState u (observe ds' u)], false)
    | NDidSave u t =>
        let content := match t with
                       | [] => match dm_content ds u with Some c => c | None => [] end
                       | _ => t
                       end in
        match content with
        | [] => (ds, Val [], false)
        | _ => (ds, validate_doc u content 0, false)
        end
    end.

  (* handleMessage *)
  Definition handle (st : state) (now : Z) (m : amsg) : outcome (state * list event) :=
    let (allowed, st1) := check_rate now st in
    if negb allowed then
      (* json.Unmarshal(msg, &req) == nil && req.ID != nil -> RequestCancelled *)
      match m with
      | MRequest id _ => Val (st1, [EResp id (KErr request_cancelled)])
      | MNoMethod (Some id) => Val (st1, [EResp id (KErr request_cancelled)])
      | _ => Val (st1, [])
      end
    else
      match m with
      | MShort => Val (st1, [])
      | MGarbage => Val (st1, [])
      | MMistyped id => Val (st1, [EResp id (KErr parse_error)])
      | MNoMethod (Some id) => Val (st1, [EResp id (KErr invalid_request)])
      | MNoMethod None => Val (st1, [])
      | MRequest id h =>
          match h with
          | ROk => Val (st1, [EResp id KResult])
          | RErr => Val (st1, [EResp id (KErr internal_error)])
          | RPanic => if recover_fix then Val (st1, [EResp id (KErr internal_error)]) else Panic
          end
      | MNotif n =>
          match handle_notif (s_docs st1) n with
          | (ds', Val evs, sd) =>
              Val (State ds' (s_count st1) (s_reset st1) (s_shutdown st1 || sd), evs)
          | (ds', Panic, _) =>
              if recover_fix then Val (State ds' (s_count st1) (s_reset st1) (s_shutdown st1), [])
              else Panic
          end
      end.

  (* Run over the decoded messages: [clock k] is the time at which the k-th message is handled.
     The loop stops after the message that sets the shutdown flag. *)
  Fixpoint serve (clock : nat -> Z) (k : nat) (st : state) (ms : list amsg) : outcome (state * list event) :=
    match ms with
    | [] => Val (st, [])
    | m :: r =>
        match handle st (clock k) m with
        | Panic => Panic
        | Val (st', evs) =>
            if s_shutdown st' then Val (st', evs)
            else match serve clock (S k) st' r with
                 | Val (st'', evs') => Val (st'', evs ++ evs')
                 | Panic => Panic
                 end
        end
    end.
End Serve.

(* ---------------------------------------------------------------------------------------------
   projections used by the theorems *)
Definition resp_id (e : event) : list N := match e with EResp id _ => [id] | _ => [] end.
Definition resp_ids (evs : list event) : list N := flat_map resp_id evs.

Definition frames_only (evs : list event) : list event :=
  filter (fun e => match e with EState _ _ => false | _ => true end) evs.

(* the messages Run handles: up to and including the first "exit" *)
Fixpoint until_exit (ms : list amsg) : list amsg :=
  match ms with
  | [] => []
  | MNotif NExit :: _ => [MNotif NExit]
  | m :: r => m :: until_exit r
  end.

(* the id a message must be answered with: requests (and bodies without method but with an id).
   A mistyped body with a recoverable id is answered only when the limiter lets it through. *)
Definition must_answer (m : amsg) : list N :=
  match m with
  | MRequest id _ => [id]
  | MNoMethod (Some id) => [id]
  | _ => []
  end.
Definition may_answer (m : amsg) : list N :=
  match m with
  | MMistyped id => [id]
  | _ => must_answer m
  end.

Definition well_formed (m : amsg) : bool :=
  match m with MMistyped _ => false | _ => true end.

(* the document operations a history of messages amounts to *)
Definition notif_op (m : amsg) : list dm_op :=
  match m with
  | MNotif (NDidOpen u v t) => [OpOpen u v t]
  | MNotif (NDidChange u v cs) => [OpChange u v cs]
  | MNotif (NDidClose u) => [OpClose u]
  | _ => []
  end.

(* ---------------------------------------------------------------------------------------------
   the whole stream: frame reader, classification table (what the JSON decoder makes of each body,
   supplied per case by the harness), message loop *)
Fixpoint classify (tbl : list (list N * amsg)) (b : list N) : amsg :=
  match tbl with
  | [] => MGarbage
  | (k, m) :: r => if nlist_eqb k b then m else classify r b
  end.

Fixpoint bodies (its : list item) : list (list N) :=
  match its with
  | IBody b :: r => b :: bodies r
  | IErr :: r => bodies r
  | _ => []
  end.

Definition ends_ok (its : list item) : bool :=
  match last its IFuel with IEof => true | _ => false end.

(* observed events: ids and codes of responses, (uri, version, no-diagnostics?) of publishDiagnostics *)
Inductive oevent :=
| OResp (id : N) (k : rkind)
| OPub (u : uri) (version : Z) (empty : bool)
| OShow
| OState (u : uri) (o : option (Z * list N)).

Definition rkind_eqb (a b : rkind) : bool :=
  match a, b with
  | KResult, KResult => true
  | KErr x, KErr y => (x =? y)%Z
  | _, _ => false
  end.

Definition event_matches (e : event) (o : oevent) : bool :=
  match e, o with
  | EResp i k, OResp j k' => (i =? j)%N && rkind_eqb k k'
  | EPub u v _, OPub u' v' _ => uri_eqb u u' && (v =? v')%Z
  | EPubClear u v, OPub u' v' em => uri_eqb u u' && (v =? v')%Z && em
  | EShow, OShow => true
  | EState u o1, OState u' o2 => uri_eqb u u' && obs_eqb o1 o2
  | _, _ => false
  end.

Fixpoint events_match (es : list event) (os : list oevent) : bool :=
  match es, os with
  | [], [] => true
  | e :: es', o :: os' => event_matches e o && events_match es' os'
  | _, _ => false
  end.

Fixpoint finals_match (ds : docs) (fin : list (uri * option (Z * list N))) : bool :=
  match fin with
  | [] => true
  | (u, o) :: r => obs_eqb (observe ds u) o && finals_match ds r
  end.

Record serve_case := ServeCase {
  sc_input : list N;                                  (* the whole client byte stream *)
  sc_table : list (list N * amsg);                    (* body -> decoded message *)
  sc_reset_at : list nat;                             (* message indices at which the limiter window restarts *)
  sc_states : bool;                                   (* compare the per-message mirror observations *)
  sc_events : list oevent;                            (* observed output *)
  sc_final : list (uri * option (Z * list N));        (* observed final mirror *)
  sc_alive : bool                                     (* the real server neither panicked nor stopped early *)
}.

Definition case_clock (resets : list nat) (k : nat) : Z :=
  (* time jumps by one window at every listed index *)
  Z.of_nat (length (filter (fun r => Nat.leb r k) resets)) * 1000.

Definition serve_case_ok (maxlen maxdoc : Z) (c : serve_case) : bool :=
  let its := read_all true maxlen (S (length (sc_input c))) (sc_input c) in
  let ms := map (classify (sc_table c)) (bodies its) in
  match serve true 1000 100 maxdoc (fun _ => VOk) (case_clock (sc_reset_at c)) 0 init_state ms with
  | Panic => negb (sc_alive c)
  | Val (st, evs) =>
      sc_alive c && ends_ok its
      && events_match (if sc_states c then evs else frames_only evs) (sc_events c)
      && finals_match (s_docs st) (sc_final c)
  end.
