(* Footprint.v — the footprint of the library on package-level state, as a table of access sites regenerated
   from go/ssa on every run (Gen/Globals.v), and the lockset discipline on it.

   A cell is a package-level variable or something reachable from one by field / element / pointer paths.
   A site is one static access to a cell: read or write; plain, sync/atomic, an operation of a synchronisation
   object (sync.Pool / Once / Map / Mutex), or an escape of a reference to a function outside the library; with
   the mutexes certainly held (and in which mode), the Once whose Do runs the enclosing function, the Once.Do
   calls that certainly returned before, and whether it runs during package initialisation.

   Definitions only; proofs in Proofs/FootprintP.v. *)
From Coq Require Import List NArith Bool Arith.
Import ListNotations.

Inductive akind := KPlain | KAtomic | KSync | KEscape.

Record site := {
  a_cell : N;
  a_write : bool;
  a_kind : akind;
  a_held : list (N * bool);      (* (mutex cell, held for writing) *)
  a_once : option N;             (* runs inside the function passed to this Once *)
  a_after : list N;              (* Once cells whose Do has returned *)
  a_init : bool                  (* runs during package initialisation, before any other goroutine *)
}.

Fixpoint nmemb (x : N) (l : list N) : bool :=
  match l with [] => false | y :: r => N.eqb x y || nmemb x r end.

Definition synced (s : site) : bool := match a_kind s with KAtomic | KSync => true | _ => false end.

(* a mutex held by both, by at least one of them for writing: the two critical sections exclude each other *)
Definition common_lock (s1 s2 : site) : bool :=
  existsb (fun h1 => existsb (fun h2 => N.eqb (fst h1) (fst h2) && (snd h1 || snd h2)) (a_held s2)) (a_held s1).

(* s1 runs inside Once o (executed at most once, by one goroutine); s2 runs inside it too or after o.Do returned *)
Definition once_ordered (s1 s2 : site) : bool :=
  match a_once s1 with
  | Some o => match a_once s2 with Some o2 => N.eqb o o2 | None => false end || nmemb o (a_after s2)
  | None => false
  end.

Definition protected (s1 s2 : site) : bool :=
  a_init s1 || a_init s2 || (synced s1 && synced s2) || common_lock s1 s2 || once_ordered s1 s2 || once_ordered s2 s1.

Definition conflicting (s1 s2 : site) : bool := N.eqb (a_cell s1) (a_cell s2) && (a_write s1 || a_write s2).

(* X: exception list (cells recorded as known findings) *)
Definition pair_ok (X : list N) (s1 s2 : site) : bool :=
  negb (conflicting s1 s2) || nmemb (a_cell s1) X || protected s1 s2.

Definition table_ok (X : list N) (sites : list site) : bool :=
  forallb (fun s1 => forallb (pair_ok X s1) sites) sites.

(* executions: events of goroutines at sites of the table *)
Record event := { e_tid : nat; e_site : site }.

(* two accesses of different goroutines to the same cell, one of them a write, not ordered by initialisation, a
   common mutex, a Once, and not both operations of synchronisation primitives *)
Definition race (e1 e2 : event) : Prop :=
  e_tid e1 <> e_tid e2 /\ conflicting (e_site e1) (e_site e2) = true /\ protected (e_site e1) (e_site e2) = false.

(* ---- mutual exclusion semantics of the mutexes (what "common lock" buys) ---- *)
Inductive lstep :=
| Acq (t : nat) (m : N) (w : bool)
| Rel (t : nat) (m : N)
| Acc (t : nat) (s : site).

(* lock state: who holds which mutex in which mode *)
Definition lstate := list (nat * N * bool).

Definition holds (st : lstate) (t : nat) (m : N) (w : bool) : bool :=
  existsb (fun h => Nat.eqb (fst (fst h)) t && N.eqb (snd (fst h)) m && (snd h || negb w)) st.

(* acquiring for writing needs nobody else in; acquiring for reading needs no writer *)
Definition can_acquire (st : lstate) (t : nat) (m : N) (w : bool) : bool :=
  forallb (fun h => negb (N.eqb (snd (fst h)) m) || (negb w && negb (snd h))) st.

Definition release (st : lstate) (t : nat) (m : N) : lstate :=
  filter (fun h => negb (Nat.eqb (fst (fst h)) t && N.eqb (snd (fst h)) m)) st.

(* a trace is well formed if acquisitions respect exclusion and every access holds the locks its site names *)
Fixpoint wf_trace (st : lstate) (tr : list lstep) : bool :=
  match tr with
  | [] => true
  | Acq t m w :: r => can_acquire st t m w && wf_trace ((t, m, w) :: st) r
  | Rel t m :: r => wf_trace (release st t m) r
  | Acc t s :: r => forallb (fun h => holds st t (fst h) (snd h)) (a_held s) && wf_trace st r
  end.
