(* QCase.v — boolean checks evaluated by the C15 correspondence cases (vm_compute over generated case lists):
   the prescribed tree of a reference statement against the dumped real tree, the specification sets against
   what the generator says it wrote, the extraction model on both trees against the implementation's output. *)
From Coq Require Import List String Ascii NArith Bool.
From GV Require Import Model.Walk Model.QAst Model.Extract Model.QRef.
Import ListNotations.
Local Open Scope string_scope.
Local Open Scope list_scope.

(* drop empty slot groups (ast_stmt writes every slot, the dumper only the populated ones) *)
Fixpoint norm (t : qn) : qn :=
  match t with
  | QN k a kids =>
      QN k a ((fix go (ks : list (slot * list qn)) : list (slot * list qn) :=
                 match ks with
                 | [] => []
                 | (s, l) :: r => match l with [] => go r | _ => (s, map norm l) :: go r end
                 end) kids)
  end.

Definition strs_eqb (a b : list string) : bool :=
  Nat.eqb (List.length a) (List.length b) && forallb (fun p => str_eqb (fst p) (snd p)) (combine a b).

(* attributes the analyses read; operator strings only where they are read *)
Definition attrs_sim (k : kind) (a b : attrs) : bool :=
  str_eqb (a_name a) (a_name b) && str_eqb (a_qual a) (a_qual b) && str_eqb (a_val a) (a_val b) &&
  strs_eqb (a_list a) (a_list b) &&
  match k with
  | KBinary | KSetOp => str_eqb (upper (a_op a)) (upper (a_op b))
  | _ => true
  end.

Fixpoint qn_sim (a b : qn) {struct a} : bool :=
  match a, b with
  | QN ka aa kas, QN kb ab kbs =>
      kind_eqb ka kb && attrs_sim ka aa ab &&
      (fix go (x y : list (slot * list qn)) {struct x} : bool :=
         match x, y with
         | [], [] => true
         | (s1, l1) :: xr, (s2, l2) :: yr =>
             slot_eqb s1 s2 &&
             (fix go2 (p q : list qn) {struct p} : bool :=
                match p, q with
                | [], [] => true
                | c :: pr, d :: qr => qn_sim c d && go2 pr qr
                | _, _ => false
                end) l1 l2 && go xr yr
         | _, _ => false
         end) kas kbs
  end.
Definition tree_agrees (prescribed dumped : qn) : bool := qn_sim (norm prescribed) (norm dumped).

Definition pair_eqb2 (a b : string * string) : bool := str_eqb (fst a) (fst b) && str_eqb (snd a) (snd b).
Definition same_pairs (a b : list (string * string)) : bool :=
  forallb (fun x => existsb (pair_eqb2 x) b) a && forallb (fun x => existsb (pair_eqb2 x) a) b.

(* one generated reference statement: what the generator wrote, the dumped real tree of its rendering *)
Record rcase := mkR {
  r_stmt : mstmt; r_tree : qn;
  r_tables : list string; r_qcols : list (string * string); r_funcs : list string
}.
(* bit 1: specification sets differ from the generator's knowledge; bit 2: prescribed tree differs from the
   real tree; bit 4: the model on the prescribed tree differs from the written sets *)
Definition ref_case_code (em : kind -> slot -> bool) (c : rcase) : N :=
  (if same_strs (tables_written (r_stmt c)) (r_tables c) &&
      same_pairs (qcolumns_written (r_stmt c)) (r_qcols c) &&
      same_strs (functions_written (r_stmt c)) (r_funcs c) then 0 else 1) +
  (if tree_agrees (ast_stmt (r_stmt c)) (r_tree c) then 0 else 2) +
  (if same_strs (extract_tables em [ast_stmt (r_stmt c)]) (r_tables c) &&
      same_strs (extract_columns em [ast_stmt (r_stmt c)]) (map snd (r_qcols c)) &&
      same_strs (extract_functions em [ast_stmt (r_stmt c)]) (r_funcs c) then 0 else 4).
Definition ref_case_ok (em : kind -> slot -> bool) (c : rcase) : bool := (ref_case_code em c =? 0)%N.
