(* StmtPrint.v — Gallina mirror of the statement serialisers of pkg/sql/ast/sql.go over the typed tree mirror
   [gstmt] of Model/Expr.v: SelectStatement.SQL, SetOperation.SQL, InsertStatement.SQL, UpdateStatement.SQL,
   DeleteStatement.SQL, WithClause.SQL / cteSQL, tableRefSQL / tableNameSQL / nameSQL, joinSQL, orderBySQL, fetchSQL,
   onConflictSQL, AliasedExpression.SQL, RollupExpression.SQL / CubeExpression.SQL; expressions by
   Model/ExprPrint.print_expr.  The printers produce the TOKEN list of the text (tokens of Spec/RefGrammar.v and
   Spec/RefStmt.v); on every run the tie tokenizes Go's SQL() of real statements and compares.
   [None] = a node / shape outside the model (FOR, LATERAL handled; window definitions, ON DUPLICATE KEY, negative
   LIMIT, MERGE, DDL are not).  [norm_stmt] is the reference statement whose rendering the printer writes.
   Definitions only. *)
From Coq Require Import List String Ascii Bool Arith NArith ZArith DecimalString Decimal.
From GV Require Import Spec.RefGrammar Spec.RefStmt Model.Expr Model.ExprParse Model.ExprPrint.
Import ListNotations.
Local Open Scope string_scope.
Local Open Scope list_scope.
Local Open Scope nat_scope.

(* fmt %d of a non-negative int *)
Definition z_str (z : Z) : string := NilZero.string_of_uint (N.to_uint (Z.to_N z)).
Definition num_tokens (z : Z) : option (list token) := if (z <? 0)%Z then None else Some [Tk TyNumber (z_str z)].

(* ------------------------------------------------------------------------------------------------ *)
(* names: nameSQL / tableNameSQL: every dot-separated part through safeIdentifier; in a table reference the words
   TARGET, SOURCE, MATCHED are left as written *)
Definition table_word (p : string) : option tty :=
  let u := upper p in
  if String.eqb u "TARGET" then Some TyTarget else if String.eqb u "SOURCE" then Some TySource
  else if String.eqb u "MATCHED" then Some TyMatched else None.
Definition part_tokens (pf : pflags) (tbl : bool) (p : string) : list token :=
  match (if tbl then table_word p else None) with
  | Some t => [Tk t p]
  | None => if needs_quote pf p then [Tk TyDQuoted p] else [raw_part p]
  end.
Definition name_tokens (pf : pflags) (tbl : bool) (n : string) : list token :=
  if String.eqb n "" then [] else sep_by [tPeriod] (map (part_tokens pf tbl) (split_dots n "")).
Definition names_tokens (pf : pflags) (l : list string) : list token :=
  sep_by [tComma] (map (name_tokens pf false) l).

(* words of a join type ("LEFT", "NATURAL LEFT", ...) and of a set operator *)
Definition join_word (w : string) : option token :=
  let u := upper w in
  if String.eqb u "INNER" then Some (Tk TyInner w) else if String.eqb u "LEFT" then Some (Tk TyLeft w)
  else if String.eqb u "RIGHT" then Some (Tk TyRight w) else if String.eqb u "FULL" then Some (Tk TyFull w)
  else if String.eqb u "CROSS" then Some (Tk TyCross w) else if String.eqb u "NATURAL" then Some (Tk TyNatural w)
  else if String.eqb u "OUTER" then Some (Tk TyOuter w) else None.
Fixpoint split_spaces (s : string) (cur : string) : list string :=
  match s with
  | EmptyString => if String.eqb cur "" then [] else [cur]
  | String c r => if Ascii.eqb c " "%char then (if String.eqb cur "" then [] else [cur]) ++ split_spaces r ""
                  else split_spaces r (cur ++ String c "")
  end.
Definition join_type_tokens (ty : string) : option (list token) := all_some (map join_word (split_spaces ty "")).
Definition setop_token (op : string) : option token :=
  let u := upper op in
  if String.eqb u "UNION" then Some (Tk TyUnion op) else if String.eqb u "EXCEPT" then Some (Tk TyExcept op)
  else if String.eqb u "INTERSECT" then Some (Tk TyIntersect op) else None.

(* ------------------------------------------------------------------------------------------------ *)
(* clause printers without nested statements *)
Definition print_exprs (pf : pflags) (l : list gexpr) : option (list token) :=
  ob (all_some (map (print_expr pf) l)) (fun x => Some (sep_by [tComma] x)).

(* select-list item: AliasedExpression prints expr AS alias *)
Definition print_item (pf : pflags) (e : gexpr) : option (list token) :=
  match e with
  | GAliased a al => ob (print_expr pf a) (fun ts => Some (ts ++ Tk TyAs "AS" :: ident_tokens pf al))
  | _ => print_expr pf e
  end.
(* GROUP BY item: ROLLUP(...) / CUBE(...) *)
Definition print_group (pf : pflags) (e : gexpr) : option (list token) :=
  match e with
  | GRollup es => ob (print_exprs pf es) (fun ts => Some (Tk TyRollup "ROLLUP" :: tLP :: ts ++ [tRP]))
  | GCube es => ob (print_exprs pf es) (fun ts => Some (Tk TyCube "CUBE" :: tLP :: ts ++ [tRP]))
  | _ => print_expr pf e
  end.
Definition print_order (pf : pflags) (o : gorder) : option (list token) :=
  match o with
  | GOrder e asc nf =>
      ob (print_expr pf e) (fun ts =>
      Some (ts ++ (if asc then [] else [Tk TyDesc "DESC"])
               ++ match nf with None => [] | Some true => [Tk TyNulls "NULLS"; Tk TyFirst "FIRST"]
                              | Some false => [Tk TyNulls "NULLS"; Tk TyLast "LAST"] end))
  end.
Definition list_opt (kwd : list token) (l : list (option (list token))) : option (list token) :=
  match l with [] => Some [] | _ => ob (all_some l) (fun x => Some (kwd ++ sep_by [tComma] x)) end.
Definition opt_expr (pf : pflags) (kwd : list token) (o : option gexpr) : option (list token) :=
  match o with None => Some [] | Some e => ob (print_expr pf e) (fun ts => Some (kwd ++ ts)) end.
Definition opt_num (kwd : list token) (o : option Z) : option (list token) :=
  match o with None => Some [] | Some z => ob (num_tokens z) (fun ts => Some (kwd ++ ts)) end.
(* fetchSQL (the OFFSET n ROWS part belongs to FetchClause.OffsetValue, which the parser does not fill) *)
Definition print_fetch (o : option gfetch) : option (list token) :=
  match o with
  | None => Some []
  | Some f =>
      ob (let u := upper (f_type f) in
          if String.eqb u "FIRST" then Some (Tk TyFirst (f_type f)) else if String.eqb u "NEXT" then Some (Tk TyNext (f_type f)) else None) (fun kt =>
      ob (match f_value f with None => Some [] | Some z => num_tokens z end) (fun vt =>
      Some (Tk TyFetch "FETCH" :: kt :: vt ++ (if f_percent f then [Tk TyPercent "PERCENT"] else []) ++ Tk TyRows "ROWS"
            :: (if f_ties f then [Tk TyWith "WITH"; Tk TyTies "TIES"] else [Tk TyOnly "ONLY"]))))
  end.
(* column = value, ... *)
Definition print_assign (pf : pflags) (a : gexpr * gexpr) : option (list token) :=
  ob (print_expr pf (fst a)) (fun ct => ob (print_expr pf (snd a)) (fun vt => Some (ct ++ Tk TyEq "=" :: vt))).
Definition print_assigns (pf : pflags) (l : list (gexpr * gexpr)) : option (list token) :=
  ob (all_some (map (print_assign pf) l)) (fun x => Some (sep_by [tComma] x)).
(* onConflictSQL *)
Definition print_conflict (pf : pflags) (o : option gconflict) : option (list token) :=
  match o with
  | None => Some []
  | Some (GConflict tg cn dn du wh) =>
      ob (match tg with [] => Some [] | _ => ob (print_exprs pf tg) (fun ts => Some (tLP :: ts ++ [tRP])) end) (fun tt =>
      ob (if dn then Some [Tk TyIdent "DO"; Tk TyIdent "NOTHING"]
          else match du with
               | [] => Some []
               | _ => ob (print_assigns pf du) (fun ats =>
                      ob (opt_expr pf [Tk TyWhere "WHERE"] wh) (fun wt =>
                      Some (Tk TyIdent "DO" :: Tk TyUpdate "UPDATE" :: Tk TySet "SET" :: ats ++ wt)))
               end) (fun act =>
      Some (Tk TyOn "ON" :: Tk TyIdent "CONFLICT" :: tt
            ++ (if String.eqb cn "" then [] else Tk TyOn "ON" :: Tk TyConstraint "CONSTRAINT" :: ident_tokens pf cn)
            ++ act)))
  end.
Definition print_returning (pf : pflags) (l : list gexpr) : option (list token) :=
  list_opt [Tk TyReturning "RETURNING"] (map (print_expr pf) l).
Definition print_rows (pf : pflags) (rows : list (list gexpr)) : option (list token) :=
  ob (all_some (map (fun row => ob (print_exprs pf row) (fun ts => Some (tLP :: ts ++ [tRP]))) rows)) (fun x => Some (sep_by [tComma] x)).
Definition mat_tokens (m : option bool) : list token :=
  match m with None => [] | Some true => [Tk TyMaterialized "MATERIALIZED"]
             | Some false => [Tk TyNot "NOT"; Tk TyMaterialized "MATERIALIZED"] end.

(* ------------------------------------------------------------------------------------------------ *)
(* statements *)
Fixpoint print_stmt (pf : pflags) (s : gstmt) {struct s} : option (list token) :=
  match s with
  | GSelectS q => print_select pf q
  | GSetOp l op r all =>
      ob (print_stmt pf l) (fun lt => ob (setop_token op) (fun ot => ob (print_stmt pf r) (fun rt =>
      Some (lt ++ ot :: (if all then [Tk TyAll "ALL"] else []) ++ rt))))
  | GInsert w t cols vals q ret oc od =>
      match od with
      | _ :: _ => None
      | [] =>
          ob (match w with None => Some [] | Some w' => print_with pf w' end) (fun wt =>
          ob (match cols with [] => Some [] | _ => ob (print_exprs pf cols) (fun ts => Some (tLP :: ts ++ [tRP])) end) (fun ct =>
          ob (match q with
              | Some qs => print_stmt pf qs
              | None => match vals with [] => Some [] | _ => ob (print_rows pf vals) (fun ts => Some (Tk TyValues "VALUES" :: ts)) end
              end) (fun st =>
          ob (print_conflict pf oc) (fun cft =>
          ob (print_returning pf ret) (fun rt =>
          Some (wt ++ Tk TyInsert "INSERT" :: Tk TyInto "INTO" :: name_tokens pf false t ++ ct ++ st ++ cft ++ rt))))))
      end
  | GUpdate w t al asg from wh ret =>
      ob (match w with None => Some [] | Some w' => print_with pf w' end) (fun wt =>
      ob (print_assigns pf asg) (fun ats =>
      ob (list_opt [Tk TyFrom "FROM"] (map (print_table pf) from)) (fun ft =>
      ob (opt_expr pf [Tk TyWhere "WHERE"] wh) (fun wht =>
      ob (print_returning pf ret) (fun rt =>
      Some (wt ++ Tk TyUpdate "UPDATE" :: name_tokens pf false t ++ (if String.eqb al "" then [] else ident_tokens pf al)
            ++ Tk TySet "SET" :: ats ++ ft ++ wht ++ rt))))))
  | GDelete w t al us wh ret =>
      ob (match w with None => Some [] | Some w' => print_with pf w' end) (fun wt =>
      ob (list_opt [Tk TyUsing "USING"] (map (print_table pf) us)) (fun ut =>
      ob (opt_expr pf [Tk TyWhere "WHERE"] wh) (fun wht =>
      ob (print_returning pf ret) (fun rt =>
      Some (wt ++ Tk TyDelete "DELETE" :: Tk TyFrom "FROM" :: name_tokens pf false t
            ++ (if String.eqb al "" then [] else ident_tokens pf al) ++ ut ++ wht ++ rt)))))
  | GMerge _ _ _ _ _ _ => None            (* MergeStatement.SQL is not modelled *)
  end
with print_select (pf : pflags) (q : gselect) {struct q} : option (list token) :=
  match q with
  | GSelect w d don cols from tn joins wh gb hv ob_ lim off fe fo =>
      match fo with
      | Some _ => None
      | None =>
          ob (match w with None => Some [] | Some w' => print_with pf w' end) (fun wt =>
          ob (match don with
              | [] => Some (if d then [Tk TyDistinct "DISTINCT"] else [])
              | _ => ob (print_exprs pf don) (fun ts => Some (Tk TyDistinct "DISTINCT" :: Tk TyOn "ON" :: tLP :: ts ++ [tRP]))
              end) (fun dt =>
          ob (ob (all_some (map (print_item pf) cols)) (fun x => Some (sep_by [tComma] x))) (fun ct =>
          ob (list_opt [Tk TyFrom "FROM"] (map (print_table pf) from)) (fun ft =>
          ob (ob (all_some (map (print_join pf) joins)) (fun x => Some (List.concat x))) (fun jt =>
          ob (opt_expr pf [Tk TyWhere "WHERE"] wh) (fun wht =>
          ob (list_opt [Tk TyGroup "GROUP"; Tk TyBy "BY"] (map (print_group pf) gb)) (fun gt =>
          ob (opt_expr pf [Tk TyHaving "HAVING"] hv) (fun ht =>
          ob (list_opt [Tk TyOrder "ORDER"; Tk TyBy "BY"] (map (print_order pf) ob_)) (fun ot =>
          ob (opt_num [Tk TyLimit "LIMIT"] lim) (fun lt =>
          ob (opt_num [Tk TyOffset "OFFSET"] off) (fun oft =>
          ob (print_fetch fe) (fun fet =>
          Some (wt ++ Tk TySelect "SELECT" :: dt ++ ct ++ ft ++ jt ++ wht ++ gt ++ ht ++ ot ++ lt ++ oft ++ fet)))))))))))))
      end
  end
with print_table (pf : pflags) (t : gtable) {struct t} : option (list token) :=
  match t with
  | GTable n al q lat =>
      ob (match q with
          | Some s => ob (print_select pf s) (fun ts => Some (tLP :: ts ++ [tRP]))
          | None => Some (name_tokens pf true n)
          end) (fun nt =>
      Some ((if lat then [Tk TyLateral "LATERAL"] else []) ++ nt ++ (if String.eqb al "" then [] else ident_tokens pf al)))
  end
with print_join (pf : pflags) (j : gjoin) {struct j} : option (list token) :=
  match j with
  | GJoin ty l r c =>
      ob (join_type_tokens ty) (fun tt =>
      ob (print_table pf r) (fun rt =>
      ob (match c with
          | None => Some []
          | Some (GList cols) => ob (print_exprs pf cols) (fun ts => Some (Tk TyUsing "USING" :: tLP :: ts ++ [tRP]))
          | Some e => ob (print_expr pf e) (fun ts => Some (Tk TyOn "ON" :: ts))
          end) (fun ct =>
      Some (tt ++ Tk TyJoin "JOIN" :: rt ++ ct))))
  end
with print_with (pf : pflags) (w : gwith) {struct w} : option (list token) :=
  match w with
  | GWith rc ctes =>
      ob (all_some (map (print_cte pf) ctes)) (fun x =>
      Some (Tk TyWith "WITH" :: (if rc then [Tk TyRecursive "RECURSIVE"] else []) ++ sep_by [tComma] x))
  end
with print_cte (pf : pflags) (c : gcte) {struct c} : option (list token) :=
  match c with
  | GCte n cols st mat =>
      ob (print_stmt pf st) (fun bt =>
      Some (ident_tokens pf n ++ (match cols with [] => [] | _ => tLP :: names_tokens pf cols ++ [tRP] end)
            ++ Tk TyAs "AS" :: mat_tokens mat ++ tLP :: bt ++ [tRP]))
  end.

(* ------------------------------------------------------------------------------------------------ *)
(* the reference statement whose rendering the printer writes: expressions normalised (Model/ExprPrint.norm), a select
   item alias written with AS, a table alias without, join kinds spelled INNER / LEFT / RIGHT / FULL (no OUTER), a single
   USING column written ON column (same tree), ASC not written, FETCH always with ROWS *)
Definition sr0 : srho := fun _ _ => no_parens.
Definition nm := norm print_ok.
Definition norm_alias (askw : bool) (a : malias) : malias := option_map (fun p : bool * string => (askw, snd p)) a.
Definition norm_table (t : mtable) : mtable := MkTable (tb_path t) (norm_alias false (tb_alias t)).
Definition norm_side (s : jside) : jside :=
  match s with SNone => SInner | SLeft _ => SLeft false | SRight _ => SRight false | SFull _ => SFull false | x => x end.
Definition norm_cond (c : option jcond) : option jcond :=
  match c with
  | Some (JOn e) => Some (JOn (nm e))
  | Some (JUsing [c1]) => Some (JOn (MIdent false c1))
  | x => x
  end.
Definition norm_join (j : mjoin) : mjoin := MkJoin (j_nat j) (norm_side (j_side j)) (norm_table (j_table j)) (norm_cond (j_cond j)).
Definition norm_item (it : mitem) : mitem := match it with IExpr e a => IExpr (nm e) (norm_alias true a) | x => x end.
Definition norm_group (g : mgroup) : mgroup :=
  match g with GrExpr e => GrExpr (nm e) | GrRollup es => GrRollup (map nm es) | GrCube es => GrCube (map nm es) | GrSets _ => g end.
Definition norm_order (o : morder) : morder :=
  MkOrder (nm (o_expr o)) (match o_dir o with Some false => Some false | _ => None end) (o_nulls o).
Definition norm_fetch (f : mfetch) : mfetch := MkFetch (ft_next f) (ft_count f) (ft_percent f) (Some true) (ft_ties f).
Definition norm_select (s : mselect) : mselect :=
  MkSelect (s_distinct s) (map nm (s_distinct_on s)) (map norm_item (s_items s)) (map norm_table (s_from s))
           (map norm_join (s_joins s)) (option_map nm (s_where s)) (map norm_group (s_group s)) (option_map nm (s_having s))
           (map norm_order (s_order s)) (s_limit s) (s_offset s) (option_map norm_fetch (s_fetch s)) (s_for s).
Fixpoint norm_query (q : mquery) : mquery :=
  match q with QSelect s => QSelect (norm_select s) | QSetOp l op all r => QSetOp (norm_query l) op all (norm_select r) end.
Definition norm_cte (c : mcte) : mcte := MkCte (c_name c) (c_cols c) (c_mat c) (norm_query (c_body c)).
Definition norm_with (w : option mwith) : option mwith := option_map (fun w => MkWith (w_rec w) (map norm_cte (w_ctes w))) w.
Definition norm_sets (l : list (string * mexpr)) : list (string * mexpr) := map (fun ce => (fst ce, nm (snd ce))) l.
Definition norm_conflict (c : mconflict) : mconflict :=
  MkConflict (cf_target c)
    (match cf_action c with CaNothing => CaNothing | CaUpdate sets wh => CaUpdate (norm_sets sets) (option_map nm wh) end).
Definition norm_body (b : mbody) : mbody :=
  match b with
  | BQuery q => BQuery (norm_query q)
  | BInsert t cols src cf ret =>
      BInsert t cols (match src with inl rows => inl (map (map nm) rows) | inr q => inr (norm_query q) end)
              (option_map norm_conflict cf) (map nm ret)
  | BUpdate t sets wh ret => BUpdate t (norm_sets sets) (option_map nm wh) (map nm ret)
  | BDelete t wh ret => BDelete t (option_map nm wh) (map nm ret)
  | BMerge _ => b
  end.
Definition norm_stmt (s : mstmt) : mstmt := MkStmt (norm_with (st_with s)) (norm_body (st_body s)).

(* side conditions: every name is written without quotes (the reference renderer has no quoted form for them) and
   is not split by the tokenizer; numbers are written as %d writes them (no leading zeros) *)
Definition pw := plain_word print_ok.
Definition pe := printable print_ok.
Definition canon (s : string) : bool := String.eqb (z_str (dec_value s)) s.
Definition alias_p (a : malias) : bool := match a with None => true | Some (_, n) => pw n end.
Definition table_p (t : mtable) : bool := forallb pw (tb_path t) && alias_p (tb_alias t).
Definition cond_p (c : option jcond) : bool :=
  match c with None => true | Some (JOn e) => pe e | Some (JUsing cols) => forallb pw cols end.
Definition join_p (j : mjoin) : bool := table_p (j_table j) && cond_p (j_cond j).
Definition item_p (it : mitem) : bool := match it with IStar => true | IQStar t => pw t | IExpr e a => pe e && alias_p a end.
(* the printers of GROUPING SETS, the locking clause and MERGE are not modelled: outside the side conditions *)
Definition group_p (g : mgroup) : bool := match g with GrExpr e => pe e | GrRollup es | GrCube es => forallb pe es | GrSets _ => false end.
Definition select_p (s : mselect) : bool :=
  forallb pe (s_distinct_on s) && forallb item_p (s_items s) && forallb table_p (s_from s) && forallb join_p (s_joins s)
  && optb pe (s_where s) && forallb group_p (s_group s) && optb pe (s_having s) && forallb (fun o => pe (o_expr o)) (s_order s)
  && optb canon (s_limit s) && optb canon (s_offset s) && optb (fun f => canon (ft_count f)) (s_fetch s)
  && match s_for s with None => true | Some _ => false end.
Fixpoint query_p (q : mquery) : bool :=
  match q with QSelect s => select_p s | QSetOp l _ _ r => query_p l && select_p r end.
Definition cte_p (c : mcte) : bool := pw (c_name c) && forallb pw (c_cols c) && query_p (c_body c).
Definition with_p (w : option mwith) : bool := match w with None => true | Some w => forallb cte_p (w_ctes w) end.
Definition sets_p (l : list (string * mexpr)) : bool := forallb (fun ce => pw (fst ce) && pe (snd ce)) l.
Definition conflict_p (c : mconflict) : bool :=
  match cf_target c with CtNone => true | CtCols cols => forallb pw cols | CtConstraint n => pw n end
  && match cf_action c with CaNothing => true | CaUpdate sets wh => sets_p sets && optb pe wh end.
Definition body_p (b : mbody) : bool :=
  match b with
  | BQuery q => query_p q
  | BInsert t cols src cf ret =>
      forallb pw t && forallb pw cols && match src with inl rows => forallb (forallb pe) rows | inr q => query_p q end
      && optb conflict_p cf && forallb pe ret
  | BUpdate t sets wh ret => forallb pw t && sets_p sets && optb pe wh && forallb pe ret
  | BDelete t wh ret => forallb pw t && optb pe wh && forallb pe ret
  | BMerge _ => false
  end.
Definition stmt_p (s : mstmt) : bool := with_p (st_with s) && body_p (st_body s).

(* ------------------------------------------------------------------------------------------------ *)
(* correspondence cases: typed mirror of a real statement (emission checked against the dump), tokens of Go's SQL().
   Result codes: 0 agree, 1 printer disagrees, 2 not modelled, 3 the typed mirror is not the dump. *)
Definition print_stmt_case (pf : pflags) (c : gstmt * sx * list token) : N :=
  match c with
  | (g, tree, toks) =>
      if negb (sx_eqb (reflect_stmt g) tree) then 3%N
      else match print_stmt pf g with
           | None => 2%N
           | Some ts => if tok_eqb ts toks then 0%N else 1%N
           end
  end.
