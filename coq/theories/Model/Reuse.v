(* Reuse.v — C08: results never depend on what a reused or pooled instance did before.

   Part 1  generic footprint framework: an instance has fields; every operation has a footprint
           (which incoming field values it reads before overwriting them; per field: Keep / Zero / Det)
           and a kind (Work / Config / Boundary).  [table_ok] is the decidable per-field
           read-before-write condition; Proofs/ReuseP.v proves non-interference from it for every
           implementation that respects its footprint.
   Part 2  the parser instance: state record, operations as state transformers written from
           pkg/sql/parser/{parser.go,recovery.go} (parametric in the statement parser PS, which may fail at
           any point), the hand-written footprint table, defect switches.
   Part 3  the tokenizer instance (pkg/sql/tokenizer/{tokenizer.go,pool.go,debug.go}), parametric in the lexer.
   Part 4  abstract "dirtiness" evaluation of a history from a footprint table (used by the history
           correspondence: the harness observes which fields of the real instance differ from a new one).

   Definitions only.  *)
From Coq Require Import List Arith Bool NArith.
From Coq Require Import String.
Local Notation length := List.length.
From GV Require Import Model.Loops.
Import ListNotations.
Local Open Scope nat_scope.

(* ------------------------------------------------------------------------------------------- *)
(* Part 1: generic framework                                                                    *)

Inductive effect := Keep | Zero | KZ | Det | Any.
(* Keep: the field has its incoming value when the operation returns (untouched, or restored on every path)
   Zero: the field has the value of a newly constructed instance when the operation returns
   KZ  : one of the two, depending on the path taken (e.g. an early return before the field is touched)
   Det : the field is a function of the operation's input and of the incoming fields the operation reads
   Any : no claim (per-call scratch state) *)
Inductive okind := Work | Config | Boundary.
(* Work: a call whose outcome the property speaks about; Config: the holder configures the instance;
   Boundary: the instance changes hands or is reset (Reset, Release, Put then Get) *)

Definition effect_eqb (a b : effect) : bool :=
  match a, b with Keep, Keep | Zero, Zero | KZ, KZ | Det, Det | Any, Any => true | _, _ => false end.

Record footprint (field op : Type) := mkFP {
  fp_fields : list field;
  fp_ops : list op;
  fp_kind : op -> okind;
  fp_reads : op -> field -> bool;     (* incoming value may influence the outcome or a Det field *)
  fp_eff : op -> field -> effect }.
Arguments mkFP {field op}. Arguments fp_fields {field op}. Arguments fp_ops {field op}.
Arguments fp_kind {field op}. Arguments fp_reads {field op}. Arguments fp_eff {field op}.

Section Table.
  Variables field op : Type.
  Variable T : footprint field op.

  Definition is_config (o : op) : bool := match fp_kind T o with Config => true | _ => false end.
  Definition is_boundary (o : op) : bool := match fp_kind T o with Boundary => true | _ => false end.

  (* some operation reads the incoming value of f *)
  Definition live (f : field) : bool := existsb (fun o => fp_reads T o f) (fp_ops T).
  (* the holder can set f *)
  Definition configurable (f : field) : bool :=
    existsb (fun o => is_config o && negb (effect_eqb (fp_eff T o f) Keep)) (fp_ops T).
  (* f is well behaved: work keeps it (or clears it when the holder cannot set it), configuration sets it
     deterministically, every boundary clears it *)
  Definition cell_ok (f : field) (o : op) : bool :=
    match fp_kind T o with
    | Work => match fp_eff T o f with Keep => true | Zero | KZ => negb (configurable f) | Det | Any => false end
    | Config => match fp_eff T o f with Keep | Zero | Det => true | KZ | Any => false end
    | Boundary => effect_eqb (fp_eff T o f) Zero
    end.
  Definition wb (f : field) : bool := forallb (cell_ok f) (fp_ops T).

  (* the per-field read-before-write condition: every field whose incoming value some operation reads is well behaved *)
  Definition table_ok : bool := forallb (fun f => implb (live f) (wb f)) (fp_fields T).

  (* a boundary operation leaves every field as in a new instance *)
  Definition boundary_zero (o : op) : bool :=
    forallb (fun f => effect_eqb (fp_eff T o f) Zero) (fp_fields T).
  Definition boundaries_ok : bool :=
    forallb (fun o => if is_boundary o then boundary_zero o else true) (fp_ops T).

  (* a work operation that brings the instance back to "new + the holder's configuration" on every field
     outside [except] (Tokenizer.Reset) *)
  Definition rezero_ok (except : field -> bool) (o : op) : bool :=
    forallb (fun f => except f ||
                      match fp_eff T o f with
                      | Zero => negb (configurable f)
                      | Keep => wb f
                      | _ => false
                      end) (fp_fields T).
End Table.
Arguments is_config {field op}. Arguments is_boundary {field op}. Arguments live {field op}.
Arguments configurable {field op}. Arguments cell_ok {field op}. Arguments wb {field op}.
Arguments table_ok {field op}. Arguments boundary_zero {field op}. Arguments boundaries_ok {field op}.
Arguments rezero_ok {field op}.

Section Sem.
  Variables field op X S R : Type.
  Variable T : footprint field op.
  Variable feq : field -> S -> S -> Prop.       (* the two states have the same value in field f *)
  Variable fresh : S.                           (* a newly constructed instance *)
  Variable sem : op -> X -> S -> S * R.

  Definition hist := list (op * X).
  Definition step (s : S) (e : op * X) : S := fst (sem (fst e) (snd e) s).
  Definition run (h : hist) (s : S) : S := fold_left step h s.
  Definition result (s : S) (e : op * X) : R := snd (sem (fst e) (snd e) s).

  (* the configuration the CURRENT holder applied: the Config operations since the last Boundary *)
  Definition cfg_step (acc : hist) (e : op * X) : hist :=
    match fp_kind T (fst e) with
    | Boundary => []
    | Config => acc ++ [e]
    | Work => acc
    end.
  Definition cfg (h : hist) : hist := fold_left cfg_step h [].

  Definition same_all (s1 s2 : S) : Prop := forall f, In f (fp_fields T) -> feq f s1 s2.

  (* an implementation respects its footprint *)
  Record respects : Prop := {
    r_noninterf : forall o x s1 s2,
        (forall f, fp_reads T o f = true -> feq f s1 s2) ->
        snd (sem o x s1) = snd (sem o x s2) /\
        (forall f, fp_eff T o f = Det -> feq f (fst (sem o x s1)) (fst (sem o x s2)));
    r_keep : forall o x s f, fp_eff T o f = Keep -> feq f (fst (sem o x s)) s;
    r_zero : forall o x s f, fp_eff T o f = Zero -> feq f (fst (sem o x s)) fresh;
    r_kz : forall o x s f, fp_eff T o f = KZ -> feq f (fst (sem o x s)) s \/ feq f (fst (sem o x s)) fresh }.

  (* instances that can be obtained: new ones, and pooled ones — an instance that some holder obtained, used
     in any way and returned through the Boundary operation [put] (sync.Pool hands back ANY such instance) *)
  Variable put : op.
  Inductive obtainable : S -> Prop :=
  | ob_new : obtainable fresh
  | ob_pooled : forall s0 h x, obtainable s0 -> obtainable (run (h ++ [(put, x)]) s0).
End Sem.
Arguments hist : clear implicits.
Arguments step {op X S R}. Arguments run {op X S R}. Arguments result {op X S R}.
Arguments cfg_step {field op X}. Arguments cfg {field op X}. Arguments same_all {field op S}.
Arguments respects {field op X S R}. Arguments obtainable {op X S R}.
Arguments r_noninterf {field op X S R T feq fresh sem}. Arguments r_keep {field op X S R T feq fresh sem}.
Arguments r_zero {field op X S R T feq fresh sem}. Arguments r_kz {field op X S R T feq fresh sem}.

(* ------------------------------------------------------------------------------------------- *)
(* Part 2: the parser                                                                           *)

Definition tok := nat.              (* 1 = EOF, 2 = semicolon, 3.. = other token identities *)
Definition loc := (nat * nat)%type. (* line, column; (0,0) = no location *)
Definition dial := nat.             (* 0 = "" (default), 1 = "mysql", ... *)
Definition cx := nat.               (* identity of a context; its cancellation behaviour is part of PS *)

Record pstate := mkP {
  p_tokens : list tok; p_pos : nat; p_cur : tok; p_depth : nat; p_ctx : option cx;
  p_cancel : bool;    (* cancelErr != nil: a poll of the current ParseContext call has seen the context done *)
  p_positions : option (list loc); p_strict : bool; p_dialect : dial }.
Definition fresh_p : pstate := mkP [] 0 0 0 None false None false 0.

Inductive pfield := FTokens | FPos | FCur | FDepth | FCtx | FCancel | FPositions | FStrict | FDialect.
Definition all_pfields := [FTokens; FPos; FCur; FDepth; FCtx; FCancel; FPositions; FStrict; FDialect].
Definition pfield_name (f : pfield) : String.string :=
  match f with
  | FTokens => "tokens" | FPos => "currentPos" | FCur => "currentToken" | FDepth => "depth"
  | FCtx => "ctx" | FCancel => "cancelErr" | FPositions => "positions" | FStrict => "strict" | FDialect => "dialect"
  end%string.
Definition pfeq (f : pfield) (a b : pstate) : Prop :=
  match f with
  | FTokens => p_tokens a = p_tokens b | FPos => p_pos a = p_pos b | FCur => p_cur a = p_cur b
  | FDepth => p_depth a = p_depth b | FCtx => p_ctx a = p_ctx b | FCancel => p_cancel a = p_cancel b | FPositions => p_positions a = p_positions b
  | FStrict => p_strict a = p_strict b | FDialect => p_dialect a = p_dialect b
  end.

Inductive pop :=
| OParse            (* Parser.Parse / ParseFromModelTokens *)
| OParsePos         (* Parser.ParseWithPositions / ParseFromModelTokensWithPositions *)
| OParseCtx         (* Parser.ParseContext / ParseContextFromModelTokens *)
| ORecover          (* Parser.ParseWithRecovery (no positions) *)
| ORecoverPos       (* Parser.ParseWithRecoveryFromModelTokens (sets positions, then the same loop) *)
| OApply            (* Parser.ApplyOptions(WithStrictMode / WithDialect ...) *)
| OReset | ORelease
| OPutGet.          (* PutParser(p) followed, for whoever obtains it, by GetParser() *)
Definition all_pops := [OParse; OParsePos; OParseCtx; ORecover; ORecoverPos; OApply; OReset; ORelease; OPutGet].
Definition pop_methods (o : pop) : list String.string :=
  match o with
  | OParse => ["Parse"; "ParseFromModelTokens"] | OParsePos => ["ParseWithPositions"; "ParseFromModelTokensWithPositions"]
  | OParseCtx => ["ParseContext"; "ParseContextFromModelTokens"]
  | ORecover => ["ParseWithRecovery"] | ORecoverPos => ["ParseWithRecoveryFromModelTokens"]
  | OApply => ["ApplyOptions"] | OReset => ["Reset"] | ORelease => ["Release"] | OPutGet => ["PutParser"]
  end%string.

Inductive popt := WithStrict | WithDialect (d : dial).
Record pin := mkIn {
  i_toks : list tok;          (* the converted tokens *)
  i_poss : list loc;          (* position mapping (entry points with positions) *)
  i_ctx : cx;                 (* context (ParseContext) *)
  i_convfail : bool;          (* the FromModelTokens wrapper fails in token conversion: nothing is touched *)
  i_opts : list popt }.       (* ApplyOptions *)

(* unrepaired-defect switches (all false = the repaired configuration the theorems are about) *)
Record dflags := mkD {
  d_stale_positions : bool;      (* Parse / ParseContext / ParseWithRecovery keep the positions of an earlier parse *)
  d_reset_keeps_dialect : bool;  (* Reset (hence PutParser) leaves dialect *)
  d_release_keeps_cfg : bool }.  (* Release leaves positions, strict, dialect *)
Definition no_defects := mkD false false false.

(* what parseStatement can see of the instance *)
Record pview := mkV {
  v_tokens : list tok; v_depth : nat; v_ctx : option cx; v_positions : option (list loc); v_dialect : dial }.

Inductive presult :=
| RTrees (r : pres nat) (at_ : loc)                 (* strict loops: trees or code, location of a loop-made error *)
| RRec (r : rres nat)
| RConvErr | RCtxErr | RNone.

Section Parser.
  Variable D : dflags.
  (* parseStatement from a cursor position: any function of what it can see — it may fail anywhere; codes stand
     for (error code, error location) pairs, which it computes from v_positions *)
  Variable PS : pview -> nat -> sres nat.
  Variable ctx_done0 : cx -> bool.       (* ctx.Err() != nil before the parse starts *)
  Variable REC_END : pview -> nat.       (* cursor after the recovery loop (scratch state, not compared) *)

  Definition tclass (toks : list tok) (p : nat) : nat := nth p toks 0.   (* consulted for p < length only *)
  Definition is_eof_t toks p := tclass toks p =? 1.
  Definition is_semi_t toks p := tclass toks p =? 2.
  Definition starts_t toks p := (3 <=? tclass toks p) && (tclass toks p <=? 9).

  (* currentLocation(): positions[currentPos].Start, or the empty location *)
  Definition loc_at (ps : option (list loc)) (p : nat) : loc :=
    match ps with
    | None => (0, 0)
    | Some l => if p <? length l then nth p l (0, 0) else (0, 0)
    end.

  (* the strict loop (Loops.parse) also returning the cursor where it stopped *)
  Fixpoint parse_at (v : pview) (strict : bool) (fuel pos : nat) (acc : list nat) : pres nat * nat :=
    let toks := v_tokens v in
    match fuel with
    | O => (PFuel, pos)
    | S f =>
        if in_range (length toks) (is_eof_t toks) pos then
          if is_semi_t toks pos then
            if strict then (PErr E_STRICT, pos) else parse_at v strict f (S pos) acc
          else match PS v pos with
               | SErr c p' => (PErr c, p')
               | SOk t p' => parse_at v strict f (skip_semi (length toks) (is_semi_t toks) p') (acc ++ [t])
               end
        else match acc with
             | [] => if strict then (PErr E_STRICT, pos) else (PErr E_EMPTY, pos)
             | _ => (POk acc, pos)
             end
    end.

  Definition view_of (s : pstate) : pview :=
    mkV (p_tokens s) (p_depth s) (p_ctx s) (p_positions s) (p_dialect s).

  (* p.tokens = tokens; p.currentPos = 0; if len(tokens) > 0 { p.currentToken = tokens[0] } *)
  Definition load_tokens (toks : list tok) (s : pstate) : pstate :=
    mkP toks 0 (match toks with t :: _ => t | [] => p_cur s end)
        (p_depth s) (p_ctx s) (p_cancel s) (p_positions s) (p_strict s) (p_dialect s).
  Definition set_positions (ps : option (list loc)) (s : pstate) : pstate :=
    mkP (p_tokens s) (p_pos s) (p_cur s) (p_depth s) (p_ctx s) (p_cancel s) ps (p_strict s) (p_dialect s).
  (* p.ctx = c together with p.cancelErr = nil: ParseContext sets both when it starts and its deferred cleanup
     clears both, so cancelErr is nil whenever an entry point returns *)
  Definition set_ctx (c : option cx) (s : pstate) : pstate :=
    mkP (p_tokens s) (p_pos s) (p_cur s) (p_depth s) c false (p_positions s) (p_strict s) (p_dialect s).
  (* the cursor after the loop; currentToken follows it while it is inside the token slice (advance()) *)
  Definition set_cursor (p : nat) (s : pstate) : pstate :=
    mkP (p_tokens s) p
        (if p <? length (p_tokens s) then tclass (p_tokens s) p
         else match rev (p_tokens s) with t :: _ => t | [] => p_cur s end)
        (p_depth s) (p_ctx s) (p_cancel s) (p_positions s) (p_strict s) (p_dialect s).
  Definition drop_positions (s : pstate) : pstate :=
    if d_stale_positions D then s else set_positions None s.

  Definition apply_opt (s : pstate) (o : popt) : pstate :=
    match o with
    | WithStrict => mkP (p_tokens s) (p_pos s) (p_cur s) (p_depth s) (p_ctx s) (p_cancel s) (p_positions s) true (p_dialect s)
    | WithDialect d => mkP (p_tokens s) (p_pos s) (p_cur s) (p_depth s) (p_ctx s) (p_cancel s) (p_positions s) (p_strict s) d
    end.

  Definition fuel_of (toks : list tok) := S (length toks).

  (* depth: every depth++ has its deferred depth-- (checked: Gen/CallGraphTable depth_inc = depth_defer_dec, and the
     harness reads depth after every call), so an entry point returns with the depth it was entered with *)
  Definition psem (o : pop) (x : pin) (s : pstate) : pstate * presult :=
    match o with
    | OParse =>
        if i_convfail x then (s, RConvErr) else
        let s1 := load_tokens (i_toks x) (drop_positions s) in
        let (r, p) := parse_at (view_of s1) (p_strict s1) (fuel_of (i_toks x)) 0 [] in
        (set_cursor p s1, RTrees r (match r with PErr c => if N.eqb c E_STRICT then loc_at (p_positions s1) p else (0, 0)
                                               | _ => (0, 0) end))
    | OParsePos =>
        if i_convfail x then (s, RConvErr) else
        let s1 := load_tokens (i_toks x) (set_positions (Some (i_poss x)) s) in
        let (r, p) := parse_at (view_of s1) (p_strict s1) (fuel_of (i_toks x)) 0 [] in
        (set_cursor p s1, RTrees r (match r with PErr _ => loc_at (p_positions s1) p | _ => (0, 0) end))
    | OParseCtx =>
        if i_convfail x then (s, RConvErr) else
        if ctx_done0 (i_ctx x) then (s, RCtxErr) else
        let s1 := load_tokens (i_toks x) (drop_positions (set_ctx (Some (i_ctx x)) s)) in
        let (r, p) := parse_at (view_of s1) (p_strict s1) (fuel_of (i_toks x)) 0 [] in
        (set_ctx None (set_cursor p s1),                                 (* defer func() { p.ctx = nil }() *)
         RTrees r (match r with PErr _ => loc_at (p_positions s1) p | _ => (0, 0) end))
    | ORecover =>
        let s1 := load_tokens (i_toks x) (drop_positions s) in
        let toks := i_toks x in
        (set_cursor (REC_END (view_of s1)) s1,
         RRec (recover nat (length toks) (is_eof_t toks) (is_semi_t toks) (starts_t toks) (PS (view_of s1))
                       (fuel_of toks) 0 [] [] None))
    | ORecoverPos =>
        if i_convfail x then (s, RConvErr) else
        let s1 := load_tokens (i_toks x) (set_positions (Some (i_poss x)) s) in
        let toks := i_toks x in
        (set_cursor (REC_END (view_of s1)) s1,
         RRec (recover nat (length toks) (is_eof_t toks) (is_semi_t toks) (starts_t toks) (PS (view_of s1))
                       (fuel_of toks) 0 [] [] None))
    | OApply => (fold_left apply_opt (i_opts x) s, RNone)
    | OReset | OPutGet =>
        (mkP [] 0 0 0 None false None false (if d_reset_keeps_dialect D then p_dialect s else 0), RNone)
    | ORelease =>
        if d_release_keeps_cfg D
        then (mkP [] 0 0 0 None false (p_positions s) (p_strict s) (p_dialect s), RNone)
        else (mkP [] 0 0 0 None false None false 0, RNone)
    end.

  (* ---- the footprint table of the operations above (hand-written; ReuseP proves psem respects it, Inst_C08
          compares it with the table regenerated from the Go source) ---- *)
  Definition pkind (o : pop) : okind :=
    match o with
    | OApply => Config
    | OReset | ORelease | OPutGet => Boundary
    | _ => Work
    end.

  Definition is_entry (o : pop) : bool :=
    match o with OParse | OParsePos | OParseCtx | ORecover | ORecoverPos => true | _ => false end.
  Definition sets_positions (o : pop) : bool := match o with OParsePos | ORecoverPos => true | _ => false end.
  Definition strict_aware (o : pop) : bool := match o with OParse | OParsePos | OParseCtx => true | _ => false end.

  Definition preads (o : pop) (f : pfield) : bool :=
    match f with
    | FTokens | FPos => false                     (* overwritten first by every entry point *)
    | FCur => false                               (* overwritten when the slice is non-empty; not consulted when it is
                                                     empty (cursor bound checked first) — see cur_guarded in ReuseP *)
    | FDepth => is_entry o
    | FCtx => match o with OParse | OParsePos | ORecover | ORecoverPos => true | _ => false end
    | FCancel => match o with OParse | OParsePos | ORecover | ORecoverPos => true | _ => false end
                                                  (* pollContext consults cancelErr first; ParseContext assigns it first *)
    | FPositions => is_entry o && negb (sets_positions o) && d_stale_positions D
    | FStrict => strict_aware o || (match o with OApply => true | _ => false end)
    | FDialect => is_entry o || (match o with OApply => true | _ => false end)
    end.

  Definition peff (o : pop) (f : pfield) : effect :=
    match pkind o with
    | Work =>
        match f with
        | FTokens | FPos | FCur => Any
        | FDepth => Keep
        | FCtx => match o with OParseCtx => KZ | _ => Keep end       (* nil again, or untouched when the call returned early *)
        | FCancel => match o with OParseCtx => KZ | _ => Keep end    (* cleared with ctx *)
        | FPositions => if sets_positions o then Any else if d_stale_positions D then Keep else KZ
        | FStrict | FDialect => Keep
        end
    | Config => match f with FStrict | FDialect => Det | _ => Keep end
    | Boundary =>
        match o, f with
        | ORelease, (FPositions | FStrict | FDialect) => if d_release_keeps_cfg D then Keep else Zero
        | (OReset | OPutGet), FDialect => if d_reset_keeps_dialect D then Keep else Zero
        | _, _ => Zero
        end
    end.

  Definition ptable : footprint pfield pop := mkFP all_pfields all_pops pkind preads peff.
End Parser.

(* ------------------------------------------------------------------------------------------- *)
(* Part 3: the tokenizer                                                                        *)

Record tstate := mkT {
  t_input : option (list N); t_pos : nat * nat * nat (* index, line, column *); t_lineStart : nat * nat * nat;
  t_lineStarts : list nat; t_line : nat; t_keywords : nat (* identity of the keyword set *); t_dialect : nat;
  t_logger : bool; t_comments : list nat; t_configured : bool;
  t_loc : option (nat * nat * nat) (* resume point of toSQLPosition: index, line index, column; None = invalid *) }.
Definition DEFAULT_DIALECT := 1.      (* "postgresql" *)
Definition DEFAULT_KEYWORDS := 0.     (* keywords.NewKeywords() *)
Definition fresh_t : tstate := mkT None (0, 1, 1) (0, 0, 0) [0] 0 DEFAULT_KEYWORDS DEFAULT_DIALECT false [] false None.

Inductive tfield := TInput | TPos | TLineStart | TLineStarts | TLine | TKeywords | TDialect | TLogger | TConfigured | TLoc | TComments.
Definition all_tfields := [TInput; TPos; TLineStart; TLineStarts; TLine; TKeywords; TDialect; TLogger; TConfigured; TLoc; TComments].
Definition tfield_name (f : tfield) : String.string :=
  match f with
  | TInput => "input" | TPos => "pos" | TLineStart => "lineStart" | TLineStarts => "lineStarts" | TLine => "line"
  | TKeywords => "keywords" | TDialect => "dialect" | TLogger => "logger" | TComments => "Comments"
  | TConfigured => "configured" | TLoc => "loc"
  end%string.
Definition tfeq (f : tfield) (a b : tstate) : Prop :=
  match f with
  | TInput => t_input a = t_input b | TPos => t_pos a = t_pos b | TLineStart => t_lineStart a = t_lineStart b
  | TLineStarts => t_lineStarts a = t_lineStarts b | TLine => t_line a = t_line b
  | TKeywords => t_keywords a = t_keywords b | TDialect => t_dialect a = t_dialect b
  | TLogger => t_logger a = t_logger b | TComments => t_comments a = t_comments b
  | TConfigured => t_configured a = t_configured b | TLoc => t_loc a = t_loc b
  end.

Inductive top :=
| OTokenize | OTokenizeCtx
| OSetDialect | OSetLogger
| OTReset                     (* Tokenizer.Reset: per-run state only; the holder's dialect stays *)
| OTPutGet.                   (* PutTokenizer then GetTokenizer *)
Definition all_tops := [OTokenize; OTokenizeCtx; OSetDialect; OSetLogger; OTReset; OTPutGet].
Definition top_methods (o : top) : list String.string :=
  match o with
  | OTokenize => ["Tokenize"] | OTokenizeCtx => ["TokenizeContext"] | OSetDialect => ["SetDialect"]
  | OSetLogger => ["SetLogger"] | OTReset => ["Reset"] | OTPutGet => ["PutTokenizer"]
  end%string.

Record tin := mkTIn {
  ti_input : list N; ti_too_large : bool (* len(input) > MaxInputSize *); ti_ctx : cx; ti_dialect : nat; ti_logger : bool }.

Record tflags := mkTD {
  td_put_keeps_dialect : bool;        (* PutTokenizer leaves dialect / keywords of the previous holder *)
  td_early_return_keeps_comments : bool }.  (* Tokenize returns before Reset (oversized input, context already done) *)
Definition no_tdefects := mkTD false false.

(* the outcome of a tokenizer call: (tokens-or-error, the Comments the caller finds on the instance) *)
Definition tresult := (nat * list nat)%type.

Section Tokenizer.
  Variable D : tflags.
  (* the lexer proper: tokens / error, comments, final cursor, line table — functions of the input bytes (and of the
     context for TokenizeContext) only: identifiers are classified with the package-level keyword map, the
     instance's keywords / dialect are not consulted *)
  Variable LEX : option cx -> list N -> nat * list nat * (nat * nat * nat) * list nat.
  Variable tctx_done0 : cx -> bool.
  Variable kw_of_dialect : nat -> nat.     (* keywords.New(dialect, true): a different keyword set per dialect, never the default one *)

  Definition t_reset (s : tstate) : tstate :=
    mkT None (0, 1, 1) (0, 0, 0) [0] 0 (t_keywords s) (t_dialect s) false [] (t_configured s) None.

  Definition tokenize (c : option cx) (x : tin) (s : tstate) : tstate * tresult :=
    let s0 := t_reset s in
    let '(r, cms, pos, ls) := LEX c (ti_input x) in
    (mkT (Some (ti_input x)) pos (0, 0, 0) ls 0 (t_keywords s0) (t_dialect s0) false cms (t_configured s0) (Some pos), (r, cms)).

  Definition early (s : tstate) (code : nat) : tstate * tresult :=
    if td_early_return_keeps_comments D then (s, (code, t_comments s))
    else let s0 := t_reset s in (s0, (code, [])).

  Definition tsem (o : top) (x : tin) (s : tstate) : tstate * tresult :=
    match o with
    | OTokenize => if ti_too_large x then early s 1 else tokenize None x s
    | OTokenizeCtx =>
        if tctx_done0 (ti_ctx x) then early s 2
        else if ti_too_large x then early s 1 else tokenize (Some (ti_ctx x)) x s
    | OSetDialect =>
        (mkT (t_input s) (t_pos s) (t_lineStart s) (t_lineStarts s) (t_line s) (kw_of_dialect (ti_dialect x))
             (ti_dialect x) (t_logger s) (t_comments s) true (t_loc s), (0, []))
    | OSetLogger =>
        (mkT (t_input s) (t_pos s) (t_lineStart s) (t_lineStarts s) (t_line s) (t_keywords s) (t_dialect s)
             (ti_logger x) (t_comments s) (t_configured s) (t_loc s), (0, []))
    | OTReset => (t_reset s, (0, []))
    | OTPutGet =>
        let s0 := t_reset s in
        if td_put_keeps_dialect D then (s0, (0, []))
        else (mkT None (0, 1, 1) (0, 0, 0) [0] 0 DEFAULT_KEYWORDS DEFAULT_DIALECT false [] false None, (0, []))
    end.

  Definition tkind (o : top) : okind :=
    match o with
    | OSetDialect | OSetLogger => Config
    | OTPutGet => Boundary
    | _ => Work
    end.
  Definition treads (o : top) (f : tfield) : bool :=
    match o, f with
    | (OTokenize | OTokenizeCtx), TComments => td_early_return_keeps_comments D
    | OTPutGet, TConfigured => true     (* PutTokenizer restores the defaults only when the holder changed them *)
    | _, _ => false
    end.
  Definition teff (o : top) (f : tfield) : effect :=
    match o with
    | OTokenize | OTokenizeCtx =>
        match f with
        | TKeywords | TDialect | TConfigured => Keep
        | TLineStart | TLine | TLogger => if td_early_return_keeps_comments D then KZ else Zero
        | _ => Any
        end
    | OSetDialect => match f with TKeywords | TDialect | TConfigured => Det | _ => Keep end
    | OSetLogger => match f with TLogger => Det | _ => Keep end
    | OTReset => match f with TKeywords | TDialect | TConfigured => Keep | _ => Zero end
    | OTPutGet => match f with
                  | TKeywords | TDialect | TConfigured => if td_put_keeps_dialect D then Keep else Zero
                  | _ => Zero
                  end
    end.
  Definition ttable : footprint tfield top := mkFP all_tfields all_tops tkind treads teff.
End Tokenizer.

(* ------------------------------------------------------------------------------------------- *)
(* Part 4: abstract dirtiness of a history, from a footprint table alone                         *)

(* per field: 0 = as in a new instance, 1 = possibly different.  Keep keeps, Zero clears, Det sets possibly-dirty.
   The harness observes the real instance after every operation: a field the table calls clean must be equal to
   the new instance's, a field the table calls Keep must be unchanged by that operation. *)
Section Dirty.
  Variables field op : Type.
  Variable T : footprint field op.
  Definition dstep (d : list bool) (o : op) : list bool :=
    map (fun fd => match fp_eff T o (fst fd) with Keep | KZ => snd fd | Zero => false | Det | Any => true end)
        (combine (fp_fields T) d).
  Definition dstart : list bool := map (fun _ => false) (fp_fields T).
  (* observation after each operation: per field (differs-from-new, changed-by-this-operation) *)
  Fixpoint dcheck (d : list bool) (h : list (op * list (bool * bool))) : bool :=
    match h with
    | [] => true
    | (o, obs) :: r =>
        let d' := dstep d o in
        forallb (fun x => let '(f, dm, (od, oc)) := x in
                          (dm || negb od) &&
                          (match fp_eff T o f with Keep => negb oc | _ => true end))
                (combine (combine (fp_fields T) d') obs)
        && dcheck d' r
    end.
End Dirty.
Arguments dstep {field op}. Arguments dstart {field op}. Arguments dcheck {field op}.

(* ------------------------------------------------------------------------------------------- *)
(* Part 5: compatibility of a footprint table with the field-effect table regenerated from the Go source *)

(* per (method, field): incoming value may be read; store class 0 none, 1 balanced (inc + deferred dec), 2 must (assigned on
   every path), 3 zero-or-keep, 4 may; all stores store the zero value *)
Definition fxcell := (bool * (nat * bool))%type.
Definition fxrow := (String.string * list (String.string * fxcell))%type.

Fixpoint assoc {A} (k : String.string) (l : list (String.string * A)) : option A :=
  match l with
  | [] => None
  | (k', v) :: r => if String.eqb k k' then Some v else assoc k r
  end.
Fixpoint strs_eqb (a b : list String.string) : bool :=
  match a, b with
  | [], [] => true
  | x :: r, y :: r' => String.eqb x y && strs_eqb r r'
  | _, _ => false
  end.

Definition eff_compat (need_zero_consts : bool) (e : effect) (c : fxcell) : bool :=
  let '(_, (cls, az)) := c in
  match e with
  | Keep => (cls =? 0) || (cls =? 1)
  | Zero => (cls =? 2) && (az || negb need_zero_consts)
  | KZ => (cls =? 0) || (cls =? 1) || (cls =? 3) || ((cls =? 2) && az)
  | Det | Any => true
  end.

(* the struct field that plays the role a model field is named after: Gen/FieldFx.v lists (role, current name); the
   roles are found from the types and uses of the fields (tools/gotables/roles.go), the depth counter by the C02
   recogniser.  A role the list does not mention keeps its own name. *)
Definition role_name {field} (roles : list (String.string * String.string)) (fname : field -> String.string)
  (f : field) : String.string :=
  match assoc (fname f) roles with Some n => n | None => fname f end.

Fixpoint str_mem (x : String.string) (l : list String.string) : bool :=
  match l with [] => false | y :: r => String.eqb x y || str_mem x r end.
Fixpoint str_nodup (l : list String.string) : bool :=
  match l with [] => true | x :: r => negb (str_mem x r) && str_nodup r end.

(* the footprint a regenerated cell stands for: class 0 none / 1 balanced: Keep; 2 must: Zero when every store stores the
   zero value, otherwise Det (the stored value is a function of the input and of the incoming values the method reads,
   which the reads column over-approximates); 3 zero-or-keep: KZ; 4 may: no claim *)
Definition eff_of_cell (c : fxcell) : effect :=
  let '(_, (cls, az)) := c in
  match cls with
  | 0 | 1 => Keep
  | 2 => if az then Zero else Det
  | 3 => KZ
  | _ => Any
  end.
Definition eff_join (a b : effect) : effect :=
  if effect_eqb a b then a else
  match a, b with
  | (Keep | Zero | KZ), (Keep | Zero | KZ) => KZ
  | _, _ => Any
  end.

Section Compat.
  Variables field op : Type.
  Variable T : footprint field op.
  Variable fname : field -> String.string.              (* current name of the struct field a model field stands for *)
  Variable methods : op -> list String.string.          (* the Go methods an operation of the model stands for *)
  Variable guard_r guard_w : op -> field -> bool.       (* hand-justified cells (listed in design/C08.md) *)
  Variable need_zero_consts : bool.                     (* a new instance is the Go zero value *)
  Variable gen_fields : list String.string.
  Variable gen : list fxrow.

  Definition cell_compat (o : op) (m : String.string) (f : field) : bool :=
    match assoc m gen with
    | None => false
    | Some row =>
        match assoc (fname f) row with
        | None => false
        | Some c => implb (fst c) (fp_reads T o f || guard_r o f) &&
                    (eff_compat need_zero_consts (fp_eff T o f) c || guard_w o f)
        end
    end.
  Definition known_method (m : String.string) : bool :=
    existsb (fun o => existsb (String.eqb m) (methods o)) (fp_ops T).

  (* ---- struct fields no model field stands for (a field added to the struct): the model needs no column for such a
          field when the footprint table EXTENDED by the field's regenerated column still satisfies the generic
          read-before-write condition [table_ok] (the hypothesis of C08_no_carry_over_any_implementation): the field is
          dead on entry of every method, or it is well behaved (work keeps it, every boundary operation zeroes it) ---- *)
  Definition model_names : list String.string := map fname (fp_fields T).
  Definition extras : list String.string := filter (fun n => negb (str_mem n model_names)) gen_fields.
  Definition xcells (o : op) (e : String.string) : list (option fxcell) :=
    map (fun m => match assoc m gen with Some row => assoc e row | None => None end) (methods o).
  Definition xreads (o : op) (e : String.string) : bool :=
    existsb (fun c => match c with Some c => fst c | None => true end) (xcells o e).
  Definition xeff (o : op) (e : String.string) : effect :=
    match xcells o e with
    | [] => Any
    | c :: r => fold_left (fun a c => eff_join a (match c with Some c => eff_of_cell c | None => Any end)) r
                          (match c with Some c => eff_of_cell c | None => Any end)
    end.
  Definition ext_table : footprint (field + String.string) op :=
    mkFP (map inl (fp_fields T) ++ map inr extras) (fp_ops T) (fp_kind T)
         (fun o f => match f with inl f => fp_reads T o f | inr e => xreads o e end)
         (fun o f => match f with inl f => fp_eff T o f | inr e => xeff o e end).
  Definition extras_ok : bool :=
    forallb (fun e => implb (live ext_table (inr e)) (wb ext_table (inr e))) extras.

  (* an exported method the model has no operation for must be a getter of well-behaved fields *)
  Definition getter_ok (row : fxrow) : bool :=
    forallb (fun f => match assoc (fname f) (snd row) with
                      | None => false
                      | Some (r, (cls, _)) => (cls =? 0) && implb r (wb T f)
                      end) (fp_fields T) &&
    forallb (fun e => match assoc e (snd row) with
                      | None => false
                      | Some (r, (cls, _)) => (cls =? 0) && implb r (wb ext_table (inr e))
                      end) extras.
  (* every model field is played by exactly one struct field; the struct's other fields pass [extras_ok] *)
  Definition names_ok : bool :=
    str_nodup model_names && forallb (fun n => str_mem n gen_fields) model_names && str_nodup gen_fields.
  Definition fx_compat : bool :=
    names_ok && extras_ok &&
    forallb (fun o => forallb (fun m => forallb (cell_compat o m) (fp_fields T)) (methods o)) (fp_ops T) &&
    forallb (fun row => known_method (fst row) || getter_ok row) gen.
  (* diagnostics: the (method, field) cells that are not compatible, the unmodelled methods, the extra fields that
     are live without being well behaved, the model fields no struct field plays *)
  Definition fx_bad_cells : list (String.string * String.string) :=
    flat_map (fun o => flat_map (fun m => flat_map (fun f => if cell_compat o m f then [] else [(m, fname f)]) (fp_fields T))
                                (methods o)) (fp_ops T) ++
    flat_map (fun row => if known_method (fst row) || getter_ok row then [] else [(fst row, "(unmodelled method)"%string)]) gen ++
    flat_map (fun e => if implb (live ext_table (inr e)) (wb ext_table (inr e)) then []
                       else [("(extra field: its incoming value is read and it is not well behaved)"%string, e)]) extras ++
    flat_map (fun n => if str_mem n gen_fields then [] else [("(model field played by no struct field)"%string, n)]) model_names.
End Compat.
Arguments fx_compat {field op}. Arguments fx_bad_cells {field op}. Arguments ext_table {field op}. Arguments extras {field op}.
Arguments extras_ok {field op}.

(* hand-justified cells.  Parser: currentToken is stored only when the token slice is non-empty and is not consulted
   when it is empty (lemma cur_guarded; probes with empty / nil / EOF-less slices).  Tokenizer: Reset uses only cap() and
   [:0] of the incoming lineStarts (its elements are never read); PutTokenizer restores keywords / dialect / configured
   under the configured flag, which every operation that changes them sets (reflect oracle after every Put). *)
Definition pguard_r (o : pop) (f : pfield) : bool :=
  match f with FCur => match o with OParse | OParsePos | OParseCtx | ORecover | ORecoverPos => true | _ => false end | _ => false end.
(* Parser, cancelErr: its only non-nil stores (pollContext, advance) are under `p.ctx != nil`, and ctx is nil in every
   entry point except ParseContext (FCtx row above), which assigns cancelErr = nil before its first poll and again in
   its deferred cleanup together with ctx; the flow-insensitive store classes of the translator ("may") cannot see the
   guard.  The per-field dirtiness correspondence observes cancelErr == nil after every operation of every history. *)
Definition pguard_w (o : pop) (f : pfield) : bool :=
  match f with FCancel => match o with OParse | OParsePos | OParseCtx | ORecover | ORecoverPos => true | _ => false end | _ => false end.
Definition tguard_r (o : top) (f : tfield) : bool := match f with TLineStarts => true | _ => false end.
Definition tguard_w (o : top) (f : tfield) : bool :=
  match o, f with OTPutGet, (TKeywords | TDialect | TConfigured) => true | _, _ => false end.

Fixpoint bad_indices {A} (chk : A -> bool) (i : N) (l : list A) : list N :=
  match l with
  | [] => []
  | x :: r => if chk x then bad_indices chk (i + 1)%N r else i :: bad_indices chk (i + 1)%N r
  end.
