(* ErrFlow.v — error values of the tokenizer, parser and gosqlx packages as terms, and the set of terms that
   can arrive at a function's error result, given the table of all error construction / wrapping sites and
   the value-flow edges between them (Gen/ErrSites.v, regenerated from go/ssa on every run).

   A node of the table is either the error result of a function (KFun: pass-through, the union of what its
   return statements can evaluate to) or a construction site:
     KLeaf     pkg/errors builder, code n_code, no cause kept            errors.As finds it, Unwrap = nil
     KCause    builder + WithCause / WrapError: cause kept               Unwrap = cause
     KWrapw    fmt.Errorf("...%w", e) / an error struct with Unwrap      Unwrap = e
     KRewrapv  a new error whose TEXT contains another error (%v, .Error()): the chain is cut.
               n_code = 0 when the new error is not structured (fmt.Errorf("...%v", err))
     KBare     fmt.Errorf without error operand, errors.New
     KCtx      ctx.Err(): a poll of the context
     KUnknown  a value the translator could not track (treated like KBare)
   n_inner: nodes whose value is kept (wrapped / passed through); n_dropped: nodes whose value only
   contributes its text. *)
From Coq Require Import List NArith Bool.
Import ListNotations.
Local Open Scope N_scope.

Inductive kind := KFun | KLeaf | KCtx | KBare | KWrapw | KRewrapv | KCause | KUnknown.

Record node := mkNode {
  n_id : N;
  n_kind : kind;
  n_origin : N;        (* 1 tokenizer, 2 parser, 3 gosqlx *)
  n_code : N;          (* 1001 for E1001 ...; 0 = none *)
  n_limit : N;         (* 0 none; 1 MaxRecursionDepth, 2 MaxTokens, 3 MaxInputSize: the site is the true branch of that check *)
  n_inner : list N;
  n_dropped : list N }.

Definition table := list node.

Definition mem (x : N) (l : list N) : bool := existsb (N.eqb x) l.
Definition subset (a b : list N) : bool := forallb (fun x => mem x b) a.

(* ---- error values ---------------------------------------------------------------------------------- *)
(* every constructor carries the id of the site that built it *)
Inductive err :=
| Leaf (s code : N)
| CtxErr (s : N)
| Bare (s : N)
| Wrapw (s : N) (e : err)
| Rewrapv (s code : N) (e : err)
| Cause (s code : N) (e : err).

(* pkg/errors.Error{Code, Cause}: the two structured forms *)
Definition Structured (s code : N) (cause : option err) : err :=
  match cause with None => Leaf s code | Some e => Cause s code e end.

(* errors.Unwrap *)
Definition unwrap (e : err) : option err :=
  match e with
  | Wrapw _ e' | Cause _ _ e' => Some e'
  | _ => None
  end.

(* what errors.As(err, **errors.Error) finds: the first structured error of the Unwrap chain (site, code) *)
Fixpoint as_structured (e : err) : option (N * N) :=
  match e with
  | Leaf s c | Cause s c _ => Some (s, c)
  | Rewrapv s c _ => if c =? 0 then None else Some (s, c)
  | Wrapw _ e' => as_structured e'
  | CtxErr _ | Bare _ => None
  end.

(* errors.Is(err, context.Canceled / DeadlineExceeded): follows %w and Cause, not a re-wrap by text *)
Fixpoint is_ctx (e : err) : bool :=
  match e with
  | CtxErr _ => true
  | Wrapw _ e' | Cause _ _ e' => is_ctx e'
  | _ => false
  end.

(* the error this one was ultimately made from *)
Fixpoint leaf_of (e : err) : err :=
  match e with
  | Wrapw _ e' | Rewrapv _ _ e' | Cause _ _ e' => leaf_of e'
  | _ => e
  end.
Definition has_ctx_leaf (e : err) : bool := match leaf_of e with CtxErr _ => true | _ => false end.

(* every error that went into the making of e, and those reachable with repeated errors.Unwrap *)
Fixpoint subterms (e : err) : list err :=
  e :: match e with
       | Wrapw _ e' | Rewrapv _ _ e' | Cause _ _ e' => subterms e'
       | _ => []
       end.
Fixpoint chain (e : err) : list err :=
  e :: match e with
       | Wrapw _ e' | Cause _ _ e' => chain e'
       | _ => []
       end.

Definition site_of (e : err) : N :=
  match e with
  | Leaf s _ | CtxErr s | Bare s | Wrapw s _ | Rewrapv s _ _ | Cause s _ _ => s
  end.
Definition sites (e : err) : list N := map site_of (subterms e).
(* e was built without any site of the exception list X *)
Definition uses_no (X : list N) (e : err) : bool := forallb (fun s => negb (mem s X)) (sites e).

(* codes exposed along the Unwrap chain (what a caller walking the chain with errors.As sees) *)
Fixpoint chain_codes (e : err) : list N :=
  match e with
  | Leaf _ c => [c]
  | Cause _ c e' => c :: chain_codes e'
  | Rewrapv _ c _ => if c =? 0 then [] else [c]
  | Wrapw _ e' => chain_codes e'
  | CtxErr _ | Bare _ => []
  end.

(* ---- which errors can arrive at a node -------------------------------------------------------------- *)
Inductive derives (T : table) : N -> err -> Prop :=
| D_leaf n : In n T -> n_kind n = KLeaf -> derives T (n_id n) (Leaf (n_id n) (n_code n))
| D_ctx n : In n T -> n_kind n = KCtx -> derives T (n_id n) (CtxErr (n_id n))
| D_bare n : In n T -> n_kind n = KBare -> derives T (n_id n) (Bare (n_id n))
| D_unknown n : In n T -> n_kind n = KUnknown -> derives T (n_id n) (Bare (n_id n))
| D_fun n m e : In n T -> n_kind n = KFun -> In m (n_inner n) -> derives T m e -> derives T (n_id n) e
| D_wrapw n m e : In n T -> n_kind n = KWrapw -> In m (n_inner n) -> derives T m e ->
                  derives T (n_id n) (Wrapw (n_id n) e)
| D_cause n m e : In n T -> n_kind n = KCause -> In m (n_inner n) -> derives T m e ->
                  derives T (n_id n) (Cause (n_id n) (n_code n) e)
| D_rewrapv n m e : In n T -> n_kind n = KRewrapv -> In m (n_dropped n) -> derives T m e ->
                    derives T (n_id n) (Rewrapv (n_id n) (n_code n) e).

(* ---- code families ------------------------------------------------------------------------------------ *)
Definition between (lo hi c : N) : bool := (lo <=? c) && (c <=? hi).
Definition tokenizer_code (c : N) : bool := between 1001 1008 c.
Definition parser_code (c : N) : bool := between 2001 2012 c || between 4001 4002 c.
Definition documented_code (c : N) : bool :=
  tokenizer_code c || between 2001 2012 c || between 3001 3004 c || between 4001 4002 c.
Definition limit_code (l : N) : N :=
  match l with 1 => 2007 | 2 => 1007 | 3 => 1006 | _ => 0 end.

(* lexical problems carry a tokenizer code, grammar problems a parser code, limit checks their dedicated code *)
Definition family_ok (origin limit code : N) : bool :=
  (match origin with
   | 1 => tokenizer_code code
   | 2 => parser_code code
   | _ => documented_code code
   end) && ((limit =? 0) || (code =? limit_code limit)).
Definition node_family_ok (n : node) : bool := family_ok (n_origin n) (n_limit n) (n_code n).

(* ---- decidable conditions on a table ------------------------------------------------------------------- *)
(* B: nodes that may evaluate to an error without a structured error in its chain (witness computed by the
   emitter; the check below makes it an inductive invariant).  X: exception list (known findings). *)
Definition local_ok (X B : list N) (n : node) : bool :=
  match n_kind n with
  | KFun => forallb (fun m => negb (mem m B)) (n_inner n)
  | KLeaf | KCause => mem (n_id n) X || node_family_ok n
  | KRewrapv => mem (n_id n) X || (negb (n_code n =? 0) && node_family_ok n)
  | KCtx => true
  | KBare | KUnknown => mem (n_id n) X
  | KWrapw => mem (n_id n) X || forallb (fun m => negb (mem m B)) (n_inner n)
  end.
Definition site_table_ok (X B api : list N) (T : table) : bool :=
  forallb (fun n => mem (n_id n) B || local_ok X B n) T && forallb (fun a => negb (mem a B)) api.

Definition is_rewrap (n : node) : bool := match n_kind n with KRewrapv => true | _ => false end.
Definition no_rewrap (X : list N) (T : table) : bool :=
  forallb (fun n => negb (is_rewrap n) || mem (n_id n) X) T.

(* F: nodes that can never evaluate to an error made from a context error (witness; invariant below) *)
Definition ctx_free_ok (F : list N) (T : table) : bool :=
  forallb (fun n => negb (mem (n_id n) F) ||
                    (match n_kind n with KCtx => false | _ => true end
                     && subset (n_inner n) F && subset (n_dropped n) F)) T.
(* no site on a path from a poll to an API boundary rebuilds the error from its text *)
Definition no_rewrap_on_poll_paths (X F : list N) (T : table) : bool :=
  forallb (fun n => mem (n_id n) X || subset (n_dropped n) F) T.
(* no error that may come from a poll is observed and thrown away (discards: (function node, source node)) *)
Definition no_discard_on_poll_paths (F : list N) (D : list (N * N)) : bool :=
  forallb (fun d => mem (snd d) F) D.

(* ---- evaluation of observed chains (correspondence) ---------------------------------------------------- *)
(* an observed error, as the harness sees it by repeated errors.Unwrap: per element of the chain its shape
   0 = *errors.Error (with code), 1 = other wrapper with Unwrap, 2 = context error, 3 = other terminal *)
Definition oshape := list (N * N).

Definition lookup (T : table) (i : N) : option node := find (fun n => n_id n =? i) T.

(* nodes that can evaluate to some error value: least fixed point, computed by iteration *)
Definition inh_step (T : table) (S : list N) : list node :=
  filter (fun n => negb (mem (n_id n) S) &&
                   match n_kind n with
                   | KLeaf | KCtx | KBare | KUnknown => true
                   | KFun | KWrapw | KCause => existsb (fun m => mem m S) (n_inner n)
                   | KRewrapv => existsb (fun m => mem m S) (n_dropped n)
                   end) T.
Fixpoint inh_close (T : table) (fuel : nat) (S : list N) : list N :=
  match fuel with
  | O => S
  | Datatypes.S f => match inh_step T S with
                     | [] => S
                     | new => inh_close T f (map n_id new ++ S)
                     end
  end.
Definition inhab_set (T : table) : list N := inh_close T (length T) [].

(* Which nodes can produce the chain sh?  Computed from the end of the chain: the nodes matching the last
   element, then for each earlier element the wrapping sites over a node of the previous set, each time closed
   under pass-through (function results).  Non-structured chain elements carry 0 in the code position. *)
Definition term_match (I : list N) (n : node) (k c : N) : bool :=
  match n_kind n with
  | KLeaf => (k =? 0) && (c =? n_code n)
  | KCtx => (k =? 2) && (c =? 0)
  | KBare | KUnknown => (k =? 3) && (c =? 0)
  | KRewrapv => (if n_code n =? 0 then (k =? 3) && (c =? 0) else (k =? 0) && (c =? n_code n))
                && existsb (fun m => mem m I) (n_dropped n)
  | _ => false
  end.
Definition wrap_match (n : node) (k c : N) : bool :=
  match n_kind n with
  | KWrapw => (k =? 1) && (c =? 0)
  | KCause => (k =? 0) && (c =? n_code n)
  | _ => false
  end.
Definition is_fun (n : node) : bool := match n_kind n with KFun => true | _ => false end.
Definition fun_step (T : table) (S : list N) : list node :=
  filter (fun n => is_fun n && negb (mem (n_id n) S) && existsb (fun m => mem m S) (n_inner n)) T.
Fixpoint close (T : table) (fuel : nat) (S : list N) : list N :=
  match fuel with
  | O => S
  | Datatypes.S f => match fun_step T S with
                     | [] => S
                     | new => close T f (map n_id new ++ S)
                     end
  end.
Fixpoint prod_set (T : table) (I : list N) (sh : oshape) : list N :=
  match sh with
  | [] => []
  | (k, c) :: rest =>
      close T (length T)
        (match rest with
         | [] => map n_id (filter (fun n => term_match I n k c) T)
         | _ => let S := prod_set T I rest in
                map n_id (filter (fun n => wrap_match n k c && existsb (fun m => mem m S) (n_inner n)) T)
         end)
  end.
Definition produces (T : table) (i : N) (sh : oshape) : bool := mem i (prod_set T (inhab_set T) sh).
(* one correspondence case: a chain shape and the nodes (entry points) it was observed at *)
Definition shape_case_ok (T : table) (c : oshape * list N) : bool :=
  let S := prod_set T (inhab_set T) (fst c) in forallb (fun i => mem i S) (snd c).

(* the shape the harness observes for an error value *)
Fixpoint shape_of (e : err) : oshape :=
  match e with
  | Leaf _ c => [(0, c)]
  | Cause _ c e' => (0, c) :: shape_of e'
  | Wrapw _ e' => (1, 0) :: shape_of e'
  | Rewrapv _ c _ => if c =? 0 then [(3, 0)] else [(0, c)]
  | CtxErr _ => [(2, 0)]
  | Bare _ => [(3, 0)]
  end.

(* is_ctx / as_structured read off an observed shape (what errors.Is / errors.As report) *)
Fixpoint shape_is_ctx (sh : oshape) : bool :=
  match sh with
  | [] => false
  | (k, _) :: rest => if k =? 2 then true else if (k =? 3) then false else shape_is_ctx rest
  end.

Fixpoint bad_cases {A} (f : A -> bool) (i : N) (l : list A) : list N :=
  match l with
  | [] => []
  | x :: r => if f x then bad_cases f (i + 1) r else i :: bad_cases f (i + 1) r
  end.
