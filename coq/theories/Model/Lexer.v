(* Lexer.v — byte-level executable model of pkg/sql/tokenizer/tokenizer.go (Tokenize and everything it calls),
   written branch by branch from the Go source.  Definitions only.

   Representation.  Input text is [list N] (bytes).  A cursor [cur] is the pair (remaining input from
   t.pos.Index, t.pos.Index).  The incremental Line/Column fields of the Go Position are dead state (since
   repo commit 5f36bb3 every location is computed from the byte index by toSQLPosition) and are not modelled.
   Everything the Go code obtains
   by slicing t.input[a:t.pos.Index] with [a] an earlier value of the cursor is the list of bytes consumed
   between the two cursors (the cursor only moves forward: Proofs/LexerP.v idx lemmas).
   Partial operations: every t.input[...] index is a pattern match under the guard the code has; where the Go
   code would index out of range the model returns [Panic].  Loops that decode runes carry explicit fuel;
   [OutOfFuel] is a distinct outcome (LexerP.v proves neither is reachable).
   Tables (token type numbers, keyword maps, rune classes, limits, error codes) come from Gen/LexTables.v,
   regenerated from the source tree on every run. *)
From Coq Require Import List NArith Bool.
From GV Require Import Gen.LexTables.
Import ListNotations.
Local Open Scope N_scope.

Notation bytes := (list N) (only parsing).

Inductive outcome (A : Type) : Type :=
| Val (a : A)
| Err (code : N) (line col : N)
| Panic
| OutOfFuel.
Arguments Val {A} a.
Arguments Err {A} code line col.
Arguments Panic {A}.
Arguments OutOfFuel {A}.

Definition bind {A B} (x : outcome A) (f : A -> outcome B) : outcome B :=
  match x with
  | Val a => f a
  | Err c l k => Err c l k
  | Panic => Panic
  | OutOfFuel => OutOfFuel
  end.
Notation "'do' x <- e ; f" := (bind e (fun x => f)) (at level 200, x pattern, e at level 100, f at level 200, right associativity).

(* ---------------------------------------------------------------------------------------------- *)
(* utf8.DecodeRune / utf8.AppendRune                                                               *)

Definition RuneError : N := 65533.
Definition in_rng (lo hi b : N) : bool := (lo <=? b) && (b <=? hi).
Definition is_cont (b : N) : bool := in_rng 128 191 b.

(* exactly unicode/utf8.DecodeRune: (rune, width); (RuneError,0) on empty input, (RuneError,1) on any invalid
   or truncated encoding (overlong forms, surrogates and > U+10FFFF are rejected by the second-byte ranges) *)
Definition decode_rune (l : bytes) : N * nat :=
  match l with
  | [] => (RuneError, 0%nat)
  | b0 :: tl =>
      if b0 <? 128 then (b0, 1%nat)
      else if in_rng 194 223 b0 then
        match tl with
        | b1 :: _ => if is_cont b1 then ((b0 - 192) * 64 + (b1 - 128), 2%nat) else (RuneError, 1%nat)
        | _ => (RuneError, 1%nat)
        end
      else if in_rng 224 239 b0 then
        let lo := if b0 =? 224 then 160 else 128 in
        let hi := if b0 =? 237 then 159 else 191 in
        match tl with
        | b1 :: b2 :: _ =>
            if in_rng lo hi b1 && is_cont b2
            then ((b0 - 224) * 4096 + (b1 - 128) * 64 + (b2 - 128), 3%nat)
            else (RuneError, 1%nat)
        | _ => (RuneError, 1%nat)
        end
      else if in_rng 240 244 b0 then
        let lo := if b0 =? 240 then 144 else 128 in
        let hi := if b0 =? 244 then 143 else 191 in
        match tl with
        | b1 :: b2 :: b3 :: _ =>
            if in_rng lo hi b1 && is_cont b2 && is_cont b3
            then ((b0 - 240) * 262144 + (b1 - 128) * 4096 + (b2 - 128) * 64 + (b3 - 128), 4%nat)
            else (RuneError, 1%nat)
        | _ => (RuneError, 1%nat)
        end
      else (RuneError, 1%nat)
  end.

(* bytes.Buffer.WriteRune = utf8.AppendRune: surrogates and out-of-range runes are written as U+FFFD *)
Definition encode_rune (r : N) : bytes :=
  if r <? 128 then [r]
  else if r <? 2048 then [192 + r / 64; 128 + r mod 64]
  else if in_rng 55296 57343 r || (1114111 <? r) then [239; 191; 189]
  else if r <? 65536 then [224 + r / 4096; 128 + (r / 64) mod 64; 128 + r mod 64]
  else [240 + r / 262144; 128 + (r / 4096) mod 64; 128 + (r / 64) mod 64; 128 + r mod 64].

(* ---------------------------------------------------------------------------------------------- *)
(* rune classes (tables regenerated from the tokenizer's own predicates)                           *)

Fixpoint in_ranges (t : list (N * N)) (r : N) : bool :=
  match t with
  | [] => false
  | (lo, hi) :: tl => if r <? lo then false else if r <=? hi then true else in_ranges tl r
  end.

Fixpoint assoc_n (t : list (N * N)) (r : N) : option N :=
  match t with
  | [] => None
  | (k, v) :: tl => if r =? k then Some v else assoc_n tl r
  end.

Definition is_ident_start (r : N) : bool := in_ranges ident_start_ranges r.   (* isIdentifierStart *)
Definition is_ident_part (r : N) : bool := in_ranges ident_part_ranges r.     (* isIdentifierChar *)
Definition is_unicode_quote (r : N) : bool := in_ranges unicode_quote_ranges r.
Definition normalize_quote (r : N) : N := match assoc_n normalize_quote_table r with Some v => v | None => r end.
Definition is_digit (r : N) : bool := in_rng 48 57 r.
(* the case list of nextToken that leads to readQuotedString: ' U+2018 U+2019 U+00AB U+00BB *)
Definition is_single_quote_family (r : N) : bool :=
  (r =? 39) || (r =? 8216) || (r =? 8217) || (r =? 171) || (r =? 187).

(* ---------------------------------------------------------------------------------------------- *)
(* keyword lookup: strings.ToUpper + map lookup                                                    *)

Fixpoint bytes_eqb (a b : bytes) : bool :=
  match a, b with
  | [], [] => true
  | x :: a', y :: b' => (x =? y) && bytes_eqb a' b'
  | _, _ => false
  end.

Fixpoint assoc_b (t : list (bytes * N)) (k : bytes) : option N :=
  match t with
  | [] => None
  | (k', v) :: tl => if bytes_eqb k k' then Some v else assoc_b tl k
  end.

Fixpoint mem_b (t : list bytes) (k : bytes) : bool :=
  match t with
  | [] => false
  | k' :: tl => bytes_eqb k k' || mem_b tl k
  end.

(* strings.ToUpper restricted to what a lookup in an all-ASCII-keyed map can observe: ASCII letters are
   upper-cased; a non-ASCII rune whose unicode.ToUpper image is ASCII (table upper_special: U+0131, U+017F) is
   replaced by that image; any other non-ASCII rune keeps its (non-ASCII) bytes.  The result equals an ASCII key
   iff Go's strings.ToUpper(ident) does.  Identifier text is valid UTF-8 (every rune passed isIdentifierChar). *)
Fixpoint upper_go (fuel : nat) (l : bytes) : bytes :=
  match fuel with
  | O => l
  | S f =>
      match l with
      | [] => []
      | b :: tl =>
          if b <? 128 then (if in_rng 97 122 b then b - 32 else b) :: upper_go f tl
          else
            let '(r, sz) := decode_rune l in
            match assoc_n upper_special r with
            | Some u => u :: upper_go f (skipn sz l)
            | None => firstn sz l ++ upper_go f (skipn sz l)
            end
      end
  end.
Definition to_upper (l : bytes) : bytes := upper_go (length l) l.

(* ---------------------------------------------------------------------------------------------- *)
(* Position, cursor                                                                               *)

Notation cur := (list N * N)%type (only parsing).

(* moving the cursor forward by n bytes: t.pos.Index += n *)
Definition adv (c : cur) (n : nat) : cur := (skipn n (fst c), snd c + N.of_nat n).
(* Position.AdvanceRune(r, size): a zero size counts as one byte *)
Definition adv_rune (c : cur) (size : nat) : cur := adv c (match size with O => 1%nat | _ => size end).

(* ---------------------------------------------------------------------------------------------- *)
(* tokens, comments                                                                               *)

Record token : Type := mktok { ttype : N; tval : bytes; tquote : N; tstart : N; tend : N }.
Record comment : Type := mkcom { ctext : bytes; cstyle : N; cinline : bool; cstart : N; cend : N }.
Definition rtok : Type := (N * bytes * N)%type.   (* models.Token: Type, Value, Quote *)
Definition op (ty : N) (v : bytes) : rtok := (ty, v, 0).

Section WithInput.
  Variable bs : bytes.     (* t.input *)

  (* toSQLPosition(Position{Index: i}): 1-based line from the line-start table, column = 1 + width of the bytes
     between the line start and i, a tab counting 4 *)
  Fixpoint loc_scan (l : bytes) (n : nat) (ln cl : N) : N * N :=
    match n, l with
    | O, _ => (ln, cl)
    | S _, [] => (ln, cl)
    | S n', b :: tl =>
        if b =? 10 then loc_scan tl n' (ln + 1) 1
        else if b =? 9 then loc_scan tl n' ln (cl + 4)
        else loc_scan tl n' ln (cl + 1)
    end.
  Definition to_loc (i : N) : N * N := loc_scan bs (N.to_nat i) 1 1.

  (* hasCodeBeforeOnLine(i): a byte other than space/tab/CR between the start of i's line and i *)
  Fixpoint code_scan (l : bytes) (n : nat) (flag : bool) : bool :=
    match n, l with
    | O, _ => flag
    | S _, [] => flag
    | S n', b :: tl =>
        if b =? 10 then code_scan tl n' false
        else if (b =? 32) || (b =? 9) || (b =? 13) then code_scan tl n' flag
        else code_scan tl n' true
    end.
  Definition code_before (i : N) : bool := code_scan bs (N.to_nat i) false.

  Definition err_at {A} (code : N) (i : N) : outcome A := let '(l, c) := to_loc i in Err code l c.

  (* ------------------------------------------------------------------------------------------ *)
  (* skipWhitespace: ASCII fast path; the slow path can never fire (a decoded rune of a byte >= 128 is >= 128) *)
  Fixpoint skip_ws (l : bytes) (p : N) : cur :=
    match l with
    | b :: tl =>
        if (b =? 32) || (b =? 9) || (b =? 13) then skip_ws tl (p + 1)
        else if b =? 10 then skip_ws tl (p + 1)
        else (l, p)
    | [] => (l, p)
    end.

  (* generic rune-wise scanning loop: for pos < len { r,size := DecodeRune; if !p(r) break; AdvanceRune }.
     Returns the bytes consumed and the cursor after them. *)
  Fixpoint span_runes (p : N -> bool) (fuel : nat) (c : cur) : outcome (bytes * cur) :=
    match fuel with
    | O => OutOfFuel
    | S f =>
        match fst c with
        | [] => Val ([], c)
        | _ =>
            let '(r, sz) := decode_rune (fst c) in
            if p r then
              do (w, c') <- span_runes p f (adv_rune c sz);
              Val (firstn sz (fst c) ++ w, c')
            else Val ([], c)
        end
    end.
  Definition span (p : N -> bool) (c : cur) : outcome (bytes * cur) := span_runes p (S (length (fst c))) c.

  (* readLineComment: cursor on the first '-' of "--"; stops before the newline *)
  Definition read_line_comment (c : cur) : outcome (comment * cur) :=
    let c1 := adv c 2 in
    do (w, c2) <- span (fun r => negb (r =? 10)) c1;
    Val (mkcom (45 :: 45 :: w) 0 (code_before (snd c)) (snd c) (snd c2), c2).

  (* body of a block comment: None = end of input before the closing "*/" *)
  Fixpoint block_body (fuel : nat) (c : cur) : outcome (option (bytes * cur)) :=
    match fuel with
    | O => OutOfFuel
    | S f =>
        match fst c with
        | [] => Val None
        | _ =>
            let '(r, sz) := decode_rune (fst c) in
            let c1 := adv_rune c sz in
            if r =? 42 then
              match fst c1 with
              | [] => Val None           (* loop condition fails: end of input inside the comment *)
              | _ =>
                  let '(nr, ns) := decode_rune (fst c1) in
                  if nr =? 47 then Val (Some (firstn sz (fst c) ++ firstn ns (fst c1), adv_rune c1 ns))
                  else
                    do o <- block_body f c1;
                    Val (match o with Some (w, c') => Some (firstn sz (fst c) ++ w, c') | None => None end)
              end
            else
              do o <- block_body f c1;
              Val (match o with Some (w, c') => Some (firstn sz (fst c) ++ w, c') | None => None end)
        end
    end.

  (* readBlockComment: cursor on the '/' of "/*"; unterminated: E1002 at the start of the comment *)
  Definition read_block_comment (c : cur) : outcome (comment * cur) :=
    let c1 := adv c 2 in
    do o <- block_body (S (length (fst c1))) c1;
    match o with
    | None => err_at E_UnterminatedString (snd c)
    | Some (w, c2) => Val (mkcom (47 :: 42 :: w) 1 (code_before (snd c)) (snd c) (snd c2), c2)
    end.

  (* skipWhitespaceAndComments *)
  Fixpoint skip_trivia (fuel : nat) (c : cur) (acc : list comment) : outcome (cur * list comment) :=
    match fuel with
    | O => OutOfFuel
    | S f =>
        let c1 := skip_ws (fst c) (snd c) in
        match fst c1 with
        | c0 :: c1b :: _ =>
            if (c0 =? 45) && (c1b =? 45) then
              do (cm, c2) <- read_line_comment c1; skip_trivia f c2 (acc ++ [cm])
            else if (c0 =? 47) && (c1b =? 42) then
              do (cm, c2) <- read_block_comment c1; skip_trivia f c2 (acc ++ [cm])
            else Val (c1, acc)
        | _ => Val (c1, acc)      (* t.pos.Index+1 >= len(t.input) *)
        end
    end.

  (* ------------------------------------------------------------------------------------------ *)
  (* readIdentifier *)
  Definition read_identifier (c : cur) : outcome (rtok * cur) :=
    let '(r, sz) := decode_rune (fst c) in
    let c1 := adv_rune c sz in
    do (w, c2) <- span is_ident_part c1;
    let ident := firstn sz (fst c) ++ w in
    let upper := to_upper ident in
    let ty := match assoc_b keywords upper with Some t => t | None => TT_Identifier end in
    let plain := Val ((ty, ident, 0), c2) in
    if mem_b compound_starts upper then
      (* look ahead across plain whitespace (not comments) for the second word *)
      let c3 := skip_ws (fst c2) (snd c2) in
      match fst c3 with
      | [] => plain
      | _ =>
          let '(r2, sz2) := decode_rune (fst c3) in
          if is_ident_start r2 then
            do (w2, c4) <- span is_ident_part (adv_rune c3 sz2);
            let next := firstn sz2 (fst c3) ++ w2 in
            let ucomp := upper ++ 32 :: to_upper next in
            match assoc_b compound_keywords ucomp with
            | Some cty => Val ((cty, ucomp, 0), c4)
            | None => plain     (* position restored *)
            end
          else plain
      end
    else plain.

  (* readNumber(nil) — all characters involved are ASCII *)
  Definition read_number (c : cur) : outcome (rtok * cur) :=
    do (w1, c1) <- span is_digit c;
    match fst c1 with
    | [] => Val (op TT_Number w1, c1)
    | b :: _ =>
        do (w2, c2) <-
          (if b =? 46 then
             let c1' := adv c1 1 in
             match fst c1' with
             | [] => err_at E_InvalidNumber (snd c1')
             | d :: _ =>
                 if is_digit (fst (decode_rune (fst c1'))) then
                   do (wf, c2) <- span is_digit c1'; Val (w1 ++ 46 :: wf, c2)
                 else err_at E_InvalidNumber (snd c1')
             end
           else Val (w1, c1));
        match fst c2 with
        | [] => Val (op TT_Number w2, c2)
        | e :: _ =>
            if (e =? 101) || (e =? 69) then
              let c3 := adv c2 1 in
              let '(ws, c4) :=
                match fst c3 with
                | s :: _ => if (s =? 43) || (s =? 45) then ([s], adv c3 1) else ([], c3)
                | [] => ([], c3)
                end in
              match fst c4 with
              | [] => err_at E_InvalidNumber (snd c4)
              | _ =>
                  if is_digit (fst (decode_rune (fst c4))) then
                    do (we, c5) <- span is_digit c4; Val (op TT_Number (w2 ++ e :: ws ++ we), c5)
                  else err_at E_InvalidNumber (snd c4)
              end
            else Val (op TT_Number w2, c2)
        end
    end.

  (* readQuotedIdentifier: "..." and the Unicode double quotes; a doubled quote is one quote; content runes are
     written after normalizeQuote *)
  Fixpoint quoted_ident_body (fuel : nat) (start : N) (quote : N) (c : cur) (buf : bytes) : outcome (rtok * cur) :=
    match fuel with
    | O => OutOfFuel
    | S f =>
        match fst c with
        | [] => err_at E_UnterminatedString start
        | _ =>
            let '(r0, sz) := decode_rune (fst c) in
            let r := normalize_quote r0 in
            if r =? quote then
              let after := skipn sz (fst c) in
              match after with
              | [] => Val ((TT_DoubleQuotedString, buf, quote), adv c sz)
              | _ =>
                  let '(nr0, nsz) := decode_rune after in
                  if normalize_quote nr0 =? quote
                  then quoted_ident_body f start quote (adv c (sz + nsz)) (buf ++ encode_rune r)
                  else Val ((TT_DoubleQuotedString, buf, quote), adv c sz)
              end
            else if r =? 10 then err_at E_UnterminatedString start
            else quoted_ident_body f start quote (adv c sz) (buf ++ encode_rune r)
        end
    end.
  Definition read_quoted_identifier (c : cur) : outcome (rtok * cur) :=
    let '(r, sz) := decode_rune (fst c) in
    let c1 := adv_rune c sz in
    quoted_ident_body (S (length (fst c1))) (snd c) (normalize_quote r) c1 [].

  (* readBacktickIdentifier: byte-wise; `` is one backtick; newlines allowed *)
  Fixpoint backtick_body (start : N) (l : bytes) (p : N) (buf : bytes) : outcome (rtok * cur) :=
    match l with
    | [] => err_at E_UnterminatedString start
    | ch :: tl =>
        if ch =? 96 then
          match tl with
          | ch2 :: tl2 =>
              if ch2 =? 96 then backtick_body start tl2 (p + 2) (buf ++ [96])
              else Val ((TT_Identifier, buf, 96), (tl, p + 1))
          | [] => Val ((TT_Identifier, buf, 96), (tl, p + 1))
          end
        else if ch =? 10 then backtick_body start tl (p + 1) (buf ++ [ch])
        else backtick_body start tl (p + 1) (buf ++ [ch])
    end.
  Definition read_backtick (c : cur) : outcome (rtok * cur) :=
    match fst c with
    | [] => Panic
    | _ :: tl => backtick_body (snd c) tl (snd c + 1) []
    end.

  (* handleEscapeSequence; readQuotedString passes its error on unchanged (repo commit a78a678): end of input after
     the backslash is an unterminated string, any other character an unexpected character, both located just
     after the backslash *)
  Definition escape (c : cur) : outcome (bytes * cur) :=
    let c1 := adv c 1 in
    match fst c1 with
    | [] => err_at E_UnterminatedString (snd c1)
    | _ =>
        let '(r, sz) := decode_rune (fst c1) in
        if (r =? 92) || (r =? 34) || (r =? 39) || (r =? 96) then Val (encode_rune r, adv c1 sz)
        else if r =? 110 then Val ([10], adv c1 sz)
        else if r =? 114 then Val ([13], adv c1 sz)
        else if r =? 116 then Val ([9], adv c1 sz)
        else err_at E_UnexpectedChar (snd c1)
    end.

  Definition string_type (original : N) : N :=
    if is_single_quote_family original then TT_SingleQuotedString
    else if (original =? 34) || (original =? 8220) || (original =? 8221) then TT_DoubleQuotedString
    else TT_String.

  Fixpoint string_body (fuel : nat) (start : N) (original quote : N) (c : cur) (buf : bytes) : outcome (rtok * cur) :=
    match fuel with
    | O => OutOfFuel
    | S f =>
        match fst c with
        | [] => err_at E_UnterminatedString start
        | _ =>
            let '(r0, sz) := decode_rune (fst c) in
            let r := normalize_quote r0 in
            if r =? quote then
              let after := skipn sz (fst c) in
              match after with
              | [] => Val ((string_type original, buf, original), adv c sz)
              | _ =>
                  let '(nr0, nsz) := decode_rune after in
                  if normalize_quote nr0 =? quote
                  then string_body f start original quote (adv c (sz + nsz)) (buf ++ encode_rune r)
                  else Val ((string_type original, buf, original), adv c sz)
              end
            else if r =? 92 then
              do (w, c') <- escape c; string_body f start original quote c' (buf ++ w)
            else if r =? 10 then string_body f start original quote (adv c sz) (buf ++ encode_rune r)
            else string_body f start original quote (adv c sz) (buf ++ encode_rune r)
        end
    end.

  (* readTripleQuotedString: no escapes, no normalisation, closing needs three remaining bytes *)
  Fixpoint triple_body (fuel : nat) (start : N) (quote : N) (c : cur) (buf : bytes) : outcome (rtok * cur) :=
    match fuel with
    | O => OutOfFuel
    | S f =>
        match fst c with
        | [] => err_at E_UnterminatedString start
        | _ =>
            let close :=
              match fst c with
              | _ :: _ :: _ :: _ =>
                  let '(r1, s1) := decode_rune (fst c) in
                  let '(r2, s2) := decode_rune (skipn s1 (fst c)) in
                  let '(r3, s3) := decode_rune (skipn (s1 + s2) (fst c)) in
                  if (r1 =? quote) && (r2 =? quote) && (r3 =? quote) then Some (s1 + s2 + s3)%nat else None
              | _ => None
              end in
            match close with
            | Some n =>
                Val ((if quote =? 39 then TT_TripleSingleQuotedString else TT_TripleDoubleQuotedString, buf, quote),
                     adv c n)
            | None =>
                let '(r, sz) := decode_rune (fst c) in
                if r =? 10 then triple_body f start quote (adv c sz) (buf ++ encode_rune r)
                else triple_body f start quote (adv c sz) (buf ++ encode_rune r)
            end
        end
    end.

  (* readQuotedString(quote): quote is the rune nextToken dispatched on *)
  Definition read_quoted_string (q : N) (c : cur) : outcome (rtok * cur) :=
    let triple :=
      match fst c with
      | _ :: ((_ :: ((_ :: _) as t2)) as t1) =>
          (fst (decode_rune t1) =? q) && (fst (decode_rune t2) =? q)
      | _ => false
      end in
    if triple then
      let '(r1, s1) := decode_rune (fst c) in
      let c1 := adv_rune c s1 in
      let '(r2, s2) := decode_rune (fst c1) in
      let c2 := adv_rune c1 s2 in
      let '(r3, s3) := decode_rune (fst c2) in
      let c3 := adv_rune c2 s3 in
      triple_body (S (length (fst c3))) (snd c) q c3 []
    else
      let '(r, sz) := decode_rune (fst c) in
      let c1 := adv_rune c sz in
      string_body (S (length (fst c1))) (snd c) r (normalize_quote r) c1 [].

  (* dollar quoting: content loop; the closing tag is compared byte-wise *)
  Fixpoint is_prefix (p l : bytes) : bool :=
    match p, l with
    | [], _ => true
    | x :: p', y :: l' => (x =? y) && is_prefix p' l'
    | _ :: _, [] => false
    end.

  (* advancing past the closing tag rune by rune (AdvanceRune on the runes of the tag text) *)
  Fixpoint adv_runes (fuel : nat) (tag : bytes) (c : cur) : cur :=
    match fuel with
    | O => c
    | S f =>
        match tag with
        | [] => c
        | _ => let '(r, sz) := decode_rune tag in
               let sz' := match sz with O => 1%nat | _ => sz end in
               adv_runes f (skipn sz' tag) (adv_rune c sz)
        end
    end.

  Fixpoint dollar_body (fuel : nat) (closing : bytes) (c : cur) (buf : bytes) : outcome (rtok * cur) :=
    match fuel with
    | O => OutOfFuel
    | S f =>
        match fst c with
        | [] => err_at E_UnterminatedString (snd c)
        | b :: _ =>
            if (b =? 36) && is_prefix closing (fst c)
            then Val ((TT_DollarQuotedString, buf, 0), adv_runes (length closing) closing c)
            else let '(r, sz) := decode_rune (fst c) in
                 let sz' := match sz with O => 1%nat | _ => sz end in
                 dollar_body f closing (adv_rune c sz) (buf ++ firstn sz' (fst c))
        end
    end.

  (* the tag loop of "$tag$": Some (tag bytes, cursor on the closing '$' or at end of input) or None when a rune
     that is neither '$' nor an identifier character is met *)
  Fixpoint tag_body (fuel : nat) (c : cur) : outcome (option (bytes * cur)) :=
    match fuel with
    | O => OutOfFuel
    | S f =>
        match fst c with
        | [] => Val (Some ([], c))
        | _ =>
            let '(r, sz) := decode_rune (fst c) in
            if r =? 36 then Val (Some ([], c))
            else if negb (is_ident_part r) then Val None
            else do o <- tag_body f (adv_rune c sz);
                 Val (match o with Some (w, c') => Some (firstn sz (fst c) ++ w, c') | None => None end)
        end
    end.

  Definition dollar_plain (c1 : cur) : outcome (rtok * cur) := Val (op TT_Placeholder [36], c1).

  (* case '$' of readPunctuation; c is on the '$' *)
  Definition read_dollar (c : cur) : outcome (rtok * cur) :=
    let c1 := adv c 1 in
    match fst c1 with
    | [] => dollar_plain c1
    | _ =>
        let '(nr, _) := decode_rune (fst c1) in
        if is_digit nr then
          do (w, c2) <- span is_digit c1; Val (op TT_Placeholder (36 :: w), c2)
        else if (nr =? 36) || is_ident_start nr then
          do o <- (if nr =? 36 then Val (Some ([], c1)) else tag_body (S (length (fst c1))) c1);
          match o with
          | None => dollar_plain c1                       (* not a tag: back to just after the '$' *)
          | Some (tag, c2) =>
              match fst c2 with
              | [] => dollar_plain c1
              | _ =>
                  let '(cr, csz) := decode_rune (fst c2) in
                  if negb (cr =? 36) then dollar_plain c1
                  else
                    let c3 := adv_rune c2 csz in
                    let closing := 36 :: tag ++ [36] in
                    dollar_body (S (length (fst c3))) closing c3 []
              end
          end
        else dollar_plain c1
    end.

  (* readPunctuation.  All operator characters are ASCII, and DecodeRune yields an ASCII rune only for that
     very byte, so the ladders are written on bytes.  [r] is the decoded rune at the cursor. *)
  Definition nxt (c : cur) : option N := match fst c with b :: _ => Some b | [] => None end.
  Definition is_b (o : option N) (b : N) : bool := match o with Some x => x =? b | None => false end.

  Definition read_punctuation (r : N) (c : cur) : outcome (rtok * cur) :=
    let c1 := adv c 1 in
    let n1 := nxt c1 in
    let c2 := match n1 with Some b => adv c1 1 | None => c1 end in
    let n2 := nxt c2 in
    let c3 := match n2 with Some b => adv c2 1 | None => c2 end in
    if r =? 40 then Val (op TT_LeftParen [40], c1)
    else if r =? 41 then Val (op TT_RightParen [41], c1)
    else if r =? 91 then Val (op TT_LBracket [91], c1)
    else if r =? 93 then Val (op TT_RBracket [93], c1)
    else if r =? 44 then Val (op TT_Comma [44], c1)
    else if r =? 59 then Val (op TT_Semicolon [59], c1)
    else if r =? 46 then Val (op TT_Dot [46], c1)
    else if r =? 43 then Val (op TT_Plus [43], c1)
    else if r =? 45 then
      if is_b n1 62 then
        if is_b n2 62 then Val (op TT_LongArrow [45; 62; 62], c3) else Val (op TT_Arrow [45; 62], c2)
      else Val (op TT_Minus [45], c1)
    else if r =? 42 then Val (op TT_Mul [42], c1)
    else if r =? 47 then Val (op TT_Div [47], c1)
    else if r =? 61 then
      if is_b n1 62 then Val (op TT_RArrow [61; 62], c2) else Val (op TT_Eq [61], c1)
    else if r =? 60 then
      if is_b n1 61 then Val (op TT_LtEq [60; 61], c2)
      else if is_b n1 62 then Val (op TT_Neq [60; 62], c2)
      else if is_b n1 64 then Val (op TT_ArrowAt [60; 64], c2)
      else Val (op TT_Lt [60], c1)
    else if r =? 62 then
      if is_b n1 61 then Val (op TT_GtEq [62; 61], c2) else Val (op TT_Gt [62], c1)
    else if r =? 33 then
      if is_b n1 61 then Val (op TT_Neq [33; 61], c2)
      else if is_b n1 126 then
        if is_b n2 42 then Val (op TT_ExclamationMarkTildeAsterisk [33; 126; 42], c3)
        else Val (op TT_ExclamationMarkTilde [33; 126], c2)
      else Val (op TT_ExclamationMark [33], c1)
    else if r =? 58 then
      if is_b n1 58 then Val (op TT_DoubleColon [58; 58], c2) else Val (op TT_Colon [58], c1)
    else if r =? 37 then Val (op TT_Mod [37], c1)
    else if r =? 124 then
      if is_b n1 124 then Val (op TT_StringConcat [124; 124], c2) else Val (op TT_Pipe [124], c1)
    else if r =? 38 then
      if is_b n1 38 then Val (op TT_Overlap [38; 38], c2) else Val (op TT_Ampersand [38], c1)
    else if r =? 64 then
      if is_b n1 62 then Val (op TT_AtArrow [64; 62], c2)
      else if is_b n1 64 then Val (op TT_AtAt [64; 64], c2)
      else
        match fst c1 with
        | [] => Val (op TT_AtSign [64], c1)
        | _ =>
            let '(nr, nsz) := decode_rune (fst c1) in
            if is_ident_start nr then
              (* @name parameter: the run of identifier characters (no keyword / compound logic) *)
              do (w, c') <- span is_ident_part (adv_rune c1 nsz);
              Val (op TT_Placeholder (64 :: firstn nsz (fst c1) ++ w), c')
            else Val (op TT_AtSign [64], c1)
        end
    else if r =? 35 then
      if is_b n1 62 then
        if is_b n2 62 then Val (op TT_HashLongArrow [35; 62; 62], c3) else Val (op TT_HashArrow [35; 62], c2)
      else if is_b n1 45 then Val (op TT_HashMinus [35; 45], c2)
      else Val (op TT_Sharp [35], c1)
    else if r =? 63 then
      if is_b n1 124 then Val (op TT_QuestionPipe [63; 124], c2)
      else if is_b n1 38 then Val (op TT_QuestionAnd [63; 38], c2)
      else Val (op TT_Question [63], c1)
    else if r =? 36 then read_dollar c
    else if r =? 126 then
      if is_b n1 42 then Val (op TT_TildeAsterisk [126; 42], c2) else Val (op TT_Tilde [126], c1)
    else err_at E_UnexpectedChar (snd c).

  (* nextToken *)
  Definition next_token (c : cur) : outcome (rtok * cur) :=
    match fst c with
    | [] => Val ((TT_EOF, [], 0), c)
    | _ =>
        let '(r, _) := decode_rune (fst c) in
        if is_ident_start r then read_identifier c
        else if is_digit r then read_number c
        else if (r =? 34) || is_unicode_quote r then read_quoted_identifier c
        else if r =? 96 then read_backtick c
        else if is_single_quote_family r then read_quoted_string r c
        else read_punctuation r c
    end.

  (* the loop of Tokenize *)
  Fixpoint lex_loop (max_tok : N) (fuel : nat) (c : cur) (n : N) (toks : list token) (cms : list comment)
    : outcome (list token * list comment) :=
    match fuel with
    | O => OutOfFuel
    | S f =>
        match fst c with
        | [] => Val (toks ++ [mktok TT_EOF [] 0 (snd c) (snd c)], cms)
        | _ =>
            do (c1, cms1) <- skip_trivia (S (length (fst c))) c cms;
            match fst c1 with
            | [] => Val (toks ++ [mktok TT_EOF [] 0 (snd c1) (snd c1)], cms1)
            | _ =>
                if max_tok <=? n then err_at E_TokenLimitReached (snd c1)
                else
                  do ((ty, v, q), c2) <- next_token c1;
                  lex_loop max_tok f c2 (n + 1) (toks ++ [mktok ty v q (snd c1) (snd c2)]) cms1
            end
        end
    end.
End WithInput.



(* Tokenizer.Tokenize with the two limits as parameters *)
Definition tokenize_with (max_in max_tok : N) (bs : bytes) : outcome (list token * list comment) :=
  if max_in <? N.of_nat (length bs) then Err E_InputTooLarge 1 1
  else lex_loop bs max_tok (S (length bs)) (bs, 0) 0 [] [].

Definition tokenize (bs : bytes) : outcome (list token * list comment) := tokenize_with max_input max_tokens bs.

(* ---------------------------------------------------------------------------------------------- *)
(* canonical flattening of a result (the harness prints the same list for the Go result)           *)

Definition canon_tok (bs : bytes) (t : token) : list N :=
  let '(sl, sc) := to_loc bs (tstart t) in
  let '(el, ec) := to_loc bs (tend t) in
  ttype t :: tquote t :: sl :: sc :: el :: ec :: N.of_nat (length (tval t)) :: tval t.
Definition canon_com (bs : bytes) (c : comment) : list N :=
  let '(sl, sc) := to_loc bs (cstart c) in
  let '(el, ec) := to_loc bs (cend c) in
  cstyle c :: (if cinline c then 1 else 0) :: sl :: sc :: el :: ec :: N.of_nat (length (ctext c)) :: ctext c.

Definition canon (bs : bytes) (o : outcome (list token * list comment)) : list N :=
  match o with
  | Val (ts, cs) =>
      0 :: N.of_nat (length ts) :: flat_map (canon_tok bs) ts ++ N.of_nat (length cs) :: flat_map (canon_com bs) cs
  | Err c l k => [1; c; l; k]
  | Panic => [2]
  | OutOfFuel => [3]
  end.

Definition run_canon (bs : bytes) : list N := canon bs (tokenize bs).
Definition run_canon_with (max_in max_tok : N) (bs : bytes) : list N := canon bs (tokenize_with max_in max_tok bs).

Fixpoint list_eqb (a b : list N) : bool :=
  match a, b with
  | [], [] => true
  | x :: a', y :: b' => (x =? y) && list_eqb a' b'
  | _, _ => false
  end.

(* indices of the cases whose model result differs from the recorded implementation result *)
Fixpoint bad_cases (i : N) (cases : list (bytes * list N)) : list N :=
  match cases with
  | [] => []
  | (inp, want) :: tl => if list_eqb (run_canon inp) want then bad_cases (i + 1) tl else i :: bad_cases (i + 1) tl
  end.
