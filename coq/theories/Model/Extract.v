(* Extract.v — model of pkg/gosqlx/extract.go (ExtractTables, ExtractTablesQualified, ExtractColumns,
   ExtractColumnsQualified, ExtractFunctions), as written after the single-traversal repair:

     func (w *nodeWalker) walk(node, visit)   = visit(node); for child in node.Children() { walk(child) }
                                               (a *SelectStatement met again is skipped: [KShared] leaves)
     tableNames(node)                         = [table_names]
     collectors                               = map keyed by the name / by QualifiedName.String()

   plus the visit counter of the PINNED form (explicit recursion into WITH / CTE bodies / set-operation
   operands / INSERT ... SELECT *and* recursion through Children()), kept to state what the repair removed. *)
From Coq Require Import List String Ascii NArith Bool.
From GV Require Import Model.Walk Model.QAst.
Import ListNotations.
Local Open Scope string_scope.

(* add(name): if name != "" { names = append(names, name) } *)
Definition names_of (l : list qn) : list string := filter nonempty (map q_name l).

(* tableNames(node): names written in the table positions of the node itself.  JoinClause.Left is never read.
   There is no case for the statements that carry a query or an expression without being queries (CreateView /
   CreateMaterializedView / CreateIndex / CreateTable / Describe statements, IndexColumn, ColumnDef, constraints): the
   names they define or designate are plain strings no extractor reads; the carried query / expressions are nodes of
   their own, reached through Children(). *)
Definition table_names (t : qn) : list string :=
  match q_kind t with
  | KSelect => names_of (kids_of SFrom t) ++ names_of (flat_map (kids_of SRight) (kids_of SJoins t))
  | KInsert => names_of [t]
  | KUpdate => names_of [t] ++ names_of (kids_of SFrom t)
  | KDelete => names_of [t] ++ names_of (kids_of SUsing t)
  | KMerge  => names_of (kids_of STarget t) ++ names_of (kids_of SSource t)
  | _ => []
  end.


Fixpoint split_dot_aux (s cur : string) : list string :=
  match s with
  | EmptyString => [cur]
  | String c r => if Ascii.eqb c "."%char then cur :: split_dot_aux r "" else split_dot_aux r (cur ++ String c "")
  end.
Definition split_dot (s : string) : list string := split_dot_aux s "".   (* strings.Split(name, ".") *)

Fixpoint join_dot (l : list string) : string :=
  match l with
  | [] => ""
  | [x] => x
  | x :: r => x ++ "." ++ join_dot r
  end.

Fixpoint last_split (l : list string) : list string * string :=
  match l with
  | [] => ([], "")
  | [x] => ([], x)
  | x :: r => let (i, z) := last_split r in (x :: i, z)
  end.
(* i := strings.LastIndex(s, "."); (s[:i], s[i+1:]) or ("", s) *)
Definition split_last_dot (s : string) : string * string :=
  let (i, z) := last_split (split_dot s) in (join_dot i, z).

(* columnRefs(node): an Identifier other than "" and "*"; the SET column of a MERGE action ("table.column" is
   split at the last dot); the INSERT column list of a MERGE action *)
Definition col_ok (name : string) : bool := nonempty name && negb (str_eqb name "*").
Definition col_refs (t : qn) : list (string * string) :=
  match q_kind t with
  | KIdent => if col_ok (q_name t) then [(a_qual (q_attrs t), q_name t)] else []
  | KSetClause => let tn := split_last_dot (q_name t) in if col_ok (snd tn) then [tn] else []
  | KMergeAction => map (fun n => (""%string, n)) (filter col_ok (a_list (q_attrs t)))
  | _ => []
  end.
Definition col_names (t : qn) : list string := map snd (col_refs t).
Definition qcol_names (t : qn) : list (string * string) := col_refs t.

(* functionCollector: a FunctionCall node with a non-empty name *)
Definition func_names (t : qn) : list string :=
  match q_kind t with
  | KFunc => if nonempty (q_name t) then [q_name t] else []
  | _ => []
  end.

(* ---- QualifiedName ---- *)
Record qname := mkQ { q_schema : string; q_table : string; q_nm : string }.

(* qualifiedTableCollector.addTable *)
Definition add_table (name : string) : qname :=
  match split_dot name with
  | [a] => mkQ "" "" a
  | [a; b] => mkQ a "" b
  | [a; b; c] => mkQ a b c
  | _ => mkQ "" "" name
  end.
(* qualifiedColumnCollector.addColumn *)
Definition add_column (tn : string * string) : qname := mkQ "" (fst tn) (snd tn).
(* QualifiedName.String(): the non-empty parts joined with "." — the key of the qualified collectors' maps *)
Definition qname_string (q : qname) : string :=
  join_dot (filter nonempty [q_schema q; q_table q; q_nm q]).

(* m[key] = v for each element in order: one value per key, the last one written *)
Fixpoint kdedup (l : list qname) : list qname :=
  match l with
  | [] => []
  | x :: r => if existsb (fun y => str_eqb (qname_string x) (qname_string y)) r then kdedup r else x :: kdedup r
  end.

Section Collect.
  Variable em : kind -> slot -> bool.

  Definition collect {A} (loc : qn -> list A) (stmts : list qn) : list A :=
    flat_map (fun s => flat_map loc (qwalk em s)) stmts.

  Definition extract_tables (stmts : list qn) : list string := dedup (collect table_names stmts).
  Definition extract_columns (stmts : list qn) : list string := dedup (collect col_names stmts).
  Definition extract_functions (stmts : list qn) : list string := dedup (collect func_names stmts).
  Definition extract_tables_qualified (stmts : list qn) : list qname :=
    kdedup (map add_table (collect table_names stmts)).
  Definition extract_columns_qualified (stmts : list qn) : list qname :=
    kdedup (map add_column (collect qcol_names stmts)).

  (* calls of collectFromNode's visit function: one per node of the traversal *)
  Definition visits (stmts : list qn) : nat := List.length (collect (fun t => [t]) stmts).

  (* ---- the pinned form: explicit recursion AND recursion through Children() ---- *)
  Definition explicit_pinned (k : kind) (s : slot) : bool :=
    match k, s with
    | KSetOp, SLeft | KSetOp, SRight | KWith, SCtes | KCte, SStmt
    | KSelect, SWith | KInsert, SQuery | KInsert, SWith | KUpdate, SWith | KDelete, SWith => true
    | _, _ => false
    end.
  Fixpoint visits_pinned (t : qn) : nat :=
    match t with
    | QN k a kids =>
        S (list_sum (map (fun sk : slot * list qn =>
                            let n := list_sum (map visits_pinned (snd sk)) in
                            (if explicit_pinned k (fst sk) then n else 0) + (if em k (fst sk) then n else 0)) kids))
    end.
End Collect.

(* SELECT .. UNION SELECT .. UNION ... : k set operations, left-associative as the parser builds them *)
Definition leaf_select : qn := QN KSelect (nameA "t") [(SFrom, [QN KTableRef (nameA "t") []])].
Fixpoint union_chain (k : nat) : qn :=
  match k with
  | O => leaf_select
  | S k' => QN KSetOp (opA "UNION") [(SLeft, [union_chain k']); (SRight, [leaf_select])]
  end.

(* ---- comparison helpers for the correspondence cases ---- *)
Definition qname_eqb (a b : qname) : bool :=
  str_eqb (q_schema a) (q_schema b) && str_eqb (q_table a) (q_table b) && str_eqb (q_nm a) (q_nm b).
Definition same_qnames (a b : list qname) : bool :=
  forallb (fun x => existsb (qname_eqb x) b) a && forallb (fun x => existsb (qname_eqb x) a) b.

(* expected results of one case, as observed on the implementation *)
Record xcase := mkX {
  x_tree : list qn;
  x_tables : list string; x_columns : list string; x_functions : list string;
  x_qtables : list qname; x_qcolumns : list qname
}.
Definition extract_case_ok (em : kind -> slot -> bool) (c : xcase) : bool :=
  same_strs (extract_tables em (x_tree c)) (x_tables c) &&
  same_strs (extract_columns em (x_tree c)) (x_columns c) &&
  same_strs (extract_functions em (x_tree c)) (x_functions c) &&
  same_qnames (extract_tables_qualified em (x_tree c)) (x_qtables c) &&
  same_qnames (extract_columns_qualified em (x_tree c)) (x_qcolumns c).
