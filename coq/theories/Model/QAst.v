(* QAst.v — the query tree the extraction (C15) and injection-scan (C16) models run on.

   One node type [qn]: a Go node kind, the string attributes the analyses read, and the child nodes
   grouped by the struct field (slot) that holds them.  The Go harness (harness/qast.go) dumps REAL parsed
   trees into this form by reflection (node types outside the modelled kinds become [KOpaque ty] with their
   node-holding fields as [SF f] slots, ids of Gen/ChildrenTable.v); [Model/QRef.v] builds the prescribed
   tree of a reference-grammar statement in the same form.

   Traversal is C14's: [qchildren]/[qwalk] are [Walk.children]/[Walk.walk] with the regenerated Children()
   table, presented as a predicate [em kind slot] (Gen/QSlots.v); [erase] forgets the attributes and
   [qwalk_erase] (Proofs/QAstP.v) shows the two traversals coincide node for node.

   [KShared] is a *SelectStatement pointer that already occurred earlier in the same tree (the parser stores
   the derived table of the first FROM item a second time in the first JoinClause.Left): both analyses keep
   a seen-set of statement pointers and skip the repeat, so the dumper emits a childless leaf for it. *)
From Coq Require Import List String Ascii NArith Bool.
From GV Require Import Model.Walk.
Import ListNotations.
Local Open Scope N_scope.

Inductive kind :=
| KSelect | KSetOp | KInsert | KUpdate | KDelete | KMerge
| KWith | KCte | KTableRef | KJoin | KOrderBy
| KUpdateExpr | KMergeWhen | KMergeAction | KSetClause
| KIdent | KLit | KBinary | KUnary | KFunc | KCase | KWhen | KIn | KBetween
| KExists | KSubquery | KCast | KList | KAliased
| KCreateView | KCreateMView | KCreateIndex | KIndexCol   (* statements that CARRY a query / an expression without being queries *)
| KCreateTable | KColumnDef | KColConstraint | KTabConstraint
| KDescribe                                                (* EXPLAIN / DESCRIBE of a query *)
| KShared
| KOpaque (ty : N).

Inductive slot :=
| SWith | SColumns | SFrom | SJoins | SWhere | SGroupBy | SHaving | SOrderBy   (* SelectStatement *)
| SLeft | SRight | SCond                                                        (* SetOperation, JoinClause, BinaryExpression *)
| SCtes | SStmt | SSubquery                                                    (* WithClause, CommonTableExpr, TableReference/In/Exists/Subquery *)
| SValues | SQuery | SAssign | SUsing                                          (* Insert / Update / Delete *)
| STarget | SSource | SWhens | SAction | SSets                                 (* Merge *)
| SColumn | SValue                                                             (* UpdateExpression / SetClause *)
| SExpr | SArgs | SList | SLower | SUpper | SResult | SElse                     (* expressions *)
| SConstraints | SDefault | SCheck                                             (* CreateTableStatement / ColumnDef / constraints *)
| SF (f : N).                                                                  (* any other node-holding field (C14 field id) *)

(* string attributes; unused ones are "" *)
Record attrs := mkA {
  a_name : string;   (* Identifier.Name, FunctionCall.Name, TableReference.Name, X.TableName, CommonTableExpr.Name, SetClause.Column,
                        CreateView/MaterializedView/Index/TableStatement.Name, IndexColumn.Column, ColumnDef.Name *)
  a_qual : string;   (* Identifier.Table, CreateIndexStatement.Table *)
  a_op   : string;   (* BinaryExpression.Operator, SetOperation.Operator, UnaryExpression.Operator, JoinClause.Type,
                        MergeWhenClause.Type, MergeAction.ActionType *)
  a_val  : string;   (* LiteralValue.Value rendered with %v *)
  a_typ  : string;   (* LiteralValue.Type, CastExpression.Type *)
  a_alias : string;  (* TableReference.Alias, AliasedExpression.Alias, Update/Delete.Alias *)
  a_list : list string (* MergeAction.Columns, CommonTableExpr.Columns, CreateView/MaterializedViewStatement.Columns *)
}.
Definition noA := mkA "" "" "" "" "" "" [].
(* shorthands *)
Definition nameA (n : string) := mkA n "" "" "" "" "" [].
Definition opA (o : string) := mkA "" "" o "" "" "" [].

Inductive qn := QN (k : kind) (a : attrs) (kids : list (slot * list qn)).

Definition q_kind (t : qn) := match t with QN k _ _ => k end.
Definition q_attrs (t : qn) := match t with QN _ a _ => a end.
Definition q_kids (t : qn) := match t with QN _ _ ks => ks end.
Definition q_name (t : qn) := a_name (q_attrs t).

Definition kind_eqb (a b : kind) : bool :=
  match a, b with
  | KSelect, KSelect | KSetOp, KSetOp | KInsert, KInsert | KUpdate, KUpdate | KDelete, KDelete | KMerge, KMerge
  | KWith, KWith | KCte, KCte | KTableRef, KTableRef | KJoin, KJoin | KOrderBy, KOrderBy
  | KUpdateExpr, KUpdateExpr | KMergeWhen, KMergeWhen | KMergeAction, KMergeAction | KSetClause, KSetClause
  | KIdent, KIdent | KLit, KLit | KBinary, KBinary | KUnary, KUnary | KFunc, KFunc | KCase, KCase | KWhen, KWhen
  | KIn, KIn | KBetween, KBetween | KExists, KExists | KSubquery, KSubquery | KCast, KCast | KList, KList
  | KAliased, KAliased | KShared, KShared
  | KCreateView, KCreateView | KCreateMView, KCreateMView | KCreateIndex, KCreateIndex | KIndexCol, KIndexCol
  | KCreateTable, KCreateTable | KColumnDef, KColumnDef | KColConstraint, KColConstraint
  | KTabConstraint, KTabConstraint | KDescribe, KDescribe => true
  | KOpaque x, KOpaque y => x =? y
  | _, _ => false
  end.

Definition slot_eqb (a b : slot) : bool :=
  match a, b with
  | SWith, SWith | SColumns, SColumns | SFrom, SFrom | SJoins, SJoins | SWhere, SWhere | SGroupBy, SGroupBy
  | SHaving, SHaving | SOrderBy, SOrderBy | SLeft, SLeft | SRight, SRight | SCond, SCond | SCtes, SCtes
  | SStmt, SStmt | SSubquery, SSubquery | SValues, SValues | SQuery, SQuery | SAssign, SAssign | SUsing, SUsing
  | STarget, STarget | SSource, SSource | SWhens, SWhens | SAction, SAction | SSets, SSets
  | SColumn, SColumn | SValue, SValue | SExpr, SExpr | SArgs, SArgs | SList, SList | SLower, SLower
  | SUpper, SUpper | SResult, SResult | SElse, SElse
  | SConstraints, SConstraints | SDefault, SDefault | SCheck, SCheck => true
  | SF x, SF y => x =? y
  | _, _ => false
  end.

(* the nodes stored in one slot *)
Fixpoint slot_kids (s : slot) (ks : list (slot * list qn)) : list qn :=
  match ks with
  | [] => []
  | (s', l) :: r => if slot_eqb s s' then l ++ slot_kids s r else slot_kids s r
  end.
Definition kids_of (s : slot) (t : qn) : list qn := slot_kids s (q_kids t).

Section Traverse.
  (* em k s: Children() of a node of kind k returns the nodes stored in slot s (regenerated: Gen/QSlots.v) *)
  Variable em : kind -> slot -> bool.

  Definition qchildren (t : qn) : list qn :=
    flat_map (fun sk : slot * list qn => if em (q_kind t) (fst sk) then snd sk else []) (q_kids t).

  (* the traversal both repaired analyses perform: every node once, in pre-order *)
  Fixpoint qwalk (t : qn) : list qn :=
    match t with
    | QN k a kids =>
        t :: flat_map (fun sk : slot * list qn => if em k (fst sk) then flat_map qwalk (snd sk) else []) kids
    end.
End Traverse.

Fixpoint qsize (t : qn) : nat :=
  match t with
  | QN _ _ kids => S (list_sum (map (fun sk : slot * list qn => list_sum (map qsize (snd sk))) kids))
  end.

(* every (kind, slot) edge of a tree *)
Fixpoint qedges (t : qn) : list (kind * slot) :=
  match t with
  | QN k _ kids => flat_map (fun sk : slot * list qn => (k, fst sk) :: flat_map qedges (snd sk)) kids
  end.

(* ---- link to C14's reflected trees: forget the attributes ---- *)
Section Erase.
  Variable kcode : kind -> N.
  Variable scode : kind -> slot -> N.
  Fixpoint erase (t : qn) : gtree :=
    match t with
    | QN k a kids => GNode 0 (kcode k) (map (fun sk : slot * list qn => (scode k (fst sk), map erase (snd sk))) kids)
    end.
End Erase.

(* ---- strings ---- *)
Definition upper_ascii (c : ascii) : ascii :=
  let n := N_of_ascii c in
  if (97 <=? n) && (n <=? 122) then ascii_of_N (n - 32) else c.
Fixpoint upper (s : string) : string :=
  match s with
  | EmptyString => EmptyString
  | String c r => String (upper_ascii c) (upper r)
  end.
Definition lower_ascii (c : ascii) : ascii :=
  let n := N_of_ascii c in
  if (65 <=? n) && (n <=? 90) then ascii_of_N (n + 32) else c.
Fixpoint lower (s : string) : string :=
  match s with
  | EmptyString => EmptyString
  | String c r => String (lower_ascii c) (lower r)
  end.
Definition str_eqb := String.eqb.
Definition nonempty (s : string) : bool := negb (str_eqb s "").
Definition smem (x : string) (l : list string) : bool := existsb (str_eqb x) l.

(* set comparison of string lists, and duplicate removal (the Go collectors use a map keyed by the name) *)
Fixpoint dedup (l : list string) : list string :=
  match l with
  | [] => []
  | x :: r => if smem x r then dedup r else x :: dedup r
  end.
Definition same_strs (a b : list string) : bool :=
  forallb (fun x => smem x b) a && forallb (fun x => smem x a) b.
Fixpoint nodupb (l : list string) : bool :=
  match l with
  | [] => true
  | x :: r => negb (smem x r) && nodupb r
  end.
