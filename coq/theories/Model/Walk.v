(* Walk.v — generic model of ast.Walk / ast.Inspect over reflected trees.
   A reflected tree node carries a unique id, its Go type id and, per node-holding access path
   (field id), the nodes stored there.  The behaviour of every Children() method is summarised by a
   table [emitted : list (ty * field)] regenerated from the code on every run (Gen/ChildrenTable.v). *)
From Coq Require Import List NArith Bool.
Import ListNotations.
Local Open Scope N_scope.

Inductive gtree := GNode (id : N) (ty : N) (kids : list (N * list gtree)).

Definition g_id (t : gtree) := match t with GNode i _ _ => i end.
Definition g_ty (t : gtree) := match t with GNode _ ty _ => ty end.
Definition g_kids (t : gtree) := match t with GNode _ _ k => k end.

Definition pair_eqb (a b : N * N) : bool := (fst a =? fst b) && (snd a =? snd b).
Definition pmem (a : N * N) (l : list (N * N)) : bool := existsb (pair_eqb a) l.

Section Walk.
  Variable emitted : list (N * N).

  (* what Children() returns for t, according to the table *)
  Definition children (t : gtree) : list gtree :=
    flat_map (fun fk : N * list gtree => if pmem (g_ty t, fst fk) emitted then snd fk else []) (g_kids t).

  (* ast.Walk with a visitor that always continues: pre-order list of visited nodes *)
  Fixpoint walk (t : gtree) : list gtree :=
    match t with
    | GNode id ty kids =>
        t :: flat_map (fun fk : N * list gtree =>
                         if pmem (ty, fst fk) emitted then flat_map walk (snd fk) else []) kids
    end.

  (* ast.Inspect with a pruning predicate: children of a node on which [keep] is false are skipped *)
  Variable keep : gtree -> bool.
  Fixpoint inspect (t : gtree) : list gtree :=
    match t with
    | GNode id ty kids =>
        if keep t then
          t :: flat_map (fun fk : N * list gtree =>
                           if pmem (ty, fst fk) emitted then flat_map inspect (snd fk) else []) kids
        else [t]
    end.
End Walk.

Definition walk_ids (emitted : list (N * N)) (t : gtree) : list N := map g_id (walk emitted t).

(* every (type, field) edge used in a tree *)
Fixpoint edges (t : gtree) : list (N * N) :=
  match t with
  | GNode _ ty kids =>
      flat_map (fun fk : N * list gtree => (ty, fst fk) :: flat_map edges (snd fk)) kids
  end.

(* table checks, decided by vm_compute on the regenerated tables *)
Definition cover_except (fields emitted known : list (N * N)) : bool :=
  forallb (fun e => pmem e emitted || pmem e known) fields.
Definition within (fields emitted : list (N * N)) : bool :=
  forallb (fun e => pmem e fields) emitted.
Definition known_are_gaps (emitted known : list (N * N)) : bool :=
  forallb (fun e => negb (pmem e emitted)) known.

(* boolean well-formedness of a dumped tree against the field table *)
Definition wfb (fields : list (N * N)) (t : gtree) : bool :=
  forallb (fun e => pmem e fields) (edges t).

(* set comparison of id lists (used by the correspondence cases) *)
Definition nmem (x : N) (l : list N) : bool := existsb (N.eqb x) l.
Definition same_ids (a b : list N) : bool :=
  forallb (fun x => nmem x b) a && forallb (fun x => nmem x a) b.
Definition walk_case_ok (fields emitted : list (N * N)) (c : gtree * list N) : bool :=
  wfb fields (fst c) && same_ids (walk_ids emitted (fst c)) (snd c).
(* the pruning predicate the harness uses: the callback returns false on nodes whose type id is k modulo 3 *)
Definition keep_mod (k : N) (t : gtree) : bool := negb (N.modulo (g_ty t) 3 =? k).
Definition prune_case_ok (emitted : list (N * N)) (c : gtree * (N * list N)) : bool :=
  same_ids (map g_id (inspect emitted (keep_mod (fst (snd c))) (fst c))) (snd (snd c)).
Fixpoint bad_indices {A} (f : A -> bool) (i : N) (l : list A) : list N :=
  match l with
  | [] => []
  | x :: r => if f x then bad_indices f (i + 1) r else i :: bad_indices f (i + 1) r
  end.
