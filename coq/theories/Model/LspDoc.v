(* LspDoc.v — model of the LSP document mirror (pkg/lsp/documents.go), branch by branch.
   Text is a list of bytes (N < 256) exactly as a Go string; LSP positions are Go ints (Z, may be negative).
     lineTerminatorLen / splitLines -> the LF, CRLF, CR scan of split_walk (split_lines)
     range over a string   -> rune_len (width of utf8.DecodeRuneInString, 1 for an invalid byte)
     utf16ColumnToByteOffset -> col_walk
     offsetOfPosition      -> off_walk / pos_off   (scans the content itself: terminators are 1 or 2 bytes)
     applyChange           -> apply_change     (slice expressions are partial: Panic)
     DocumentManager.Open/Update/Close/GetContent -> dm_open/dm_update/dm_close/dm_content
   Go int overflow is not modelled: offsets are bounded by the document length (< 2^63). *)
From Coq Require Import List NArith ZArith Bool.
From Coq Require Uint63.
Import ListNotations.

Inductive outcome (A : Type) : Type :=
| Val (a : A)
| Panic.
Arguments Val {A} a.
Arguments Panic {A}.

Definition is_val {A} (o : outcome A) : bool := match o with Val _ => true | Panic => false end.

Local Open Scope N_scope.

(* a line terminator is LF, CR LF or CR (lineTerminatorLen: 1, 2, 1) *)
Definition is_eol (b : N) : bool := (b =? 10) || (b =? 13).

(* splitLines(content): the lines of content without their terminators.  [after_cr] = the previous byte
   was a CR that ended a line, so an LF here is the second byte of that terminator (Go: i += 2). *)
Fixpoint split_walk (s : list N) (after_cr : bool) : list (list N) :=
  match s with
  | [] => [[]]
  | c :: t =>
      if after_cr && (c =? 10) then split_walk t false
      else if c =? 10 then [] :: split_walk t false
      else if c =? 13 then [] :: split_walk t true
      else match split_walk t false with
           | l :: ls => (c :: l) :: ls
           | [] => [[c]]
           end
  end.
Definition split_lines (s : list N) : list (list N) := split_walk s false.

(* content[i:end]: the bytes up to the next terminator *)
Fixpoint first_line (s : list N) : list N :=
  match s with
  | [] => []
  | c :: t => if is_eol c then [] else c :: first_line t
  end.

(* continuation byte 0x80..0xBF *)
Definition cont (b : N) : bool := (128 <=? b) && (b <=? 191).
Definition between (lo b hi : N) : bool := (lo <=? b) && (b <=? hi).

(* number of bytes utf8.DecodeRuneInString consumes at the head of s (first[] and acceptRanges tables of
   unicode/utf8): 1 for ASCII and for every ill-formed or truncated sequence (RuneError, width 1) *)
Definition rune_len (s : list N) : nat :=
  match s with
  | [] => 0%nat
  | b0 :: t =>
      if b0 <? 194 then 1%nat                                   (* ASCII, stray continuation, C0, C1 *)
      else if b0 <? 224 then                                     (* C2..DF : 2 bytes *)
        match t with
        | b1 :: _ => if cont b1 then 2%nat else 1%nat
        | _ => 1%nat
        end
      else if b0 <? 240 then                                     (* E0..EF : 3 bytes *)
        match t with
        | b1 :: b2 :: _ =>
            if between (if b0 =? 224 then 160 else 128) b1 (if b0 =? 237 then 159 else 191) && cont b2
            then 3%nat else 1%nat
        | _ => 1%nat
        end
      else if b0 <? 245 then                                     (* F0..F4 : 4 bytes *)
        match t with
        | b1 :: b2 :: b3 :: _ =>
            if between (if b0 =? 240 then 144 else 128) b1 (if b0 =? 244 then 143 else 191) && cont b2 && cont b3
            then 4%nat else 1%nat
        | _ => 1%nat
        end
      else 1%nat                                                 (* F5..FF *)
  end.

(* UTF-16 code units of the rune decoded at the head of s: 2 iff r >= 0x10000 iff a well-formed 4-byte
   sequence (RuneError = U+FFFD counts 1) *)
Definition rune_units (s : list N) : Z := if Nat.eqb (rune_len s) 4 then 2%Z else 1%Z.

(* utf16ColumnToByteOffset(line, col):
     units := 0
     for i, r := range line { n := 1; if r >= 0x10000 { n = 2 }; if units+n > col { return i }; units += n }
     return len(line)
   [skip] counts the bytes of the current rune still to be stepped over, [i] the bytes consumed so far. *)
Fixpoint col_walk (s : list N) (skip : nat) (units col : Z) (i : nat) : nat :=
  match s with
  | [] => i
  | _ :: t =>
      match skip with
      | S k => col_walk t k units col (S i)
      | O =>
          let n := rune_units s in
          if (units + n >? col)%Z then i
          else col_walk t (pred (rune_len s)) (units + n)%Z col (S i)
      end
  end.

Definition utf16_col_to_off (line : list N) (col : Z) : nat := col_walk line 0 0%Z col 0.

(* offsetOfPosition(content, pos) for pos.Line >= 0: [rem] = lines still to skip (Go: pos.Line - line),
   [i] = bytes consumed.  Running out of content while lines remain is "past the last line":
   len(content). *)
Fixpoint off_walk (s : list N) (rem : Z) (after_cr : bool) (char : Z) (i : nat) : nat :=
  match s with
  | [] => i
  | c :: t =>
      if after_cr && (c =? 10) then off_walk t rem false char (S i)
      else if (rem <=? 0)%Z then (i + utf16_col_to_off (first_line s) char)%nat
      else if c =? 10 then off_walk t (rem - 1)%Z false char (S i)
      else if c =? 13 then off_walk t (rem - 1)%Z true char (S i)
      else off_walk t rem false char (S i)
  end.

Definition pos_off (content : list N) (line char : Z) : Z :=
  if (line <? 0)%Z then 0%Z else Z.of_nat (off_walk content line false char 0).

Record range := Range { r_sl : Z; r_sc : Z; r_el : Z; r_ec : Z }.

(* applyChange(content, lines, change) with change.Range != nil; the cached lines are not consulted *)
Definition apply_change (content : list N) (lines : list (list N)) (r : range) (text : list N)
  : outcome (list N) :=
  let s0 := pos_off content (r_sl r) (r_sc r) in
  let e0 := pos_off content (r_el r) (r_ec r) in
  let len := Z.of_nat (length content) in
  let s := if (s0 >? len)%Z then len else s0 in
  let e := if (e0 <? s)%Z then s else e0 in
  if (s <? 0)%Z || (len <? s)%Z then Panic           (* content[:startOffset] *)
  else
    let head := firstn (Z.to_nat s) content in
    if (e <? len)%Z then
      if (e <? 0)%Z then Panic                        (* content[endOffset:] *)
      else Val (head ++ text ++ skipn (Z.to_nat e) content)
    else Val (head ++ text).

(* TextDocumentContentChangeEvent *)
Inductive change :=
| Full (text : list N)                       (* Range == nil *)
| Incr (r : range) (text : list N).

Record doc := Doc { d_version : Z; d_content : list N; d_lines : list (list N) }.

(* the loop body of DocumentManager.Update *)
Definition apply_one (d : doc) (c : change) : outcome doc :=
  match c with
  | Full t => Val (Doc (d_version d) t (split_lines t))
  | Incr r t =>
      match apply_change (d_content d) (d_lines d) r t with
      | Val c' => Val (Doc (d_version d) c' (split_lines c'))
      | Panic => Panic
      end
  end.

Fixpoint apply_all (d : doc) (cs : list change) : outcome doc :=
  match cs with
  | [] => Val d
  | c :: r => match apply_one d c with
              | Val d' => apply_all d' r
              | Panic => Panic
              end
  end.

(* DocumentManager.documents: map[string]*Document as an association list keyed by uri *)
Definition uri := list N.
Fixpoint uri_eqb (a b : uri) : bool :=
  match a, b with
  | [], [] => true
  | x :: a', y :: b' => (x =? y) && uri_eqb a' b'
  | _, _ => false
  end.

Definition docs := list (uri * doc).

Fixpoint dm_get (ds : docs) (u : uri) : option doc :=
  match ds with
  | [] => None
  | (u', d) :: r => if uri_eqb u' u then Some d else dm_get r u
  end.

Fixpoint dm_remove (ds : docs) (u : uri) : docs :=
  match ds with
  | [] => []
  | (u', d) :: r => if uri_eqb u' u then dm_remove r u else (u', d) :: dm_remove r u
  end.

Definition dm_set (ds : docs) (u : uri) (d : doc) : docs := (u, d) :: dm_remove ds u.

Definition dm_open (ds : docs) (u : uri) (version : Z) (text : list N) : docs :=
  dm_set ds u (Doc version text (split_lines text)).

Definition dm_update (ds : docs) (u : uri) (version : Z) (cs : list change) : outcome docs :=
  match dm_get ds u with
  | None => Val ds
  | Some d =>
      match apply_all (Doc version (d_content d) (d_lines d)) cs with
      | Val d' => Val (dm_set ds u d')
      | Panic => Panic
      end
  end.

Definition dm_close (ds : docs) (u : uri) : docs := dm_remove ds u.

Definition dm_content (ds : docs) (u : uri) : option (list N) :=
  match dm_get ds u with Some d => Some (d_content d) | None => None end.

(* ---------------------------------------------------------------------------------------------
   histories of DocumentManager operations, as driven by the harness *)
Inductive dm_op :=
| OpOpen (u : uri) (version : Z) (text : list N)
| OpChange (u : uri) (version : Z) (cs : list change)
| OpClose (u : uri).

Definition dm_step (ds : docs) (o : dm_op) : outcome docs :=
  match o with
  | OpOpen u v t => Val (dm_open ds u v t)
  | OpChange u v cs => dm_update ds u v cs
  | OpClose u => Val (dm_close ds u)
  end.

Fixpoint dm_run (ds : docs) (ops : list dm_op) : outcome docs :=
  match ops with
  | [] => Val ds
  | o :: r => match dm_step ds o with
              | Val ds' => dm_run ds' r
              | Panic => Panic
              end
  end.

(* ---------------------------------------------------------------------------------------------
   evaluation helpers for the correspondence (cases generated by lib/c18.py) *)

(* byte strings in generated case files are packed 7 bytes per primitive integer literal, little endian
   (small terms: fast to parse and check); used only by the case files, never by a theorem *)
Fixpoint unpack7 (k : nat) (z : Z) : list N :=
  match k with
  | O => []
  | S k' => Z.to_N (z mod 256) :: unpack7 k' (z / 256)
  end.
Fixpoint unpack (len : nat) (ws : list Uint63.int) : list N :=
  match ws with
  | [] => []
  | w :: r => unpack7 (Nat.min 7 len) (Uint63.to_Z w) ++ unpack (len - 7) r
  end.

Fixpoint list_eqb (a b : list N) : bool :=
  match a, b with
  | [] , [] => true
  | x :: a', y :: b' => (x =? y) && list_eqb a' b'
  | _, _ => false
  end.

Fixpoint bad_indices {A} (ok : A -> bool) (i : N) (l : list A) : list N :=
  match l with
  | [] => []
  | x :: r => if ok x then bad_indices ok (i + 1) r else i :: bad_indices ok (i + 1) r
  end.

(* one direct edit: (content, range, text, expected result or None for a panic) *)
Definition edit_case_ok (c : list N * range * list N * option (list N)) : bool :=
  match c with
  | (content, r, text, expected) =>
      match apply_change content (split_lines content) r text, expected with
      | Val got, Some want => list_eqb got want
      | Panic, None => true
      | _, _ => false
      end
  end.

(* a history on one manager: after every op the observed (version, content) of the op's uri, None = absent;
   expected None for the whole case = the implementation panicked *)
Definition obs_eqb (a b : option (Z * list N)) : bool :=
  match a, b with
  | None, None => true
  | Some (v, c), Some (v', c') => (v =? v')%Z && list_eqb c c'
  | _, _ => false
  end.

Definition op_uri (o : dm_op) : uri :=
  match o with OpOpen u _ _ => u | OpChange u _ _ => u | OpClose u => u end.

Definition observe (ds : docs) (u : uri) : option (Z * list N) :=
  match dm_get ds u with Some d => Some (d_version d, d_content d) | None => None end.

Fixpoint hist_ok (ds : docs) (ops : list (dm_op * option (option (Z * list N)))) : bool :=
  match ops with
  | [] => true
  | (o, want) :: r =>
      match dm_step ds o, want with
      | Val ds', Some w => obs_eqb (observe ds' (op_uri o)) w && hist_ok ds' r
      | Panic, None => true
      | _, _ => false
      end
  end.
