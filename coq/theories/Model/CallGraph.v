(* CallGraph.v — call stacks of a package as paths in its static call graph (regenerated from SSA each
   run), with the recursion-depth guards of the parser. *)
From Coq Require Import List NArith Bool Arith.
From GV Require Import Model.Walk.
Import ListNotations.
Local Open Scope nat_scope.

Section CG.
  Variable edges : list (N * N).      (* static calls caller -> callee, closures attributed to their parent *)
  Variable guards : list N.           (* functions that increment the depth counter, defer its decrement and
                                         return an error before calling anything when it exceeds the limit *)
  Variable X : list (N * N).          (* exception list: call edges recorded as known findings *)
  Variable ranks : list (N * nat).    (* rank witness computed by the translator *)

  Definition is_guard (v : N) : bool := nmem v guards.
  Fixpoint rank (l : list (N * nat)) (v : N) : nat :=
    match l with
    | [] => 0
    | (u, r) :: rest => if N.eqb u v then r else rank rest v
    end.
  Definition rk := rank ranks.
  Definition max_rank : nat := fold_right (fun p m => Nat.max (snd p) m) 0 ranks.

  (* decidable hypothesis: every edge that does not enter a guard (and is not an exception) strictly
     decreases the rank — i.e. the graph without guard entries is acyclic *)
  Definition rank_ok : bool :=
    forallb (fun e : N * N => is_guard (snd e) || pmem e X || (rk (snd e) <? rk (fst e))%nat) edges.

  (* a call stack, outermost frame first, that uses no exception edge *)
  Fixpoint is_path (s : list N) : Prop :=
    match s with
    | [] => True
    | u :: rest => match rest with
                   | [] => True
                   | v :: _ => pmem (u, v) edges = true /\ pmem (u, v) X = false /\ is_path rest
                   end
    end.

  Definition nguards (s : list N) : nat := length (filter is_guard s).

  (* stacks that can actually arise with limit m: d is the depth counter before the head frame is entered; a
     guard frame increments it and may only have a callee when the incremented counter is within the limit *)
  Fixpoint realizable (m d : nat) (s : list N) : Prop :=
    match s with
    | [] => True
    | u :: rest =>
        let d' := if is_guard u then S d else d in
        match rest with
        | [] => True
        | _ :: _ => (is_guard u = true -> d' <= m) /\ realizable m d' rest
        end
    end.
End CG.
