(* Pool.v — generic model of the node pools (pkg/sql/ast/pool.go).
   An object is abstracted to the list of its fields that currently hold non-fresh content (scalars
   non-zero, pointers/interfaces non-nil, slices non-empty or with live elements behind len).
   Releasing an object through a put path (0 = PutX, 1 = PutExpression, 2 = ReleaseAST) resets exactly the
   fields the regenerated table lists for that path; sync.Pool may hand back any pooled object of the
   pool, or a newly constructed one, and may drop pooled objects at any time. *)
From Coq Require Import List NArith Bool.
From GV Require Import Model.Walk.
Import ListNotations.
Local Open Scope N_scope.

Definition obj := list N.                         (* fields holding non-fresh content *)
Definition triple_eqb (a b : N * N * N) : bool :=
  (fst (fst a) =? fst (fst b)) && (snd (fst a) =? snd (fst b)) && (snd a =? snd b).
Definition tmem (a : N * N * N) (l : list (N * N * N)) : bool := existsb (triple_eqb a) l.

Inductive op :=
| Put (via ty : N) (o : obj)        (* release an arbitrary object of type ty through path via *)
| Get (ty : N) (choice : nat)       (* obtain one: the choice-th pooled object of that type, else a new one *)
| Drop (k : nat).                   (* garbage collection empties a pool slot *)

Section Pool.
  (* (via, ty, field) triples reset by the put paths *)
  Variable cleared : list (N * N * N).

  Definition clean (via ty : N) (o : obj) : obj :=
    filter (fun f => negb (tmem (via, ty, f) cleared)) o.

  Definition state := list (N * obj).

  (* remove the k-th entry *)
  Fixpoint drop_nth {A} (k : nat) (l : list A) : list A :=
    match l, k with
    | [], _ => []
    | _ :: r, O => r
    | x :: r, S j => x :: drop_nth j r
    end.

  (* take the choice-th pooled object of type ty *)
  Fixpoint take (ty : N) (choice : nat) (s : state) : option (obj * state) :=
    match s with
    | [] => None
    | (ty', o) :: r =>
        if ty' =? ty then
          match choice with
          | O => Some (o, r)
          | S c => match take ty c r with
                   | Some (o', r') => Some (o', (ty', o) :: r')
                   | None => Some (o, r)      (* fewer than choice+1 pooled: any one of them *)
                   end
          end
        else match take ty choice r with
             | Some (o', r') => Some (o', (ty', o) :: r')
             | None => None
             end
    end.

  Definition step (s : state) (o : op) : state * option (N * obj) :=
    match o with
    | Put via ty x => (s ++ [(ty, clean via ty x)], None)
    | Get ty c => match take ty c s with
                  | Some (x, s') => (s', Some (ty, x))
                  | None => (s, Some (ty, []))            (* pool empty: New() builds a fresh object *)
                  end
    | Drop k => (drop_nth k s, None)
    end.

  Fixpoint run (s : state) (h : list op) : list (N * obj) :=
    match h with
    | [] => []
    | o :: r => let (s', out) := step s o in
                match out with Some x => x :: run s' r | None => run s' r end
    end.
End Pool.

(* table check: every field of every pooled type is reset by every put path that can release the type,
   except the listed (via, ty, field) triples *)
Definition cleared_except (all cleared known : list (N * N * N)) : bool :=
  forallb (fun e => tmem e cleared || tmem e known) all.
