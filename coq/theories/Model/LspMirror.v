(* LspMirror.v — the abstraction relation between the byte-level mirror (Model/LspDoc.v) and the
   protocol-level specification (Spec/LspSpec.v): how specification edits and histories are presented to
   the DocumentManager (texts UTF-8 encoded).  Definitions only. *)
From Coq Require Import List NArith ZArith Bool.
From GV Require Import Model.LspDoc Spec.LspSpec.
Import ListNotations.

Definition enc_edit (e : sedit) : change :=
  match e with
  | SFull t => Full (enc t)
  | SIncr sl sc el ec t => Incr (Range sl sc el ec) (enc t)
  end.

Definition valid_edit (e : sedit) : Prop :=
  match e with
  | SFull t => valid_text t
  | SIncr _ _ _ _ t => valid_text t
  end.

(* a history on a manager seen from one document u: its own open/change/close notifications, at the
   protocol level, interleaved with arbitrary operations on other documents *)
Inductive sop :=
| SOpen (version : Z) (d : list N)
| SChange (version : Z) (es : list sedit)
| SClose
| SOther (o : dm_op).

Definition valid_sop (u : uri) (o : sop) : Prop :=
  match o with
  | SOpen _ d => valid_text d
  | SChange _ es => Forall valid_edit es
  | SClose => True
  | SOther o' => uri_eqb (op_uri o') u = false
  end.

(* what the protocol says the client-side document is after the operation: None = not open *)
Definition spec_step (s : option (Z * list N)) (o : sop) : option (Z * list N) :=
  match o with
  | SOpen v d => Some (v, d)
  | SChange v es => match s with
                    | Some (_, d) => Some (v, spec_edits d es)
                    | None => None
                    end
  | SClose => None
  | SOther _ => s
  end.

Definition spec_run (s : option (Z * list N)) (os : list sop) : option (Z * list N) := fold_left spec_step os s.

Definition enc_op (u : uri) (o : sop) : dm_op :=
  match o with
  | SOpen v d => OpOpen u v (enc d)
  | SChange v es => OpChange u v (map enc_edit es)
  | SClose => OpClose u
  | SOther o' => o'
  end.

Definition enc_obs (s : option (Z * list N)) : option (Z * list N) :=
  match s with Some (v, d) => Some (v, enc d) | None => None end.

(* the manager's entry for u represents the protocol-level document s *)
Definition hist_rel (u : uri) (ds : docs) (s : option (Z * list N)) : Prop :=
  match s with
  | None => dm_get ds u = None
  | Some (v, d) => valid_text d /\ dm_get ds u = Some (Doc v (enc d) (split_lines (enc d)))
  end.
