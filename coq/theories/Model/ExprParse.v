(* ExprParse.v — Gallina model of pkg/sql/parser/expressions.go (+ parseFunctionCall of window.go),
   written function by function over the converted token list, with the cursor and the depth counter.

   Cursor: the remaining tokens; [cur] = head ("currentToken"), [advance] = tail, [peek] = second.  Past the
   end the Go cursor reads as the EOF token (since /repo 481ea7f for every slice; before that only for token
   lists ending with EOF, which is every list the tokenizer produces): [cur [] = EOF ""].  The tie feeds only
   tokenizer-produced lists.  The depth counter is restored by `defer` on every path, so it is a parameter, not state.

   Branches of the Go code that are not modelled return [Unmodelled] (sub-queries, EXISTS, ANY/ALL, ARRAY,
   subscripts, MATCH..AGAINST, ORDER BY / WITHIN GROUP / FILTER inside a call; OVER ( window specification ) is modelled -
   parseWindowSpec / parseWindowFrame / parseFrameBound of window.go - but is outside the reference expressions of the theorems): the correspondence
   skips and counts them; they are covered by the prescribed-tree oracle (tie b).

   Defect switches (DEVGUIDE section 4): [d_cmp_rhs_primary], [d_like_primary] reproduce the two defects of
   the pinned tree (right operand of a comparison / LIKE pattern read by parsePrimaryExpression).
   Definitions only. *)
From Coq Require Import List String Ascii Bool Arith NArith ZArith.
From GV Require Import Spec.RefGrammar Model.Expr.
Import ListNotations.
Local Open Scope string_scope.
Local Open Scope list_scope.
Local Open Scope nat_scope.
Local Notation length := List.length.

Inductive ecode := EUnexpected | EExpected | EInvalid | EDepth.

Inductive outcome (A : Type) :=
  | Val (a : A) | Err (c : ecode) | Panic | OutOfFuel | Unmodelled.
Arguments Val {A} a. Arguments Err {A} c. Arguments Panic {A}. Arguments OutOfFuel {A}. Arguments Unmodelled {A}.

Definition bind {A B} (o : outcome A) (f : A -> outcome B) : outcome B :=
  match o with
  | Val a => f a | Err c => Err c | Panic => Panic | OutOfFuel => OutOfFuel | Unmodelled => Unmodelled
  end.
(* re-wrap: a failure of the inner parse is reported with another code (goerrors.InvalidSyntaxError(...%v...)) *)
Definition rewrap {A} (c : ecode) (o : outcome A) : outcome A :=
  match o with Err _ => Err c | x => x end.

Notation "'do' p <- a ; b" := (bind a (fun p => b)) (at level 200, p pattern, a at level 100, b at level 200).

Record dflags := DFlags { d_cmp_rhs_primary : bool; d_like_primary : bool }.
Definition no_defects := DFlags false false.

Definition res := outcome (gexpr * list token).

Definition eof_tok := Tk TyEOF "".
Definition cur (ts : list token) : token := match ts with [] => eof_tok | t :: _ => t end.
Definition advance (ts : list token) : list token := match ts with [] => [] | _ :: r => r end.
Definition peek (ts : list token) : token := cur (advance ts).

Definition is_identifier (t : token) : bool := isT t TyIdent || isT t TyDQuoted.
Definition is_string_literal (t : token) : bool := isT t TyString || isT t TySQuoted || isT t TyDollarQuoted.
Definition is_numeric_literal (t : token) : bool := isT t TyNumber.
Definition is_boolean_literal (t : token) : bool := isT t TyTrue || isT t TyFalse.
Definition is_quantifier (t : token) : bool := isT t TyAny || isT t TyAll.
Definition is_json_operator (t : token) : bool := isT t TyJsonOp.

(* window specification keywords (models.TokenType values; ROWS = 302, ROW = 308 are written as numbers here) *)
Definition TyPartition := TyOther 301.
Definition TyRange := TyOther 303.
Definition TyUnbounded := TyOther 304.
Definition TyPreceding := TyOther 305.
Definition TyFollowing := TyOther 306.
Definition TyCurrent := TyOther 307.

(* parseNullsClause *)
Definition parse_nulls (ts : list token) : outcome (option bool * list token) :=
  if isT (cur ts) TyNulls then
    let ts := advance ts in
    if isT (cur ts) TyFirst then Val (Some true, advance ts)
    else if isT (cur ts) TyLast then Val (Some false, advance ts)
    else Err EExpected
  else Val (None, ts).

(* ast.IsNiladicFunctionName *)
Definition niladic_names : list string := ["CURRENT_DATE"; "CURRENT_TIME"; "CURRENT_TIMESTAMP"; "LOCALTIME"; "LOCALTIMESTAMP"].
Definition is_niladic (name : string) : bool := existsb (String.eqb (upper name)) niladic_names.

Definition type_keywords : list string :=
  ["INT"; "INTEGER"; "BIGINT"; "SMALLINT"; "FLOAT"; "DOUBLE"; "DECIMAL"; "NUMERIC"; "VARCHAR"; "CHAR"; "TEXT";
   "BOOLEAN"; "DATE"; "TIME"; "TIMESTAMP"; "INTERVAL"; "BLOB"; "CLOB"; "JSON"; "UUID"].
Definition is_data_type_keyword (t : token) : bool :=
  isT t TyTypeKw || isT t TyInterval || existsb (String.eqb (upper (lit t))) type_keywords.

(* ------------------------------------------------------------------------------------------------ *)
(* left-associative loops: `for isop(current) { left = step(left) }` *)
Section Chain.
  Variable isop : token -> bool.
  Variable step : gexpr -> list token -> res.       (* called with the cursor AT the operator *)
  Fixpoint chain (n : nat) (left : gexpr) (ts : list token) : res :=
    match n with
    | 0 => OutOfFuel
    | S n' => if isop (cur ts) then do (l', ts') <- step left ts; chain n' l' ts' else Val (left, ts)
    end.
End Chain.

Definition bin_step (operand : list token -> res) (left : gexpr) (ts : list token) : res :=
  let op := lit (cur ts) in
  do (r, ts') <- operand (advance ts);
  Val (GBinary left op (Some r) false, ts').

(* the AND / OR loops store the canonical (upper-case) spelling of the keyword (parser.keywordSpelling, repo a8df5c2) *)
Definition kw_step (operand : list token -> res) (left : gexpr) (ts : list token) : res :=
  let op := upper (lit (cur ts)) in
  do (r, ts') <- operand (advance ts);
  Val (GBinary left op (Some r) false, ts').

(* type parameter lists: `for !isType(RParen) { [comma] param }`; returns the text built so far *)
Section TypeParams.
  Variable param_ok : token -> bool.
  Fixpoint type_params (n : nat) (count : nat) (acc : string) (ts : list token) : outcome (string * list token) :=
    match n with
    | 0 => OutOfFuel
    | S n' =>
        if isT (cur ts) TyRParen then Val (acc, ts)
        else
          do (acc1, ts1) <- (if Nat.eqb count 0 then Val (acc, ts)
                              else if isT (cur ts) TyComma then Val ((acc ++ lit (cur ts))%string, advance ts)
                              else Err EExpected);
          if param_ok (cur ts1) then type_params n' (S count) ((acc1 ++ lit (cur ts1))%string) (advance ts1)
          else Err EInvalid
    end.
End TypeParams.

(* parseDataType (for ::) *)
Definition parse_data_type (ts : list token) : outcome (string * list token) :=
  if negb (is_identifier (cur ts)) && negb (is_data_type_keyword (cur ts)) then Err EExpected
  else
    let name := lit (cur ts) in
    let ts := advance ts in
    do (s, ts) <- (if isT (cur ts) TyLParen then
                      do (s, ts1) <- type_params (fun t => isT t TyNumber || isT t TyIdent || is_numeric_literal t)
                                        (S (length ts)) 0 ((name ++ "(")%string) (advance ts);
                      Val ((s ++ ")")%string, advance ts1)
                    else Val (name, ts));
    if isT (cur ts) TyLBracket then
      let ts := advance ts in
      if isT (cur ts) TyRBracket then Val ((s ++ "[]")%string, advance ts) else Err EExpected
    else Val (s, ts).

(* ast.Plus = 0, ast.Minus = 1 (ast.Not = 2 is [unop_not] of Model/Expr.v) *)
Definition unop_plus : N := 0%N.
Definition unop_minus : N := 1%N.

Section Ladder.
  Variable md : nat.                                 (* MaxRecursionDepth *)
  Variable df : dflags.
  Variable rec_expr : nat -> list token -> res.      (* parseExpression *)
  Variable rec_cmp : nat -> list token -> res.       (* parseComparisonExpression *)

  (* comma-separated expression lists that end at a closing token (IN list, tuple tail) *)
  (* IN value list: for { value; if comma advance elif rparen break else error } *)
  Fixpoint in_list (n : nat) (d : nat) (acc : list gexpr) (ts : list token) : outcome (list gexpr * list token) :=
    match n with
    | 0 => OutOfFuel
    | S n' =>
        do (v, ts1) <- rewrap EInvalid (rec_expr d ts);
        if isT (cur ts1) TyComma then in_list n' d (acc ++ [v]) (advance ts1)
        else if isT (cur ts1) TyRParen then Val (acc ++ [v], ts1)
        else Err EExpected
    end.

  (* tuple tail: for isType(comma) { advance; next := parseExpression } *)
  Fixpoint tuple_tail (n : nat) (d : nat) (acc : list gexpr) (ts : list token) : outcome (list gexpr * list token) :=
    match n with
    | 0 => OutOfFuel
    | S n' =>
        if isT (cur ts) TyComma then
          do (v, ts1) <- rec_expr d (advance ts);
          tuple_tail n' d (acc ++ [v]) ts1
        else Val (acc, ts)
    end.

  (* function arguments: `for !isType(ORDER) { arg; comma -> continue | ) or ORDER -> break | SEPARATOR expr -> break }` *)
  Fixpoint call_args (n : nat) (d : nat) (acc : list gexpr) (ts : list token) : outcome (list gexpr * list token) :=
    match n with
    | 0 => OutOfFuel
    | S n' =>
        if isT (cur ts) TyOrder then Val (acc, ts)
        else
          do (a, ts1) <- rec_expr d ts;
          let acc := acc ++ [a] in
          if isT (cur ts1) TyComma then call_args n' d acc (advance ts1)
          else if isT (cur ts1) TyRParen || isT (cur ts1) TyOrder then Val (acc, ts1)
          else if String.eqb (upper (lit (cur ts1))) "SEPARATOR" then
            do (s, ts2) <- rec_expr d (advance ts1);
            Val (acc ++ [s], ts2)
          else Err EExpected
    end.

  (* ---- OVER ( [PARTITION BY e, ...] [ORDER BY e [ASC|DESC] [NULLS FIRST|LAST], ...] [ROWS|RANGE frame] ) ---- *)
  (* `for { e := parseExpression; append; if comma { advance } else break }` *)
  Fixpoint win_exprs (n : nat) (d : nat) (acc : list gexpr) (ts : list token) : outcome (list gexpr * list token) :=
    match n with
    | 0 => OutOfFuel
    | S n' =>
        do (e, ts1) <- rec_expr d ts;
        if isT (cur ts1) TyComma then win_exprs n' d (acc ++ [e]) (advance ts1) else Val (acc ++ [e], ts1)
    end.
  Fixpoint win_orders (n : nat) (d : nat) (acc : list gorder) (ts : list token) : outcome (list gorder * list token) :=
    match n with
    | 0 => OutOfFuel
    | S n' =>
        do (e, ts1) <- rec_expr d ts;
        let '(asc, ts2) := if isT (cur ts1) TyAsc then (true, advance ts1)
                           else if isT (cur ts1) TyDesc then (false, advance ts1) else (true, ts1) in
        do (nf, ts3) <- parse_nulls ts2;
        let acc := acc ++ [GOrder e asc nf] in
        if isT (cur ts3) TyComma then win_orders n' d acc (advance ts3) else Val (acc, ts3)
    end.
  (* parseFrameBound *)
  Definition parse_frame_bound (d : nat) (ts : list token) : outcome (gbound * list token) :=
    if isT (cur ts) TyUnbounded then
      let ts := advance ts in
      if isT (cur ts) TyPreceding then Val (GBound "UNBOUNDED PRECEDING" None, advance ts)
      else if isT (cur ts) TyFollowing then Val (GBound "UNBOUNDED FOLLOWING" None, advance ts)
      else Err EExpected
    else if isT (cur ts) TyCurrent then
      let ts := advance ts in
      if negb (isT (cur ts) (TyOther 308)) then Err EExpected else Val (GBound "CURRENT ROW" None, advance ts)
    else
      do (e, ts1) <- rec_expr d ts;
      if isT (cur ts1) TyPreceding then Val (GBound "PRECEDING" (Some e), advance ts1)
      else if isT (cur ts1) TyFollowing then Val (GBound "FOLLOWING" (Some e), advance ts1)
      else Err EExpected.
  (* parseWindowFrame: the short form (a single bound) leaves End nil *)
  Definition parse_window_frame (d : nat) (fty : string) (ts : list token) : outcome (gframe * list token) :=
    if isT (cur ts) TyBetween then
      do (st, ts1) <- parse_frame_bound d (advance ts);
      if negb (isT (cur ts1) TyAnd) then Err EExpected
      else do (en, ts2) <- parse_frame_bound d (advance ts1); Val (GFrame fty st (Some en), ts2)
    else do (st, ts1) <- parse_frame_bound d ts; Val (GFrame fty st None, ts1).
  (* parseWindowSpec: cursor after OVER *)
  Definition parse_window_spec (d : nat) (ts : list token) : outcome (gwindow * list token) :=
    if negb (isT (cur ts) TyLParen) then Err EExpected
    else
      let ts := advance ts in
      do (part, ts) <-
        (if isT (cur ts) TyPartition then
           let ts := advance ts in
           if negb (isT (cur ts) TyBy) then Err EExpected else let ts := advance ts in win_exprs (S (length ts)) d [] ts
         else Val ([], ts));
      do (ord, ts) <-
        (if isT (cur ts) TyOrder then
           let ts := advance ts in
           if negb (isT (cur ts) TyBy) then Err EExpected else let ts := advance ts in win_orders (S (length ts)) d [] ts
         else Val ([], ts));
      do (fr, ts) <-
        (if isT (cur ts) (TyOther 302) || isT (cur ts) TyRange then
           do (f, ts1) <- parse_window_frame d (upper (lit (cur ts))) (advance ts); Val (Some f, ts1)
         else Val (None, ts));
      if negb (isT (cur ts) TyRParen) then Err EExpected else Val (GWindow "" part ord fr, advance ts).

  (* parseFunctionCall(funcName): cursor at the opening parenthesis *)
  Definition parse_function_call (d : nat) (name : string) (ts : list token) : res :=
    if negb (isT (cur ts) TyLParen) then Err EExpected
    else
      let ts := advance ts in
      let distinct := isT (cur ts) TyDistinct in
      let ts := if distinct then advance ts else ts in
      do (args, ts) <- (if negb (isT (cur ts) TyRParen) then call_args (S (length ts)) d [] ts else Val ([], ts));
      if isT (cur ts) TyOrder then Unmodelled
      else
        do (args, ts) <- (if litfold (cur ts) "SEPARATOR" then
                             do (s, ts1) <- rec_expr d (advance ts); Val (args ++ [s], ts1)
                           else Val (args, ts));
        if negb (isT (cur ts) TyRParen) then Err EExpected
        else
          let ts := advance ts in
          if isT (cur ts) TyWithin || isT (cur ts) TyFilter then Unmodelled
          else if isT (cur ts) TyOver then
            do (w, ts1) <- parse_window_spec d (advance ts); Val (GFunc name args distinct None [] [] (Some w), ts1)
          else Val (GFunc name args distinct None [] [] None, ts).

  (* WHEN clauses: for isType(WHEN) { advance; cond; THEN; result } *)
  Fixpoint case_whens (n : nat) (d : nat) (acc : list (gexpr * gexpr)) (ts : list token)
    : outcome (list (gexpr * gexpr) * list token) :=
    match n with
    | 0 => OutOfFuel
    | S n' =>
        if isT (cur ts) TyWhen then
          do (c, ts1) <- rewrap EInvalid (rec_expr d (advance ts));
          if negb (isT (cur ts1) TyThen) then Err EExpected
          else
            do (r, ts2) <- rewrap EInvalid (rec_expr d (advance ts1));
            case_whens n' d (acc ++ [(c, r)]) ts2
        else Val (acc, ts)
    end.

  (* parseCaseExpression: cursor at CASE *)
  Definition parse_case (d : nat) (ts : list token) : res :=
    let ts := advance ts in
    do (value, ts) <- (if negb (isT (cur ts) TyWhen) then
                          do (v, ts1) <- rewrap EInvalid (rec_expr d ts); Val (Some v, ts1)
                        else Val (None, ts));
    do (whens, ts) <- case_whens (S (length ts)) d [] ts;
    match whens with
    | [] => Err EInvalid
    | _ =>
        do (els, ts) <- (if isT (cur ts) TyElse then
                            do (v, ts1) <- rewrap EInvalid (rec_expr d (advance ts)); Val (Some v, ts1)
                          else Val (None, ts));
        if negb (isT (cur ts) TyEnd) then Err EExpected
        else Val (GCase value whens els, advance ts)
    end.

  (* parseCastExpression: cursor at CAST *)
  Definition parse_cast (d : nat) (ts : list token) : res :=
    let ts := advance ts in
    if negb (isT (cur ts) TyLParen) then Err EExpected
    else
      do (e, ts) <- rec_expr d (advance ts);
      if negb (isT (cur ts) TyAs) then Err EExpected
      else
        let ts := advance ts in
        if negb (isT (cur ts) TyIdent) then Err EExpected
        else
          let name := lit (cur ts) in
          let ts := advance ts in
          do (tystr, ts) <- (if isT (cur ts) TyLParen then
                                do (s, ts1) <- type_params (fun t => is_numeric_literal t || isT t TyIdent)
                                                  (S (length ts)) 0 "(" (advance ts);
                                Val ((name ++ (s ++ ")"))%string, advance ts1)
                              else Val (name, ts));
          if negb (isT (cur ts) TyRParen) then Err EExpected
          else Val (GCast e tystr, advance ts).

  (* parseIntervalExpression: cursor at INTERVAL *)
  Definition parse_interval (ts : list token) : res :=
    let ts := advance ts in
    if is_string_literal (cur ts) then Val (GInterval (lit (cur ts)), advance ts)
    else if is_numeric_literal (cur ts) then
      let num := lit (cur ts) in
      let ts := advance ts in
      Val (GInterval ((num ++ " " ++ upper (lit (cur ts)))%string), advance ts)
    else Err EInvalid.

  (* parseNotOperand *)
  Definition parse_not_operand (d : nat) (ts : list token) : res :=
    if md <? S d then Err EDepth else rec_cmp (S d) ts.

  (* parsePrimaryExpression *)
  Definition primary (d : nat) (ts : list token) : res :=
    let t := cur ts in
    if isT t TyCase then parse_case d ts
    else if isT t TyCast then parse_cast d ts
    else if isT t TyInterval then parse_interval ts
    else if isT t TyArray then Unmodelled
    else if (isT t TyIf || isT t TyReplace) && isT (peek ts) TyLParen then
      parse_function_call d (lit t) (advance ts)
    else if isT t TyIdent || isT t TyDQuoted then
      let name := lit t in
      let ts := advance ts in
      if isT (cur ts) TyLParen then
        do (f, ts1) <- parse_function_call d name ts;
        if eqfold name "MATCH" && litfold (cur ts1) "AGAINST" then Unmodelled else Val (f, ts1)
      else if negb (isT t TyDQuoted) && negb (isT (cur ts) TyPeriod) && is_niladic name then
        Val (GFunc name [] false None [] [] None, ts)        (* CURRENT_DATE & co.: function calls without parentheses *)
      else
        do (ident, ts) <- (if isT (cur ts) TyPeriod then
                              let ts := advance ts in
                              if isT (cur ts) TyAsterisk then Val (GIdent "*" name, advance ts)
                              else if is_identifier (cur ts) then Val (GIdent (lit (cur ts)) name, advance ts)
                              else Err EInvalid
                            else Val (GIdent name "", ts));
        if isT (cur ts) TyLBracket then Unmodelled else Val (ident, ts)
    else if isT t TyAsterisk then Val (GIdent "*" "", advance ts)
    else if is_string_literal t then Val (GLit (Some (lit t)) "string", advance ts)
    else if is_numeric_literal t then Val (GLit (Some (lit t)) (num_type (lit t)), advance ts)
    else if is_boolean_literal t then Val (GLit (Some (lit t)) "bool", advance ts)
    else if isT t TyPlaceholder then Val (GLit (Some (lit t)) "placeholder", advance ts)
    else if isT t TyNull then Val (GLit None "null", advance ts)
    else if isT t TyLParen then
      let ts := advance ts in
      if isT (cur ts) TySelect || isT (cur ts) TyWith then Unmodelled
      else
        do (e, ts) <- rec_expr d ts;
        if isT (cur ts) TyComma then
          do (es, ts) <- tuple_tail (S (length ts)) d [e] ts;
          if negb (isT (cur ts) TyRParen) then Err EExpected else Val (GTuple es, advance ts)
        else if negb (isT (cur ts) TyRParen) then Err EExpected
        else
          let ts := advance ts in
          if isT (cur ts) TyLBracket then Unmodelled else Val (e, ts)
    else if isT t TyExists then
      let ts := advance ts in
      if negb (isT (cur ts) TyLParen) then Err EExpected else Unmodelled
    else if isT t TyNot then
      let ts := advance ts in
      if isT (cur ts) TyExists then
        let ts := advance ts in
        if negb (isT (cur ts) TyLParen) then Err EExpected else Unmodelled
      else
        do (e, ts) <- parse_not_operand d ts;
        Val (GUnary unop_not e, ts)
    else Err EUnexpected.

  (* `for isType(::) { advance; type := parseDataType; left = Cast }` *)
  Definition cast_step (left : gexpr) (ts : list token) : res :=
    do (t, ts') <- parse_data_type (advance ts);
    Val (GCast left t, ts').
  Definition cast_loop (left : gexpr) (ts : list token) : res :=
    chain (fun t => isT t TyDoubleColon) cast_step (S (length ts)) left ts.

  (* JSON operator step: operator, primary on the right, then any number of casts *)
  Definition json_step (d : nat) (left : gexpr) (ts : list token) : res :=
    let op := lit (cur ts) in
    do (r, ts') <- primary d (advance ts);
    cast_loop (GBinary left op (Some r) false) ts'.

  (* parseJSONExpression *)
  Definition json_tail (d : nat) (l : gexpr) (ts : list token) : res :=
    do (l, ts) <- cast_loop l ts;
    chain is_json_operator (json_step d) (S (length ts)) l ts.
  Definition json_level (d : nat) (ts : list token) : res :=
    do (l, ts) <- primary d ts;
    json_tail d l ts.

  (* parseUnaryExpression / parseSignedExpression (since /repo "fix: unary minus and plus"): a chain of signs,
     each passing the depth check of parseSignedExpression, then parseJSONExpression.  The mutual recursion
     parseUnaryExpression -> parseSignedExpression -> parseUnaryExpression consumes one token per round:
     fuel = number of remaining tokens + 1. *)
  Definition is_sign (t : token) : bool := isT t TyMinus || isT t TyPlus.
  Fixpoint unary_chain (n : nat) (d : nat) (ts : list token) : res :=
    match n with
    | 0 => OutOfFuel
    | S n' =>
        if is_sign (cur ts) then
          if md <? S d then Err EDepth
          else
            let op := if isT (cur ts) TyPlus then unop_plus else unop_minus in
            do (e, ts') <- unary_chain n' (S d) (advance ts);
            Val (GUnary op e, ts')
        else json_level d ts
    end.
  Definition unary_level (d : nat) (ts : list token) : res := unary_chain (S (length ts)) d ts.

  (* parseMultiplicativeExpression *)
  Definition mul_level (d : nat) (ts : list token) : res :=
    do (l, ts) <- unary_level d ts;
    chain cont6 (bin_step (unary_level d)) (S (length ts)) l ts.

  (* parseAdditiveExpression *)
  Definition add_level (d : nat) (ts : list token) : res :=
    do (l, ts) <- mul_level d ts;
    chain cont5 (bin_step (mul_level d)) (S (length ts)) l ts.

  (* parseStringConcatExpression *)
  Definition concat_level (d : nat) (ts : list token) : res :=
    do (l, ts) <- add_level d ts;
    chain cont4 (bin_step (add_level d)) (S (length ts)) l ts.

  (* parseComparisonExpression *)
  (* the part of parseComparisonExpression after the left operand *)
  Definition cmp_tail (d : nat) (lhs : gexpr) (ts : list token) : res :=
    let peek_up := upper (lit (peek ts)) in
    let not_prefix :=
      isT (cur ts) TyNot
      && (String.eqb peek_up "BETWEEN" || String.eqb peek_up "LIKE" || String.eqb peek_up "ILIKE" || String.eqb peek_up "IN") in
    let ts := if not_prefix then advance ts else ts in
    if isT (cur ts) TyBetween then
      do (lo, ts) <- rewrap EInvalid (concat_level d (advance ts));
      if negb (isT (cur ts) TyAnd) then Err EExpected
      else
        do (hi, ts) <- rewrap EInvalid (concat_level d (advance ts));
        Val (GBetween lhs lo hi not_prefix, ts)
    else if isT (cur ts) TyLike || litfold (cur ts) "ILIKE" then
      let op := upper (lit (cur ts)) in
      do (p, ts) <- rewrap EInvalid ((if d_like_primary df then primary d else concat_level d) (advance ts));
      Val (GBinary lhs op (Some p) not_prefix, ts)
    else if litfold (cur ts) "REGEXP" || litfold (cur ts) "RLIKE" then
      let op := upper (lit (cur ts)) in
      do (p, ts) <- rewrap EInvalid (primary d (advance ts));
      Val (GBinary lhs op (Some p) not_prefix, ts)
    else if isT (cur ts) TyIn then
      let ts := advance ts in
      if negb (isT (cur ts) TyLParen) then Err EExpected
      else
        let ts := advance ts in
        if isT (cur ts) TySelect || isT (cur ts) TyWith then Unmodelled
        else
          do (vals, ts) <- in_list (S (length ts)) d [] ts;
          Val (GIn lhs vals None not_prefix, advance ts)
    else if not_prefix then Err EExpected
    else if isT (cur ts) TyIs then
      let ts := advance ts in
      let is_not := isT (cur ts) TyNot in
      let ts := if is_not then advance ts else ts in
      if isT (cur ts) TyNull then Val (GBinary lhs "IS NULL" (Some null_lit) is_not, advance ts)
      else Err EExpected
    else if is_cmp_tok (cur ts) then
      let op := lit (cur ts) in
      let ts := advance ts in
      if is_quantifier (cur ts) then
        let ts := advance ts in
        if negb (isT (cur ts) TyLParen) then Err EExpected else Unmodelled
      else
        do (r, ts) <- (if d_cmp_rhs_primary df then primary d else concat_level d) ts;
        Val (GBinary lhs op (Some r) false, ts)
    else Val (lhs, ts).

  Definition cmp_level (d : nat) (ts : list token) : res :=
    do (lhs, ts) <- concat_level d ts;
    cmp_tail d lhs ts.

  (* parseAndExpression *)
  Definition and_level (d : nat) (ts : list token) : res :=
    do (l, ts) <- cmp_level d ts;
    chain cont1 (kw_step (cmp_level d)) (S (length ts)) l ts.

  (* parseExpression without the depth check *)
  Definition or_level (d : nat) (ts : list token) : res :=
    do (l, ts) <- and_level d ts;
    chain cont0 (kw_step (and_level d)) (S (length ts)) l ts.

  (* parseExpression: depth++ ; check ; body (depth is restored on return) *)
  Definition expr_body (d : nat) (ts : list token) : res :=
    if md <? S d then Err EDepth else or_level (S d) ts.
End Ladder.

Fixpoint parse_expression (md : nat) (df : dflags) (fuel : nat) (d : nat) (ts : list token) {struct fuel} : res :=
  match fuel with
  | 0 => OutOfFuel
  | S f => expr_body md df (parse_expression md df f) (parse_comparison md df f) d ts
  end
with parse_comparison (md : nat) (df : dflags) (fuel : nat) (d : nat) (ts : list token) {struct fuel} : res :=
  match fuel with
  | 0 => OutOfFuel
  | S f => cmp_level md df (parse_expression md df f) (parse_comparison md df f) d ts
  end.

Definition max_recursion_depth : nat := 100.

(* entry point used by the correspondence: parseExpression at depth [d] with enough fuel *)
Definition parse_expr_top (df : dflags) (d : nat) (ts : list token) : res :=
  parse_expression max_recursion_depth df (S (length ts)) d ts.

(* ------------------------------------------------------------------------------------------------ *)
(* correspondence cases: tokens, depth at entry, and what the real parser did: None = rejected,
   Some (tree, tokens consumed).  Result codes: 0 agree, 1 disagree, 2 not modelled. *)
Definition case_result (df : dflags) (c : list token * nat * option (sx * nat)) : N :=
  match c with
  | (ts, d, expected) =>
      match parse_expr_top df d ts, expected with
      | Unmodelled, _ => 2%N
      | Val (e, rest), Some (tree, consumed) =>
          if sx_eqb (reflect_expr e) tree && Nat.eqb (length ts - length rest) consumed then 0%N else 1%N
      | Err _, None => 0%N
      | _, _ => 1%N
      end
  end.

(* reference cases: model expression, its expected dump (computed by the generator): ast_of agrees *)
Definition spec_case_ok (c : mexpr * sx) : bool := sx_eqb (reflect_expr (ast_of (fst c))) (snd c).
(* rendering cases: the token list the real tokenizer produced for the generator's text *)
Fixpoint tok_eqb (a b : list token) : bool :=
  match a, b with
  | [], [] => true
  | x :: a', y :: b' => tty_eqb (ty x) (ty y) && String.eqb (lit x) (lit y) && tok_eqb a' b'
  | _, _ => false
  end.

Fixpoint bad_indices {A} (f : A -> bool) (i : N) (l : list A) : list N :=
  match l with [] => [] | x :: r => (if f x then [] else [i]) ++ bad_indices f (N.succ i) r end.

(* parenthesisation choices given as an association list path -> redundant pairs *)
Fixpoint path_eqb (a b : list nat) : bool :=
  match a, b with
  | [], [] => true
  | x :: a', y :: b' => Nat.eqb x y && path_eqb a' b'
  | _, _ => false
  end.
Definition rho_of (l : list (list nat * nat)) : rho :=
  fun p => match find (fun x => path_eqb p (fst x)) l with Some x => snd x | None => 0 end.

(* generator cross-checks: the Python renderer / prescriber agree with [render] / [ast_of] / [pdepth] *)
Definition render_case_ok (c : mexpr * rho * list token * nat) : bool :=
  match c with (e, r, toks, dep) => tok_eqb (render 0 r e) toks && Nat.eqb (pdepth 0 r e) dep && ref_expr e end.
