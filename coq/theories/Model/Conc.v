(* Conc.v — goroutines that share only pools (and atomic counters).

   A goroutine executes a list of steps: take an object from a shared pool, return one, compute locally on the
   objects it holds and its own result, bump a shared counter.  A schedule is any list of (goroutine id, choice):
   the choice says which pooled object a PoolGet receives (sync.Pool may hand out any pooled object or, if the
   index is out of range — pool empty or victim cache dropped — a new one).  Any number of goroutines.

   The pool discipline of the library (C09: what Put stores is observationally a fresh object) is a Section
   hypothesis; so is that local computations depend on their objects only up to observational equivalence.
   Definitions only; proofs in Proofs/ConcP.v. *)
From Coq Require Import List ZArith Bool Arith.
Import ListNotations.

Section Conc.
  Variable obj : Type.                      (* pooled object: tokenizer, parser, AST node, buffer *)
  Variable res : Type.                      (* what the goroutine's calls return *)
  Variable fresh : obj.                     (* what the pool's New builds *)
  Variable eqv : obj -> obj -> Prop.        (* observational equivalence *)
  Variable reset : obj -> obj.              (* what Put does to the object before pooling it *)

  Inductive cstep :=
  | PoolGet (p : nat)
  | PoolPut (p : nat)
  | Local (f : list obj -> res -> list obj * res)
  | AtomicAdd (c : nat) (n : Z).

  Record gthread := { g_done : list cstep; g_todo : list cstep; g_held : list obj; g_res : res; g_res0 : res }.

  Record shared := { pools : nat -> list obj; counters : nat -> Z }.

  Fixpoint remove_nth {A} (n : nat) (l : list A) : list A :=
    match n, l with
    | _, [] => []
    | O, _ :: r => r
    | S k, h :: r => h :: remove_nth k r
    end.

  Definition upd_pool (f : nat -> list obj) (p : nat) (v : list obj) : nat -> list obj :=
    fun q => if Nat.eqb q p then v else f q.
  Definition upd_ctr (f : nat -> Z) (c : nat) (v : Z) : nat -> Z :=
    fun q => if Nat.eqb q c then v else f q.

  Definition advance (t : gthread) (s : cstep) (rest : list cstep) (h : list obj) (r : res) : gthread :=
    {| g_done := g_done t ++ [s]; g_todo := rest; g_held := h; g_res := r; g_res0 := g_res0 t |}.

  Definition gstep_thread (sh : shared) (t : gthread) (choice : nat) : shared * gthread :=
    match g_todo t with
    | [] => (sh, t)
    | s :: rest =>
        match s with
        | PoolGet p =>
            match nth_error (pools sh p) choice with
            | Some o => ({| pools := upd_pool (pools sh) p (remove_nth choice (pools sh p)); counters := counters sh |},
                         advance t s rest (o :: g_held t) (g_res t))
            | None => (sh, advance t s rest (fresh :: g_held t) (g_res t))
            end
        | PoolPut p =>
            match g_held t with
            | o :: h => ({| pools := upd_pool (pools sh) p (reset o :: pools sh p); counters := counters sh |},
                         advance t s rest h (g_res t))
            | [] => (sh, advance t s rest [] (g_res t))
            end
        | Local f => let (h, r) := f (g_held t) (g_res t) in (sh, advance t s rest h r)
        | AtomicAdd c n => ({| pools := pools sh; counters := upd_ctr (counters sh) c (counters sh c + n)%Z |},
                            advance t s rest (g_held t) (g_res t))
        end
    end.

  Fixpoint set_g (ts : list gthread) (n : nat) (t : gthread) : list gthread :=
    match n, ts with
    | _, [] => []
    | O, _ :: r => t :: r
    | S k, h :: r => h :: set_g r k t
    end.

  Definition gstep (c : shared * list gthread) (x : nat * nat) : shared * list gthread :=
    match nth_error (snd c) (fst x) with
    | None => c
    | Some t => let (sh', t') := gstep_thread (fst c) t (snd x) in (sh', set_g (snd c) (fst x) t')
    end.

  Definition grun (c : shared * list gthread) (sched : list (nat * nat)) : shared * list gthread := fold_left gstep sched c.

  (* the same steps executed alone, from empty pools: every PoolGet builds a new object *)
  Definition solo_step (st : list obj * res) (s : cstep) : list obj * res :=
    match s with
    | PoolGet _ => (fresh :: fst st, snd st)
    | PoolPut _ => (tl (fst st), snd st)
    | Local f => f (fst st) (snd st)
    | AtomicAdd _ _ => st
    end.
  Definition solo (r0 : res) (prog : list cstep) : list obj * res := fold_left solo_step prog ([], r0).

  Definition gstart (prog : list cstep) (r0 : res) : gthread :=
    {| g_done := []; g_todo := prog; g_held := []; g_res := r0; g_res0 := r0 |}.

  (* a local computation sees its objects only up to observational equivalence *)
  Definition respects (f : list obj -> res -> list obj * res) : Prop :=
    forall h h' r, Forall2 eqv h h' -> Forall2 eqv (fst (f h r)) (fst (f h' r)) /\ snd (f h r) = snd (f h' r).
  Definition prog_respects (prog : list cstep) : Prop :=
    forall f, In (Local f) prog -> respects f.

  (* sum of the adds to counter c among the given steps *)
  Fixpoint adds (c : nat) (l : list cstep) : Z :=
    match l with
    | [] => 0%Z
    | AtomicAdd c' n :: r => ((if Nat.eqb c' c then n else 0) + adds c r)%Z
    | _ :: r => adds c r
    end.
End Conc.
