(* LspFrame.v — model of the LSP base protocol framing (pkg/lsp/server.go readMessage / sendMessage),
   over the raw byte stream (bytes are N < 256).
     bufio.Reader.ReadString('\n')   -> the line accumulation inside [headers]
     strings.TrimSpace               -> trim_space (unicode.IsSpace as the list of UTF-8 encodings of the
                                        25 white-space runes; utf8 decoding of a prefix/suffix that is a
                                        well-formed encoding returns that rune, so pattern matching is exact)
     strings.HasPrefix/TrimPrefix    -> has_prefix / skipn
     strconv.Atoi                    -> atoi   (optional sign, decimal digits, int64 range)
     make([]byte, n) + io.ReadFull   -> the length tests of [read_frame]; make with a negative length panics
     fmt.Sprintf("Content-Length: %d\r\n\r\n", len(content)) + content -> write_frame *)
From Coq Require Import List NArith ZArith Bool.
Import ListNotations.
Local Open Scope N_scope.

Fixpoint has_prefix (p s : list N) : bool :=
  match p, s with
  | [], _ => true
  | x :: p', y :: s' => (x =? y) && has_prefix p' s'
  | _ :: _, [] => false
  end.

(* UTF-8 encodings of the runes on which unicode.IsSpace is true:
   U+0009..U+000D, U+0020, U+0085, U+00A0, U+1680, U+2000..U+200A, U+2028, U+2029, U+202F, U+205F, U+3000 *)
Definition space_pats : list (list N) :=
  [[9]; [10]; [11]; [12]; [13]; [32];
   [194; 133]; [194; 160];
   [225; 154; 128];
   [226; 128; 128]; [226; 128; 129]; [226; 128; 130]; [226; 128; 131]; [226; 128; 132]; [226; 128; 133];
   [226; 128; 134]; [226; 128; 135]; [226; 128; 136]; [226; 128; 137]; [226; 128; 138];
   [226; 128; 168]; [226; 128; 169]; [226; 128; 175];
   [226; 129; 159];
   [227; 128; 128]].

(* length of the first pattern that is a prefix of s, 0 if none *)
Fixpoint pat_len (pats : list (list N)) (s : list N) : nat :=
  match pats with
  | [] => 0%nat
  | p :: r => if has_prefix p s then length p else pat_len r s
  end.

(* strip leading occurrences of the patterns; [skip] = bytes of the current pattern still to drop *)
Fixpoint trim_with (pats : list (list N)) (s : list N) (skip : nat) : list N :=
  match s with
  | [] => []
  | _ :: t =>
      match skip with
      | S k => trim_with pats t k
      | O => match pat_len pats s with
             | O => s
             | S k => trim_with pats t k
             end
      end
  end.

Definition trim_left (s : list N) : list N := trim_with space_pats s 0.
Definition trim_right (s : list N) : list N := rev (trim_with (map (@rev N) space_pats) (rev s) 0).
Definition trim_space (s : list N) : list N := trim_right (trim_left s).

(* strconv.Atoi *)
Definition is_digit (b : N) : bool := (48 <=? b) && (b <=? 57).

Fixpoint digits_val (s : list N) (acc : Z) : option Z :=
  match s with
  | [] => Some acc
  | b :: t => if is_digit b then digits_val t (acc * 10 + Z.of_N (b - 48))%Z else None
  end.

Definition int_min : Z := (- 9223372036854775808)%Z.
Definition int_max : Z := 9223372036854775807%Z.

Definition atoi (s : list N) : option Z :=
  let unsigned (t : list N) : option Z :=
    match t with
    | [] => None
    | _ => digits_val t 0%Z
    end in
  let ranged (v : option Z) : option Z :=
    match v with
    | Some z => if (int_min <=? z)%Z && (z <=? int_max)%Z then Some z else None
    | None => None
    end in
  match s with
  | [] => None
  | b :: t =>
      if b =? 43 then ranged (unsigned t)                                             (* '+' *)
      else if b =? 45 then ranged (match unsigned t with Some z => Some (- z)%Z | None => None end)  (* '-' *)
      else ranged (unsigned s)
  end.

(* "Content-Length:" *)
Definition cl_name : list N := [67; 111; 110; 116; 101; 110; 116; 45; 76; 101; 110; 103; 116; 104; 58].

Inductive hres :=
| HEof                                   (* ReadString returned io.EOF: everything is consumed *)
| HErr (rest : list N)                   (* invalid Content-Length value: error returned mid-headers *)
| HDone (cl : Z) (rest : list N).        (* empty line reached *)

(* the header loop of readMessage.  [cur] = bytes of the current line read so far, reversed *)
Fixpoint headers (s : list N) (cur : list N) (cl : Z) : hres :=
  match s with
  | [] => HEof
  | c :: t =>
      if c =? 10 then
        let line := trim_space (rev (c :: cur)) in
        match line with
        | [] => HDone cl t
        | _ =>
            if has_prefix cl_name line then
              match atoi (trim_space (skipn 15 line)) with
              | Some v => headers t [] v
              | None => HErr t
              end
            else headers t [] cl
        end
      else headers t (c :: cur) cl
  end.

Inductive fres :=
| FMsg (body rest : list N)
| FErr (rest : list N)                   (* readMessage returned a non-EOF error; Run continues *)
| FEof                                   (* readMessage returned io.EOF; Run returns nil *)
| FPanic.

Section Frame.
  Variable neg_guard : bool.             (* the contentLength < 0 test (fix c18-5); false = pinned code *)
  Variable maxlen : Z.                   (* MaxContentLength *)

  Definition read_frame (s : list N) : fres :=
    match headers s [] 0%Z with
    | HEof => FEof
    | HErr r => FErr r
    | HDone cl r =>
        if (cl =? 0)%Z then FErr r
        else if (cl <? 0)%Z then (if neg_guard then FErr r else FPanic)   (* make([]byte, negative) *)
        else if (cl >? maxlen)%Z then FErr r
        else if (Z.of_nat (length r) <? cl)%Z then FErr []                 (* io.ReadFull: short read *)
        else FMsg (firstn (Z.to_nat cl) r) (skipn (Z.to_nat cl) r)
    end.

  (* what Run sees on a whole input stream *)
  Inductive item :=
  | IBody (b : list N)
  | IErr
  | IEof
  | IPanic
  | IFuel.

  Fixpoint read_all (fuel : nat) (s : list N) : list item :=
    match fuel with
    | O => [IFuel]
    | S f =>
        match read_frame s with
        | FMsg b r => IBody b :: read_all f r
        | FErr r => IErr :: read_all f r
        | FEof => [IEof]
        | FPanic => [IPanic]
        end
    end.
End Frame.

(* fmt %d of a non-negative length *)
Fixpoint dec_digits (fuel : nat) (n : N) : list N :=
  match fuel with
  | O => []
  | S f => if n <? 10 then [48 + n] else dec_digits f (n / 10) ++ [48 + n mod 10]
  end.
Definition decimal (n : N) : list N := dec_digits (S (N.to_nat (N.log2 n))) n.

(* sendMessage: "Content-Length: %d\r\n\r\n" then the content *)
Definition frame_header (n : N) : list N := cl_name ++ [32] ++ decimal n ++ [13; 10; 13; 10].
Definition write_frame (b : list N) : list N := frame_header (N.of_nat (length b)) ++ b.

(* ---------------------------------------------------------------------------------------------
   evaluation helpers for the correspondence *)
Fixpoint nlist_eqb (a b : list N) : bool :=
  match a, b with
  | [], [] => true
  | x :: a', y :: b' => (x =? y) && nlist_eqb a' b'
  | _, _ => false
  end.

Definition item_eqb (a b : item) : bool :=
  match a, b with
  | IBody x, IBody y => nlist_eqb x y
  | IErr, IErr | IEof, IEof | IPanic, IPanic | IFuel, IFuel => true
  | _, _ => false
  end.

Fixpoint items_eqb (a b : list item) : bool :=
  match a, b with
  | [], [] => true
  | x :: a', y :: b' => item_eqb x y && items_eqb a' b'
  | _, _ => false
  end.

(* (input stream, expected items) with the tree's configuration *)
Definition frame_case_ok (maxlen : Z) (c : list N * list item) : bool :=
  items_eqb (read_all true maxlen (S (length (fst c))) (fst c)) (snd c).

(* (body length, expected header bytes) *)
Definition header_case_ok (c : N * list N) : bool := nlist_eqb (frame_header (fst c)) (snd c).

Fixpoint bad_idx {A} (ok : A -> bool) (i : N) (l : list A) : list N :=
  match l with
  | [] => []
  | x :: r => if ok x then bad_idx ok (i + 1) r else i :: bad_idx ok (i + 1) r
  end.
