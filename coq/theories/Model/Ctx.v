(* Ctx.v — the two loops that poll a context, as written in the Go source, with the context as an oracle.

   Tokenizer.TokenizeContext (pkg/sql/tokenizer/tokenizer.go): the loop of Tokenize plus, at the top of each
   iteration, `if len(tokens)%100 == 0 { if err := ctx.Err(); err != nil { tokenErr = err; return } }`.
   The oracle is indexed by the amount of work done: [done n] = "a poll made when n tokens have been produced
   reports done".  [step pos] abstracts skipWhitespace + nextToken from byte offset pos.

   Parser.ParseContext (pkg/sql/parser/parser.go): entry check, then the statement loop with a poll before each
   statement; parseStatement and parseExpression poll at their entry.  The oracle is indexed by the poll counter:
   [done k] = "the k-th poll of this call reports done".  The statement parser is given by its context-free
   behaviour [ps] (as in Model/Loops.v) and the number of polls [np pos] it makes from cursor pos (the entry
   polls of parseStatement / parseExpression and the polls of the token cursor, see below); under a context the
   call ends with the context error when any of these polls reports done (an entry poll returns it, wrapped with
   %w or kept as a cause all the way up - the error-site table establishes that no poll result is discarded or
   re-wrapped by text, see Props/C11.v; a cursor poll records it, turns the cursor into end of input, and
   ParseContext returns the recorded error both when the statement then fails and before it would return a
   tree) and otherwise behaves as [ps].

   Parser.advance under a context: every [interval] (= contextPollInterval = 64) cursor positions the context is
   polled; once a poll reported done the cursor is cancelled for good and reads as end of input. *)
From Coq Require Import List Arith Bool NArith.
From GV Require Import Model.Loops.
Import ListNotations.
Local Open Scope nat_scope.

Section Tok.
  Variable tok : Type.
  Variable len : nat.                       (* len(input) *)
  Variable maxtok : nat.                    (* MaxTokens *)
  Variable batch : nat.                     (* 100: tokens between two polls *)
  Inductive lres := LEnd | LErr (code : nat) | LTok (t : tok) (p' : nat).
  Variable step : nat -> lres.              (* skipWhitespace; end of input?; nextToken *)
  Variable done : nat -> bool.

  Inductive tres := TOk (ts : list tok) | TErr (code ntoks : nat) | TCtx (ntoks : nat) | TFuel.
  Definition E_TOKLIMIT := 1007.

  (* Tokenizer.Tokenize *)
  Fixpoint tokenize (fuel pos : nat) (acc : list tok) : tres :=
    match fuel with
    | O => TFuel
    | S f =>
        if pos <? len then
          match step pos with
          | LEnd => TOk acc
          | LErr c => if maxtok <=? length acc then TErr E_TOKLIMIT (length acc) else TErr c (length acc)
          | LTok t p' => if maxtok <=? length acc then TErr E_TOKLIMIT (length acc) else tokenize f p' (acc ++ [t])
          end
        else TOk acc
    end.

  (* Tokenizer.TokenizeContext: a separate copy of the loop with the poll *)
  Fixpoint tokenize_ctx (fuel pos : nat) (acc : list tok) : tres :=
    match fuel with
    | O => TFuel
    | S f =>
        if pos <? len then
          if (length acc mod batch =? 0) && done (length acc) then TCtx (length acc)
          else
            match step pos with
            | LEnd => TOk acc
            | LErr c => if maxtok <=? length acc then TErr E_TOKLIMIT (length acc) else TErr c (length acc)
            | LTok t p' => if maxtok <=? length acc then TErr E_TOKLIMIT (length acc) else tokenize_ctx f p' (acc ++ [t])
            end
        else TOk acc
    end.

  (* token counts at which the uncancelled run polls *)
  Fixpoint tpolls (fuel pos : nat) (acc : list tok) : list nat :=
    match fuel with
    | O => []
    | S f =>
        if pos <? len then
          (if length acc mod batch =? 0 then [length acc] else []) ++
          match step pos with
          | LTok t p' => if maxtok <=? length acc then [] else tpolls f p' (acc ++ [t])
          | _ => []
          end
        else []
    end.

  Definition produced (r : tres) : nat :=
    match r with TOk ts => length ts | TErr _ n => n | TCtx n => n | TFuel => 0 end.
End Tok.
Arguments LEnd {tok}. Arguments LErr {tok}. Arguments LTok {tok}.
Arguments TOk {tok}. Arguments TErr {tok}. Arguments TCtx {tok}. Arguments TFuel {tok}.

Section Par.
  Variable tree : Type.
  Variable ntok : nat.
  Variable is_eof is_semi : nat -> bool.
  Variable ps : nat -> sres tree.          (* parseStatement from cursor pos, context never done *)
  Variable np : nat -> nat.                (* polls parseStatement makes from pos in that run *)
  Variable done : nat -> bool.
  Variable strict : bool.                  (* WithStrictMode: empty statements are errors *)

  Inductive cres := COk (ts : list tree) | CErr (code : N) | CCtx (poll : nat) | CFuel.

  (* the first poll among c, c+1, ..., c+n-1 that reports done *)
  Fixpoint first_done (c n : nat) : option nat :=
    match n with
    | O => None
    | S m => if done c then Some c else first_done (S c) m
    end.

  (* the statement loop of ParseContext; c = number of polls made so far *)
  Fixpoint parse_c (fuel pos : nat) (acc : list tree) (c : nat) : cres :=
    match fuel with
    | O => CFuel
    | S f =>
        if in_range ntok is_eof pos then
          if done c then CCtx c
          else if is_semi pos then
            if strict then CErr E_STRICT else parse_c f (S pos) acc (S c)
          else match first_done (S c) (np pos) with
               | Some k => CCtx k
               | None => match ps pos with
                         | SErr code _ => CErr code
                         | SOk t p' => parse_c f (skip_semi ntok is_semi p') (acc ++ [t]) (S c + np pos)
                         end
               end
        else match acc with
             | [] => if strict then CErr E_STRICT else CErr E_EMPTY
             | _ => COk acc
             end
    end.
  (* Parser.ParseContext: `if err := ctx.Err(); err != nil { return nil, err }` is poll 0 *)
  Definition parse_context (fuel : nat) : cres := if done 0 then CCtx 0 else parse_c fuel 0 [] 1.

  (* number of polls made when the context never fires *)
  Fixpoint polls (fuel pos c : nat) : nat :=
    match fuel with
    | O => c
    | S f =>
        if in_range ntok is_eof pos then
          if is_semi pos then (if strict then S c else polls f (S pos) (S c))
          else match ps pos with
               | SErr _ _ => S c + np pos
               | SOk _ p' => polls f (skip_semi ntok is_semi p') (S c + np pos)
               end
        else c
    end.

  Definition lift (r : pres tree) : cres :=
    match r with POk ts => COk ts | PErr c => CErr c | PFuel => CFuel end.
End Par.
Arguments COk {tree}. Arguments CErr {tree}. Arguments CCtx {tree}. Arguments CFuel {tree}.

Section Cur.
  Variable interval : nat.
  Variable done : nat -> bool.     (* a poll made when the cursor is at position p reports done *)
  (* state: (cursor position, cancelled) *)
  Definition adv (s : nat * bool) : nat * bool :=
    let p := S (fst s) in
    if snd s then (p, true)
    else if (p mod interval =? 0) && done p then (p, true) else (p, false).
  Fixpoint advn (n : nat) (s : nat * bool) : nat * bool :=
    match n with O => s | S m => advn m (adv s) end.
End Cur.

(* ---- concrete instances for the correspondence cases ---- *)
(* tokenizer: only the token count matters: an input with n tokens, one byte each *)
Definition unit_step (n : nat) (pos : nat) : lres unit := if pos <? n then LTok tt (S pos) else LEnd.
Definition tok_polls (ntokens bytes maxtok : nat) : nat :=
  length (tpolls unit bytes maxtok 100 (unit_step ntokens) (S bytes) 0 []).
