(* Loops.v — the statement loops of pkg/sql/parser/parser.go and recovery.go, each copy modelled separately
   as written, parametric in the statement parser [ps] (what parseStatement does from a cursor position: the
   harness records exactly this table from the real parser for every input it runs).
     parse strict   : Parser.Parse and Parser.ParseWithPositions (same loop; strict-mode checks)
     parse_ctx      : Parser.ParseContext with a context that never fires (a separate copy of the loop)
     recover        : Parser.parseWithRecovery (forced advance + synchronize)
     multi          : the batch loop of gosqlx.ParseMultiple / ValidateMultiple
   Token classes are only consulted for positions < ntok, as the Go loops do (cursor bound checked first). *)
From Coq Require Import List Arith Bool NArith.
Import ListNotations.
Local Open Scope nat_scope.

Section L.
  Variable tree : Type.
  Variable ntok : nat.                              (* len(tokens) *)
  Variable is_eof is_semi starts_stmt : nat -> bool. (* class of tokens[pos] *)

  Inductive sres := SOk (t : tree) (p' : nat) | SErr (code : N) (p' : nat).
  Variable ps : nat -> sres.                         (* parseStatement from cursor pos: result and cursor afterwards *)

  Inductive pres := POk (ts : list tree) | PErr (code : N) | PFuel.

  Definition E_EMPTY : N := 2005%N.   (* IncompleteStatement: no statement at all *)
  Definition E_STRICT : N := 2004%N.  (* InvalidSyntax: empty statement in strict mode *)

  Definition in_range (pos : nat) : bool := (pos <? ntok) && negb (is_eof pos).
  Definition skip_semi (p : nat) : nat := if (p <? ntok) && is_semi p then S p else p.

  (* Parser.Parse / Parser.ParseWithPositions *)
  Fixpoint parse (strict : bool) (fuel pos : nat) (acc : list tree) : pres :=
    match fuel with
    | O => PFuel
    | S f =>
        if in_range pos then
          if is_semi pos then
            if strict then PErr E_STRICT else parse strict f (S pos) acc
          else match ps pos with
               | SErr c _ => PErr c
               | SOk t p' => parse strict f (skip_semi p') (acc ++ [t])
               end
        else match acc with
             | [] => if strict then PErr E_STRICT else PErr E_EMPTY
             | _ => POk acc
             end
    end.

  (* Parser.ParseContext, context never done: a separate copy of the loop *)
  Fixpoint parse_ctx (strict : bool) (fuel pos : nat) (acc : list tree) : pres :=
    match fuel with
    | O => PFuel
    | S f =>
        if in_range pos then
          if is_semi pos then
            if strict then PErr E_STRICT else parse_ctx strict f (S pos) acc
          else match ps pos with
               | SErr c _ => PErr c
               | SOk t p' => parse_ctx strict f (skip_semi p') (acc ++ [t])
               end
        else match acc with
             | [] => if strict then PErr E_STRICT else PErr E_EMPTY
             | _ => POk acc
             end
    end.

  (* synchronize(): skip to just after the next semicolon, or stop at a statement-starting keyword *)
  Fixpoint sync (fuel pos : nat) : nat :=
    match fuel with
    | O => pos
    | S f =>
        if in_range pos then
          if is_semi pos then S pos
          else if starts_stmt pos then pos
          else sync f (S pos)
        else pos
    end.

  Inductive rres := ROk (ts : list tree) (errs : list (nat * N)) | RFuel.   (* errors: (token index, code) *)

  (* Parser.parseWithRecovery.  [unterm] is the cursor position right after the most recent statement when no
     semicolon followed it: a statement directly followed by tokens that cannot start a statement is only the
     well-formed prefix of a malformed statement and is dropped again when the next parseStatement fails there. *)
  Fixpoint recover (fuel pos : nat) (acc : list tree) (errs : list (nat * N)) (unterm : option nat) : rres :=
    match fuel with
    | O => RFuel
    | S f =>
        if in_range pos then
          if is_semi pos then recover f (S pos) acc errs unterm
          else match ps pos with
               | SErr c p' =>
                   let acc1 := match unterm with
                               | Some u => if (u =? pos) && negb (starts_stmt pos) then removelast acc else acc
                               | None => acc
                               end in
                   let p1 := if p' =? pos then S pos else p' in
                   recover f (sync ntok p1) acc1 (errs ++ [(pos, c)]) unterm
               | SOk t p' =>
                   recover f (skip_semi p') (acc ++ [t]) errs
                           (if (p' <? ntok) && is_semi p' then unterm else Some p')
               end
        else ROk acc errs
    end.

  (* tokens touched by parseWithRecovery: a call of the statement parser touches the tokens from its start to where it
     stops (one more for the look-ahead), synchronize touches those it skips.  [resume] is where the loop continues
     after a failure that stopped at p': the code continues at p' (or one token further when nothing was consumed);
     [rwork] is parametric in it so that the variant that goes back into the failed statement can be stated too *)
  Section Work.
    Variable resume : nat -> nat -> nat.           (* statement start -> failure cursor -> position handed to synchronize *)
    Fixpoint rwork (fuel pos : nat) : nat :=
      match fuel with
      | O => 0
      | S f =>
          if in_range pos then
            if is_semi pos then 1 + rwork f (S pos)
            else match ps pos with
                 | SErr _ p' =>
                     let p1 := resume pos p' in
                     (p' - pos + 1) + (sync ntok p1 - p1 + 1) + rwork f (sync ntok p1)
                 | SOk _ p' => (p' - pos + 1) + rwork f (skip_semi p')
                 end
          else 0
      end.
  End Work.
  Definition resume_code (pos p' : nat) : nat := if p' =? pos then S pos else p'.
  Definition resume_restart (pos p' : nat) : nat := S pos.     (* always back to one token past the statement start *)
End L.

Arguments SOk {tree}. Arguments SErr {tree}.
Arguments POk {tree}. Arguments PErr {tree}. Arguments PFuel {tree}.
Arguments ROk {tree}. Arguments RFuel {tree}.

(* the batch loop of gosqlx.ParseMultiple: stops at the first failing query, reports its index and error *)
Section Batch.
  Variables Q T : Type.
  Variable one : Q -> pres T.                      (* what the single call returns for a query *)
  Inductive mres := MOk (rs : list (list T)) | MErr (index : nat) (code : N) | MFuelQ (index : nat).
  Fixpoint multi (i : nat) (qs : list Q) (acc : list (list T)) : mres :=
    match qs with
    | [] => MOk acc
    | q :: r => match one q with
                | POk ts => multi (S i) r (acc ++ [ts])
                | PErr c => MErr i c
                | PFuel => MFuelQ i
                end
    end.
End Batch.
Arguments MOk {T}. Arguments MErr {T}. Arguments MFuelQ {T}.

(* the batch loop as the code runs it: ONE parser (and one tokenizer) serves every member of the list, so whatever
   state a member leaves behind (nesting-depth counter, buffers) is what the next member starts from *)
Section BatchSt.
  Variables Q T St : Type.
  Variable one_st : St -> Q -> pres T * St.          (* a single call on a parser in state s: result and state left behind *)
  Fixpoint multi_st (s : St) (i : nat) (qs : list Q) (acc : list (list T)) : mres T :=
    match qs with
    | [] => MOk acc
    | q :: r => match one_st s q with
                | (POk ts, s') => multi_st s' (S i) r (acc ++ [ts])
                | (PErr c, _) => MErr i c
                | (PFuel, _) => MFuelQ i
                end
    end.
End BatchSt.

(* concrete instance: the state is the nesting-depth counter.  A query needs [fst q] levels and leaves [snd q] levels
   behind (0 for balanced bookkeeping); it is rejected with the depth error when counter + need exceeds the limit *)
Definition E_DEPTH : N := 2007%N.
Definition depth_one (limit : nat) (d : nat) (q : nat * nat) : pres nat * nat :=
  if d + fst q <=? limit then (POk [fst q], d + snd q) else (PErr E_DEPTH, d + snd q).

(* ---- concrete instance used by the correspondence cases: classes and ps given as tables ---- *)
Definition kind_at (kinds : list nat) (p : nat) : nat := nth p kinds 0.   (* 1 eof, 2 semicolon, 3 statement keyword *)
Definition tbl_ps (tbl : list (sres nat)) (p : nat) : sres nat := nth p tbl (SErr 0%N p).

Definition run_parse (strict : bool) (kinds : list nat) (tbl : list (sres nat)) : pres nat :=
  let n := length kinds in
  parse nat n (fun p => kind_at kinds p =? 1) (fun p => kind_at kinds p =? 2) (tbl_ps tbl) strict (S n) 0 [].
Definition run_parse_ctx (strict : bool) (kinds : list nat) (tbl : list (sres nat)) : pres nat :=
  let n := length kinds in
  parse_ctx nat n (fun p => kind_at kinds p =? 1) (fun p => kind_at kinds p =? 2) (tbl_ps tbl) strict (S n) 0 [].
Definition run_recover (kinds : list nat) (tbl : list (sres nat)) : rres nat :=
  let n := length kinds in
  recover nat n (fun p => kind_at kinds p =? 1) (fun p => kind_at kinds p =? 2) (fun p => kind_at kinds p =? 3)
          (tbl_ps tbl) (S n) 0 [] [] None.
(* tokens touched by recovery on a table-given instance, with the code's resume rule and with the restart variant *)
Definition run_rwork (restart : bool) (kinds : list nat) (tbl : list (sres nat)) : nat :=
  let n := length kinds in
  rwork nat n (fun p => kind_at kinds p =? 1) (fun p => kind_at kinds p =? 2) (fun p => kind_at kinds p =? 3) (tbl_ps tbl)
        (if restart then resume_restart else resume_code) (S n) 0.
(* k statements "K . . ." of 4 tokens that all fail at the very end of the input (one long malformed statement with k
   statement keywords), EOF last: kinds and table *)
Definition chain_kinds (k : nat) : list nat := concat (repeat [3; 0; 0; 0] k) ++ [1].
Definition chain_tbl (k : nat) : list (sres nat) := repeat (SErr 2002%N (4 * k)) (4 * k + 1).
Definition run_sync (kinds : list nat) (p : nat) : nat :=
  let n := length kinds in
  sync n (fun p => kind_at kinds p =? 1) (fun p => kind_at kinds p =? 2) (fun p => kind_at kinds p =? 3) n p.

(* ---- comparison of the model with recorded implementation results (used by the generated cases files) ---- *)
Definition lnat_eqb (a b : list nat) : bool := if list_eq_dec Nat.eq_dec a b then true else false.
Definition pres_eqb (a b : pres nat) : bool :=
  match a, b with
  | POk x, POk y => lnat_eqb x y
  | PErr c, PErr d => N.eqb c d
  | PFuel, PFuel => true
  | _, _ => false
  end.
Definition pair_eqb (a b : nat * N) : bool := (fst a =? fst b) && N.eqb (snd a) (snd b).
Fixpoint lpair_eqb (a b : list (nat * N)) : bool :=
  match a, b with
  | [], [] => true
  | x :: r, y :: r' => pair_eqb x y && lpair_eqb r r'
  | _, _ => false
  end.
Definition rres_eqb (a b : rres nat) : bool :=
  match a, b with
  | ROk x e, ROk y e' => lnat_eqb x y && lpair_eqb e e'
  | RFuel, RFuel => true
  | _, _ => false
  end.

(* one recorded case: token classes, the recorded statement-parser table, and what the real entry points
   returned: Parse, Parse(strict), ParseContext, ParseContext(strict), parseWithRecovery, synchronize from every position *)
Record lcase := mk_lcase {
  lc_kinds : list nat; lc_tbl : list (sres nat);
  lc_parse : pres nat; lc_strict : pres nat; lc_ctx : pres nat; lc_ctx_strict : pres nat;
  lc_rec : rres nat; lc_sync : list nat }.

(* bit mask of the components on which model and implementation differ (0 = full agreement) *)
Definition lcase_diff (c : lcase) : nat :=
  let k := lc_kinds c in let t := lc_tbl c in
  (if pres_eqb (run_parse false k t) (lc_parse c) then 0 else 1) +
  (if pres_eqb (run_parse true k t) (lc_strict c) then 0 else 2) +
  (if pres_eqb (run_parse_ctx false k t) (lc_ctx c) then 0 else 4) +
  (if pres_eqb (run_parse_ctx true k t) (lc_ctx_strict c) then 0 else 8) +
  (if rres_eqb (run_recover k t) (lc_rec c) then 0 else 16) +
  (if lnat_eqb (map (run_sync k) (seq 0 (length k))) (lc_sync c) then 0 else 32).

Fixpoint diffs_from (i : nat) (cs : list lcase) : list (nat * nat) :=
  match cs with
  | [] => []
  | c :: r => let d := lcase_diff c in if d =? 0 then diffs_from (S i) r else (i, d) :: diffs_from (S i) r
  end.
