(* Loops.v — the statement loops of pkg/sql/parser/parser.go and recovery.go, each copy modelled separately
   as written, parametric in the statement parser [ps] (what parseStatement does from a cursor position: the
   harness records exactly this table from the real parser for every input it runs).
     parse strict   : Parser.Parse and Parser.ParseWithPositions (same loop; strict-mode checks)
     parse_ctx      : Parser.ParseContext with a context that never fires (no strict-mode checks)
     recover        : Parser.parseWithRecovery (forced advance + synchronize)
     multi          : the batch loop of gosqlx.ParseMultiple / ValidateMultiple
   Token classes are only consulted for positions < ntok, as the Go loops do (cursor bound checked first). *)
From Coq Require Import List Arith Bool.
Import ListNotations.
Local Open Scope nat_scope.

Section L.
  Variable tree : Type.
  Variable ntok : nat.                              (* len(tokens) *)
  Variable is_eof is_semi starts_stmt : nat -> bool. (* class of tokens[pos] *)

  Inductive sres := SOk (t : tree) (p' : nat) | SErr (code : nat) (p' : nat).
  Variable ps : nat -> sres.                         (* parseStatement from cursor pos: result and cursor afterwards *)

  Inductive pres := POk (ts : list tree) | PErr (code : nat) | PFuel.

  Definition E_EMPTY := 2005.   (* IncompleteStatement: no statement at all *)
  Definition E_STRICT := 2004.  (* InvalidSyntax: empty statement in strict mode *)

  Definition in_range (pos : nat) : bool := (pos <? ntok) && negb (is_eof pos).
  Definition skip_semi (p : nat) : nat := if (p <? ntok) && is_semi p then S p else p.

  (* Parser.Parse / Parser.ParseWithPositions *)
  Fixpoint parse (strict : bool) (fuel pos : nat) (acc : list tree) : pres :=
    match fuel with
    | O => PFuel
    | S f =>
        if in_range pos then
          if is_semi pos then
            if strict then PErr E_STRICT else parse strict f (S pos) acc
          else match ps pos with
               | SErr c _ => PErr c
               | SOk t p' => parse strict f (skip_semi p') (acc ++ [t])
               end
        else match acc with
             | [] => if strict then PErr E_STRICT else PErr E_EMPTY
             | _ => POk acc
             end
    end.

  (* Parser.ParseContext, context never done: a separate copy of the loop, without the strict checks *)
  Fixpoint parse_ctx (fuel pos : nat) (acc : list tree) : pres :=
    match fuel with
    | O => PFuel
    | S f =>
        if in_range pos then
          if is_semi pos then parse_ctx f (S pos) acc
          else match ps pos with
               | SErr c _ => PErr c
               | SOk t p' => parse_ctx f (skip_semi p') (acc ++ [t])
               end
        else match acc with
             | [] => PErr E_EMPTY
             | _ => POk acc
             end
    end.

  (* synchronize(): skip to just after the next semicolon, or stop at a statement-starting keyword *)
  Fixpoint sync (fuel pos : nat) : nat :=
    match fuel with
    | O => pos
    | S f =>
        if in_range pos then
          if is_semi pos then S pos
          else if starts_stmt pos then pos
          else sync f (S pos)
        else pos
    end.

  Inductive rres := ROk (ts : list tree) (errs : list (nat * nat)) | RFuel.   (* errors: (token index, code) *)

  (* Parser.parseWithRecovery *)
  Fixpoint recover (fuel pos : nat) (acc : list tree) (errs : list (nat * nat)) : rres :=
    match fuel with
    | O => RFuel
    | S f =>
        if in_range pos then
          if is_semi pos then recover f (S pos) acc errs
          else match ps pos with
               | SErr c p' =>
                   let p1 := if p' =? pos then S pos else p' in
                   recover f (sync ntok p1) acc (errs ++ [(pos, c)])
               | SOk t p' => recover f (skip_semi p') (acc ++ [t]) errs
               end
        else ROk acc errs
    end.
End L.

Arguments SOk {tree}. Arguments SErr {tree}.
Arguments POk {tree}. Arguments PErr {tree}. Arguments PFuel {tree}.
Arguments ROk {tree}. Arguments RFuel {tree}.

(* the batch loop of gosqlx.ParseMultiple: stops at the first failing query, reports its index and error *)
Section Batch.
  Variables Q T : Type.
  Variable one : Q -> pres T.                      (* what the single call returns for a query *)
  Inductive mres := MOk (rs : list (list T)) | MErr (index code : nat) | MFuelQ (index : nat).
  Fixpoint multi (i : nat) (qs : list Q) (acc : list (list T)) : mres :=
    match qs with
    | [] => MOk acc
    | q :: r => match one q with
                | POk ts => multi (S i) r (acc ++ [ts])
                | PErr c => MErr i c
                | PFuel => MFuelQ i
                end
    end.
End Batch.
Arguments MOk {T}. Arguments MErr {T}. Arguments MFuelQ {T}.

(* ---- concrete instance used by the correspondence cases: classes and ps given as tables ---- *)
Definition kind_at (kinds : list nat) (p : nat) : nat := nth p kinds 0.   (* 1 eof, 2 semicolon, 3 statement keyword *)
Definition tbl_ps (tbl : list (sres nat)) (p : nat) : sres nat := nth p tbl (SErr 0 p).

Definition run_parse (strict : bool) (kinds : list nat) (tbl : list (sres nat)) : pres nat :=
  let n := length kinds in
  parse nat n (fun p => kind_at kinds p =? 1) (fun p => kind_at kinds p =? 2) (tbl_ps tbl) strict (S n) 0 [].
Definition run_parse_ctx (kinds : list nat) (tbl : list (sres nat)) : pres nat :=
  let n := length kinds in
  parse_ctx nat n (fun p => kind_at kinds p =? 1) (fun p => kind_at kinds p =? 2) (tbl_ps tbl) (S n) 0 [].
Definition run_recover (kinds : list nat) (tbl : list (sres nat)) : rres nat :=
  let n := length kinds in
  recover nat n (fun p => kind_at kinds p =? 1) (fun p => kind_at kinds p =? 2) (fun p => kind_at kinds p =? 3)
          (tbl_ps tbl) (S n) 0 [] [].
Definition run_sync (kinds : list nat) (p : nat) : nat :=
  let n := length kinds in
  sync n (fun p => kind_at kinds p =? 1) (fun p => kind_at kinds p =? 2) (fun p => kind_at kinds p =? 3) n p.
